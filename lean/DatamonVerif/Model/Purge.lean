import DatamonVerif.Generated.Facts
/-! Model of `pkg/core/purge.go` (reverse-lookup index, delete-unused, purge lock) — core Lean only.

The model describes the code after the `fix:` commits recorded for C13/C14. The four defects that
were repaired are kept as switches of `Cfg` (all `false` = the repaired code), so that each of
them has a machine-checked negation witness in `Props/C13.lean` / `Props/C14.lean`.

* blob store      : the keys present + their update time (`Blobs`)
* metadata        : the committed bundles, each a list of entries `root ↦ leaves` (`Bundle`)
* local KV        : a key-sorted list `key ↦ uploaded?` (`KV`; pebble behind `kvStore`)
* scan            : `bundleKeys` + `SetIfNotExists` — *the leaves of a root already in the KV are skipped*;
                    an entry whose root blob is missing is indexed without leaves (`effEntry`)
* chunk upload    : `chunkUploader`/`dbReader` — the first `n` not-yet-uploaded keys in key order
* uploader        : ticker driven chunks during the scan, then "until a chunk adds nothing"
* resume          : preload every uploaded chunk as uploaded keys, keep the index time
* delete-unused   : indexed → keep; updated after the index time → keep; else delete
* lock            : one create-if-absent put (overwrite when forced)
-/
namespace Purge

abbrev Key := Nat
/-- logical time: the rank of the operation that last wrote the blob (a notation, so that `omega` sees `Nat`) -/
scoped notation "Time" => Nat

structure Entry where
  root : Key
  leaves : List Key
deriving DecidableEq, Repr

def Entry.keys (e : Entry) : List Key := e.root :: e.leaves

structure Bundle where
  ctx : Nat
  repo : Nat
  id : Nat
  entries : List Entry
deriving DecidableEq, Repr

def Bundle.keys (b : Bundle) : List Key := b.entries.flatMap Entry.keys

/-- the defects of the unrepaired code, as switches (`fixed` = the code as it is now) -/
structure Cfg where
  /-- (1) a failed `GetAttr` is not retried and leaves zero attributes -/
  attrErrZero : Bool
  /-- (2) keys are marked "uploaded" while streamed, before the chunk `Put` succeeded -/
  markEarly : Bool
  /-- (3) a resumed build skips the leaves of roots preloaded from the uploaded chunks -/
  resumeSkip : Bool
  /-- (5) a new build keeps the trailing chunk files of a longer previous index -/
  keepStale : Bool
deriving DecidableEq, Repr

def Cfg.fixed : Cfg := ⟨false, false, false, false⟩

/-- the configuration of the code as it is, derived from the facts regenerated from
    `pkg/core/purge.go` on every run (`extract/c13.go`); `Props` proves it equal to `Cfg.fixed`,
    so reverting one of the repairs breaks the build of the theorems -/
def Cfg.code : Cfg :=
  { attrErrZero := !(Facts.purgeRetryReturnsInner && Facts.purgeAttrFailureStops)
    markEarly := !Facts.purgeMarksAfterPut
    resumeSkip := !Facts.purgeResumeKeepsLeaves
    keepStale := !Facts.purgeDropsBeforeRebuild }

/-! ### blob store -/

structure Blobs where
  keys : List Key
  time : Key → Time

def Blobs.empty : Blobs := ⟨[], fun _ => 0⟩

def bHas (bs : Blobs) (k : Key) : Bool := bs.keys.contains k

/-- cafs `writeBlob`: an existing blob is a duplicate — neither rewritten nor touched -/
def bPut (now : Time) (bs : Blobs) (k : Key) : Blobs :=
  if bs.keys.contains k then bs
  else ⟨bs.keys ++ [k], fun x => if x = k then now else bs.time x⟩

def bUpload (now : Time) (bs : Blobs) (ks : List Key) : Blobs := ks.foldl (bPut now) bs

/-! ### local KV -/

abbrev KV := List (Key × Bool)

def kvHas (kv : KV) (k : Key) : Bool := kv.any (fun p => p.1 == k)

/-- insertion in key order -/
def insSorted : KV → Key × Bool → KV
  | [], p => [p]
  | q :: r, p => if p.1 < q.1 then p :: q :: r else q :: insSorted r p

/-- `SetIfNotExists(k, "")` -/
def kvIns (kv : KV) (k : Key) : KV :=
  if kvHas kv k then kv else insSorted kv (k, false)

/-- `Set(k, "X")` -/
def kvSetX (kv : KV) (k : Key) : KV :=
  if kvHas kv k then kv.map (fun p => if p.1 == k then (p.1, true) else p) else insSorted kv (k, true)

/-- keys not yet uploaded, in key order -/
def unmarked (kv : KV) : List Key := (kv.filter (fun p => !p.2)).map (·.1)

def markedKeys (kv : KV) : List Key := (kv.filter (fun p => p.2)).map (·.1)

def markAll (ks : List Key) (kv : KV) : KV := kv.map (fun p => (p.1, p.2 || ks.contains p.1))

/-! ### scan -/

/-- `bundleKeys` for one entry followed by `SetIfNotExists` of the returned keys -/
def scanEntry (skip : Bool) (kv : KV) (e : Entry) : KV :=
  if skip && kvHas kv e.root then kv else e.keys.foldl kvIns kv

/-! ### chunk upload -/

/-- defect (2): every failed attempt streams — and marks — one batch, which is then lost -/
def burn (n : Nat) : Nat → KV → KV
  | 0, kv => kv
  | f + 1, kv => burn n f (markAll ((unmarked kv).take n) kv)

/-- one `chunkUploader` call whose `Put` fails `fails` times before it succeeds -/
def chunkCall (cfg : Cfg) (n fails : Nat) (kv : KV) : List Key × KV :=
  let kv0 := if cfg.markEarly then burn n fails kv else kv
  let ks := (unmarked kv0).take n
  (ks, markAll ks kv0)

/-- events of a build: the scan of one entry, or a ticker driven chunk upload -/
inductive Ev where
  | scan (e : Entry)
  | tick (fails : Nat)
deriving DecidableEq, Repr

def runEv (cfg : Cfg) (n : Nat) (skip : Bool) (s : KV × List (List Key)) : Ev → KV × List (List Key)
  | .scan e => (scanEntry skip s.1 e, s.2)
  | .tick f => let r := chunkCall cfg n f s.1; (r.2, s.2 ++ [r.1])

/-- "write last chunks": until a chunk uploads nothing (the empty chunk is written too) -/
def flush (cfg : Cfg) (n : Nat) : Nat → List Nat → KV → List (List Key) → KV × List (List Key)
  | 0, _, kv, cs => (kv, cs)
  | fuel + 1, fs, kv, cs =>
    let r := chunkCall cfg n (fs.headD 0) kv
    if r.1.isEmpty then (r.2, cs ++ [r.1]) else flush cfg n fuel fs.tail r.2 (cs ++ [r.1])

/-- a complete build from the KV `kv0`: returns the final KV and the chunks uploaded by this run -/
def build (cfg : Cfg) (n : Nat) (skip : Bool) (evs : List Ev) (fs : List Nat) (kv0 : KV) : KV × List (List Key) :=
  let s := evs.foldl (runEv cfg n skip) (kv0, [])
  flush cfg n (s.1.length + 1) fs s.1 s.2

/-- resume: `loadChunk` of every uploaded chunk -/
def preload (chunks : List (List Key)) : KV := chunks.flatten.foldl kvSetX []

/-! ### delete-unused -/

def keepBlob (cfg : Cfg) (idx : List Key) (t0 : Time) (attrFail : List Key) (bs : Blobs) (k : Key) : Bool :=
  idx.contains k ||
    (if cfg.attrErrZero && attrFail.contains k then false else decide (t0 < bs.time k))

def deleteUnused (cfg : Cfg) (idx : List Key) (t0 : Time) (attrFail : List Key) (bs : Blobs) : Blobs :=
  ⟨bs.keys.filter (keepBlob cfg idx t0 attrFail bs), bs.time⟩

/-- an interrupted delete-unused: the blobs of `gone` that it may delete are deleted -/
def deleteSome (cfg : Cfg) (idx : List Key) (t0 : Time) (gone : List Key) (bs : Blobs) : Blobs :=
  ⟨bs.keys.filter (fun k => keepBlob cfg idx t0 [] bs k || !gone.contains k), bs.time⟩

/-! ### the system -/

structure St where
  now : Time := 0
  blobs : Blobs := Blobs.empty
  live : List Bundle := []
  /-- index chunk files in the metadata store, by position -/
  chunks : List (List Key) := []
  t0 : Time := 0
  /-- the last index command reported success and the index was not dropped since -/
  complete : Bool := false

inductive Op where
  /-- upload and commit a bundle -/
  | up (b : Bundle)
  /-- metadata deletion (delete bundle / repo, squash): keep only `ids` in repo `r` of context `c` -/
  | keep (c r : Nat) (ids : List Nat)
  /-- a complete build (no resume) over the contexts `ctxs` -/
  | index (n : Nat) (ctxs : List Nat) (evs : List Ev) (fs : List Nat)
  /-- a build (fresh or resumed) killed after it uploaded the chunks `left` -/
  | crash (resume : Bool) (left : List (List Key))
  /-- a complete resumed build -/
  | resume (n : Nat) (ctxs : List Nat) (evs : List Ev) (fs : List Nat)
  | drop
  /-- a complete delete-unused; `attrFail` = blobs whose `GetAttr` fails transiently -/
  | purge (attrFail : List Key)
  /-- a delete-unused that stopped with an error after deleting what it could among `gone` -/
  | purgePartial (gone : List Key)

/-- `bundleKeys` reads the leaf keys from the root blob: when the root blob is missing ("the root key
    is corrupted: indexing the root, skipping unavailable leaves") the entry counts as `root ↦ []` -/
def effEntry (bs : Blobs) (e : Entry) : Entry := if bHas bs e.root then e else { e with leaves := [] }

def effEvs (bs : Blobs) (evs : List Ev) : List Ev :=
  evs.map fun ev => match ev with
    | .scan e => .scan (effEntry bs e)
    | .tick f => .tick f

def scanned (ctxs : List Nat) (live : List Bundle) : List Bundle := live.filter (fun b => ctxs.contains b.ctx)

def keepLive (c r : Nat) (ids : List Nat) (live : List Bundle) : List Bundle :=
  live.filter (fun b => !(b.ctx == c && b.repo == r) || ids.contains b.id)

def step (cfg : Cfg) (st : St) : Op → St
  | .up b => { st with now := st.now + 1, blobs := bUpload (st.now + 1) st.blobs b.keys, live := st.live ++ [b] }
  | .keep c r ids => { st with now := st.now + 1, live := keepLive c r ids st.live }
  | .index n _ evs fs =>
    let r := build cfg n true (effEvs st.blobs evs) fs []
    { st with now := st.now + 1, t0 := st.now + 1, complete := true,
              chunks := r.2 ++ (if cfg.keepStale then st.chunks.drop r.2.length else []) }
  | .crash false left => { st with now := st.now + 1, t0 := st.now + 1, complete := false, chunks := left }
  | .crash true left =>
    if st.chunks.isEmpty then { st with now := st.now + 1 }
    else { st with now := st.now + 1, complete := false, chunks := st.chunks ++ left }
  | .resume n _ evs fs =>
    if st.chunks.isEmpty then { st with now := st.now + 1 }     -- no chunk to read the index time from: the command fails
    else
      let r := build cfg n cfg.resumeSkip (effEvs st.blobs evs) fs (preload st.chunks)
      { st with now := st.now + 1, complete := true, chunks := st.chunks ++ r.2 }
  | .drop => { st with now := st.now + 1, chunks := [], complete := false }
  | .purge attrFail =>
    if st.chunks.isEmpty then { st with now := st.now + 1 }     -- no index: the command fails
    else { st with now := st.now + 1, blobs := deleteUnused cfg st.chunks.flatten st.t0 attrFail st.blobs }
  | .purgePartial gone =>
    if st.chunks.isEmpty then { st with now := st.now + 1 }
    else { st with now := st.now + 1, blobs := deleteSome cfg st.chunks.flatten st.t0 gone st.blobs }

def run (cfg : Cfg) (st : St) (ops : List Op) : St := ops.foldl (step cfg) st

/-- the events of a sequential scan without ticker chunk -/
def seqEvs (bs : List Bundle) : List Ev := (bs.flatMap (·.entries)).map Ev.scan

def scanEntriesOf : List Ev → List Entry
  | [] => []
  | .scan e :: r => e :: scanEntriesOf r
  | .tick _ :: r => scanEntriesOf r

/-- key hygiene of a family of entries (true of cafs keys unless BLAKE2b collides): a root
    determines its leaves, and no root key is also a leaf key -/
def wfEntries (es : List Entry) : Bool :=
  es.all (fun e => es.all (fun e' => (e.root != e'.root || e.leaves == e'.leaves) && !e.leaves.contains e'.root))

def intact (st : St) (b : Bundle) : Prop := ∀ k ∈ b.keys, bHas st.blobs k = true

instance (st : St) (b : Bundle) : Decidable (intact st b) := by unfold intact; infer_instance

/-- finding C13-dedup-no-touch: the upload re-uses a blob that is neither indexed nor newer than the index -/
def staleReuse (st : St) (b : Bundle) : Bool :=
  st.complete && b.keys.any (fun k => bHas st.blobs k && !st.chunks.flatten.contains k && !decide (st.t0 < st.blobs.time k))

/-! ### purge lock -/

/-- one `PurgeLock` = one atomic put on the lock file: returns (held afterwards, succeeded) -/
def lockAttempt (held : Bool) (force : Bool) : Bool × Bool :=
  if force then (true, true) else if held then (true, false) else (true, true)

/-- a schedule of lock attempts (each tagged with its job id); results in schedule order -/
def lockRun : Bool → List (Nat × Bool) → Bool × List (Nat × Bool)
  | held, [] => (held, [])
  | held, (j, force) :: r =>
    let a := lockAttempt held force
    let rest := lockRun a.1 r
    (rest.1, (j, a.2) :: rest.2)

end Purge
