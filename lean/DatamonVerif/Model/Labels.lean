import DatamonVerif.Generated.Facts
/-! Model of datamon's labels (C08): `pkg/core/label.go` (`UploadDescriptor`, `DownloadDescriptor`),
`pkg/core/label_list.go` (`ListLabels` with `WithLabelPrefix`), `pkg/core/delete.go` (`DeleteLabel`),
`pkg/model/label.go` (`GetArchivePathToLabel`, `ValidateLabelName`) and the label case of
`model.GetArchivePathComponents`.

Strings are lists of code points (`Nat`; `/` = 47). The two object stores involved are association
lists from keys to values: the metadata store (repo descriptors, bundle descriptors; values are
opaque) and the vmetadata store (label descriptors). Keys follow the path templates of `pkg/model`
(checked against the templates the facts translator reads, `C08_facts_templates`). Store semantics = the contract of
`storage.Store` on GCS (reference: harness/internal/memstore): overwrite-put, `Delete` of a missing
key is `ErrNotExists`, `KeysPrefix` with an empty delimiter = all keys with the prefix. Paging of the
listing (`fetchKeys`), the worker pool and the per-batch sort by bundle id only permute the result and
are not modelled: a listing is modelled as a list whose order carries no meaning. -/
namespace Labels

abbrev Str := List Nat

/-! ## strings -/

/-- `strings.Split(s, "/")` -/
def splitSlash : Str → List Str
  | [] => [[]]
  | c :: cs =>
    if c = 47 then [] :: splitSlash cs
    else match splitSlash cs with
      | [] => [[c]]
      | h :: t => (c :: h) :: t

def labelsDir : Str := [108, 97, 98, 101, 108, 115]                        -- "labels"
def labelFile : Str := [108, 97, 98, 101, 108, 46, 121, 97, 109, 108]     -- "label.yaml"
def reposRoot : Str := [114, 101, 112, 111, 115, 47]                      -- "repos/"
def repoFile : Str := [47, 114, 101, 112, 111, 46, 121, 97, 109, 108]     -- "/repo.yaml"
def bundlesRoot : Str := [98, 117, 110, 100, 108, 101, 115, 47]           -- "bundles/"
def bundleFile : Str := [47, 98, 117, 110, 100, 108, 101, 46, 121, 97, 109, 108] -- "/bundle.yaml"

/-! The archive paths. They are written out here (so that the model keeps its meaning whatever
happens to the source) and proved equal to the templates the facts translator reads from
`pkg/model` on every run (`C08_facts_templates`). -/

/-- `model.GetArchivePathToLabel(repo, labelName)` = `labels/{repo}/{labelName}/label.yaml` -/
def labelKey (r n : Str) : Str := labelsDir ++ 47 :: (r ++ 47 :: (n ++ 47 :: labelFile))
/-- `model.GetArchivePathPrefixToLabels(repo, prefix)` = `labels/{repo}/{prefix}` -/
def listPrefix (r p : Str) : Str := labelsDir ++ 47 :: (r ++ 47 :: p)
/-- `model.GetArchivePathToRepoDescriptor(repo)` = `repos/{repo}/repo.yaml` -/
def repoKey (r : Str) : Str := reposRoot ++ (r ++ repoFile)
/-- `model.GetArchivePathToBundle(repo, bundleID)` = `bundles/{repo}/{bundleID}/bundle.yaml` -/
def bundleKey (r b : Str) : Str := bundlesRoot ++ (r ++ 47 :: (b ++ bundleFile))

/-- `model.GetArchivePathComponents`, the `"labels"` case: (repo, label name) or an error: at least
    `labelPos + 1 = 4` components, component 3 is `label.yaml`, the name is component 2, the repo
    component 1 (`strings.SplitN(path, "/", 7)` and `strings.Split` agree on the components 0..5). Paths
    of another kind are never handed to this function by the listing (every listed key starts with
    `labels/`). The constants are checked against the source by `C08_facts`. -/
def parseLabelKey (k : Str) : Option (Str × Str) :=
  let cs := splitSlash k
  if cs.head? != some labelsDir then none
  else if cs.length < 3 + 1 then none
  else if cs.getD 3 [] != labelFile then none
  else some (cs.getD 1 [], cs.getD 2 [])

/-- `model.ValidateLabelName`: not one of the reserved whole names, none of the reserved characters
    (both read from the Go source). The first two conjuncts are what the key space itself demands of a
    name (one non-empty path component); they are implied by the rule found in the source
    (`C08_facts`) and keep the model meaningful should the source stop validating. -/
def validName (n : Str) : Bool :=
  n != [] && !(n.contains 47) &&
  !(Facts.c08LabelNameReservedNames.contains n) && n.all (fun c => !(Facts.c08LabelNameReservedChars.contains c))

/-- ASCII part of `unicode.IsLetter || unicode.IsDigit || unicode.Is(unicode.Hyphen)`; outside ASCII the
    Go tables are an oracle `U` (every theorem holds for all `U`) -/
def repoChar (U : Nat → Bool) (c : Nat) : Bool :=
  if c < 128 then (48 ≤ c && c ≤ 57) || (65 ≤ c && c ≤ 90) || (97 ≤ c && c ≤ 122) || c == 45 else U c

/-- `model.ValidateRepo` (the name part) -/
def validRepo (U : Nat → Bool) (r : Str) : Bool := r != [] && r.all (repoChar U)

/-! ## object stores -/

abbrev Store (β : Type) := List (Str × β)

def get {β : Type} (k : Str) : Store β → Option β
  | [] => none
  | (k', v) :: t => if k' = k then some v else get k t

def has {β : Type} (k : Str) (l : Store β) : Bool := (get k l).isSome

/-- `Put(…, OverWrite)` -/
def put {β : Type} (k : Str) (v : β) (l : Store β) : Store β := (k, v) :: l.filter (fun e => e.1 != k)

def del {β : Type} (k : Str) (l : Store β) : Store β := l.filter (fun e => e.1 != k)

/-- `KeysPrefix(ctx, "", prefix, "", n)` run to completion -/
def keysPrefix {β : Type} (p : Str) (l : Store β) : List Str := (l.map (·.1)).filter (fun k => p.isPrefixOf k)

/-- `label.yaml`: the fields that matter here -/
structure Desc where
  name : Str
  bundle : Str
deriving DecidableEq, Repr

structure St where
  /-- metadata store -/
  md : Store Str
  /-- vmetadata store -/
  vmd : Store Desc
deriving DecidableEq

def St.empty : St := ⟨[], []⟩

/-! ## operations -/

inductive Out
  | ok
  | bundle (b : Str)
  | labels (l : List (Str × Str))
  | notfound
  | exists
  | err
deriving DecidableEq, Repr

/-- `core.RepoExists` -/
def repoExists (s : St) (r : Str) : Bool := has (repoKey r) s.md

/-- `core.CreateRepo`: validate, then create-if-absent -/
def mkRepo (U : Nat → Bool) (s : St) (r : Str) : St × Out :=
  if !validRepo U r then (s, .err)
  else if repoExists s r then (s, .exists)
  else ({ s with md := put (repoKey r) [] s.md }, .ok)

/-- a bundle descriptor appears in the metadata store (what an upload leaves behind, as far as labels
    are concerned) -/
def mkBundle (s : St) (r b : Str) : St × Out :=
  if !repoExists s r then (s, .notfound)
  else ({ s with md := put (bundleKey r b) [] s.md }, .ok)

/-- `(*Label).UploadDescriptor`; `validate` = does it call `model.ValidateLabelName` first -/
def setLabelV (validate : Bool) (s : St) (r n b : Str) : St × Out :=
  if validate && !validName n then (s, .err)
  else if !repoExists s r then (s, .notfound)
  else ({ s with vmd := put (labelKey r n) ⟨n, b⟩ s.vmd }, .ok)

/-- the operation as it is in the source now: `C08_facts` checks on every run that `UploadDescriptor`
    does call the validation before it writes -/
def setLabel (s : St) (r n b : Str) : St × Out := setLabelV true s r n b

/-- `core.DeleteLabel` -/
def deleteLabel (s : St) (r n : Str) : St × Out :=
  if !repoExists s r then (s, .notfound)
  else if !has (labelKey r n) s.vmd then (s, .notfound)
  else ({ s with vmd := del (labelKey r n) s.vmd }, .ok)

/-- `(*Label).DownloadDescriptor(ctx, bundle, true)` -/
def getLabel (s : St) (r n : Str) : Out :=
  if !repoExists s r then .notfound
  else match get (labelKey r n) s.vmd with
    | none => .notfound
    | some d => .bundle d.bundle

/-- `getLabelAsync` for one key: parse the name back from the key, download that label of `repo`,
    cross-check the name in the descriptor -/
def fetchOne (s : St) (r : Str) (k : Str) : Option (Str × Str) :=
  match parseLabelKey k with
  | none => none
  | some (_, n) =>
    match get (labelKey r n) s.vmd with
    | none => none
    | some d =>
      if d.name = [] then some (n, d.bundle)
      else if d.name != n then none
      else some (d.name, d.bundle)

def collect {α : Type} : List (Option α) → Option (List α)
  | [] => some []
  | none :: _ => none
  | some a :: t => (collect t).map (a :: ·)

/-- `core.ListLabels(repo, stores, WithLabelPrefix(p))`: any failing key fails the listing -/
def listLabels (s : St) (r p : Str) : Out :=
  if !repoExists s r then .notfound
  else match collect ((keysPrefix (listPrefix r p) s.vmd).map (fetchOne s r)) with
    | none => .err
    | some l => .labels l

/-- a listing that races with other clients: the keys are scanned in state `s0`, the descriptors are
    fetched (existence check + read, `fetchOne`) in a later state `s1` -/
def listLabelsRace (s0 s1 : St) (r p : Str) : Out :=
  if !repoExists s0 r then .notfound
  else match collect ((keysPrefix (listPrefix r p) s0.vmd).map (fetchOne s1 r)) with
    | none => .err
    | some l => .labels l

/-- the deletion loop of `core.DeleteBundle`: `DeleteLabel` for each name in turn, stopping at the
    first one that fails -/
def deleteLabelsOf (s : St) (r : Str) : List Str → St × Out
  | [] => (s, .ok)
  | n :: ns =>
    match deleteLabel s r n with
    | (s1, .ok) => deleteLabelsOf s1 r ns
    | (s1, _) => (s1, .err)

/-- `core.DeleteBundle(repo, stores, b)` with its default options, as far as labels are concerned:
    the repository and the bundle descriptor must be there; ALL the labels of the repository are
    listed (`ListLabels`, any failing label fails the deletion before anything is removed); every label
    whose bundle is `b` is deleted; then the bundle descriptor goes. -/
def deleteBundle (s : St) (r b : Str) : St × Out :=
  if !repoExists s r then (s, .err)
  else if !has (bundleKey r b) s.md then (s, .err)
  else match listLabels s r [] with
    | .labels l =>
      match deleteLabelsOf s r ((l.filter fun p => p.2 == b).map (·.1)) with
      | (s1, .ok) => ({ s1 with md := del (bundleKey r b) s1.md }, .ok)
      | (s1, _) => (s1, .err)
    | _ => (s, .err)

inductive Op
  | mkRepo (r : Str)
  | mkBundle (r b : Str)
  | set (r n b : Str)
  | del (r n : Str)
  | get (r n : Str)
  | list (r p : Str)
deriving DecidableEq, Repr

def step (U : Nat → Bool) (s : St) : Op → St × Out
  | .mkRepo r => mkRepo U s r
  | .mkBundle r b => mkBundle s r b
  | .set r n b => setLabel s r n b
  | .del r n => deleteLabel s r n
  | .get r n => (s, getLabel s r n)
  | .list r p => (s, listLabels s r p)

def run (U : Nat → Bool) (s : St) : List Op → St
  | [] => s
  | op :: ops => run U (step U s op).1 ops

/-! ## the specification: a map from (repo, name) to a bundle -/

structure Spec where
  repos : Str → Bool
  labels : Str → Str → Option Str

def Spec.empty : Spec := ⟨fun _ => false, fun _ _ => none⟩

def specStep (U : Nat → Bool) (a : Spec) : Op → Spec
  | .mkRepo r =>
    if validRepo U r && !a.repos r then { a with repos := fun x => if x = r then true else a.repos x } else a
  | .mkBundle _ _ => a
  | .set r n b =>
    if validName n && a.repos r then { a with labels := fun x y => if x = r ∧ y = n then some b else a.labels x y }
    else a
  | .del r n =>
    if a.repos r then { a with labels := fun x y => if x = r ∧ y = n then none else a.labels x y } else a
  | .get _ _ => a
  | .list _ _ => a

def specRun (U : Nat → Bool) (a : Spec) : List Op → Spec
  | [] => a
  | op :: ops => specRun U (specStep U a op) ops

/-- the part after the first `/` -/
def afterSlash : Str → Option Str
  | [] => none
  | c :: t => if c = 47 then some t else afterSlash t

/-- listing prefixes of the form `<name>/<a prefix of "label.yaml">`: the key prefix then selects the
    key of label `<name>` itself although no label name starts with such a prefix
    (known finding C08-prefix-slash) -/
def prefixTrigger (p : Str) : Bool :=
  match afterSlash p with
  | none => false
  | some q => q.isPrefixOf labelFile

/-- what the property demands of the result `o` of `op` in abstract state `a` -/
def specOut (U : Nat → Bool) (a : Spec) : Op → Out → Prop
  | .mkRepo r, o => o = if !validRepo U r then .err else if a.repos r then .exists else .ok
  | .mkBundle r _, o => o = if a.repos r then .ok else .notfound
  | .set r n _, o => o = if !validName n then .err else if !a.repos r then .notfound else .ok
  | .del r n, o => o = if !a.repos r then .notfound else if (a.labels r n).isNone then .notfound else .ok
  | .get r n, o => o = if !a.repos r then .notfound else
      match a.labels r n with
      | some b => .bundle b
      | none => .notfound
  | .list r p, o =>
    if a.repos r then
      ∃ l, o = .labels l ∧ (l.map (·.1)).Nodup ∧ ∀ n b, (n, b) ∈ l ↔ (a.labels r n = some b ∧ p <+: n)
    else o = .notfound

/-- the executable form of the listing demanded by the property, computed from the store: the
    live labels of `r` (entries whose key is the key of their own name under `r`) whose name starts with `p` -/
def specList (s : St) (r p : Str) : Out :=
  if !repoExists s r then .notfound
  else .labels ((s.vmd.filter (fun e => e.1 == labelKey r e.2.name && p.isPrefixOf e.2.name)).map
    (fun e => (e.2.name, e.2.bundle)))

end Labels
