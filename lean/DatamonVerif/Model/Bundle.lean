import DatamonVerif.Model.Paths
/-! Model of bundle upload / download (C04): `pkg/core/bundle_pack.go`, `bundle_unpack.go`.

The content store is abstract here: `key : Bytes → K` gives the key of a content (C02: the
BLAKE2b tree root) and `fetch : K → Option Bytes` reads it back (C01). What is modelled is the
metadata flow: which files are uploaded, how entries are batched into index files
(`bundle-files-<i>.yaml`, `perFile` entries each, in completion order), how a download reassembles
them by position and which files it writes. -/
namespace Bundle

abbrev Bytes := List UInt8

structure Entry (K : Type) where
  name : String
  hash : K
  size : Nat
deriving DecidableEq, Repr

/-- does `s` start with `p`? -/
def pre (p s : String) : Bool := p.toList.isPrefixOf s.toList

/-- `model.IsGeneratedFile`: the predicate of the C20 model (`Paths.isGenerated`, proved exact
    against the reserved locations by `C20_isGenerated_exact` and tied to the `genFileRe` literal
    by `C20_facts_genFileRe`) -/
def isGenerated (s : String) : Bool := Paths.isGenerated s.toList

/-- the list of files an upload considers: all keys of the consumable store, or the explicit
    list with repeated keys dropped (first occurrence kept) -/
def dedup : List String → List String
  | [] => []
  | k :: r => k :: (dedup r).filter (· != k)

/-- `uploadBundleFiles`: generated paths are never uploaded; a missing file is skipped with
    skip-missing and fails the upload without -/
def uploadEntries {K : Type} (key : Bytes → K) (tree : List (String × Bytes)) (files : List String) (skipMissing : Bool) :
    Option (List (Entry K)) :=
  match files with
  | [] => some []
  | f :: r =>
    if isGenerated f then uploadEntries key tree r skipMissing
    else match tree.lookup f with
      | none => if skipMissing then uploadEntries key tree r skipMissing else none
      | some c => (uploadEntries key tree r skipMissing).map ({ name := f, hash := key c, size := c.length } :: ·)

/-- the two calls `uploadBundleFiles` makes on the source for one file, failures included:
    `has f = none` — the existence check of `skipFile` failed; `get f = none` — the read failed
    transiently; `get f = some none` — the file is not there -/
structure SrcCalls where
  has : String → Option Bool
  get : String → Option (Option Bytes)

/-- `uploadBundleFiles` call by call. `skipFile`: a failed existence check decides nothing ("the
    code will decide later": the file is taken to exist); with skip-missing a file reported absent
    is skipped without being read. Then the read: with skip-missing a failed or empty-handed read
    skips the file, without it the upload fails. -/
def uploadEntriesF {K : Type} (key : Bytes → K) (src : SrcCalls) (files : List String) (skipMissing : Bool) :
    Option (List (Entry K)) :=
  match files with
  | [] => some []
  | f :: r =>
    if isGenerated f then uploadEntriesF key src r skipMissing
    else if skipMissing && !((src.has f).getD true) then uploadEntriesF key src r skipMissing
    else match src.get f with
      | some (some c) => (uploadEntriesF key src r skipMissing).map ({ name := f, hash := key c, size := c.length } :: ·)
      | _ => if skipMissing then uploadEntriesF key src r skipMissing else none

/-- index files: `perFile` entries each, the remainder last -/
def batches {α : Type} (n : Nat) (l : List α) : List (List α) :=
  if h : l = [] ∨ n = 0 then [] else l.take n :: batches n (l.drop n)
termination_by l.length
decreasing_by
  have hl : l ≠ [] := fun e => h (Or.inl e)
  have hn : n ≠ 0 := fun e => h (Or.inr e)
  have : 0 < l.length := List.length_pos_iff.mpr hl
  simp only [List.length_drop]; omega

/-- `unpackBundleFileList`: index files arrive in any order and are placed by their index; every
    file but the last must hold exactly `perFile` entries, the last at most `perFile` -/
def reassemble {α : Type} (perFile : Nat) (count : Nat) (arrived : List (Nat × List α)) : Option (List α) :=
  let placed := (List.range count).map fun i => (arrived.lookup i).getD []
  let ok := (List.range count).all fun i =>
    let b := (arrived.lookup i).getD []
    if i + 1 = count then b.length ≤ perFile else b.length = perFile
  if ok then some placed.flatten else none

/-- the destination after a download with selection predicate `sel`: every selected entry is
    written under its name with the bytes of its key; a repeated name fails the download
    (destination writes are create-if-absent) -/
def download {K : Type} (fetch : K → Option Bytes) (sel : String → Bool) :
    List (Entry K) → List (String × Bytes) → Option (List (String × Bytes))
  | [], dst => some dst
  | e :: r, dst =>
    if sel e.name then
      match fetch e.hash with
      | none => none
      | some c => if (dst.lookup e.name).isSome then none else download fetch sel r (dst ++ [(e.name, c)])
    else download fetch sel r dst

end Bundle
