import DatamonVerif.Generated.Facts
/-! Model of the diamond protocol of `pkg/core` (diamond_commit.go, diamond_ops.go, split.go,
split_ops.go) AS IT IS: a transition system over a create-if-absent store with any number of
actors. Every actor is one API call (`Diamond.Commit`, `Diamond.Cancel`, or `CreateSplit` followed by
`Split.Upload` — one *run* of a split); one step of an actor is one store call that reads or writes
protocol state. A schedule is a `List Nat` of actor indices; a crash is an actor that is never
scheduled again (the variant `runE` makes crashes explicit events: a crash moves the actor to a
final program counter that remembers only whether it had written `bundle.yaml` without `diamond-done`).

Store objects (vmetadata unless noted):
* `diamond-done.yaml`            → `term`          (put with `storage.NoOverWrite`, states done / canceled)
* `splits/k/split-done.yaml`     → `splitDone`     (put with `storage.NoOverWrite`, records the generation)
* `splits/k/split-running.yaml`  → `splitRunning`
* `splits/k/<generation>/bundle-files-*.yaml` → `gens` (generation ↦ file list; the generation id of a
  run is fresh, the model uses the actor index)
* metadata `bundles/<repo>/<id>/bundle.yaml` → `bundles` (a bundle is visible once this exists)

The two put-if-absent flags are facts regenerated from the Go sources on every check
(`Facts.c12DiamondDescriptorNoOverwrite`, `Facts.c12SplitDescriptorNoOverwrite`). -/
namespace Diamond

/-- a file list: (path id, content id) -/
abbrev Files := List (Nat × Nat)

inductive Kind where
  | commit
  | cancel
  | run (split : Nat) (files : Files)
deriving DecidableEq, Repr, Inhabited

/-- program counters; the comment names the store call the actor performs NEXT -/
inductive Pc where
  | start      -- all kinds: Get diamond-done.yaml (`diamondReady` / `Cancel`'s downloadDescriptor)
  | refused    -- final: the diamond was terminal at the ready check
  | ready      -- commit: KeysPrefix splits/ (collectSplits)
  | listed     -- commit: Put bundle.yaml (after reading the listed generations' index files)
  | bundled    -- commit: put-if-absent diamond-done.yaml (state done)
  | won        -- final: commit / cancel wrote the terminal descriptor
  | lost       -- final: commit / cancel lost the put-if-absent of the terminal descriptor
  | nosplit    -- final: commit found no done split
  | xput       -- cancel: put-if-absent diamond-done.yaml (state canceled)
  | chk        -- run: Get split-done.yaml (CreateSplit)
  | getrun     -- run: Get split-running.yaml
  | putrun     -- run: put-if-absent split-running.yaml
  | gen        -- run: Put the index files under a fresh generation (Upload)
  | putdone    -- run: put-if-absent split-done.yaml recording the generation
  | sdone      -- final: the run is recorded in split-done.yaml
  | slost      -- final: the run lost the put-if-absent of split-done.yaml
  | already    -- final: the split was done already (ErrSplitAlreadyDone)
  | createlost -- final: the run lost the put-if-absent of split-running.yaml
  | crashed    -- final (explicit-crash runs only): the actor crashed outside [bundle.yaml, diamond-done)
  | bundledDead -- final (explicit-crash runs only): a commit crashed after bundle.yaml, before diamond-done
deriving DecidableEq, Repr, Inhabited

structure Actor where
  kind : Kind
  pc : Pc
  /-- commit: the (split, generation) pairs recorded in the split-done descriptors it listed -/
  snap : List (Nat × Nat)
deriving DecidableEq, Repr

structure Bundle where
  owner : Nat
  snap : List (Nat × Nat)
  content : Files
deriving DecidableEq, Repr

inductive Term where
  | done (owner : Nat)
  | canceled (owner : Nat)
deriving DecidableEq, Repr

structure Store where
  term : Option Term
  splitDone : List (Nat × Nat)
  splitRunning : List Nat
  gens : List (Nat × Files)
  bundles : List Bundle
deriving DecidableEq, Repr

structure Sys where
  store : Store
  actors : List Actor
deriving DecidableEq, Repr

/-- `uploadDescriptor` of a diamond passes `storage.NoOverWrite` (regenerated fact) -/
abbrev nxDiamond : Bool := Facts.c12DiamondDescriptorNoOverwrite
/-- `uploadDescriptor` of a split passes `storage.NoOverWrite` (regenerated fact) -/
abbrev nxSplit : Bool := Facts.c12SplitDescriptorNoOverwrite

def insertFile (acc : Files) (f : Nat × Nat) : Files :=
  if acc.any (fun e => e.1 == f.1) then acc else acc ++ [f]

/-- merge of file lists (first version of a path wins; conflict handling proper is C11's subject) -/
def mergeFiles (ls : List Files) : Files :=
  ls.foldl (fun acc fs => fs.foldl insertFile acc) []

/-- what a commit reads from the index files of the generations it listed -/
def contentOf (gens : List (Nat × Files)) (snap : List (Nat × Nat)) : Files :=
  mergeFiles (snap.map fun kg => (gens.lookup kg.2).getD [])

def afterReady : Kind → Pc
  | .commit => .ready
  | .cancel => .xput
  | .run _ _ => .chk

/-- put-if-absent of the terminal descriptor by actor `i` -/
def putTerm (st : Store) (a : Actor) (t : Term) : Store × Actor :=
  match st.term with
  | none => ({ st with term := some t }, { a with pc := .won })
  | some _ => if nxDiamond then (st, { a with pc := .lost }) else ({ st with term := some t }, { a with pc := .won })

/-- the local transition of actor `i`: one store call -/
def act (st : Store) (i : Nat) (a : Actor) : Store × Actor :=
  match a.kind, a.pc with
  | k, .start =>
    if st.term.isSome then (st, { a with pc := .refused }) else (st, { a with pc := afterReady k })
  | .commit, .ready =>
    if st.splitDone.isEmpty then (st, { a with pc := .nosplit })
    else (st, { a with pc := .listed, snap := st.splitDone })
  | .commit, .listed =>
    ({ st with bundles := st.bundles ++ [{ owner := i, snap := a.snap, content := contentOf st.gens a.snap }] },
     { a with pc := .bundled })
  | .commit, .bundled => putTerm st a (.done i)
  | .cancel, .xput => putTerm st a (.canceled i)
  | .run k _, .chk =>
    if (st.splitDone.lookup k).isSome then (st, { a with pc := .already }) else (st, { a with pc := .getrun })
  | .run k _, .getrun =>
    if st.splitRunning.contains k then (st, { a with pc := .gen }) else (st, { a with pc := .putrun })
  | .run k _, .putrun =>
    if st.splitRunning.contains k then (st, { a with pc := .createlost })
    else ({ st with splitRunning := k :: st.splitRunning }, { a with pc := .gen })
  | .run _ f, .gen => ({ st with gens := (i, f) :: st.gens }, { a with pc := .putdone })
  | .run k _, .putdone =>
    match st.splitDone.lookup k with
    | none => ({ st with splitDone := (k, i) :: st.splitDone }, { a with pc := .sdone })
    | some _ =>
      if nxSplit then (st, { a with pc := .slost })
      else ({ st with splitDone := (k, i) :: st.splitDone }, { a with pc := .sdone })
  | _, _ => (st, a)

/-- one atomic step of actor `i` -/
def step (s : Sys) (i : Nat) : Sys :=
  match s.actors[i]? with
  | none => s
  | some a => { store := (act s.store i a).1, actors := s.actors.set i (act s.store i a).2 }

def run (s : Sys) (sched : List Nat) : Sys := sched.foldl step s

def emptyStore : Store := { term := none, splitDone := [], splitRunning := [], gens := [], bundles := [] }

/-- the initialized diamond with one actor per entry of `kinds`, nobody started -/
def init (kinds : List Kind) : Sys :=
  { store := emptyStore, actors := kinds.map fun k => { kind := k, pc := .start, snap := [] } }

/-- inside a commit's section [ready check passed … diamond-done written); a commit that crashed
after `bundle.yaml` stays there forever -/
def Pc.crit : Pc → Bool
  | .ready | .listed | .bundled | .bundledDead => true
  | _ => false

def inCrit (s : Sys) : Nat := (s.actors.filter fun a => a.pc.crit).length

/-- does the next step of actor `i` pass the ready check of a COMMIT? -/
def passesReady (s : Sys) (i : Nat) : Bool :=
  match s.actors[i]? with
  | some a => a.kind == .commit && a.pc == .start && s.store.term.isNone
  | none => false

/-- a step is *serial* if it does not let a commit pass its ready check while another commit sits
between its ready check and its diamond-done write -/
def serialStep (s : Sys) (i : Nat) : Bool := !passesReady s i || inCrit s == 0

def serial : Sys → List Nat → Bool
  | _, [] => true
  | s, i :: rest => serialStep s i && serial (step s i) rest

/-! ### explicit crashes (used by the driver and by the crash-aware at-most-one theorem) -/

inductive Ev where
  | step (i : Nat)
  | crash (i : Nat)
deriving DecidableEq, Repr

/-- where a crash leaves an actor: final program counters stay, a commit between `bundle.yaml` and
`diamond-done` is remembered as such, everything else is just gone -/
def crashPc : Pc → Pc
  | .bundled => .bundledDead
  | .ready | .listed | .start | .xput | .chk | .getrun | .putrun | .gen | .putdone => .crashed
  | p => p

def stepE (s : Sys) : Ev → Sys
  | .step i => step s i
  | .crash i =>
    match s.actors[i]? with
    | none => s
    | some a => { s with actors := s.actors.set i { a with pc := crashPc a.pc } }

def runE (s : Sys) (evs : List Ev) : Sys := evs.foldl stepE s

def serialStepE (s : Sys) : Ev → Bool
  | .step i => serialStep s i
  | .crash _ => true

/-- the complement of the two finding triggers: no commit passes its ready check while a live commit
is inside its section or a crashed commit has written `bundle.yaml` without `diamond-done` -/
def serialE : Sys → List Ev → Bool
  | _, [] => true
  | s, e :: rest => serialStepE s e && serialE (stepE s e) rest

def cntPc (s : Sys) (p : Pc → Bool) : Nat := (s.actors.filter fun a => p a.pc).length

structure Trig where
  /-- a commit passed its ready check while a LIVE commit was inside its section -/
  overlap : Bool
  /-- a commit passed its ready check while a CRASHED commit had written bundle.yaml but not diamond-done -/
  crashRetry : Bool
deriving DecidableEq, Repr

def trigStep (s : Sys) (t : Trig) : Ev → Trig
  | .step i =>
    let p := passesReady s i
    { overlap := t.overlap || (p && cntPc s (fun q => q == .ready || q == .listed || q == .bundled) != 0),
      crashRetry := t.crashRetry || (p && cntPc s (fun q => q == .bundledDead) != 0) }
  | .crash _ => t

def trigE : Sys → List Ev → Trig → Trig
  | _, [], t => t
  | s, e :: rest, t => trigE (stepE s e) rest (trigStep s t e)

end Diamond
