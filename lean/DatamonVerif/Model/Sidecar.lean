/-! Model of `pkg/sidecar/param` (C21): environment-variable encoding of sidecar parameters.

Strings are lists of code points (`Nat`). `chooseSeps` mirrors `setSeparators`
(`randCharNotInString`: the first rune ≥ '0' that occurs in none of the given strings, then the next
one), `encode` mirrors `appendToParamString` + `strings.TrimSuffix`, `decode` is the reference
decoder of the documented format (and of `deserialize_dict` in hack/fuse-demo/wrap_datamon.sh):
separators = first two characters; items split on the item separator, empty items dropped;
`key kv value` (value = the field between the first and the second kv separator, as `cut -f 2`),
bare key = flag. -/
namespace Sidecar

abbrev Str := List Nat

/-- `randCharNotInString`: the first code point ≥ `c` not in `used` (the Go loop increments the
    candidate while it occurs in the set; at most `used.length` increments are possible). -/
def firstFreeF : Nat → Nat → List Nat → Nat
  | 0, c, _ => c
  | f + 1, c, used => if c ∈ used then firstFreeF f (c + 1) (used.erase c) else c

def firstFree (c : Nat) (used : List Nat) : Nat := firstFreeF used.length c used

/-- `setSeparators`: item separator, then key/value separator. -/
def chooseSeps (used : List Nat) : Nat × Nat :=
  let i := firstFree 48 used
  (i, firstFree 48 (used ++ [i]))

/-- `appendToParamString` -/
def appendParam (isep ksep : Nat) (acc : Option Str) (p : Str × Str) : Option Str :=
  match acc with
  | none => none
  | some a =>
    if p.2 = [] then some a
    else if isep ∈ p.2 ∨ ksep ∈ p.2 then none
    else some (a ++ p.1 ++ [ksep] ++ p.2 ++ [isep])

/-- `strings.TrimSuffix(rv, itemSep)` -/
def trimSuffix (sep : Nat) (l : Str) : Str :=
  if l.getLast? = some sep then l.dropLast else l

def flagS : Str := [83]

/-- `fuseParamsGlobalString` / `fuseParamsBundleString` / the pg variants, given the separators. -/
def encode (isep ksep : Nat) (flag : Bool) (ps : List (Str × Str)) : Option Str :=
  let start : Str := [isep, ksep] ++ (if flag then flagS ++ [isep] else [])
  (ps.foldl (appendParam isep ksep) (some start)).map (trimSuffix isep)

/-- non-empty pieces of `l` split on `sep`; `cur` is the piece being accumulated -/
def splitNE (sep : Nat) : Str → Str → List Str
  | [], cur => if cur = [] then [] else [cur]
  | c :: r, cur =>
    if c = sep then (if cur = [] then splitNE sep r [] else cur :: splitNE sep r [])
    else splitNE sep r (cur ++ [c])

/-- one item: `key` or `key kv value …` -/
def parseItem (ksep : Nat) (item : Str) : Str × Option Str :=
  let key := item.takeWhile (· != ksep)
  let rest := item.dropWhile (· != ksep)
  match rest with
  | [] => (key, none)
  | _ :: after => (key, some (after.takeWhile (· != ksep)))

/-- the reference decoder -/
def decode : Str → Option (List (Str × Option Str))
  | isep :: ksep :: body => some ((splitNE isep body []).map (parseItem ksep))
  | _ => none

/-- what a decoder must obtain: the sleep flag and the non-empty parameters, in order -/
def expected (flag : Bool) (ps : List (Str × Str)) : List (Str × Option Str) :=
  (if flag then [(flagS, none)] else []) ++ (ps.filter (fun p => p.2 ≠ [])).map (fun p => (p.1, some p.2))

/-- the complete encoder: choose separators from every string value of the parameter structure
    (`allValues`) *and* the exclusion characters `excl` (the parameter names), then encode. -/
def encodeAuto (allValues : List Str) (excl : Str) (flag : Bool) (ps : List (Str × Str)) : Option Str :=
  let seps := chooseSeps (allValues.flatten ++ excl)
  encode seps.1 seps.2 flag ps

end Sidecar
