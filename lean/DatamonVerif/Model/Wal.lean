import DatamonVerif.Model.Ksuid
import DatamonVerif.Generated.Facts
/-! Model of `pkg/wal` (C19): the write-ahead log over an object store whose listing honours a
start key (the contract the log is written against; the harness' `memstore`).

* A token is a KSUID, represented by its 160-bit number `ts * 2^128 + payload`
  (`Model/Ksuid.lean`; `Props/C19.lean` proves string order = numeric order for the 27-character
  base-62 form, so the store's key order is `<` on these numbers).
* The WAL store is the list of `(token, blob)` in key order, without duplicate keys.
* `add` is `getToken` + `Add` AFTER the generator object was touched: it is given the update time
  `t` (seconds since the KSUID epoch) that `GetAttr` returned and the random draw `nonce`, and puts
  the RAW payload under the token with the no-overwrite flag found at the call site
  (`Facts.walAddNoOverwrite`).  The relation between `t` and the generator's clock is `tokenTime`.
* `listEntriesWith` is `ListEntries`: `ListTokens` back-dates the start key by
  `2 * GetExpirationDuration()` (32-bit wrap-around of `ksuid.FromParts` included), takes ONE store
  page of `min max maxEntriesPerList` keys, every key is fetched by its own goroutine — the model
  takes the COMPLETION ORDER of the fetches as an argument — and `collectParallelResponses`
  inserts the decoded entries into a sorted map (duplicate key = the Go `panic`), which is then
  dumped in key order.
* `read` is the reader after the `fix:` — the whole blob is read; it is kept as the payload unless
  it decodes (YAML, abstracted as `dec`) to an entry descriptor carrying this very token. -/
namespace Wal

/-- a token is the number of its KSUID; written `Nat` below so that `omega` sees through it -/
abbrev Token := Nat
abbrev Payload := List UInt8
abbrev Store := List (Nat × Payload)

/-- `model.Entry` -/
structure Entry where
  token : Nat
  payload : Payload
  deriving DecidableEq, Repr

/-- look-back of `ListTokens` in seconds: `GetExpirationDuration() * 2` -/
def lookback : Nat := Facts.walExpirationSeconds * Facts.walLookbackFactor
def maxEntriesPerList : Nat := Facts.walMaxEntriesPerList

/-! ### the object store (contract) -/

def keys (s : Store) : List Nat := s.map (·.1)

def has (s : Store) (k : Nat) : Bool := s.any (fun kv => kv.1 == k)

/-- insert in key order -/
def insert (k : Nat) (p : Payload) : Store → Store
  | [] => [(k, p)]
  | (k', p') :: r => if k < k' then (k, p) :: (k', p') :: r else (k', p') :: insert k p r

/-- `Put(key, blob, noOverwrite)`: `none` = `ErrExists` -/
def put (s : Store) (k : Nat) (p : Payload) (noOverwrite : Bool) : Option Store :=
  if has s k then
    if noOverwrite then none else some (insert k p (s.filter (fun kv => kv.1 != k)))
  else some (insert k p s)

/-- `Get` -/
def get (s : Store) (k : Nat) : Option Payload := (s.find? (fun kv => kv.1 == k)).map (·.2)

/-- `KeysPrefix(start, "", "", count)`: the keys `≥ start` in key order, at most `count`, and the
    first key not returned. -/
def keysFrom (s : Store) (start : Nat) (count : Nat) : List Nat × Option Nat :=
  let rest := (keys s).filter (fun k => decide (start ≤ k))
  (rest.take count, (rest.drop count).head?)

/-! ### tokens -/

/-- the KSUID timestamp of a generator update time given in milliseconds since the KSUID epoch
    (`timeToCorrectedUTCTimestamp`: whole seconds, truncated to 32 bits) -/
def tokenTime (ms : Nat) : Nat := (ms / 1000) % Ksuid.T

/-- the generator object's update time after a sequence of `Touch`es, each of which finds the
    store clock `dt ≥ 0` ms later than the previous update (store contract: update times never go
    back) -/
def genAfter (g0 : Nat) (dts : List Nat) : Nat := dts.foldl (· + ·) g0

/-- `ksuid.NewRandomWithTime(attr.Updated)` -/
def newToken (t nonce : Nat) : Nat := Ksuid.mk (t % Ksuid.T) (nonce % Ksuid.P)

/-- `Add` once the generator time `t` was read: `none` = the put failed (token exists). -/
def add (s : Store) (t nonce : Nat) (p : Payload) : Option (Store × Nat) :=
  match put s (newToken t nonce) p Facts.walAddNoOverwrite with
  | some s' => some (s', newToken t nonce)
  | none => none

/-- one append of a history: the generator time it read, its random draw, its payload -/
structure Append where
  t : Nat
  nonce : Nat
  payload : Payload

/-- a history of appends in the order of their (atomic) puts; a failed append changes nothing -/
def run (s : Store) : List Append → Store
  | [] => s
  | a :: r =>
    match add s a.t a.nonce a.payload with
    | some (s', _) => run s' r
    | none => run s r

/-- the entries whose `Add` returned a token, in history order -/
def issued (s : Store) : List Append → List Entry
  | [] => []
  | a :: r =>
    match add s a.t a.nonce a.payload with
    | some (s', tok) => ⟨tok, a.payload⟩ :: issued s' r
    | none => issued s r

/-! ### listing -/

/-- the back-dated start key of `ListTokens` (`uint32` arithmetic of `ksuid.FromParts`) -/
def startKey (fromTok : Nat) : Nat :=
  Ksuid.mk ((Ksuid.time fromTok % Ksuid.T + Ksuid.T - lookback) % Ksuid.T) Facts.walStartPayload

/-- `ListTokens` (for `max > 0`) -/
def listTokens (s : Store) (fromTok : Nat) (max : Nat) : List Nat × Option Nat :=
  keysFrom s (startKey fromTok) (min max maxEntriesPerList)

/-- `read` (after the fix): the blob is the payload unless it is an entry descriptor for `k` -/
def read (dec : Payload → Option Entry) (k : Nat) (blob : Payload) : Entry :=
  match dec blob with
  | some e => if e.token = k then e else ⟨k, blob⟩
  | none => ⟨k, blob⟩

/-- the fetches, in completion order; `none` = some `Get` failed -/
def fetchAll (dec : Payload → Option Entry) (s : Store) : List Nat → Option (List Entry)
  | [] => some []
  | k :: r =>
    match get s k, fetchAll dec s r with
    | some b, some es => some (read dec k b :: es)
    | _, _ => none

/-- sorted-map insert of `collectParallelResponses`; `none` = "Received more than one response" -/
def insertEntry (e : Entry) : List Entry → Option (List Entry)
  | [] => some [e]
  | x :: r =>
    if e.token < x.token then some (e :: x :: r)
    else if e.token = x.token then none
    else match insertEntry e r with
      | some r' => some (x :: r')
      | none => none

def collect (acc : List Entry) : List Entry → Option (List Entry)
  | [] => some acc
  | e :: r =>
    match insertEntry e acc with
    | some acc' => collect acc' r
    | none => none

inductive Result where
  | err
  | panic
  | ok (entries : List Entry) (next : Option Nat)
  deriving DecidableEq, Repr

/-- `ListEntries fromTok max` where the page is listed on `s`, the blobs are fetched from `sg`
    (`sg = s`, or `s` after further appends) and the fetches complete in the order `completion`
    (a permutation of the page). -/
def listEntriesWith (dec : Payload → Option Entry) (s sg : Store) (fromTok : Nat) (max : Nat)
    (completion : List Nat) : Result :=
  if max = 0 then .err else
  let page := listTokens s fromTok max
  if page.1 = [] then .ok [] page.2 else
  match fetchAll dec sg completion with
  | none => .err
  | some es =>
    match collect [] es with
    | none => .panic
    | some out => if out.length = page.1.length then .ok out page.2 else .panic

/-- fetches completing in page order -/
def listEntries (dec : Payload → Option Entry) (s : Store) (fromTok : Nat) (max : Nat) : Result :=
  listEntriesWith dec s s fromTok max (listTokens s fromTok max).1

/-- what a listing must return: the first `n` stored entries with key `≥ start`, in key order -/
def expected (s : Store) (start : Nat) (n : Nat) : List Entry :=
  ((s.filter (fun kv => decide (start ≤ kv.1))).take n).map (fun kv => ⟨kv.1, kv.2⟩)

end Wal
