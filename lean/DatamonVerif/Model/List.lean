/-!
# Model of the metadata listings of `pkg/core` (property C07)

Mirrors `keys.go` (`fetchKeys`, `mergeKeys`), `diamond.go` (`basenameKeyFilter`) and
`{repo,bundle,label,diamond,split}_list.go` as they are after the two `fix:` commits
(the descriptor filter is applied after the end-of-listing test; the full listings of repos,
labels, diamonds and splits are sorted once more at the end). The code before the fixes is kept
as `fetchBatchesOld` / `*Old` for the negation witnesses in `Props/C07.lean`.

The object store is the contract of DESIGN §3.1: keys sorted, `KeysPrefix token prefix delim count`
= the items with the prefix (rolled up at the delimiter), from the first item `≥ token`, at most
`count`, `next` = the first item not returned or `""`.

Keys and names are character lists (`String.toList` of the Go strings — the order of Go strings
restricted to the ASCII keys datamon writes — see the driver), so that the kernel can evaluate the
model on the witnesses of `Props/C07.lean`.

Core Lean only.
-/

open Lean in
/-- `cl!"abc"` = `['a', 'b', 'c']` -/
macro:max "cl!" s:str : term => do
  let cs : Array (TSyntax `term) := (s.getString.toList.map fun c => (Syntax.mkCharLit c : TSyntax `term)).toArray
  `([$cs,*])

namespace Listing

abbrev Key := List Char

/-- what a listing reads from a descriptor: the identity written in the YAML and the fields
    compared by the kind's `Less` (`t` = start time of diamonds / splits, `s` = repo name,
    bundle id, or the bundle id a label points to). -/
structure Desc where
  name : List Char
  t : Nat
  s : List Char
deriving Repr, DecidableEq, Inhabited

abbrev Entry := Key × Desc
/-- a metadata store: association list, sorted by key (invariant `Sorted (keysOf st)`). -/
abbrev Store := List Entry

def keysOf (st : Store) : List Key := st.map (·.1)

def Sorted (l : List Key) : Prop := l.Pairwise (· < ·)

/-- `store.Get` / `store.Has` -/
def lookup (st : Store) (k : Key) : Option Desc :=
  match st with
  | [] => none
  | e :: rest => if e.1 = k then some e.2 else lookup rest k

/-! ## `KeysPrefix` -/

/-- `strings.HasPrefix(k, p)` -/
def hasPrefix (p k : Key) : Bool := p.isPrefixOf k

/-- roll a key up at the first `/` after the prefix: `k[:len(prefix)+i+1]` -/
def cutAt (p k : Key) : Key :=
  let rest := k.drop p.length
  if rest.contains '/' then p ++ (rest.takeWhile (· != '/') ++ ['/']) else k

def insertKey (k : Key) : List Key → List Key
  | [] => [k]
  | a :: l => if k < a then k :: a :: l else if k = a then a :: l else a :: insertKey k l

/-- sort and remove duplicates (what the store does with rolled-up items) -/
def sortDedup (l : List Key) : List Key := l.foldr insertKey []

/-- every item `KeysPrefix` can return for a prefix, in order (`delim` = roll up at `/`). -/
def listItems (keys : List Key) (pfx : Key) (delim : Bool) : List Key :=
  let ks := keys.filter (hasPrefix pfx)
  if delim then sortDedup (ks.map (cutAt pfx)) else ks

/-- one page: the items `≥ token`, at most `count`, and the first item not returned. -/
def page (items : List Key) (token : Key) (count : Nat) : List Key × Key :=
  let rest := items.filter (fun k => decide (token ≤ k))
  (rest.take count, (rest.drop count).headD [])

/-! ## `fetchKeys` -/

/-- the page loop: stop on an empty page or an empty `next` (the Go loop is unbounded; `fuel` is
    discharged by `C07_fetch_complete`: `items.length + 1` rounds reach the end). -/
def fetchPages (items : List Key) (count : Nat) : Nat → Key → List (List Key)
  | 0, _ => []
  | fuel + 1, tok =>
    let r := page items tok count
    if r.1.isEmpty then [] else if r.2 = [] then [r.1] else r.1 :: fetchPages items count fuel r.2

/-- `fetchKeys` with its optional filter: the filter is applied to a page AFTER the emptiness test. -/
def fetchBatches (items : List Key) (count : Nat) (filt : Key → Bool) : List (List Key) :=
  (fetchPages items count (items.length + 1) []).map (·.filter filt)

/-- the code before `fix: diamond and split listings stop at a page left empty by the descriptor
    filter`: the iterator filtered the page first, `fetchKeys` then tested the filtered page. -/
def fetchPagesOld (items : List Key) (count : Nat) (filt : Key → Bool) : Nat → Key → List (List Key)
  | 0, _ => []
  | fuel + 1, tok =>
    let r := page items tok count
    let ks := r.1.filter filt
    if ks.isEmpty then [] else if r.2 = [] then [ks] else ks :: fetchPagesOld items count filt fuel r.2

def fetchBatchesOld (items : List Key) (count : Nat) (filt : Key → Bool) : List (List Key) :=
  fetchPagesOld items count filt (items.length + 1) []

/-! ## `basenameKeyFilter` and `mergeKeys` -/

/-- `path.Base` of a key (keys never end with `/`) -/
def baseName (k : Key) : List Char := (k.reverse.takeWhile (· != '/')).reverse

/-- the key without its base name (with the trailing `/`): identifies the diamond / split -/
def dirName (k : Key) : List Char := (k.reverse.dropWhile (· != '/')).reverse

/-- `strings.HasPrefix(path.Base(key), filter)` -/
def baseFilter (f : List Char) (k : Key) : Bool := f.isPrefixOf (baseName k)

structure MState where
  isFinal : Bool
  count : Nat
  key : Key
deriving Repr, DecidableEq

/-- the `states` map of `mergeKeys` -/
abbrev MMap := List (List Char × MState)

def mmGet (σ : MMap) (id : List Char) : MState :=
  match σ with
  | [] => ⟨false, 0, []⟩
  | (i, s) :: rest => if i = id then s else mmGet rest id

def mmErase (σ : MMap) (id : List Char) : MMap := σ.filter (fun p => p.1 != id)

def mmSet (σ : MMap) (id : List Char) (s : MState) : MMap := (id, s) :: mmErase σ id

/-- one key through `mergeKeys`: the new map and the key emitted, if any. -/
def mergeKey (doneFile : List Char) (σ : MMap) (key : Key) : MMap × Option Key :=
  let id := dirName key
  let fin := baseName key == doneFile
  let st := mmGet σ id
  let retained := if st.isFinal && !fin then st.key else key
  let st' : MState := ⟨st.isFinal || fin, st.count + 1, retained⟩
  if st'.count > 1 || (st'.count == 1 && !st'.isFinal) then (mmErase σ id, some retained)
  else (mmSet σ id st', none)

def mergeBatch (doneFile : List Char) (σ : MMap) : List Key → MMap × List Key
  | [] => (σ, [])
  | k :: ks =>
    let r := mergeKey doneFile σ k
    let r2 := mergeBatch doneFile r.1 ks
    (r2.1, match r.2 with | some x => x :: r2.2 | none => r2.2)

/-- `mergeKeys`: the map is carried from one batch to the next. -/
def mergeBatches (doneFile : List Char) (σ : MMap) : List (List Key) → List (List Key)
  | [] => []
  | b :: bs =>
    let r := mergeBatch doneFile σ b
    r.2 :: mergeBatches doneFile r.1 bs

/-! ## per-batch fetch and sort -/

/-- the field(s) compared by the kind's `Less`: start time, then the string field -/
abbrev SK := Nat × List Char

def sk (e : Entry) : SK := (e.2.t, e.2.s)

def skLe (a b : SK) : Bool := decide (a.1 < b.1) || (a.1 == b.1 && decide (a.2 ≤ b.2))

def entLe (a b : Entry) : Bool := skLe (sk a) (sk b)

def insertBy (le : α → α → Bool) (x : α) : List α → List α
  | [] => [x]
  | a :: l => if le x a then x :: a :: l else a :: insertBy le x l

/-- `sort.Sort` (any sorting algorithm: only sortedness and the multiset are used) -/
def isort (le : α → α → Bool) (l : List α) : List α := l.foldr (insertBy le) []

/-- the descriptors behind a batch of keys: `res` maps a listed key to the descriptor key that is
    read; keys whose descriptor is missing are skipped. -/
def resolve (st : Store) (res : Key → Key) (b : List Key) : List Entry :=
  b.filterMap fun k => (lookup st (res k)).map fun d => (res k, d)

/-- `fetchXBatch`: parallel fetch (completion order = `sched`, a permutation) then `sort.Sort`. -/
def fetchBatch (st : Store) (res : Key → Key) (sched : List Entry → List Entry) (b : List Key) : List Entry :=
  isort entLe (sched (resolve st res b))

/-- batches are handed over in key-scan order (what the `*Apply` variants stream). -/
def stream (st : Store) (res : Key → Key) (sched : List Entry → List Entry) (batches : List (List Key)) : List Entry :=
  (batches.map (fetchBatch st res sched)).flatten

/-! ## the five listings -/

inductive Res where
  | notfound
  | ok (l : List Entry)
deriving Repr, DecidableEq

/-- names (repository, bundle id, label, diamond id, split id) are character lists too -/
abbrev Name := List Char

def reposPrefix : Key := cl!"repos/"
def repoKey (r : Name) : Key := cl!"repos/" ++ r ++ cl!"/repo.yaml"
def bundlePrefix (r : Name) : Key := cl!"bundles/" ++ r ++ cl!"/"
def bundleFile : List Char := cl!"bundle.yaml"
def bundleKey (r i : Name) : Key := bundlePrefix r ++ i ++ cl!"/bundle.yaml"
def labelPrefix (r : Name) : Key := cl!"labels/" ++ r ++ cl!"/"
def labelKey (r l : Name) : Key := labelPrefix r ++ l ++ cl!"/label.yaml"
def diamondPrefix (r : Name) : Key := cl!"diamonds/" ++ r ++ cl!"/"
def diamondFilter : List Char := cl!"diamond-"
def diamondDone : List Char := cl!"diamond-done.yaml"
def diamondRunning : List Char := cl!"diamond-running.yaml"
def diamondRunningKey (r d : Name) : Key := diamondPrefix r ++ d ++ cl!"/diamond-running.yaml"
def diamondDoneKey (r d : Name) : Key := diamondPrefix r ++ d ++ cl!"/diamond-done.yaml"
def splitPrefix (r d : Name) : Key := diamondPrefix r ++ d ++ cl!"/splits/"
def splitFilter : List Char := cl!"split-"
def splitDone : List Char := cl!"split-done.yaml"
def splitRunning : List Char := cl!"split-running.yaml"
def splitRunningKey (r d s : Name) : Key := splitPrefix r d ++ s ++ cl!"/split-running.yaml"
def splitDoneKey (r d s : Name) : Key := splitPrefix r d ++ s ++ cl!"/split-done.yaml"

def repoExists (m : Store) (r : Name) : Bool := (lookup m (repoKey r)).isSome

abbrev Sched := List Entry → List Entry

/-- `listReposChan`: prefix `repos/`, no delimiter. -/
def reposStream (m : Store) (n : Nat) (sched : Sched) : List Entry :=
  stream m id sched (fetchBatches (listItems (keysOf m) reposPrefix false) n (fun _ => true))

/-- `listBundlesChan`: prefix `bundles/<repo>/`, delimiter `/`; the descriptor read for the item
    `bundles/<repo>/<id>/` is `bundles/<repo>/<id>/bundle.yaml`. -/
def bundlesStream (m : Store) (r : Name) (n : Nat) (sched : Sched) : List Entry :=
  stream m (· ++ bundleFile) sched (fetchBatches (listItems (keysOf m) (bundlePrefix r) true) n (fun _ => true))

/-- `listLabelsChan` (no label prefix, no versions) -/
def labelsStream (v : Store) (r : Name) (n : Nat) (sched : Sched) : List Entry :=
  stream v id sched (fetchBatches (listItems (keysOf v) (labelPrefix r) false) n (fun _ => true))

/-- `listDiamondsChan`: deep scan of `diamonds/<repo>/`, descriptor filter, running/done merge -/
def diamondsStream (v : Store) (r : Name) (n : Nat) (sched : Sched) : List Entry :=
  stream v id sched
    (mergeBatches diamondDone []
      (fetchBatches (listItems (keysOf v) (diamondPrefix r) false) n (baseFilter diamondFilter)))

def splitsStream (v : Store) (r d : Name) (n : Nat) (sched : Sched) : List Entry :=
  stream v id sched
    (mergeBatches splitDone []
      (fetchBatches (listItems (keysOf v) (splitPrefix r d) false) n (baseFilter splitFilter)))

/-- which kind, and the repository / diamond it is asked for -/
inductive Kind where
  | repos | bundles | labels | diamonds | splits
deriving Repr, DecidableEq

/-- `ListXApply`: the order in which the callback sees the objects. `m` = metadata store,
    `v` = versioned metadata store. -/
def applyList (k : Kind) (m v : Store) (r d : Name) (n : Nat) (sched : Sched) : Res :=
  match k with
  | .repos => .ok (reposStream m n sched)
  | .bundles => if repoExists m r then .ok (bundlesStream m r n sched) else .notfound
  | .labels => if repoExists m r then .ok (labelsStream v r n sched) else .notfound
  | .diamonds => if repoExists m r then .ok (diamondsStream v r n sched) else .notfound
  | .splits =>
    if repoExists m r && (lookup v (diamondRunningKey r d)).isSome then .ok (splitsStream v r d n sched)
    else .notfound

/-- `ListX`: the accumulated slice; sorted once more for every kind but bundles. -/
def fullList (k : Kind) (m v : Store) (r d : Name) (n : Nat) (sched : Sched) : Res :=
  match applyList k m v r d n sched with
  | .notfound => .notfound
  | .ok l => if k = .bundles then .ok l else .ok (isort entLe l)

/-! ## replay on the slice of the store a listing can see

Every key a listing scans or reads lies under its prefix, so the listing of the whole store equals
the listing of the store restricted to that prefix (`C07_restrict` in `Props/C07.lean`). The driver
replays the large cases on the restricted store (the association-list `lookup` is linear). -/

def restrict (st : Store) (pfx : Key) : Store := st.filter (fun e => hasPrefix pfx e.1)

def applyListFast (k : Kind) (m v : Store) (r d : Name) (n : Nat) (sched : Sched) : Res :=
  match k with
  | .repos => .ok (reposStream (restrict m reposPrefix) n sched)
  | .bundles => if repoExists m r then .ok (bundlesStream (restrict m (bundlePrefix r)) r n sched) else .notfound
  | .labels => if repoExists m r then .ok (labelsStream (restrict v (labelPrefix r)) r n sched) else .notfound
  | .diamonds => if repoExists m r then .ok (diamondsStream (restrict v (diamondPrefix r)) r n sched) else .notfound
  | .splits =>
    if repoExists m r && (lookup v (diamondRunningKey r d)).isSome then
      .ok (splitsStream (restrict v (splitPrefix r d)) r d n sched)
    else .notfound

def fullListFast (k : Kind) (m v : Store) (r d : Name) (n : Nat) (sched : Sched) : Res :=
  match applyListFast k m v r d n sched with
  | .notfound => .notfound
  | .ok l => if k = .bundles then .ok l else .ok (isort entLe l)

/-! ## the code before the fixes (for the negation witnesses) -/

def diamondsStreamOld (v : Store) (r : Name) (n : Nat) (sched : Sched) : List Entry :=
  stream v id sched
    (mergeBatches diamondDone []
      (fetchBatchesOld (listItems (keysOf v) (diamondPrefix r) false) n (baseFilter diamondFilter)))

def splitsStreamOld (v : Store) (r d : Name) (n : Nat) (sched : Sched) : List Entry :=
  stream v id sched
    (mergeBatches splitDone []
      (fetchBatchesOld (listItems (keysOf v) (splitPrefix r d) false) n (baseFilter splitFilter)))

/-! ## trigger of the known finding on the streaming variants -/

/-- the stream of an `*Apply` listing is out of order: some object of a later batch sorts strictly
    before an object of an earlier batch. -/
def sortedBySk : List Entry → Bool
  | [] => true
  | a :: l => l.all (fun b => entLe a b) && sortedBySk l

end Listing
