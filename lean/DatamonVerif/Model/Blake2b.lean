/-! BLAKE2b (RFC 7693) with the tree parameter block, core Lean only. -/
namespace Blake2b

def iv : Array UInt64 := #[
  0x6a09e667f3bcc908, 0xbb67ae8584caa73b, 0x3c6ef372fe94f82b, 0xa54ff53a5f1d36f1,
  0x510e527fade682d1, 0x9b05688c2b3e6c1f, 0x1f83d9abfb41bd6b, 0x5be0cd19137e2179]

def sigma : Array (Array Nat) := #[
  #[0,1,2,3,4,5,6,7,8,9,10,11,12,13,14,15],
  #[14,10,4,8,9,15,13,6,1,12,0,2,11,7,5,3],
  #[11,8,12,0,5,2,15,13,10,14,3,6,7,1,9,4],
  #[7,9,3,1,13,12,11,14,2,6,5,10,4,0,15,8],
  #[9,0,5,7,2,4,10,15,14,1,11,12,6,8,3,13],
  #[2,12,6,10,0,11,8,3,4,13,7,5,15,14,1,9],
  #[12,5,1,15,14,13,4,10,0,7,6,3,9,2,8,11],
  #[13,11,7,14,12,1,3,9,5,0,15,4,8,6,2,10],
  #[6,15,14,9,11,3,0,8,12,2,13,7,1,4,10,5],
  #[10,2,8,4,7,6,1,5,15,11,9,14,3,12,13,0],
  #[0,1,2,3,4,5,6,7,8,9,10,11,12,13,14,15],
  #[14,10,4,8,9,15,13,6,1,12,0,2,11,7,5,3]]

@[inline] def rotr (x : UInt64) (n : UInt64) : UInt64 := (x >>> n) ||| (x <<< (64 - n))

@[inline] def g (v : Array UInt64) (a b c d : Nat) (x y : UInt64) : Array UInt64 :=
  let va := v[a]! + v[b]! + x
  let vd := rotr (v[d]! ^^^ va) 32
  let vc := v[c]! + vd
  let vb := rotr (v[b]! ^^^ vc) 24
  let va := va + vb + y
  let vd := rotr (vd ^^^ va) 16
  let vc := vc + vd
  let vb := rotr (vb ^^^ vc) 63
  (((v.set! a va).set! b vb).set! c vc).set! d vd

/-- little-endian 64-bit word `i` of a 128-byte block starting at `off` (zero padded). -/
@[inline] def word (bs : ByteArray) (off i : Nat) : UInt64 := Id.run do
  let mut w : UInt64 := 0
  for k in [0:8] do
    let p := off + 8*i + (7-k)
    let b : UInt8 := if p < bs.size then bs.get! p else 0
    w := (w <<< 8) ||| b.toUInt64
  return w

def compress (h : Array UInt64) (bs : ByteArray) (off : Nat) (t : Nat) (f0 f1 : Bool) : Array UInt64 := Id.run do
  let mut m : Array UInt64 := Array.mkEmpty 16
  for i in [0:16] do m := m.push (word bs off i)
  let mut v : Array UInt64 := h ++ iv
  v := v.set! 12 (v[12]! ^^^ (UInt64.ofNat (t % 2^64)))
  v := v.set! 13 (v[13]! ^^^ (UInt64.ofNat (t / 2^64)))
  if f0 then v := v.set! 14 (v[14]! ^^^ 0xFFFFFFFFFFFFFFFF)
  if f1 then v := v.set! 15 (v[15]! ^^^ 0xFFFFFFFFFFFFFFFF)
  for r in [0:12] do
    let s := sigma[r]!
    v := g v 0 4 8 12 m[s[0]!]! m[s[1]!]!
    v := g v 1 5 9 13 m[s[2]!]! m[s[3]!]!
    v := g v 2 6 10 14 m[s[4]!]! m[s[5]!]!
    v := g v 3 7 11 15 m[s[6]!]! m[s[7]!]!
    v := g v 0 5 10 15 m[s[8]!]! m[s[9]!]!
    v := g v 1 6 11 12 m[s[10]!]! m[s[11]!]!
    v := g v 2 7 8 13 m[s[12]!]! m[s[13]!]!
    v := g v 3 4 9 14 m[s[14]!]! m[s[15]!]!
  let mut h' := h
  for i in [0:8] do h' := h'.set! i (h[i]! ^^^ v[i]! ^^^ v[i+8]!)
  return h'

structure Params where
  digestLen : Nat := 64
  keyLen : Nat := 0
  fanout : Nat := 1
  depth : Nat := 1
  leafLen : Nat := 0
  nodeOffset : Nat := 0
  nodeDepth : Nat := 0
  innerLen : Nat := 0
  lastNode : Bool := false

def paramWords (p : Params) : Array UInt64 :=
  let w0 : Nat := p.digestLen + p.keyLen * 2^8 + p.fanout * 2^16 + p.depth * 2^24 + (p.leafLen % 2^32) * 2^32
  let w1 : Nat := p.nodeOffset % 2^64
  let w2 : Nat := p.nodeDepth + p.innerLen * 2^8
  #[UInt64.ofNat w0, UInt64.ofNat w1, UInt64.ofNat w2, 0, 0, 0, 0, 0]

def hash (p : Params) (data : ByteArray) : ByteArray := Id.run do
  let pw := paramWords p
  let mut h : Array UInt64 := Array.mkEmpty 8
  for i in [0:8] do h := h.push (iv[i]! ^^^ pw[i]!)
  let n := data.size
  -- all blocks but the last
  let nblocks := if n == 0 then 1 else (n + 127) / 128
  for b in [0:nblocks-1] do
    h := compress h data (b*128) ((b+1)*128) false false
  h := compress h data ((nblocks-1)*128) n true p.lastNode
  let mut out := ByteArray.empty
  for i in [0:p.digestLen] do
    let w := h[i/8]!
    out := out.push ((w >>> (UInt64.ofNat (8*(i%8)))).toUInt8)
  return out

def hex (b : ByteArray) : String :=
  let d := "0123456789abcdef".toList.toArray
  b.foldl (fun s x => s.push d[x.toNat / 16]! |>.push d[x.toNat % 16]!) ""

end Blake2b
