/-! Model for C06: metadata writes, crashes as prefixes of write sequences, and the observers
(`pkg/core/bundle_pack.go`, `bundle_list.go`, `label.go`, `diamond_commit.go`).

Keys are structured (the rendering to path strings and its injectivity is C20's subject):
repository descriptor, bundle descriptor, index file `i` of a bundle, blob, label, anything else.
A store maps keys to values (value identities). A bundle is VISIBLE when its descriptor exists. -/
namespace Crash

inductive Key where
  | repo
  | desc (b : Nat)
  | index (b i : Nat)
  | blob (h : Nat)
  | label (n : Nat)
  | other (n : Nat)
deriving DecidableEq, Repr

structure Write where
  key : Key
  val : Nat
  noOverwrite : Bool
deriving DecidableEq, Repr

abbrev Store := List (Key × Nat)

def get (s : Store) (k : Key) : Option Nat := s.lookup k

/-- one atomic store `Put` -/
def put (s : Store) (w : Write) : Store :=
  if w.noOverwrite && (get s w.key).isSome then s else (w.key, w.val) :: s

def apply (s : Store) (ws : List Write) : Store := ws.foldl put s

/-- the store a crash leaves behind: the first `n` writes of the operation landed -/
def crashed (s : Store) (ws : List Write) (n : Nat) : Store := apply s (ws.take n)

/-- is bundle `b` visible (listed, resolvable, downloadable)? -/
def visible (s : Store) (b : Nat) : Bool := (get s (.desc b)).isSome

/-- the writes of a bundle upload: blobs, then index files `0..`, then the descriptor LAST -/
def blobWrite (p : Nat × Nat) : Write := { key := .blob p.1, val := p.2, noOverwrite := false }
def indexWrite (b : Nat) (p : Nat × Nat) : Write := { key := .index b p.1, val := p.2, noOverwrite := true }
def descWrite (b v : Nat) : Write := { key := .desc b, val := v, noOverwrite := true }

def uploadWrites (b : Nat) (blobs : List (Nat × Nat)) (idx : List Nat) (descVal : Nat) : List Write :=
  (blobs.map blobWrite ++ ((List.range idx.length).zip idx).map (indexWrite b)) ++ [descWrite b descVal]

/-- a key belongs to bundle `b`'s metadata -/
def ofBundle (b : Nat) : Key → Bool
  | .desc b' => b' == b
  | .index b' _ => b' == b
  | _ => false

def isMeta : Key → Bool
  | .desc _ => true
  | .index _ _ => true
  | _ => false

/-! ### the spec-level observation used by the driver -/

/-- what every observer must see after an operation that was interrupted after `applied` of its
    writes, `kinds` being the kind of each write (`"d"` = the new bundle's descriptor,
    `"l"` = the label): the new bundle is visible iff its descriptor landed; the label points to
    its new target iff the label write landed; nothing else changes. -/
def newVisible (kinds : List String) (applied : Nat) : Bool := (kinds.take applied).contains "d"
def labelLanded (kinds : List String) (applied : Nat) : Bool := (kinds.take applied).contains "l"

end Crash
