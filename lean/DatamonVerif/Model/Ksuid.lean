/-! KSUID (segmentio/ksuid v1.0.4) as a number (DESIGN §3.3).

A KSUID is 20 bytes: a 32-bit big-endian timestamp (seconds since the KSUID epoch
2014-05-13T16:53:20Z) followed by a 128-bit payload. Read as one 160-bit big-endian number it is
`ts * 2^128 + payload`; its string form is that number written with exactly 27 base-62 digits
over the alphabet `0-9A-Za-z` (ascending in ASCII).  The models use the NUMBER as the token; this
file defines the string rendering and `Props/C19.lean` proves that string order (what an object
store's listing sorts by) is numeric order. -/
namespace Ksuid

/-- payload modulus `2^128` -/
def P : Nat := 340282366920938463463374607431768211456
/-- timestamp modulus `2^32` -/
def T : Nat := 4294967296
/-- width of the string form -/
def width : Nat := 27

/-- the 160-bit number of a KSUID with timestamp `ts` and payload `nonce < P` -/
def mk (ts nonce : Nat) : Nat := ts * P + nonce
/-- `KSUID.Timestamp()` -/
def time (k : Nat) : Nat := k / P
/-- `KSUID.Payload()` as a number -/
def nonce (k : Nat) : Nat := k % P

/-- `w` big-endian base-`b` digits of `n` (for `n < b^w`). -/
def digits (b : Nat) : Nat → Nat → List Nat
  | 0, _ => []
  | w + 1, n => n / b ^ w :: digits b w (n % b ^ w)

def alphabet : List Char := "0123456789ABCDEFGHIJKLMNOPQRSTUVWXYZabcdefghijklmnopqrstuvwxyz".toList

def b62 (d : Nat) : Char := alphabet.getD d '0'

/-- `KSUID.String()`: 27 base-62 characters. -/
def render (k : Nat) : String := String.ofList ((digits 62 width k).map b62)

end Ksuid
