/-! Model of `pkg/cafs` (C01, C02, C03): the content-addressable store.

Parametric in the hash `H : HP → Bytes → Bytes` (`HP` = the BLAKE2b tree parameters datamon varies:
leaf size, node offset, node depth, last-node flag). The driver instantiates `H` with the Lean
BLAKE2b of `Model/Blake2b.lean`; the theorems hold for every `H`.

Mirrors: `writer.go` (`Write`, `flush`, `Flush`), `hasher.go` (`keyFromBytes`, `rootHash`,
`verifiedKeys`), `cafs.go` (`Put`), `check_blob.go` (`existsAndValidBlob`), `reader.go`
(`Read`, `ReadAt`, `WriteTo`, `verifyHash`). -/
namespace Cafs

abbrev Bytes := List UInt8

structure HP where
  leafSize : Nat
  off : Nat
  depth : Nat
  last : Bool
deriving DecidableEq, Repr

abbrev Hash := HP → Bytes → Bytes

def keySize : Nat := 64

/-! ### the on-disk layout (specification of the key) -/

/-- content split into leaves of `L` bytes; the last one may be short -/
def chunks (L : Nat) (c : Bytes) : List Bytes :=
  if h : c = [] ∨ L = 0 then [] else c.take L :: chunks L (c.drop L)
termination_by c.length
decreasing_by
  have hc : c ≠ [] := fun e => h (Or.inl e)
  have hL : L ≠ 0 := fun e => h (Or.inr e)
  have : 0 < c.length := List.length_pos_iff.mpr hc
  simp only [List.length_drop]; omega

/-- datamon's node-offset convention: leaf `i` (0-based) of `n` is hashed with offset `i+1`, not
    last — except a SHORT final leaf, hashed with offset `i` and the last-node flag. -/
def leafParams (L n i : Nat) (leaf : Bytes) : HP :=
  if i + 1 = n ∧ leaf.length ≠ L then ⟨L, i, 0, true⟩ else ⟨L, i + 1, 0, false⟩

def leafKeysFrom (H : Hash) (L n : Nat) : Nat → List Bytes → List Bytes
  | _, [] => []
  | i, c :: r => H (leafParams L n i c) c :: leafKeysFrom H L n (i + 1) r

def leafKeysOf (H : Hash) (L : Nat) (cs : List Bytes) : List Bytes := leafKeysFrom H L cs.length 0 cs

def rootParams (L : Nat) : HP := ⟨L, 0, 1, true⟩

def rootKey (H : Hash) (L : Nat) (ks : List Bytes) : Bytes := H (rootParams L) ks.flatten

/-- the key of a content: BLAKE2b tree-mode root over the leaves -/
def specKey (H : Hash) (L : Nat) (c : Bytes) : Bytes := rootKey H L (leafKeysOf H L (chunks L c))

/-! ### the writer -/

structure W where
  buf : Bytes            -- the leaf buffer (`w.buf[:w.offset]`)
  fulls : List Bytes     -- the full leaves flushed so far, in `count` order

def W.init : W := { buf := [], fulls := [] }

/-- `fsWriter.Write`: fill the leaf buffer, flush each full leaf. -/
def W.write (L : Nat) (w : W) (p : Bytes) : W :=
  if h : p = [] ∨ L ≤ w.buf.length then w else
    let room := L - w.buf.length
    let buf' := w.buf ++ p.take room
    if buf'.length = L then
      W.write L { buf := [], fulls := w.fulls ++ [buf'] } (p.drop room)
    else { w with buf := buf' }
termination_by p.length
decreasing_by
  simp only [not_or] at h
  have : 0 < p.length := List.length_pos_iff.mpr h.1
  simp [List.length_drop]; omega

/-- the leaves at `Flush`: the full ones, then the trailing partial leaf if any -/
def W.leaves (w : W) : List Bytes := w.fulls ++ (if w.buf = [] then [] else [w.buf])

/-- keys as the writer computes them: full leaf number `k` (1-based count) with offset `k`,
    the trailing partial leaf with offset `#fulls` and the last-node flag -/
def W.keys (H : Hash) (L : Nat) (w : W) : List Bytes :=
  (fullKeys 0 w.fulls) ++ (if w.buf = [] then [] else [H ⟨L, w.fulls.length, 0, true⟩ w.buf])
where
  fullKeys : Nat → List Bytes → List Bytes
    | _, [] => []
    | n, f :: fs => H ⟨L, n + 1, 0, false⟩ f :: fullKeys (n + 1) fs

/-- `Flush` assembles the keys of parallel leaf flushes by their count (1-based):
    `w.leaves[bf.count-1] = bf.key` over the completions in ANY arrival order. -/
def assemble (n : Nat) (done : List (Nat × Bytes)) : List Bytes :=
  (List.range n).map fun i => (done.lookup (i + 1)).getD []

/-! ### the blob store and `Put` -/

abbrev Store := List (Bytes × Bytes)   -- key ↦ blob; the first binding wins

def Store.get (s : Store) (k : Bytes) : Option Bytes := s.lookup k

/-- `writeBlob` through `existsAndValidBlob`: skip when present, non-empty and (on stores that
    report a CRC) identical; otherwise (over)write. -/
def writeBlob (crc : Bool) (s : Store) (k data : Bytes) : Store :=
  match s.get k with
  | some d => if d = [] ∨ (crc ∧ d ≠ data) then (k, data) :: s else s
  | none => (k, data) :: s

structure PutRes where
  key : Bytes
  keys : List Bytes
  written : Nat
  found : Bool

def writeBlobs (crc : Bool) : Store → List (Bytes × Bytes) → Store
  | s, [] => s
  | s, (k, d) :: r => writeBlobs crc (writeBlob crc s k d) r

/-- the store part of `Put`: leaf blobs, then the root blob `leafKeys ++ rootKey` -/
def putCore (H : Hash) (crc : Bool) (L : Nat) (s : Store) (ks leaves : List Bytes) (written : Nat) : Store × PutRes :=
  let s1 := writeBlobs crc s (ks.zip leaves)
  let root := rootKey H L ks
  let found := (s1.get root).isSome
  let s2 := writeBlob crc s1 root (ks.flatten ++ root)
  (s2, { key := root, keys := ks, written := written, found := found })

/-- `defaultFs.Put` given the source's write chunking -/
def put (H : Hash) (crc : Bool) (L : Nat) (s : Store) (writes : List Bytes) : Store × PutRes :=
  let w := writes.foldl (W.write L) W.init
  putCore H crc L s (w.keys H L) w.leaves (writes.map List.length).sum

/-- `Fs.Delete` (store part): the given keys in order; the first key the store does not hold ends
    it with an error, leaving what was deleted so far deleted -/
def deleteKeys : Store → List Bytes → Store × Bool
  | s, [] => (s, true)
  | s, k :: r => if (s.get k).isSome then deleteKeys (s.filter (·.1 != k)) r else (s, false)

/-! ### readers -/

inductive RErr where
  | notfound | corrupt | badroot
deriving DecidableEq, Repr

/-- fixed-size keys concatenated in a buffer (`leaves`) -/
def splitKeys : Nat → Bytes → Option (List Bytes)
  | 0, _ => some []
  | fuel + 1, b =>
    if b = [] then some []
    else if b.length < keySize then none
    else (splitKeys fuel (b.drop keySize)).map (b.take keySize :: ·)

/-- `verifiedKeys`: the buffer is a sequence of leaf keys followed by their root hash -/
def verifiedKeys (H : Hash) (L : Nat) (blob : Bytes) : Except RErr (List Bytes) :=
  if blob.length < keySize then .error .badroot else
  let body := blob.take (blob.length - keySize)
  let verify := blob.drop (blob.length - keySize)
  match splitKeys (body.length + 1) body with
  | none => .error .badroot
  | some ks => if rootKey H L ks = verify then .ok ks else .error .badroot

/-- the keys of an object (`reader()` → `LeavesForHash`) -/
def objectKeys (H : Hash) (L : Nat) (s : Store) (root : Bytes) : Except RErr (List Bytes) :=
  match s.get root with
  | none => .error .notfound
  | some blob => verifiedKeys H L blob

/-- fetch and (optionally) verify leaf `i` -/
def fetchLeaf (H : Hash) (verify : Bool) (L : Nat) (s : Store) (keys : List Bytes) (i : Nat) : Except RErr Bytes :=
  match keys[i]? with
  | none => .error .notfound
  | some k =>
    match s.get k with
    | none => .error .notfound
    | some b =>
      if verify && H (leafParams L keys.length i b) b != k then .error .corrupt else .ok b

/-- the `ReadAt` loop: copy from leaf `index` at `offset`, continue with the next leaves until
    the request is filled or the keys are exhausted -/
def readAtLoop (fetch : Nat → Except RErr Bytes) (nkeys : Nat) : Nat → Nat → Nat → Nat → Except RErr Bytes
  | 0, _, _, _ => .ok []
  | fuel + 1, index, offset, need =>
    match fetch index with
    | .error e => .error e
    | .ok leaf =>
      let piece := (leaf.drop offset).take need
      if piece.length = need ∨ index + 1 ≥ nkeys then .ok piece
      else
        match readAtLoop fetch nkeys fuel (index + 1) 0 (need - piece.length) with
        | .error e => .error e
        | .ok rest => .ok (piece ++ rest)

/-- `chunkReader.ReadAt(data[:n], off)` -/
def readAt (H : Hash) (verify : Bool) (L : Nat) (s : Store) (keys : List Bytes) (off n : Nat) : Except RErr Bytes :=
  if L = 0 then .ok [] else
  let index := off / L
  if index ≥ keys.length then .ok []
  else readAtLoop (fetchLeaf H verify L s keys) keys.length (keys.length - index) index (off % L) n

/-- the whole stream delivered by sequential `Read` calls run to completion: every leaf is
    verified when its blob reaches EOF, before the next leaf is opened; a failure ends the
    stream with an error (bytes of the damaged leaf may already have been handed out, the
    stream as a whole fails). -/
def readStream (H : Hash) (verify : Bool) (L : Nat) (s : Store) (keys : List Bytes) : Nat → Nat → Except RErr Bytes
  | 0, _ => .ok []
  | fuel + 1, i =>
    if i ≥ keys.length then .ok [] else
    match fetchLeaf H verify L s keys i with
    | .error e => .error e
    | .ok leaf =>
      match readStream H verify L s keys fuel (i + 1) with
      | .error e => .error e
      | .ok rest => .ok (leaf ++ rest)

def readAll (H : Hash) (verify : Bool) (L : Nat) (s : Store) (keys : List Bytes) : Except RErr Bytes :=
  readStream H verify L s keys keys.length 0

/-- `WriteTo` into an `io.WriterAt`: leaf `i` is (verified and) written at `i * L`.
    The destination is modelled as the list of (offset, bytes) writes applied in any order. -/
def writeToAt (H : Hash) (verify : Bool) (L : Nat) (s : Store) (keys : List Bytes) :
    Nat → Nat → Except RErr (List (Nat × Bytes))
  | 0, _ => .ok []
  | fuel + 1, i =>
    if i ≥ keys.length then .ok [] else
    match fetchLeaf H verify L s keys i with
    | .error e => .error e
    | .ok leaf =>
      match writeToAt H verify L s keys fuel (i + 1) with
      | .error e => .error e
      | .ok rest => .ok ((i * L, leaf) :: rest)

/-- `defaultFs.Delete`: the leaf blobs of the object (read from its root blob) in key order, then
    the root blob -/
def delete (H : Hash) (L : Nat) (s : Store) (root : Bytes) : Store × Bool :=
  match objectKeys H L s root with
  | .error _ => (s, false)
  | .ok keys => deleteKeys s (keys ++ [root])

end Cafs
