import DatamonVerif.Model.Cafs
/-! The sequential `chunkReader.Read(data)` of `pkg/cafs/reader.go` as a state machine (C01, C03).

State mirrored: `r.idx`, `r.rdr != nil`, `len(r.currLeaf)` (= bytes consumed from the open blob),
`r.lastChunk`, `r.readSoFar`. The blob reader returned by the store's `Get` is a parameter
(`RMode`): datamon's stores hand back `bytes.Reader`-like, `os.File`-like and HTTP-body-like
readers, which differ in when they report `io.EOF` and may deliver short reads; the theorems
hold for every mode. -/
namespace Cafs

/-- behaviour of the `io.Reader` a store returns for a blob -/
structure RMode where
  eofOnEmpty : Bool   -- zero-length read at the end of the blob: `(0, io.EOF)` (bytes.Reader) or `(0, nil)` (os.File)
  eager : Bool        -- the read delivering the last bytes reports `io.EOF` with them
  cap : Nat           -- 0: reads are never short; k > 0: at most k bytes per read
deriving DecidableEq, Repr

/-- one `rdr.Read(data[readSoFar:])` on blob `b` at position `pos` with `room` bytes free: `(n, eof)` -/
def innerRead (m : RMode) (b : Bytes) (pos room : Nat) : Nat × Bool :=
  let avail := b.length - pos
  if avail = 0 then (0, room != 0 || m.eofOnEmpty)
  else
    let n := min (min room avail) (if m.cap = 0 then room else m.cap)
    (n, m.eager && n == avail)

structure SR where
  idx : Nat
  opened : Bool
  pos : Nat
  last : Bool
  sofar : Nat
deriving DecidableEq, Repr

def SR.init : SR := { idx := 0, opened := false, pos := 0, last := false, sofar := 0 }

inductive ROut where
  | ok | eof
  | err (e : RErr)
  | panic          -- `r.keys[r.idx]` out of range
  | fuel           -- the model's loop bound was hit (shown unreachable)
deriving DecidableEq, Repr

/-- the `for` loop of `Read`; `acc` is `data[:readSoFar]`, `want` is `len(data)` -/
def SR.loop (m : RMode) (H : Hash) (verify : Bool) (L : Nat) (s : Store) (keys : List Bytes) (want : Nat) :
    Nat → SR → Bytes → SR × Bytes × ROut
  | 0, st, acc => (st, acc, .fuel)
  | fuel + 1, st, acc =>
    match keys[st.idx]? with
    | none => (st, acc, .panic)
    | some key =>
      match s.get key with
      | none => (st, acc, .err .notfound)          -- `return r.readSoFar, err`
      | some b =>
        let r := innerRead m b st.pos (want - st.sofar)
        let n := r.1
        let acc' := acc ++ (b.drop st.pos).take n
        if r.2 then
          -- end of this blob: verify what was accumulated, move to the next key
          let cur := b.take (st.pos + n)
          let last' := st.idx + 1 == keys.length
          if verify && H (leafParams L keys.length st.idx cur) cur != key then
            ({ idx := st.idx + 1, opened := false, pos := st.pos + n, last := last', sofar := st.sofar + n }, [], .err .corrupt)
          else if last' then
            ({ idx := st.idx + 1, opened := false, pos := st.pos + n, last := true, sofar := st.sofar + n }, acc',
              if n == want then .ok else .eof)
          else
            SR.loop m H verify L s keys want fuel
              { idx := st.idx + 1, opened := false, pos := 0, last := false, sofar := st.sofar + n } acc'
        else if st.sofar + n ≥ want then
          ({ st with opened := true, pos := st.pos + n, sofar := 0 }, acc', .ok)
        else
          SR.loop m H verify L s keys want fuel { st with opened := true, pos := st.pos + n, sofar := st.sofar + n } acc'

/-- `chunkReader.Read(data)` with `len(data) = want`, on a fresh zeroed buffer -/
def SR.read (m : RMode) (H : Hash) (verify : Bool) (L : Nat) (s : Store) (keys : List Bytes) (want : Nat) (st : SR) :
    SR × Bytes × ROut :=
  if (st.last || keys.length == 0) && !st.opened then (st, [], .eof)
  else SR.loop m H verify L s keys want (want + 2 * keys.length + 2) st (List.replicate st.sofar 0)

/-- a caller's read loop: one `Read` per buffer size, until the first result other than `nil` -/
def readSeq (m : RMode) (H : Hash) (verify : Bool) (L : Nat) (s : Store) (keys : List Bytes) :
    List Nat → SR → Bytes × ROut
  | [], _ => ([], .ok)
  | w :: ws, st =>
    match SR.read m H verify L s keys w st with
    | (st', out, .ok) =>
      let r := readSeq m H verify L s keys ws st'
      (out ++ r.1, r.2)
    | (_, out, r) => (out, r)

end Cafs
