/-! The read-concurrency slots of the WAL (`pkg/wal/wal.go`: `connectionControl`, `getConnection`,
`releaseConnection`, `issueParallelReads`, `read`). A slot is taken by the issuer before a read is
started and given back by the read when it ends — on every path (C19: "a listing returns the
appended entries", also after any number of failed reads: slots that leak starve later listings). -/
namespace WalSlots

/-- how a read ends -/
inductive Outcome where
  | ok | getFailed | readFailed
deriving DecidableEq, Repr

/-- the events of a WAL object's life, in the order they take effect -/
inductive Ev where
  | issue                 -- `getConnection()` then `go w.read(...)`
  | finish (o : Outcome)  -- the read returns
deriving DecidableEq, Repr

structure St where
  cap : Nat
  used : Nat       -- slots taken
  running : Nat    -- reads in flight
deriving DecidableEq, Repr

/-- `releases o`: does a read ending with `o` give its slot back? (`defer w.releaseConnection()` at
    the top of `read`: always) -/
def step (releases : Outcome → Bool) (s : St) : Ev → Option St
  | .issue => if s.used < s.cap then some { s with used := s.used + 1, running := s.running + 1 } else none  -- blocks
  | .finish o =>
    if s.running = 0 then none
    else some { s with running := s.running - 1, used := if releases o then s.used - 1 else s.used }

def run (releases : Outcome → Bool) : St → List Ev → Option St
  | s, [] => some s
  | s, e :: es => match step releases s e with
    | none => none
    | some s' => run releases s' es

/-- the code: every outcome releases -/
def always : Outcome → Bool := fun _ => true

/-- a read that gives its slot back only once it got a reader (release deferred after the `Get`) -/
def afterGetOnly : Outcome → Bool
  | .getFailed => false
  | _ => true

end WalSlots
