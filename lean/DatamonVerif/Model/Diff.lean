/-! Model of bundle diff and in-place update (C05): `pkg/core/bundle_diff.go` (`diffBundles`),
`pkg/core/bundle.go` (`Diff`, `Update`) and `pkg/core/bundle_unpack.go`
(`downloadBundleEntries` with a destination bundle, `unpackDataFiles`' metadata rewrite,
`getConsumableStoreMetadataKeysInfo`, `setBundleIDFromConsumableStore`) together with the
consumable-store path conventions of `pkg/model/bundle.go` (`metaRe`, `flRe`,
`GetConsumablePathToBundle*`).

Go maps and object stores are association lists with unique keys; the order of a list stands for
one possible iteration / listing order (the theorems quantify over all of them). File contents
are abstract: a function from content keys (hashes) to bytes of an arbitrary type `β`. -/
namespace BundleDiff

/-- `model.BundleEntry` (the fields the code under study reads) -/
structure Entry where
  path : String
  hash : String
  size : Nat
deriving DecidableEq, Repr, Inhabited

/-- the Go zero value, left in `Existing` / `Additional` when there is no such entry -/
def Entry.zero : Entry := ⟨"", "", 0⟩

/-- `DiffEntryTypeAdd | DiffEntryTypeDel | DiffEntryTypeDif` -/
inductive Kind where
  | add | del | dif
deriving DecidableEq, Repr

structure DiffEntry where
  kind : Kind
  name : String
  existing : Entry
  additional : Entry
deriving DecidableEq, Repr

/-! ## string-keyed maps -/
section Maps
variable {α : Type}

/-- `m[k]` -/
def get : List (String × α) → String → Option α
  | [], _ => none
  | (k', v) :: r, k => if k' = k then some v else get r k

/-- `m[k] = v` (an existing key keeps its place, a new key goes to the end) -/
def set : List (String × α) → String → α → List (String × α)
  | [], k, v => [(k, v)]
  | (k', v') :: r, k, v => if k' = k then (k, v) :: r else (k', v') :: set r k v

/-- `delete(m, k)` -/
def erase : List (String × α) → String → List (String × α)
  | [], _ => []
  | (k', v) :: r, k => if k' = k then erase r k else (k', v) :: erase r k

def keys (m : List (String × α)) : List String := m.map (·.1)

end Maps

/-! ## `diffBundles` -/

/-- `for _, e := range bundle.BundleEntries { m[e.NameWithPath] = e }`: the last entry of a path wins -/
def mapOf (es : List Entry) : List (String × Entry) :=
  es.foldl (fun m e => set m e.path e) []

/-- the entry a bundle holds for a path -/
def entryAt (es : List Entry) (p : String) : Option Entry := get (mapOf es) p

/-- body of the first loop: an existing entry is deleted, differs (by hash) or is unchanged -/
def delOrDif (mA : List (String × Entry)) (ne : String × Entry) : Option DiffEntry :=
  match get mA ne.1 with
  | some a => if a.hash != ne.2.hash then some ⟨.dif, ne.1, ne.2, a⟩ else none
  | none => some ⟨.del, ne.1, ne.2, Entry.zero⟩

/-- body of the second loop: an additional entry without existing counterpart is added -/
def addOnly (mE : List (String × Entry)) (na : String × Entry) : Option DiffEntry :=
  match get mE na.1 with
  | some _ => none
  | none => some ⟨.add, na.1, Entry.zero, na.2⟩

/-- the two loops over the two maps, iterated in the order of the lists -/
def diffMaps (mE mA : List (String × Entry)) : List DiffEntry :=
  mE.filterMap (delOrDif mA) ++ mA.filterMap (addOnly mE)

/-- `diffBundles(existing, additional)` -/
def diffBundles (existing additional : List Entry) : List DiffEntry :=
  diffMaps (mapOf existing) (mapOf additional)

/-! ## the consumable store and the data part of `Update` -/

/-- an object store: key ↦ bytes -/
abbrev Store (β : Type) := List (String × β)

section Update
variable {β : Type}

/-- `Put(key, …, NoOverWrite)`: fails when the key exists -/
def put (s : Store β) (k : String) (v : β) : Option (Store β) :=
  if (get s k).isSome then none else some (s ++ [(k, v)])

/-- `Delete(key)` with object-store semantics: fails when the key is missing
    (localfs tolerates a missing key; the theorems show the key is present, so both agree) -/
def delete (s : Store β) (k : String) : Option (Store β) :=
  if (get s k).isSome then some (erase s k) else none

/-- the `switch de.Type` of `downloadBundleEntries`: `downloadBundleEntry(de.Additional)`,
    `deleteBundleEntry(de.Existing)`, `downloadBundleEntryOverwrite(de.Additional)` (= delete, then put) -/
def applyEntry (content : String → β) (s : Store β) (d : DiffEntry) : Option (Store β) :=
  match d.kind with
  | .add => put s d.additional.path (content d.additional.hash)
  | .del => delete s d.existing.path
  | .dif => (delete s d.additional.path).bind fun s' => put s' d.additional.path (content d.additional.hash)

/-- the diff entries are applied one after the other (the goroutines of the Go code work on
    pairwise distinct keys; the theorems hold for every order) -/
def applyDiff (content : String → β) : Store β → List DiffEntry → Option (Store β)
  | s, [] => some s
  | s, d :: r =>
    match applyEntry content s d with
    | none => none
    | some s' => applyDiff content s' r

end Update

/-! ## consumable-store metadata paths -/

def metaPrefix : String := ".datamon/"
def metaSuffix : String := ".yaml"
def fileListInfix : String := "-bundle-files-"

/-- `GetConsumablePathToBundle` -/
def descKey (id : String) : String := metaPrefix ++ id ++ metaSuffix
/-- `GetConsumablePathToBundleFileList` -/
def listKey (id : String) (i : Nat) : String := metaPrefix ++ id ++ fileListInfix ++ toString i ++ metaSuffix

def stripPre : List Char → List Char → Option (List Char)
  | [], l => some l
  | _ :: _, [] => none
  | a :: p, b :: l => if a = b then stripPre p l else none

def stripSuf (p l : List Char) : Option (List Char) :=
  (stripPre p.reverse l.reverse).map List.reverse

/-- the part of `l` before the first occurrence of `sep` -/
def beforeFirst (sep : List Char) : List Char → Option (List Char)
  | [] => if sep = [] then some [] else none
  | c :: r =>
    if (stripPre sep (c :: r)).isSome then some []
    else (beforeFirst sep r).map (c :: ·)

/-- the part of `l` after the last occurrence of `sep` (group 2 of the greedy `^(.*)sep(.*)$`) -/
def afterLast (sep l : List Char) : Option (List Char) :=
  (beforeFirst sep.reverse l.reverse).map List.reverse

/-- group 1 of `metaRe = ^\.datamon/(.*)\.yaml$` (`.` does not match a newline) -/
def metaName (p : String) : Option (List Char) :=
  match stripPre metaPrefix.toList p.toList with
  | none => none
  | some r =>
    match stripSuf metaSuffix.toList r with
    | none => none
    | some mid => if '\n' ∈ mid then none else some mid

/-- `strconv.Atoi` succeeds: optional sign, at least one decimal digit, 64-bit range -/
def atoiOk (l : List Char) : Bool :=
  let neg := l.head? == some '-'
  let ds := if l.head? == some '-' || l.head? == some '+' then l.tail else l
  !ds.isEmpty && ds.all Char.isDigit &&
    (Nat.ofDigitChars 10 ds 0 < 2 ^ 63 || (neg && Nat.ofDigitChars 10 ds 0 == 2 ^ 63))

inductive PathClass where
  | data        -- not a metadata path (`ConsumableStorePathMetadataErr`)
  | descriptor
  | fileList
  | bad         -- a file-list name whose index does not parse (any other error)
deriving DecidableEq, Repr

/-- `model.GetConsumableStorePathMetadata`, reduced to the type of the path -/
def classify (p : String) : PathClass :=
  match metaName p with
  | none => .data
  | some mid =>
    match afterLast fileListInfix.toList mid with
    | none => .descriptor
    | some idx => if atoiOk idx then .fileList else .bad

/-- the bundle id carried by a descriptor path -/
def descriptorId (p : String) : Option String :=
  match metaName p with
  | none => none
  | some mid => if (afterLast fileListInfix.toList mid).isNone then some (String.ofList mid) else none

/-- `setBundleIDFromConsumableStore` (after `fix: … bundle id detection …`): the id of the first
    descriptor in listing order; data files are skipped; a malformed file-list name aborts -/
def localBundleId : List String → Option String
  | [] => none
  | k :: r =>
    match classify k with
    | .descriptor => descriptorId k
    | .bad => none
    | _ => localBundleId r

/-- the same function before the fix: any path that is not a metadata path aborted the scan -/
def localBundleIdUnfixed : List String → Option String
  | [] => none
  | k :: r =>
    match classify k with
    | .descriptor => descriptorId k
    | .fileList => localBundleIdUnfixed r
    | _ => none

/-- `getConsumableStoreMetadataKeysInfo`: the descriptor (exactly one) and the file lists among the keys -/
def scanMeta (ks : List String) : Option (String × List String) :=
  if ks.any (fun k => classify k == .bad) then none
  else
    match ks.filter (fun k => classify k == .descriptor) with
    | [d] => some (d, ks.filter (fun k => classify k == .fileList))
    | _ => none

/-- archive metadata of a bundle: its id, the descriptor object and the file-list objects (by index) -/
structure BundleMeta (β : Type) where
  id : String
  desc : β
  lists : List β

section Meta
variable {β : Type}

def listFiles (id : String) : Nat → List β → List (String × β)
  | _, [] => []
  | i, b :: r => (listKey id i, b) :: listFiles id (i + 1) r

/-- the `.datamon/` files a download writes -/
def metaFiles (m : BundleMeta β) : List (String × β) :=
  (descKey m.id, m.desc) :: listFiles m.id 0 m.lists

def deleteAll : Store β → List String → Option (Store β)
  | s, [] => some s
  | s, k :: r =>
    match delete s k with
    | none => none
    | some s' => deleteAll s' r

def putAll : Store β → List (String × β) → Option (Store β)
  | s, [] => some s
  | s, (k, v) :: r =>
    match put s k v with
    | none => none
    | some s' => putAll s' r

/-- "rewrite destination bundle metadata" of `unpackDataFiles`: delete the old descriptor and
    file lists, then `PublishMetadata` of the source bundle (`ReadTee` puts with `NoOverWrite`) -/
def rewriteMeta (s : Store β) (target : BundleMeta β) : Option (Store β) :=
  match scanMeta (keys s) with
  | none => none
  | some (d, fls) =>
    (delete s d).bind fun s1 => (deleteAll s1 fls).bind fun s2 => putAll s2 (metaFiles target)

/-- `core.Update(bundleSrc = target, bundleDest = local copy)`: `existing` is the entry list the
    local metadata denotes, the diff entries are applied in the order `ds` -/
def updateWith (content : String → β) (target : BundleMeta β) (local_ : Store β) (ds : List DiffEntry) :
    Option (Store β) :=
  (applyDiff content local_ ds).bind fun s => rewriteMeta s target

def update (content : String → β) (existing additional : List Entry) (target : BundleMeta β)
    (local_ : Store β) : Option (Store β) :=
  updateWith content target local_ (diffBundles existing additional)

/-- data files of a download (`core.Publish`) of a bundle with pairwise distinct paths -/
def filesOf (content : String → β) (es : List Entry) : Store β :=
  es.map fun e => (e.path, content e.hash)

/-- what a fresh download leaves in an empty destination -/
def download (content : String → β) (es : List Entry) (m : BundleMeta β) : Store β :=
  filesOf content es ++ metaFiles m

end Meta

/-! ## `pkg/storage/localfs` as the destination: keys are files below directories

Only what matters for the recorded finding `C05-localfs-dir-file`: `Put` makes the parent
directories (`MkdirAll`) and creates the file with `O_EXCL`; `Delete` unlinks the file, tolerates
a missing one, and leaves the directories behind. -/

/-- `d` is a directory above the key `p` -/
def isDirOf (d p : String) : Bool := (stripPre (d.toList ++ ['/']) p.toList).isSome

/-- the directories above a key (`MkdirAll(filepath.Dir(key))`): `a/b/c ↦ [a, a/b]` -/
def parents (p : String) : List String :=
  ((List.range p.toList.length).map fun i => String.ofList (p.toList.take i)).filter (isDirOf · p)

structure Fs (β : Type) where
  files : Store β
  dirs : List String

section Fs
variable {β : Type}

def fsPut (fs : Fs β) (k : String) (v : β) : Option (Fs β) :=
  if (parents k).any (fun d => (get fs.files d).isSome) then none   -- MkdirAll: a parent is a file
  else if k ∈ fs.dirs then none                                      -- the key is a directory
  else if (get fs.files k).isSome then none                          -- O_EXCL
  else some ⟨fs.files ++ [(k, v)], fs.dirs ++ (parents k).filter (fun d => d ∉ fs.dirs)⟩

def fsDelete (fs : Fs β) (k : String) : Fs β := ⟨erase fs.files k, fs.dirs⟩

def fsApplyEntry (content : String → β) (fs : Fs β) (d : DiffEntry) : Option (Fs β) :=
  match d.kind with
  | .add => fsPut fs d.additional.path (content d.additional.hash)
  | .del => some (fsDelete fs d.existing.path)
  | .dif => fsPut (fsDelete fs d.additional.path) d.additional.path (content d.additional.hash)

def fsApplyDiff (content : String → β) : Fs β → List DiffEntry → Option (Fs β)
  | fs, [] => some fs
  | fs, d :: r =>
    match fsApplyEntry content fs d with
    | none => none
    | some fs' => fsApplyDiff content fs' r

def fsDeleteAll (fs : Fs β) (ks : List String) : Fs β := ks.foldl fsDelete fs

def fsPutAll : Fs β → List (String × β) → Option (Fs β)
  | fs, [] => some fs
  | fs, (k, v) :: r =>
    match fsPut fs k v with
    | none => none
    | some fs' => fsPutAll fs' r

/-- `Update` with a localfs destination -/
def fsUpdateWith (content : String → β) (target : BundleMeta β) (fs : Fs β) (ds : List DiffEntry) :
    Option (Fs β) :=
  (fsApplyDiff content fs ds).bind fun fs1 =>
    match scanMeta (keys fs1.files) with
    | none => none
    | some (d, fls) => fsPutAll (fsDeleteAll (fsDelete fs1 d) fls) (metaFiles target)

/-- a download into an empty directory -/
def fsDownload (content : String → β) : Fs β → List Entry → Option (Fs β)
  | fs, [] => some fs
  | fs, e :: r =>
    match fsPut fs e.path (content e.hash) with
    | none => none
    | some fs' => fsDownload content fs' r

end Fs

/-! ## the region of the recorded finding `C05-localfs-dir-file` -/

/-- some path of one bundle is a directory of a path of the other one (file ↔ directory change) -/
def dirFileConflict (a b : List Entry) : Bool :=
  a.any fun e => b.any fun f => isDirOf e.path f.path || isDirOf f.path e.path

end BundleDiff
