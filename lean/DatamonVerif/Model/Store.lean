/-! The object store contract (`pkg/storage/store.go`), as a small executable model.

This is the contract datamon is written against (GCS semantics) and the one the Go reference
store `harness/internal/memstore` implements:

* the state is an association list `Store α` kept sorted by key with distinct keys (`WF`,
  preserved by every operation — theorem `C16_wf_step` in `Props/C16.lean`);
* `put k v noOverwrite` is one atomic step; it answers `exist` when `noOverwrite` and the key is present;
* `get` of a missing key is `none` (= `notfound`); `has`; `delete` of a missing key is `notfound`
  (GCS, memstore) or `ok` (localfs, `memstore.DeleteMissingOK`) — parameter `missingOk`;
* `keysPrefix token prefix delim count` = the keys starting with `prefix`, rolled up after the first
  `delim` found behind the prefix, each once, in lexicographic order (`listing`), from the first
  item `≥ token`, at most `count`, and `next` = the first item not returned or `""` (`page`);
* `fetchPages` is the loop every caller runs (`pkg/core/keys.go: fetchKeys`): follow `next` from
  `""` until a page is empty or `next = ""`.

Values are a parameter (`α`): bytes for C16, richer objects elsewhere. Core Lean only. -/
namespace Store

abbrev Bytes := List UInt8

/-- association list, sorted by key, keys distinct (see `WF`) -/
abbrev Store (α : Type) := List (String × α)

variable {α : Type}

/-- keys strictly increasing: sorted and distinct -/
def WF (s : Store α) : Prop := s.Pairwise (fun a b => a.1 < b.1)

def lookup (k : String) : Store α → Option α
  | [] => none
  | (k', v) :: r => if k = k' then some v else lookup k r

def insert (k : String) (v : α) : Store α → Store α
  | [] => [(k, v)]
  | (k', v') :: r =>
    if k < k' then (k, v) :: (k', v') :: r
    else if k = k' then (k, v) :: r
    else (k', v') :: insert k v r

def erase (k : String) : Store α → Store α
  | [] => []
  | (k', v') :: r => if k = k' then r else (k', v') :: erase k r

def keys (s : Store α) : List String := s.map (·.1)

inductive Status
  | ok | exist | notfound | err
  deriving DecidableEq, Repr

/-- `Put(key, value, noOverwrite)`: one atomic step -/
def put (s : Store α) (k : String) (v : α) (noOverwrite : Bool) : Store α × Status :=
  if noOverwrite && (lookup k s).isSome then (s, .exist) else (insert k v s, .ok)

def get (s : Store α) (k : String) : Option α := lookup k s

def has (s : Store α) (k : String) : Bool := (lookup k s).isSome

/-- `Delete(key)`; `missingOk` selects what a missing key answers (`ok`: localfs, `notfound`: GCS) -/
def delete (missingOk : Bool) (s : Store α) (k : String) : Store α × Status :=
  if (lookup k s).isSome then (erase k s, .ok)
  else (s, if missingOk then .ok else .notfound)

/-! ### listings -/

def hasPrefix (pfx key : String) : Bool := pfx.toList.isPrefixOf key.toList

/-- the shortest prefix of `l` that ends with `d` (`strings.Index` + cut after the delimiter) -/
def cutAfter (d : List Char) : List Char → Option (List Char)
  | [] => none
  | c :: r => if d.isPrefixOf (c :: r) then some d else (cutAfter d r).map (c :: ·)

/-- what a key with the prefix is listed as: itself, or the prefix plus everything up to and
    including the first delimiter found after the prefix -/
def rollup (pfx delim key : String) : String :=
  if delim = "" then key
  else match cutAfter delim.toList (key.toList.drop pfx.length) with
    | some h => pfx ++ String.ofList h
    | none => key

/-- insertion into a strictly increasing list (no duplicates) -/
def sinsert (x : String) : List String → List String
  | [] => [x]
  | y :: r => if x < y then x :: y :: r else if x = y then y :: r else y :: sinsert x r

/-- `sort.Strings` after de-duplication -/
def sortDedup (l : List String) : List String := l.foldr sinsert []

/-- the full listing computed from the keys in ANY order (e.g. the order of a directory walk) -/
def listingOf (pfx delim : String) (ks : List String) : List String :=
  sortDedup ((ks.filter (hasPrefix pfx)).map (rollup pfx delim))

def listing (s : Store α) (pfx delim : String) : List String := listingOf pfx delim (keys s)

/-- one page: the items `≥ token`, at most `count`, and the first item not returned (or `""`) -/
def page (items : List String) (token : String) (count : Nat) : List String × String :=
  let rest := items.filter (fun k => decide (token ≤ k))
  (rest.take count, (rest.drop count).headD "")

def keysPrefix (s : Store α) (token pfx delim : String) (count : Nat) : List String × String :=
  page (listing s pfx delim) token count

/-- the caller's loop (`fetchKeys`): pages obtained by following `next`, starting at `tok` -/
def fetchPages (items : List String) (count : Nat) : Nat → String → List (List String)
  | 0, _ => []
  | fuel + 1, tok =>
    let r := page items tok count
    if r.1 = [] then [] else if r.2 = "" then [r.1] else r.1 :: fetchPages items count fuel r.2

/-- all pages of a listing, from the empty token -/
def allPages (s : Store α) (pfx delim : String) (count : Nat) : List (List String) :=
  let items := listing s pfx delim
  fetchPages items count (items.length + 1) ""

/-! ### histories -/

inductive Op (α : Type)
  | put (k : String) (v : α) (noOverwrite : Bool)
  | get (k : String)
  | has (k : String)
  | delete (k : String)

def Op.key : Op α → String
  | .put k _ _ => k
  | .get k => k
  | .has k => k
  | .delete k => k

inductive Out (α : Type)
  | status (s : Status)
  | value (v : Option α)
  | bool (b : Bool)
  deriving DecidableEq

def step (missingOk : Bool) (s : Store α) : Op α → Store α × Out α
  | .put k v x => let r := put s k v x; (r.1, .status r.2)
  | .get k => (s, .value (get s k))
  | .has k => (s, .bool (has s k))
  | .delete k => let r := delete missingOk s k; (r.1, .status r.2)

def run (missingOk : Bool) (s : Store α) : List (Op α) → Store α × List (Out α)
  | [] => (s, [])
  | op :: rest =>
    let r := step missingOk s op
    let q := run missingOk r.1 rest
    (q.1, r.2 :: q.2)

/-! ### concurrent create-if-absent writers

Each writer does ONE exclusive `put` to the same key; the put is one atomic step (for localfs
this is `open(O_CREAT|O_EXCL)`, whose atomicity is the operating system's and is trusted), so an
execution is the list of writers in the order their steps take effect. -/
def race (k : String) (val : Nat → α) (s : Store α) : List Nat → Store α × List (Nat × Status)
  | [] => (s, [])
  | w :: rest =>
    let r := put s k (val w) true
    let q := race k val r.1 rest
    (q.1, (w, r.2) :: q.2)

/-- the judge of a race outcome as the harness observes it: `res[i]` is what writer `i` got,
    `stored` is the writer whose bytes are in the store afterwards -/
def validOutcome (res : List Status) (stored : Option Nat) : Bool :=
  match stored with
  | none => false
  | some w => decide (w < res.length) &&
      (List.range res.length).all fun i => res[i]? == some (if i = w then Status.ok else Status.exist)

end Store
