/-! Reference model for C18: what a mutable mount must answer — a POSIX directory tree seen through
the FUSE operation interface (`fuseutil.FileSystem`: inode-addressed operations, lookup counts).

`PosixTree` is a finite map from paths to nodes (directories and byte files). Every node has an
inode number (never reused by the model) and the number of lookup references the kernel holds
(`nl`); a node that was unlinked while the kernel still references it stays accessible by inode
(`orph`) until it is forgotten — the POSIX "unlinked but open" rule in FUSE terms.

`step` gives, for each operation of `pkg/fuse/fs_rw_ops.go` that the property names, the new tree and
the answer: an errno or the entry kind / size / inode / bytes / directory entries.
`commitWalk` mirrors `commitUploadDir` (recursive walk from the root over directory listings).

Core Lean only. -/
namespace FuseRW

abbrev Bytes := List UInt8
abbrev Path := List String

inductive Kind
  | dir
  | file
deriving DecidableEq, Repr, Inhabited

inductive Errno
  | noent
  | exist
  | notdir
  | isdir
  | notempty
  | inval
deriving DecidableEq, Repr

structure Entry where
  /-- components from the root; `[]` is the root directory -/
  path : Path
  ino : Nat
  kind : Kind
  /-- file bytes (`[]` for directories) -/
  data : Bytes
  /-- lookup references held by the kernel -/
  nl : Nat
deriving DecidableEq, Repr

structure PosixTree where
  /-- the visible tree: linked nodes, root included -/
  ents : List Entry
  /-- unlinked nodes the kernel still references (their `path` is meaningless) -/
  orph : List Entry
  /-- next fresh inode number -/
  next : Nat
deriving Repr

def rootIno : Nat := 1

def init : PosixTree :=
  { ents := [{ path := [], ino := rootIno, kind := .dir, data := [], nl := 1 }], orph := [], next := rootIno + 1 }

inductive Op
  | create (p : Nat) (name : String)
  | mkdir (p : Nat) (name : String)
  | lookup (p : Nat) (name : String)
  | getattr (i : Nat)
  | write (i : Nat) (off : Nat) (data : Bytes)
  | trunc (i : Nat) (size : Nat)
  | read (i : Nat) (off len : Nat)
  | readdir (i : Nat)
  | rename (p : Nat) (n : String) (q : Nat) (m : String)
  | unlink (p : Nat) (n : String)
  | rmdir (p : Nat) (n : String)
  | forget (i : Nat) (k : Nat)
deriving Repr

inductive Result
  | err (e : Errno)
  /-- create / mkdir / lookup: the child entry -/
  | entry (kind : Kind) (ino : Nat) (size : Nat)
  /-- getattr / write / truncate: attributes of the inode -/
  | attr (kind : Kind) (size : Nat)
  | bytes (b : Bytes)
  /-- name, kind, inode and whether the kernel holds a reference, in table order -/
  | dirents (l : List (String × Kind × Nat × Bool))
  | done
deriving Repr, DecidableEq

/-! ### bytes -/

def zeros (n : Nat) : Bytes := List.replicate n 0

/-- `pwrite`: bytes between the old end and `off` read as zero; an empty write changes nothing -/
def writeAt (old : Bytes) (off : Nat) (d : Bytes) : Bytes :=
  if d.isEmpty then old else
  let base := old ++ zeros (off - old.length)
  base.take off ++ d ++ base.drop (off + d.length)

/-- `ftruncate` -/
def truncTo (old : Bytes) (n : Nat) : Bytes := old.take n ++ zeros (n - old.length)

/-- `pread` -/
def readAt (old : Bytes) (off len : Nat) : Bytes := (old.drop off).take len

/-! ### table lookups -/

def findPath (l : List Entry) (p : Path) : Option Entry := l.find? (fun e => e.path == p)
def findIno (l : List Entry) (i : Nat) : Option Entry := l.find? (fun e => e.ino == i)

/-- `c` names an entry directly inside the directory `p` -/
def isChild (c p : Path) : Bool := c != [] && c.dropLast == p

def childrenOf (l : List Entry) (p : Path) : List Entry := l.filter (fun e => isChild e.path p)

def hasChildren (l : List Entry) (p : Path) : Bool := l.any (fun e => isChild e.path p)

/-- the node an inode number designates: linked or orphaned -/
def node (t : PosixTree) (i : Nat) : Option Entry :=
  match findIno t.ents i with
  | some e => some e
  | none => findIno t.orph i

/-- Resolve a parent argument: the path of a live directory, or the errno POSIX gives
    (`ENOTDIR` for a file, `ENOENT` for a removed directory or an unknown inode). -/
def parentDir (t : PosixTree) (p : Nat) : Except Errno Path :=
  match findIno t.ents p with
  | some e => if e.kind = .dir then .ok e.path else .error .notdir
  | none =>
    match findIno t.orph p with
    | some e => if e.kind = .dir then .error .noent else .error .notdir
    | none => .error .noent

def sizeOf (e : Entry) : Nat := e.data.length

/-- apply `f` to the node with inode `i`, wherever it is -/
def updIno (l : List Entry) (i : Nat) (f : Entry → Entry) : List Entry :=
  l.map (fun e => if e.ino == i then f e else e)

def setData (e : Entry) (d : Bytes) : Entry := { e with data := d }
def addNl (k : Nat) (e : Entry) : Entry := { e with nl := e.nl + k }
def subNl (k : Nat) (e : Entry) : Entry := { e with nl := e.nl - k }

/-- remove the linked entry at `tp`; it stays reachable by inode while the kernel references it -/
def unlinkAt (t : PosixTree) (tp : Path) (e : Entry) : PosixTree :=
  { t with ents := t.ents.filter (fun x => x.path != tp),
           orph := if e.nl = 0 then t.orph else e :: t.orph }

/-- path of an entry after `src` became `dst` -/
def reroot (src dst p : Path) : Path := if src.isPrefixOf p then dst ++ p.drop src.length else p

def moveEnt (src dst : Path) (e : Entry) : Entry := { e with path := reroot src dst e.path }

def mkEntry (t : PosixTree) (p : Nat) (name : String) (k : Kind) : PosixTree × Result :=
  match parentDir t p with
  | .error e => (t, .err e)
  | .ok pp =>
    match findPath t.ents (pp ++ [name]) with
    | some _ => (t, .err .exist)
    | none =>
      ({ t with ents := t.ents ++ [{ path := pp ++ [name], ino := t.next, kind := k, data := [], nl := 1 }],
                next := t.next + 1 },
       .entry k t.next 0)

def doRename (t : PosixTree) (p : Nat) (n : String) (q : Nat) (m : String) : PosixTree × Result :=
  match parentDir t p with
  | .error e => (t, .err e)
  | .ok pp =>
    match parentDir t q with
    | .error e => (t, .err e)
    | .ok qp =>
      let src := pp ++ [n]
      let dst := qp ++ [m]
      match findPath t.ents src with
      | none => (t, .err .noent)
      | some se =>
        if src = dst then (t, .done)
        else if se.kind = .dir ∧ src.isPrefixOf dst then (t, .err .inval)
        else
          match findPath t.ents dst with
          | none => ({ t with ents := t.ents.map (moveEnt src dst) }, .done)
          | some de =>
            if se.kind = .dir ∧ de.kind = .file then (t, .err .notdir)
            else if se.kind = .file ∧ de.kind = .dir then (t, .err .isdir)
            else if hasChildren t.ents dst then (t, .err .notempty)
            else
              let t1 := unlinkAt t dst de
              ({ t1 with ents := t1.ents.map (moveEnt src dst) }, .done)

def doRemove (t : PosixTree) (p : Nat) (n : String) (want : Kind) : PosixTree × Result :=
  match parentDir t p with
  | .error e => (t, .err e)
  | .ok pp =>
    match findPath t.ents (pp ++ [n]) with
    | none => (t, .err .noent)
    | some e =>
      if e.kind ≠ want then (t, .err (if want = .file then .isdir else .notdir))
      else if hasChildren t.ents (pp ++ [n]) then (t, .err .notempty)
      else (unlinkAt t (pp ++ [n]) e, .done)

def doForget (t : PosixTree) (i k : Nat) : PosixTree :=
  { t with ents := updIno t.ents i (subNl k),
           orph := (updIno t.orph i (subNl k)).filter (fun e => e.nl != 0) }

def step (t : PosixTree) : Op → PosixTree × Result
  | .create p name => mkEntry t p name .file
  | .mkdir p name => mkEntry t p name .dir
  | .lookup p name =>
    match parentDir t p with
    | .error e => (t, .err e)
    | .ok pp =>
      match findPath t.ents (pp ++ [name]) with
      | none => (t, .err .noent)
      | some e => ({ t with ents := updIno t.ents e.ino (addNl 1) }, .entry e.kind e.ino (sizeOf e))
  | .getattr i =>
    match node t i with
    | none => (t, .err .noent)
    | some e => (t, .attr e.kind (sizeOf e))
  | .write i off d =>
    match node t i with
    | none => (t, .err .noent)
    | some e =>
      if e.kind = .dir then (t, .err .isdir)
      else
        let nd := writeAt e.data off d
        ({ t with ents := updIno t.ents i (fun x => setData x nd), orph := updIno t.orph i (fun x => setData x nd) },
         .attr .file nd.length)
  | .trunc i n =>
    match node t i with
    | none => (t, .err .noent)
    | some e =>
      if e.kind = .dir then (t, .err .isdir)
      else
        let nd := truncTo e.data n
        ({ t with ents := updIno t.ents i (fun x => setData x nd), orph := updIno t.orph i (fun x => setData x nd) },
         .attr .file nd.length)
  | .read i off len =>
    match node t i with
    | none => (t, .err .noent)
    | some e => if e.kind = .dir then (t, .err .isdir) else (t, .bytes (readAt e.data off len))
  | .readdir i =>
    match parentDir t i with
    | .error e => (t, .err e)
    | .ok pp => (t, .dirents ((childrenOf t.ents pp).map fun e => (e.path.getLast?.getD "", e.kind, e.ino, e.nl != 0)))
  | .rename p n q m => doRename t p n q m
  | .unlink p n => doRemove t p n .file
  | .rmdir p n => doRemove t p n .dir
  | .forget i k => (doForget t i k, .done)

def run : PosixTree → List Op → PosixTree
  | t, [] => t
  | t, o :: r => run (step t o).1 r

/-! ### commit -/

/-- what a commit must contain: every linked file with its path and bytes -/
def treeFiles (t : PosixTree) : List (Path × Bytes) :=
  (t.ents.filter (fun e => e.kind == .file)).map fun e => (e.path, e.data)

/-- `commitUploadDir`: list a directory, upload its files, recurse into its sub-directories -/
def commitWalk (l : List Entry) : Nat → Path → List (Path × Bytes)
  | 0, _ => []
  | fuel + 1, pp =>
    (childrenOf l pp).flatMap fun e =>
      match e.kind with
      | .file => [(e.path, e.data)]
      | .dir => commitWalk l fuel e.path

def maxDepth (l : List Entry) : Nat := l.foldr (fun e m => max e.path.length m) 0

/-- `commitImpl`: the walk from the root. The Go recursion needs no fuel (the tables are finite);
    the deepest path bounds it. -/
def commitList (t : PosixTree) : List (Path × Bytes) := commitWalk t.ents (maxDepth t.ents + 1) []

end FuseRW
