import DatamonVerif.Generated.Facts
/-! Model of the read-only FUSE file system (`pkg/fuse/fs_ro_ops.go`, `bundle_read.go`, `fs.go`), C17.

Paths are lists of components (`"a/b/c"` = `["a","b","c"]`, the mount root = `[]`); the bundle's
`NameWithPath` values are clean relative paths, for which `path.Dir` = `dropLast` and `path.Base` =
last component. Internally the populate loop walks *upwards* from a file, so it works on reversed
paths (`nm :: up`: base name `nm`, parent `up`).

The four tables of `readOnlyFsInternal` are total functions into `Option` (a radix tree / Go map is
a finite partial map; only `Get` and `Insert` are used):
* `dirStore`  — `fsDirStore`: directory path ↦ inode (only used while populating),
* `lookup`    — `lookupTree`: (parent inode, child name) ↦ node (`formLookupKey`),
* `byInode`   — `fsEntryStore`: inode ↦ node (`formKey`),
* `readdir`   — `readDirMap`: inode ↦ children, in insertion order, `Offset` = position + 1.

`populate` mirrors `populateFS`: root first, then for every bundle entry, in order,
`WithNodesFromEntry` (`walk`: the file gets the next inode, then every ancestor that is not yet in
`dirStore` gets the next one, going up, until the root or a known directory) followed by
`populateFSAddNodes` (`insertAll`: the queued nodes are inserted in that order; an `Insert` that
would update an existing key aborts the mount = `none`). Inode numbers come from the counter that
starts at `firstINode` and is pre-incremented (facts `fuseFirstINode`, checked shape of `next`).

After the `fix:` commits: `readDirMap[root]` exists from the start (empty bundle), `ReadFile`
answers reads at or past the end of a file with zero bytes. -/
namespace FuseRO

abbrev Path := List String
abbrev Bytes := List UInt8

/-- `fuseops.RootInodeID` (jacobsa/fuse) -/
def rootInode : Nat := 1
def firstINode : Nat := Facts.fuseFirstINode
def dirSize : Nat := Facts.fuseRoDirSize

/-- a bundle entry: `NameWithPath` (as components) and `Size` -/
structure Entry where
  path : Path
  size : Nat
deriving DecidableEq, Repr

/-- `FsEntry`: `dir` is `hash == ""` (`isDir()`), `nlink` is `attributes.Nlink` -/
structure Node where
  inode : Nat
  dir : Bool
  nlink : Nat
  size : Nat
deriving DecidableEq, Repr

/-- `newFsEntry(&bundleEntry, …, id, fileLinkCount)` -/
def fileNode (i size : Nat) : Node := ⟨i, false, Facts.fuseFileLinkCount, size⟩
/-- `newFsEntry(newBundleEntry(path), …, id, dirLinkCount)` -/
def dirNode (i : Nat) : Node := ⟨i, true, Facts.fuseDirLinkCount, dirSize⟩

/-- `fuseutil.Dirent` (`dir`: `DT_Directory` / `DT_File`) -/
structure Dirent where
  offset : Nat
  inode : Nat
  name : String
  dir : Bool
deriving DecidableEq, Repr

structure FS where
  dirStore : List String → Option Nat
  lookup : Nat × String → Option Node
  byInode : Nat → Option Node
  readdir : Nat → Option (List Dirent)

/-- map update -/
def upd {α β : Type} [DecidableEq α] (f : α → β) (k : α) (v : β) : α → β :=
  fun x => if x = k then v else f x

/-- `fsNodeToAdd` (+ the base name and the reversed full path of the node) -/
structure Add where
  parent : Nat
  name : String
  rpath : List String
  node : Node

/-- `readDirMap[i]` (nil when absent) -/
def children (fs : FS) (i : Nat) : List Dirent := (fs.readdir i).getD []

/-- `populateFSAddNodes` for one node: `insertDirEntry` when `Nlink == dirLinkCount`, else
    `insertFsEntry`. `none` = `ErrUnexpectedUpdate`. -/
def insertNode (fs : FS) (a : Add) : Option FS :=
  let asDir := a.node.nlink == Facts.fuseDirLinkCount
  if (asDir && (fs.dirStore a.rpath).isSome) || (fs.byInode a.node.inode).isSome
      || (fs.lookup (a.parent, a.name)).isSome then none
  else some {
    dirStore := if asDir then upd fs.dirStore a.rpath (some a.node.inode) else fs.dirStore
    byInode := upd fs.byInode a.node.inode (some a.node)
    lookup := upd fs.lookup (a.parent, a.name) (some a.node)
    readdir := upd fs.readdir a.parent
      (some (children fs a.parent ++ [⟨(children fs a.parent).length + 1, a.node.inode, a.name, asDir⟩])) }

def insertAll (fs : FS) : List Add → Option FS
  | [] => some fs
  | a :: r =>
    match insertNode fs a with
    | some fs' => insertAll fs' r
    | none => none

/-- `WithNodesFromEntry`: queue `me` (inode already taken, base name `nm`, parent path `up`
    reversed); `n` is the inode counter. Returns the queue and the counter. -/
def walk (ds : List String → Option Nat) : Nat → Node → String → List String → List Add × Nat
  | n, me, nm, [] => ([⟨rootInode, nm, [nm], me⟩], n)
  | n, me, nm, d :: up =>
    match ds (d :: up) with
    | some pi => ([⟨pi, nm, nm :: d :: up, me⟩], n)
    | none =>
      let r := walk ds (n + 1) (dirNode (n + 1)) d up
      (⟨n + 1, nm, nm :: d :: up, me⟩ :: r.1, r.2)

/-- one iteration of `populateFSAddBundleEntries` -/
def addEntry (st : FS × Nat) (e : Entry) : Option (FS × Nat) :=
  match e.path.reverse with
  | [] => none -- not a path (the harness never produces it; `strings.Split` yields ≥ 1 component)
  | nm :: up =>
    let r := walk st.1.dirStore (st.2 + 1) (fileNode (st.2 + 1) e.size) nm up
    (insertAll st.1 r.1).map (fun fs => (fs, r.2))

def populateFrom (st : FS × Nat) : List Entry → Option (FS × Nat)
  | [] => some st
  | e :: r =>
    match addEntry st e with
    | some st' => populateFrom st' r
    | none => none

/-- the tables after the root has been inserted (`insertDirEntry(txns, RootInodeID, root)`;
    `readDirMap[root]` = empty list) -/
def initFS : FS where
  dirStore := upd (fun _ => none) [] (some rootInode)
  lookup := fun _ => none
  byInode := upd (fun _ => none) rootInode (some (dirNode rootInode))
  readdir := upd (fun _ => none) rootInode (some [])

/-- `populateFS` -/
def populate (es : List Entry) : Option FS :=
  (populateFrom (initFS, firstINode) es).map (·.1)

/-! ### operations (`none` = `ENOENT`) -/

/-- `LookUpInode` -/
def lookUp (fs : FS) (parent : Nat) (name : String) : Option Node := fs.lookup (parent, name)

/-- `GetInodeAttributes` -/
def getAttr (fs : FS) (i : Nat) : Option Node := fs.byInode i

/-- `OpenDir`: ok iff the inode is a directory -/
def openDir (fs : FS) (i : Nat) : Bool :=
  match fs.byInode i with
  | some x => x.dir
  | none => false

/-- bytes `fuseutil.WriteDirent` needs: 24-byte header + name padded to a multiple of 8 -/
def direntSize (d : Dirent) : Nat := 24 + (d.name.utf8ByteSize + 7) / 8 * 8

/-- the `WriteDirent` loop: dirents are written while they fit in what is left of the buffer -/
def fit : Nat → List Dirent → List Dirent
  | _, [] => []
  | buf, d :: r => if direntSize d ≤ buf then d :: fit (buf - direntSize d) r else []

/-- `ReadDir(inode, offset)` into a buffer of `buf` bytes -/
def readDir (fs : FS) (i off buf : Nat) : Option (List Dirent) :=
  match fs.readdir i with
  | none => none
  | some ch => if off > ch.length then none else some (fit buf (ch.drop off))

/-- a listing session as the kernel runs it: page `k` is read with buffer `(steps k).1`, the
    reader consumes the first `(steps k).2` dirents of it and resumes at the offset of the last
    one consumed; the session ends with the first empty page (or an error). -/
def session (fs : FS) (i : Nat) (steps : Nat → Nat × Nat) : Nat → Nat → Nat → Option (List Dirent)
  | 0, _, _ => some []
  | fuel + 1, k, off =>
    match readDir fs i off (steps k).1 with
    | none => none
    | some pg =>
      let kept := pg.take (steps k).2
      match kept.getLast? with
      | none => some []
      | some l => (session fs i steps fuel (k + 1) l.offset).map (kept ++ ·)

/-! ### file contents -/

inductive Mode where
  | streamed | staged
deriving DecidableEq, Repr

inductive ReadRes where
  | ok (b : Bytes)
  | enoent
  | err
deriving DecidableEq, Repr

/-- the copy loop of cafs `chunkReader.ReadAt`: `offset` applies to the first leaf only; stop when
    the destination is full or the leaves are exhausted (the first leaf is always visited) -/
def copyLeaves : List Bytes → Nat → Nat → Bytes
  | [], _, _ => []
  | leaf :: rest, offset, n =>
    let got := (leaf.drop offset).take n
    if got.length = n then got else got ++ copyLeaves rest 0 (n - got.length)

/-- cafs `ReadAt(dst[:n], off)` over the leaves of a file (`calculateKeyAndOffset`) -/
def readAtLeaves (leaves : List Bytes) (leafSize off n : Nat) : Bytes :=
  if off / leafSize ≥ leaves.length then [] else copyLeaves (leaves.drop (off / leafSize)) (off % leafSize) n

/-- the leaves the cafs writer produces: consecutive `leafSize` pieces, the last one shorter -/
def chunk (leafSize : Nat) : Nat → Bytes → List Bytes
  | 0, _ => []
  | fuel + 1, l => if l = [] then [] else l.take leafSize :: chunk leafSize fuel (l.drop leafSize)

def leavesOf (leafSize : Nat) (content : Bytes) : List Bytes := chunk leafSize content.length content

/-- `ReadFile(inode, offset, len(dst) = n)`; `content i` = the bytes of the bundle file with inode `i`.
    Streamed: cafs `ReadAt` over the leaves; staged: `ReadAt` of the downloaded copy. -/
def readFile (fs : FS) (mode : Mode) (leafSize : Nat) (content : Nat → Bytes) (i off n : Nat) : ReadRes :=
  match fs.byInode i with
  | none => .enoent
  | some x =>
    if x.dir then .err -- no cafs key for "" / the staged path is a directory
    else if off ≥ x.size then .ok []
    else match mode with
      | .streamed => .ok (readAtLeaves (leavesOf leafSize (content i)) leafSize off n)
      | .staged => .ok (((content i).drop off).take n)

/-! ### resolving paths by successive lookups (what a client of the mount does) -/

def walkDown (fs : FS) : Node → Path → Option Node
  | x, [] => some x
  | x, nm :: rest =>
    match lookUp fs x.inode nm with
    | some y => walkDown fs y rest
    | none => none

/-- `GetInodeAttributes(root)` then one `LookUpInode` per component -/
def resolve (fs : FS) (p : Path) : Option Node :=
  match getAttr fs rootInode with
  | some r => walkDown fs r p
  | none => none

end FuseRO
