import DatamonVerif.Model.Cafs
/-! Helper lemmas for C01/C02/C03 (writer invariant, chunk decomposition, reassembly). -/
namespace Cafs

theorem chunks_nil (L : Nat) : chunks L [] = [] := by
  rw [chunks]; simp

theorem chunks_short (L : Nat) (b : Bytes) (hb : b ≠ []) (hl : b.length ≤ L) (hL : 0 < L) :
    chunks L b = [b] := by
  rw [chunks]
  have h1 : ¬ (b = [] ∨ L = 0) := by
    intro h; cases h with
    | inl h => exact hb h
    | inr h => omega
  simp only [h1, dite_false]
  rw [List.take_of_length_le hl, List.drop_of_length_le hl, chunks_nil]

theorem chunks_cons (L : Nat) (f rest : Bytes) (hf : f.length = L) (hL : 0 < L) :
    chunks L (f ++ rest) = f :: chunks L rest := by
  rw [chunks]
  have hne : f ≠ [] := by intro e; rw [e] at hf; simp at hf; omega
  have h1 : ¬ (f ++ rest = [] ∨ L = 0) := by
    intro h; cases h with
    | inl h => exact hne (List.append_eq_nil_iff.mp h).1
    | inr h => omega
  simp only [h1, dite_false]
  rw [List.take_left' hf, List.drop_left' hf]

/-- a sequence of full leaves followed by a short remainder is exactly the chunking of its
    concatenation -/
theorem chunks_decomp (L : Nat) (hL : 0 < L) (fulls : List Bytes) (buf : Bytes)
    (hf : ∀ f ∈ fulls, f.length = L) (hb : buf.length < L) :
    chunks L (fulls.flatten ++ buf) = fulls ++ (if buf = [] then [] else [buf]) := by
  induction fulls with
  | nil =>
    simp only [List.flatten_nil, List.nil_append]
    by_cases h : buf = []
    · simp [h, chunks_nil]
    · simp only [h, if_false]
      exact chunks_short L buf h (by omega) hL
  | cons f fs ih =>
    simp only [List.flatten_cons, List.append_assoc, List.cons_append]
    rw [chunks_cons L f _ (hf f (by simp)) hL, ih (fun x hx => hf x (by simp [hx]))]

theorem flatten_chunks (L : Nat) (hL : 0 < L) (c : Bytes) : (chunks L c).flatten = c := by
  induction hn : c.length using Nat.strongRecOn generalizing c with
  | ind n ih =>
    rw [chunks]
    by_cases hc : c = []
    · simp [hc]
    · have h1 : ¬ (c = [] ∨ L = 0) := by
        intro h; cases h with
        | inl h => exact hc h
        | inr h => omega
      simp only [h1, dite_false, List.flatten_cons]
      have hpos : 0 < c.length := List.length_pos_iff.mpr hc
      rw [ih (c.drop L).length (by simp [List.length_drop]; omega) (c.drop L) rfl]
      exact List.take_append_drop L c

/-- the writer invariant: what has been written is `fulls.flatten ++ buf` -/
structure Inv (L : Nat) (w : W) (written : Bytes) : Prop where
  full : ∀ f ∈ w.fulls, f.length = L
  cat : w.fulls.flatten ++ w.buf = written
  short : w.buf.length < L

theorem write_inv (L : Nat) (hL : 0 < L) (w : W) (c p : Bytes) (hi : Inv L w c) :
    Inv L (W.write L w p) (c ++ p) := by
  induction hn : p.length using Nat.strongRecOn generalizing w c p with
  | ind n ih =>
    obtain ⟨hf, hcat, hshort⟩ := hi
    rw [W.write]
    by_cases hp : p = []
    · subst hp; simp; exact ⟨hf, by simpa using hcat, hshort⟩
    · have hnot : ¬ (p = [] ∨ L ≤ w.buf.length) := by
        intro h; cases h with
        | inl h => exact hp h
        | inr h => omega
      simp only [hnot, dite_false]
      by_cases hfull : (w.buf ++ p.take (L - w.buf.length)).length = L
      · simp only [hfull, ite_true]
        have hplen : 0 < p.length := List.length_pos_iff.mpr hp
        have hlt : (p.drop (L - w.buf.length)).length < n := by
          simp [List.length_drop]; omega
        have := ih _ hlt { buf := [], fulls := w.fulls ++ [w.buf ++ p.take (L - w.buf.length)] }
          (c ++ p.take (L - w.buf.length)) (p.drop (L - w.buf.length))
          ⟨by
              intro f hfm
              rcases List.mem_append.mp hfm with h | h
              · exact hf f h
              · simp at h; subst h; exact hfull,
            by simp [← hcat, List.append_assoc],
            by simpa using hL⟩ rfl
        simpa [List.append_assoc] using this
      · simp only [hfull, ite_false]
        have hle : (w.buf ++ p.take (L - w.buf.length)).length ≤ L := by
          simp [List.length_take]; omega
        refine ⟨hf, ?_, ?_⟩
        · have htake : p.take (L - w.buf.length) = p := by
            apply List.take_of_length_le
            have : (w.buf ++ p.take (L - w.buf.length)).length < L := by omega
            simp [List.length_take] at this
            omega
          simp [htake, ← hcat, List.append_assoc]
        · show (w.buf ++ p.take (L - w.buf.length)).length < L
          omega

theorem init_inv (L : Nat) (hL : 0 < L) : Inv L W.init [] :=
  ⟨by simp [W.init], by simp [W.init], by simpa [W.init] using hL⟩

theorem writes_inv (L : Nat) (hL : 0 < L) (cs : List Bytes) (w : W) (c : Bytes) (hi : Inv L w c) :
    Inv L (cs.foldl (W.write L) w) (c ++ cs.flatten) := by
  induction cs generalizing w c with
  | nil => simpa using hi
  | cons p ps ih =>
    have := ih (W.write L w p) (c ++ p) (write_inv L hL w c p hi)
    simpa [List.append_assoc] using this

/-- the leaves held by the writer at `Flush` are the chunking of everything written -/
theorem leaves_eq_chunks (L : Nat) (hL : 0 < L) (w : W) (c : Bytes) (hi : Inv L w c) :
    w.leaves = chunks L c := by
  obtain ⟨hf, hcat, hshort⟩ := hi
  rw [← hcat, chunks_decomp L hL w.fulls w.buf hf hshort]; rfl

theorem leafKeysFrom_append (H : Hash) (L n : Nat) (a b : List Bytes) :
    ∀ i, leafKeysFrom H L n i (a ++ b) = leafKeysFrom H L n i a ++ leafKeysFrom H L n (i + a.length) b := by
  induction a with
  | nil => intro i; simp [leafKeysFrom]
  | cons x xs ih =>
    intro i
    simp only [List.cons_append, leafKeysFrom, ih (i + 1), List.length_cons]
    simp [Nat.add_assoc, Nat.add_comm 1]

theorem fullKeys_eq (H : Hash) (L n : Nat) (fulls : List Bytes) (hf : ∀ f ∈ fulls, f.length = L) :
    ∀ i, W.keys.fullKeys H L i fulls = leafKeysFrom H L n i fulls := by
  induction fulls with
  | nil => intro i; simp [W.keys.fullKeys, leafKeysFrom]
  | cons f fs ih =>
    intro i
    have h1 := hf f (by simp)
    simp only [W.keys.fullKeys, leafKeysFrom]
    rw [ih (fun x hx => hf x (by simp [hx]))]
    have : leafParams L n i f = ⟨L, i + 1, 0, false⟩ := by
      simp [leafParams, h1]
    rw [this]

/-- the writer's keys follow the on-disk layout convention -/
theorem keys_eq_leafKeysOf (H : Hash) (L : Nat) (w : W) (c : Bytes) (hi : Inv L w c) :
    w.keys H L = leafKeysOf H L w.leaves := by
  obtain ⟨hf, _, hshort⟩ := hi
  unfold W.keys W.leaves leafKeysOf
  by_cases hb : w.buf = []
  · simp only [hb, if_true, List.append_nil]
    exact fullKeys_eq H L _ w.fulls hf 0
  · simp only [hb, if_false]
    rw [leafKeysFrom_append, fullKeys_eq H L _ w.fulls hf 0]
    simp only [leafKeysFrom, Nat.zero_add, List.length_append, List.length_singleton]
    have : leafParams L (w.fulls.length + 1) w.fulls.length w.buf = ⟨L, w.fulls.length, 0, true⟩ := by
      have : w.buf.length ≠ L := by omega
      simp [leafParams, this]
    rw [this]

end Cafs
