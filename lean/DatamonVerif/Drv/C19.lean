import DatamonVerif.Drv.Common
import DatamonVerif.Model.Wal
/-! Driver for C19 (write-ahead log). Trace lines of one case:

```
case <n> …
batch g=<G> lo=<ms> hi=<ms>                  generator clock before / after the batch (ms since the KSUID epoch)
add i=<k> p=<payload> t=<ts> n=<rank>        token time and rank of the random draw, as observed   => ok | exists | badtime
list ft=<ts> max=<m> perm=<r> [fail=<k>]     listing from a token of time ft                        => ok <k>:<len>:<fnv>,… ## next=<k|->
order                                        the stored entries in key order                        => <k>,<k>,…
end
```
Tokens are canonical: `(t, n)` with `n` the rank of the token's 128-bit payload among the payloads
of the case; entries are named by the index `k` of their `add` line. -/
namespace DV.C19
open Wal

structure St where
  wal : Store := []
  idx : List (Nat × Nat) := []     -- token ↦ index of its add line
  lo : Nat := 0
  hi : Nat := 0

def bytesOf (s : String) : Payload := (pctDecodeAux s.toList []).getD []

def fnv1a (bs : Payload) : UInt64 :=
  bs.foldl (fun h b => (h ^^^ b.toUInt64) * 1099511628211) 14695981039346656037

def idxOf (st : St) (tok : Nat) : String :=
  match st.idx.find? (·.1 == tok) with
  | some p => toString p.2
  | none => "?"

def showEntry (st : St) (e : Entry) : String :=
  idxOf st e.token ++ ":" ++ toString e.payload.length ++ ":" ++ toString (fnv1a e.payload).toNat

def rotate (l : List Nat) (r : Nat) : List Nat :=
  if l.isEmpty then l else
  let k := r % l.length
  let l' := l.drop k ++ l.take k
  if r % 2 == 1 then l'.reverse else l'

/-- the YAML decoder of the reader, as far as the harness exercises it: no payload the harness
    appends is an entry descriptor naming its own (not yet drawn) token -/
def dec : Payload → Option Entry := fun _ => none

def step (st : St) (op : String) : St × Option String :=
  match words op with
  | "case" :: _ => ({}, none)
  | "batch" :: rest =>
    let kv := kvs rest
    ({ st with lo := (kvNat kv "lo").getD 0, hi := (kvNat kv "hi").getD 0 }, none)
  | "add" :: rest =>
    let kv := kvs rest
    let i := (kvNat kv "i").getD 0
    let p := bytesOf ((kvGet kv "p").getD "")
    match kvNat kv "t", kvNat kv "n" with
    | some t, some n =>
      if tokenTime st.lo ≤ t ∧ t ≤ tokenTime st.hi then
        match add st.wal t n p with
        | some (s', tok) => ({ st with wal := s', idx := (tok, i) :: st.idx }, some "ok")
        | none => (st, some "exists")
      else (st, some "badtime")
    | _, _ => (st, some "ok")   -- the implementation returned no token: an append must succeed
  | "list" :: rest =>
    let kv := kvs rest
    let ft := (kvNat kv "ft").getD 0
    let max := (kvNat kv "max").getD 0
    let r := (kvNat kv "perm").getD 0
    let fromTok := Ksuid.mk ft 0
    let sg := match kvNat kv "fail" with
      | some k => st.wal.filter (fun kv' => idxOf st kv'.1 != toString k)
      | none => st.wal
    let completion := rotate (listTokens st.wal fromTok max).1 r
    match listEntriesWith dec st.wal sg fromTok max completion with
    | .err => (st, some "err")
    | .panic => (st, some "panic")
    | .ok es next =>
      let nx := match next with | some k => idxOf st k | none => "-"
      (st, some ("ok " ++ ",".intercalate (es.map (showEntry st)) ++ " ## next=" ++ nx))
  | "order" :: _ => (st, some (",".intercalate ((keys st.wal).map (idxOf st))))
  | _ => (st, none)

def handler : Handler St := { init := {}, step := step }

end DV.C19
