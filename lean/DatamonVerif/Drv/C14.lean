import DatamonVerif.Drv.C13
/-! Driver for C14: the purge handler of `Drv/C13.lean`; the `case … kind=c14` header switches the
compared part of `index` / `purge` lines to the exact index and the exact set of deleted blobs. -/
namespace DV.C14

def handler : DV.Handler DV.C13.DState := DV.C13.handler

end DV.C14
