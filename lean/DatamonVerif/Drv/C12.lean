import DatamonVerif.Drv.Common
import DatamonVerif.Model.Diamond
/-! Driver for C12: replays the harness' global trace of protocol-relevant store calls on the
transition system of `Model/Diamond.lean` (the trace must be ACCEPTED: every `ev` line names the
store call the model's actor performs next and gets the model's result class), then prints the
model's final diamond / split / bundle state and what the property demands (`amo`), tagged with the
finding whose trigger the schedule lies in. -/
namespace DV.C12
open Diamond

structure St where
  sys : Sys := init []
  trig : Trig := ⟨false, false⟩
  splits : List Nat := []
  /-- actors the harness crashed: their API result class is not compared -/
  dead : List Nat := []

def parseFiles (s : String) : Files :=
  if s == "" || s == "-" then [] else
  (s.splitOn "+").filterMap fun t =>
    match t.splitOn "=" with
    | [a, b] => match a.toNat?, b.toNat? with
      | some x, some y => some (x, y)
      | _, _ => none
    | _ => none

def parseKind (s : String) : Option Kind :=
  match s.splitOn ":" with
  | ["commit"] => some .commit
  | ["cancel"] => some .cancel
  | ["run", k, f] => k.toNat?.map fun k => .run k (parseFiles f)
  | _ => none

def parseActors (s : String) : List Kind :=
  if s == "" then [] else (s.splitOn ";").filterMap parseKind

def insertNat (x : Nat) : List Nat → List Nat
  | [] => [x]
  | y :: r => if x < y then x :: y :: r else if x == y then y :: r else y :: insertNat x r

def splitsOf (ks : List Kind) : List Nat :=
  ks.foldl (fun acc k => match k with | .run s _ => insertNat s acc | _ => acc) []

/-- the store call the actor performs next, and its result class -/
def label (st : Store) (a : Actor) : String × String :=
  match a.kind, a.pc with
  | _, .start => ("dget", if st.term.isSome then "found" else "absent")
  | .commit, .ready => ("list", "ok")
  | .commit, .listed => ("bput", "ok")
  | .commit, .bundled => ("dput", if st.term.isSome then "exists" else "ok")
  | .cancel, .xput => ("dput", if st.term.isSome then "exists" else "ok")
  | .run k _, .chk => ("sget", if (st.splitDone.lookup k).isSome then "found" else "absent")
  | .run k _, .getrun => ("rget", if st.splitRunning.contains k then "found" else "absent")
  | .run k _, .putrun => ("rput", if st.splitRunning.contains k then "exists" else "ok")
  | .run _ _, .gen => ("gput", "ok")
  | .run k _, .putdone => ("sput", if (st.splitDone.lookup k).isSome then "exists" else "ok")
  | _, _ => ("none", "-")

/-- result class of the API call of an actor that has stopped -/
def finClass (a : Actor) : String :=
  match a.pc with
  | .won | .sdone => "ok"
  | .refused => "refused"
  | .already => "already"
  | .nosplit => "nosplit"
  | .lost | .slost | .createlost => "exists"
  | _ => "crashed"

def insertBy {α : Type} (key : α → Nat) (x : α) : List α → List α
  | [] => [x]
  | y :: r => if key x ≤ key y then x :: y :: r else y :: insertBy key x r

def sortBy {α : Type} (key : α → Nat) (l : List α) : List α := l.foldl (fun acc x => insertBy key x acc) []

def showFiles (f : Files) : String :=
  if f.isEmpty then "-" else "+".intercalate ((sortBy (·.1) f).map fun pc => toString pc.1 ++ "=" ++ toString pc.2)

def showTerm : Option Term → String
  | none => "none"
  | some (.done i) => "done:" ++ toString i
  | some (.canceled i) => "canceled:" ++ toString i

def showSplits (st : Store) (ks : List Nat) : String :=
  if ks.isEmpty then "none" else
  ",".intercalate (ks.map fun k =>
    toString k ++ ":" ++
      (match st.splitDone.lookup k with
       | some g => "done:" ++ toString g
       | none => if st.splitRunning.contains k then "running" else "absent"))

def showBundles (bs : List Bundle) : String :=
  if bs.isEmpty then "none" else
  ";".intercalate ((sortBy (·.owner) bs).map fun b => toString b.owner ++ ":" ++ showFiles b.content)

def showSnap (snap : List (Nat × Nat)) : String :=
  ",".intercalate ((sortBy (·.1) snap).map fun kg => toString kg.1 ++ ":" ++ toString kg.2)

def step (s : St) (op : String) : St × Option String :=
  match words op with
  | "case" :: _ :: "c12" :: rest =>
    let kinds := parseActors ((kvGet (kvs rest) "actors").getD "")
    ({ sys := init kinds, trig := ⟨false, false⟩, splits := splitsOf kinds, dead := [] }, none)
  | "ev" :: rest =>
    let kv := kvs rest
    match kvNat kv "a" with
    | none => (s, some "badline")
    | some i =>
      let k := (kvGet kv "k").getD ""
      match s.sys.actors[i]? with
      | none => (s, some "noactor")
      | some a =>
        let (mk, mr) := label s.sys.store a
        let t' := trigStep s.sys s.trig (.step i)
        let s' := { s with sys := stepE s.sys (.step i), trig := t' }
        if mk == k then
          let aux := if mk == "list" then
              (match s'.sys.actors[i]? with | some a' => " ## done=" ++ showSnap a'.snap | none => "")
            else ""
          (s', some (mr ++ aux))
        else (s', some ("unexpected:model-does-" ++ mk))
  | "crash" :: rest =>
    match kvNat (kvs rest) "a" with
    | some i => ({ s with sys := stepE s.sys (.crash i), dead := i :: s.dead }, none)
    | none => (s, none)
  | "fin" :: rest =>
    match kvNat (kvs rest) "a" with
    | some i =>
      match s.sys.actors[i]? with
      | some a => (s, some (if s.dead.contains i then "crashed" else finClass a))
      | none => (s, some "noactor")
    | none => (s, some "badline")
  | ["term"] => (s, some (showTerm s.sys.store.term))
  | ["splits"] => (s, some (showSplits s.sys.store s.splits))
  | ["bundles"] => (s, some (showBundles s.sys.store.bundles))
  | "pagecommit" :: rest =>
    -- judge (C12_commit_content, whatever the listing page size): the committed bundle holds the
    -- files of every completed split and of no other
    let got := (kvGet (kvs rest) "got").getD ""
    (s, some (if got == "all" then "sound" else "UNSOUND"))
  | "termfault" :: rest =>
    -- judge (C12_refused_after_terminal, under one transient read fault): a terminated diamond
    -- accepts no split and yields no further bundle
    let got := (kvGet (kvs rest) "got").getD ""
    (s, some (if got == "refused" then "sound" else "UNSOUND"))
  | "amo" :: _ =>
    -- what the property demands: at most one bundle, whatever the schedule
    let tag :=
      if s.trig.crashRetry then " !! C12-crash-before-done-then-retry"
      else if s.trig.overlap then " !! C12-overlapping-commits"
      else ""
    (s, some ("holds=1" ++ tag))
  | _ => (s, none)

def handler : Handler St := { init := {}, step := step }

end DV.C12
