import DatamonVerif.Drv.Common
import DatamonVerif.Model.Paths
import DatamonVerif.Generated.Facts
namespace DV.C20
open Paths

def decS (s : String) : Str := ((pctDecode s).getD "").toList
def encS (s : Str) : String := pctEncode (String.ofList s)

/-- `s:<esc>` | `n:<dec>` | `l<count>:<esc>;<esc>…`, comma separated -/
def parseArg (t : String) : Arg :=
  if t.startsWith "s:" then .s (decS (t.drop 2).toString)
  else if t.startsWith "n:" then .n ((t.drop 2).toString.toNat?.getD 0)
  else if t.startsWith "l" then
    match (t.drop 1).toString.splitOn ":" with
    | cnt :: rest =>
      let n := cnt.toNat?.getD 0
      let body := ":".intercalate rest
      if n = 0 then .l [] else .l ((body.splitOn ";").map decS)
    | [] => .l []
  else .s []

def parseArgs (s : String) : List Arg :=
  if s == "" then [] else (s.splitOn ",").map parseArg

def showComps (c : Comps) : String :=
  "ok repo=" ++ encS c.repo ++ " bundle=" ++ encS c.bundleID ++ " file=" ++ encS c.archiveFileName ++
  " label=" ++ encS c.labelName ++ " ctx=" ++ encS c.context ++ " diamond=" ++ encS c.diamondID ++
  " split=" ++ encS c.splitID ++ " gen=" ++ encS c.generationID ++ " final=" ++ (if c.isFinalState then "1" else "0")

def showParse (r : Option Comps) : String :=
  match r with
  | some c => showComps c
  | none => "err"

def showCMeta (r : Option CMeta) : String :=
  match r with
  | some (.desc id) => "desc id=" ++ encS id
  | some (.list id n) => "list id=" ++ encS id ++ " idx=" ++ toString n
  | none => "err"

/-- what the Go builder `k` returns on `a` (`none` = panic, or unknown builder) -/
def build (k : String) (a : List Arg) : Option Str :=
  if k == "GetConsumablePathToBundle" then buildConsumableBundle (strArg a 0)
  else if k == "GetConsumablePathToBundleFileList" then buildConsumableFileList (strArg a 0) (numArg a 1)
  else
    match Facts.pathTemplates.find? (·.1 == k) with
    | some (_, T) => some (render T a)
    | none =>
      match Facts.joinPathTemplates.find? (·.1 == k) with
      | some (_, J) => some (renderJoin J a)
      | none => none

/-- the kind of object a builder addresses (the `GetArchivePathToDiamond` / `…ToSplit` variants
    are the same objects as the dedicated builders, `C20_alias_render`) -/
def kindOf (k : String) : Option Kind :=
  if k == "GetArchivePathToLabel" then some .label
  else if k == "GetArchivePathToRepoDescriptor" then some .repo
  else if k == "GetArchivePathToBundle" then some .bundle
  else if k == "GetArchivePathToBundleFileList" then some .bundleFileList
  else if k == "GetPathToContext" then some .context
  else if k == "GetArchivePathToInitialDiamond" || k == "GetArchivePathToDiamond/DiamondInitialized" then some .diamondInitial
  else if k == "GetArchivePathToFinalDiamond" || k == "GetArchivePathToDiamond/default" then some .diamondFinal
  else if k == "GetArchivePathToInitialSplit" || k == "GetArchivePathToSplit/SplitRunning" then some .splitInitial
  else if k == "GetArchivePathToFinalSplit" || k == "GetArchivePathToSplit/default" then some .splitFinal
  else if k == "GetArchivePathToSplitFileList" then some .splitFileList
  else none

/-- judge of a round trip through `GetArchivePathComponents`: on the domain of `C20_parse_render`
    the answer is the components the theorem demands (computed from the arguments alone); outside
    it, what the model of the parser returns on the model of the builder's path -/
def judgeRT (k : String) (a : List Arg) : String :=
  match kindOf k with
  | some kd =>
    let p := kd.ofArgs a
    if kd.args p = a ∧ kd.valid p ∧ p.index < 2 ^ 64 then showComps (kd.comps a)
    else match build k a with
      | some s => showParse (parseArchivePath s)
      | none => "panic"
  | none =>
    match build k a with
    | some s => showParse (parseArchivePath s)
    | none => "panic"

/-- judge of a round trip through `GetConsumableStorePathMetadata`: on the domain of
    `C20_consumable_roundtrip_desc/_list` the answer is the arguments -/
def judgeCRT (k : String) (a : List Arg) : String :=
  let id := strArg a 0
  let n := numArg a 1
  if k == "GetConsumablePathToBundleFileList" ∧ a = [.s id, .n n] ∧ '\n' ∉ id ∧ n < 2 ^ 64 then
    showCMeta (some (.list id n))
  else if k == "GetConsumablePathToBundle" ∧ a = [.s id] ∧ '\n' ∉ id ∧ (splitLast flSep id).isNone then
    showCMeta (some (.desc id))
  else
    match build k a with
    | some s => showCMeta (parseConsumable s)
    | none => "panic"

def oracle (kv : List (String × String)) : Classes :=
  let ls := decS ((kvGet kv "L").getD "")
  let ds := decS ((kvGet kv "D").getD "")
  { letter := fun c => ls.contains c, digit := fun c => ds.contains c }

/-- `name:email:flag;…` -/
def parseContribs (s : String) : List Contrib :=
  if s == "" then [] else
  (s.splitOn ";").map fun t =>
    match t.splitOn "|" with
    | [a, b, c] => { name := decS a, email := decS b, mailOK := c == "1" }
    | _ => { name := [], email := [], mailOK := false }

def step (_ : Unit) (op : String) : Unit × Option String :=
  match words op with
  | "build" :: rest =>
    let kv := kvs rest
    match build ((kvGet kv "k").getD "") (parseArgs ((kvGet kv "a").getD "")) with
    | some s => ((), some ("ok " ++ encS s))
    | none => ((), some "panic")
  | "rt" :: rest =>
    let kv := kvs rest
    ((), some (judgeRT ((kvGet kv "k").getD "") (parseArgs ((kvGet kv "a").getD ""))))
  | "parse" :: rest =>
    let kv := kvs rest
    ((), some (showParse (parseArchivePath (decS ((kvGet kv "p").getD "")))))
  | "crt" :: rest =>
    let kv := kvs rest
    ((), some (judgeCRT ((kvGet kv "k").getD "") (parseArgs ((kvGet kv "a").getD ""))))
  | "cparse" :: rest =>
    let kv := kvs rest
    ((), some (showCMeta (parseConsumable (decS ((kvGet kv "p").getD "")))))
  | "chunk" :: rest =>
    -- C20_reverse_index_roundtrip: the chunk number comes back
    let kv := kvs rest
    let n := (kvNat kv "n").getD 0
    if n < 2 ^ 64 then ((), some ("ok " ++ toString n))
    else
      match parseChunk (renderJoin Facts.reverseIndexFileJ [.n n]) with
      | some m => ((), some ("ok " ++ toString m))
      | none => ((), some "err")
  | "gen" :: rest =>
    let kv := kvs rest
    ((), some (if isGenerated (decS ((kvGet kv "p").getD "")) then "1" else "0"))
  | "cls" :: rest =>
    let kv := kvs rest
    let c := Char.ofNat ((kvNat kv "r").getD 0)
    ((), some ((if isHyphen c then "H" else "-") ++ (if isPc c then "P" else "-")))
  | "vrepo" :: rest =>
    let kv := kvs rest
    let r := validateRepo (oracle kv) (decS ((kvGet kv "name").getD "")) (decS ((kvGet kv "desc").getD ""))
    ((), some (if r then "ok" else "err"))
  | "vlabel" :: rest =>
    let kv := kvs rest
    let r := validateLabel (oracle kv) (decS ((kvGet kv "name").getD "")) (decS ((kvGet kv "id").getD ""))
      (parseContribs ((kvGet kv "cs").getD ""))
    ((), some (if r then "ok" else "err"))
  | "collide" :: _ => ((), some "none")
  | "yaml" :: _ => ((), some "equal")
  | _ => ((), none)

def handler : Handler Unit := { init := (), step := step }

end DV.C20
