import DatamonVerif.Drv.Common
import DatamonVerif.Model.Crash
/-! Driver for C06: what every observer must see after an operation interrupted at a given
store write (`Crash.newVisible` / `Crash.labelLanded` are the predicates of `Props/C06`). -/
namespace DV.C06
open Crash

structure St where
  op : String := "upload"
  prior : Nat := 0
  labels : List (String × Nat) := []
  lname : String := ""
  target : Nat := 0
  -- state left by the last crash line (the retry continues from it)
  nv : Bool := false
  ll : Bool := false

def parseLabels (s : String) : List (String × Nat) :=
  if s == "" then [] else
  (s.splitOn ",").filterMap fun t =>
    match t.splitOn ":" with
    | [a, b] => b.toNat?.map fun n => (a, n)
    | _ => none

def insertL (x : String × Nat) : List (String × Nat) → List (String × Nat)
  | [] => [x]
  | y :: r => if x.1 ≤ y.1 then x :: y :: r else y :: insertL x r

def setLabel (ls : List (String × Nat)) (n : String) (t : Nat) : List (String × Nat) :=
  insertL (n, t) (ls.filter (·.1 != n))

def showObs (bundles : List Nat) (labels : List (String × Nat)) : String :=
  let latest := match bundles.getLast? with
    | some b => toString b
    | none => "none"
  "bundles=" ++ showNatList bundles ++ " latest=" ++ latest ++
  " labels=" ++ ",".intercalate (labels.map fun p => p.1 ++ ":" ++ toString p.2) ++
  " dl=" ++ ",".intercalate (bundles.map fun b => toString b ++ ":ok")

def step (st : St) (op : String) : St × Option String :=
  match words op with
  | "case" :: _ :: rest =>
    let kv := kvs rest
    ({ op := (kvGet kv "op").getD "upload", prior := (kvNat kv "prior").getD 0,
       labels := (parseLabels ((kvGet kv "labels").getD "")).foldl (fun acc x => insertL x acc) [],
       lname := (kvGet kv "lname").getD "", target := (kvNat kv "target").getD 0 }, none)
  | "crash" :: rest =>
    let kv := kvs rest
    let kinds := ((kvGet kv "seq").getD "").splitOn ","
    let k := (kvNat kv "k").getD 0
    let landed := (kvGet kv "landed") == some "1"
    let applied := if landed then k else k - 1
    let nv := newVisible kinds applied
    let ll := labelLanded kinds applied
    let bundles := List.range st.prior ++ (if nv then [st.prior] else [])
    let labels := if ll then setLabel st.labels st.lname st.target else st.labels
    ({ st with nv := nv, ll := ll }, some (showObs bundles labels))
  | "failonce" :: rest =>
    -- a single failed store write, no crash: the new bundle is visible iff the operation reported
    -- success, and then it is complete (every visible bundle downloads)
    let kv := kvs rest
    let ok := (kvGet kv "res") == some "ok"
    let bundles := List.range st.prior ++ (if ok then [st.prior] else [])
    (st, some (showObs bundles st.labels))
  | "retry" :: _ =>
    -- the operation run again, to completion, on what the crash left
    if st.op == "label" then
      (st, some ("ok " ++ showObs (List.range st.prior) (setLabel st.labels st.lname st.target)))
    else
      let n := st.prior + (if st.nv then 2 else 1)
      (st, some ("ok " ++ showObs (List.range n) st.labels))
  | _ => (st, none)

def handler : Handler St := { init := {}, step := step }

end DV.C06
