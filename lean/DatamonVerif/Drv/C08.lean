import DatamonVerif.Drv.Common
import DatamonVerif.Model.Labels
/-! Driver for C08: replays a label history (`harness/cmd/dvh/c08.go`) on the model of
`Model/Labels.lean`. Bundles are named by their rank (a decimal string). Listings are printed sorted
by name. For a listing whose prefix lies in the trigger region of known finding `C08-prefix-slash`
(`Labels.prefixTrigger`) the result the property demands (`Labels.specList`) is printed and marked. -/
namespace DV.C08
open Labels

def strOf (s : String) : Str := s.toList.map Char.toNat
def ofStr (l : Str) : String := String.ofList (l.map Char.ofNat)

def dec (kv : List (String × String)) (k : String) : Str := strOf ((pctDecode ((kvGet kv k).getD "")).getD "?undecodable")

/-- outside ASCII the harness only uses letters in repository names -/
def oracle : Nat → Bool := fun _ => true

def ltStr : Str → Str → Bool
  | [], [] => false
  | [], _ :: _ => true
  | _ :: _, [] => false
  | a :: x, b :: y => if a < b then true else if b < a then false else ltStr x y

def ltItem (a b : Str × Str) : Bool := if a.1 = b.1 then ltStr a.2 b.2 else ltStr a.1 b.1

def insertSorted (x : Str × Str) : List (Str × Str) → List (Str × Str)
  | [] => [x]
  | y :: r => if ltItem y x then y :: insertSorted x r else x :: y :: r

def sortItems (l : List (Str × Str)) : List (Str × Str) := l.foldl (fun acc x => insertSorted x acc) []

def showOut : Out → String
  | .ok => "ok"
  | .notfound => "notfound"
  | .exists => "exists"
  | .err => "err"
  | .bundle b => "ok b=" ++ ofStr b
  | .labels l => "ok [" ++ ",".intercalate ((sortItems l).map fun p => pctEncode (ofStr p.1) ++ "=" ++ ofStr p.2) ++ "]"

def step (s : St) (op : String) : St × Option String :=
  match words op with
  | "case" :: _ => (St.empty, none)
  | "mkrepo" :: rest =>
    let kv := kvs rest
    let r := Labels.mkRepo oracle s (dec kv "r")
    (r.1, some (showOut r.2))
  | "bundle" :: rest =>
    let kv := kvs rest
    ((Labels.mkBundle s (dec kv "r") (strOf ((kvGet kv "b").getD ""))).1, none)
  | "set" :: rest =>
    let kv := kvs rest
    let r := setLabel s (dec kv "r") (dec kv "n") (strOf ((kvGet kv "b").getD ""))
    (r.1, some (showOut r.2 ++ " frame=ok"))
  | "del" :: rest =>
    let kv := kvs rest
    let r := deleteLabel s (dec kv "r") (dec kv "n")
    (r.1, some (showOut r.2 ++ " frame=ok"))
  | "delb" :: rest =>
    let kv := kvs rest
    let r := deleteBundle s (dec kv "r") (strOf ((kvGet kv "b").getD ""))
    (r.1, some (showOut r.2))
  | "get" :: rest =>
    let kv := kvs rest
    (s, some (showOut (getLabel s (dec kv "r") (dec kv "n"))))
  | "setf" :: rest =>
    -- judge: a label overwrite whose store write failed reported the error and left the label on
    -- the bundle it had (one atomic store write: C06_label_atomic); had it succeeded, on the new one
    let kv := kvs rest
    let res := (kvGet kv "res").getD ""
    let now := (kvGet kv "now").getD ""
    (s, some (if (res == "err" && now == "kept") || (res == "ok" && now == "new") then "sound" else "UNSOUND"))
  | "listf" :: rest =>
    -- judge: a listing under unfriendly conditions (a failing descriptor read with a slow consumer;
    -- a label deleted by someone else between the key scan and its read) failed, or returned every
    -- label nobody touched with the bundle it was last set to, and nothing else
    -- For the concurrent deletion the model says which of the two it is (`listLabelsRace`, keys
    -- scanned before and descriptors fetched after the deletion; `C08_list_race_sound`).
    let kv := kvs rest
    let got := (kvGet kv "got").getD ""
    let ok :=
      if (kvGet kv "kind") == some "concurrent-delete" then
        let r := dec kv "r"
        let s1 := (deleteLabel s r (dec kv "victim")).1
        match listLabelsRace s s1 r [] with
        | .labels _ => got == "same"
        | _ => got == "err"
      else got == "same" || got == "err"
    (s, some (if ok then "sound" else "UNSOUND"))
  | "list" :: rest =>
    let kv := kvs rest
    let r := dec kv "r"
    let p := dec kv "p"
    if prefixTrigger p then
      (s, some (showOut (specList s r p) ++ " ## model=" ++ showOut (listLabels s r p) ++ " !! C08-prefix-slash"))
    else
      (s, some (showOut (listLabels s r p)))
  | _ => (s, none)

def handler : Handler St := { init := St.empty, step := step }

end DV.C08
