import DatamonVerif.Util
/-! Generic line loop of the model driver. -/
namespace DV

structure Handler (σ : Type) where
  init : σ
  /-- consume one input line (the part before ` => `), return the new state and the model's result -/
  step : σ → String → σ × Option String

partial def loop {σ : Type} (h : Handler σ) (inp : IO.FS.Stream) (out : IO.FS.Stream) (s : σ) : IO Unit := do
  let line ← inp.getLine
  if line.isEmpty then return ()
  let line := (line.dropEndWhile (fun c => c == '\n' || c == '\r')).toString
  let op := opPart line
  -- `abort …` lines are written by the harness when the implementation died or hung inside a case:
  -- no model result can match them
  if op.startsWith "abort " then
    out.putStrLn (op ++ " => never")
    return (← loop h inp out s)
  let (s', r) := h.step s op
  match r with
  | some res => out.putStrLn (op ++ " => " ++ res)
  | none => out.putStrLn op
  loop h inp out s'

end DV
