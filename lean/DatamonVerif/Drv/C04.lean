import DatamonVerif.Drv.Cafs
import DatamonVerif.Model.Bundle
/-! Driver for C04: bundle upload / download traces on `Model/Bundle.lean`, with the key of a
content computed by the cafs model (`Cafs.specKey` over the Lean BLAKE2b). -/
namespace DV.C04
open Bundle

structure St where
  leaf : Nat := 64
  perFile : Nat := 1000
  tree : List (String × Bytes) := []
  entries : List (Entry String) := []
  hashed : List (String × Bytes) := []

def keyOf (leaf : Nat) (c : Bytes) : String := hexOfBytes (Cafs.specKey CafsDrv.H leaf c)

def insertS (x : String) : List String → List String
  | [] => [x]
  | y :: r => if x ≤ y then x :: y :: r else y :: insertS x r
def sortS (l : List String) : List String := l.foldl (fun acc x => insertS x acc) []

def insertT (x : String × Bytes) : List (String × Bytes) → List (String × Bytes)
  | [] => [x]
  | y :: r => if x.1 ≤ y.1 then x :: y :: r else y :: insertT x r

def showEntries (es : List (Entry String)) : String :=
  ";".intercalate (sortS (es.map fun e => pctEncode e.name ++ ":" ++ e.hash ++ ":" ++ toString e.size))

def showFiles (fs : List (String × Bytes)) : String :=
  ";".intercalate (sortS (fs.map fun f => pctEncode f.1 ++ ":" ++ CafsDrv.showBytes f.2))

def parseSel (s : String) : String → Bool :=
  match s.splitOn ":" with
  | kind :: rest =>
    let arg := (pctDecode (":".intercalate rest)).getD ""
    if kind == "prefix" then fun n => pre arg n
    else if kind == "suffix" then fun n => arg.toList.reverse.isPrefixOf n.toList.reverse
    else if kind == "name" then fun n => n == arg
    else fun _ => true
  | [] => fun _ => true

def step (st : St) (op : String) : St × Option String :=
  match words op with
  | "case" :: _ :: rest =>
    let kv := kvs rest
    ({ leaf := (kvNat kv "leaf").getD 64, perFile := (kvNat kv "perfile").getD 1000 }, none)
  | "file" :: rest =>
    let kv := kvs rest
    let name := (pctDecode ((kvGet kv "name").getD "")).getD ""
    let c := CafsDrv.parseContent ((kvGet kv "content").getD "")
    -- the consumable store lists its keys in sorted order
    ({ st with tree := insertT (name, c) (st.tree.filter (·.1 != name)) }, none)
  | "downloadf" :: rest =>
    -- judge: a download through a retrying destination with one transiently failing blob read
    -- failed, or wrote exactly the bundle's files
    let got := (kvGet (kvs rest) "got").getD ""
    (st, some (if got == "same" || got == "err" then "sound" else "UNSOUND"))
  | "uploadf" :: rest =>
    -- judge: the same upload with ONE transiently failing store call either failed or produced the
    -- same entries as the fault-free upload (which the `upload` line compares with the model)
    -- A failing existence check must change nothing (`C04_has_fault_same`); without skip-missing a
    -- failing read must fail the upload (`C04_get_fault_fails`); a failing store write: error or same.
    let kv := kvs rest
    let got := (kvGet kv "got").getD ""
    let fault := (kvGet kv "fault").getD ""
    let ok := if fault == "src-has" then got == "same"
      else if fault == "src-get" then got == "err"
      else if fault == "src-get-skip" then got != "hang"   -- skipped by design; it must end
      else got == "same" || got == "err"
    (st, some (if ok then "sound" else "UNSOUND"))
  | "upload" :: rest =>
    let kv := kvs rest
    let keysArg := (kvGet kv "keys").getD "*"
    let files := if keysArg == "*" then st.tree.map (·.1)
      else if keysArg == "" then []
      else dedup ((keysArg.splitOn ",").map fun k => (pctDecode k).getD "")
    let skip := (kvGet kv "skip") == some "1"
    -- hash every file once; `key` looks the content up
    let hashed : List (Bytes × String) := st.tree.map fun p => (p.2, keyOf st.leaf p.2)
    let key : Bytes → String := fun c => (hashed.lookup c).getD ""
    match uploadEntries key st.tree files skip with
    | none => (st, some "err")
    | some es =>
      let count := (batches st.perFile es).length
      ({ st with entries := es, hashed := hashed.map (fun p => (p.2, p.1)) }, some ("ok entries=" ++ showEntries es ++ " ## count=" ++ toString count))
  | "download" :: rest =>
    let kv := kvs rest
    let sel := parseSel ((kvGet kv "sel").getD "all")
    -- through the index files and back: batches, then reassembly by position
    let bs := batches st.perFile st.entries
    let arrived := (List.range bs.length).zip bs
    match reassemble st.perFile bs.length arrived with
    | none => (st, some "err")
    | some es =>
      let fetch : String → Option Bytes := fun h => st.hashed.lookup h
      match download fetch sel es [] with
      | none => (st, some "err")
      | some out => (st, some ("ok files=" ++ showFiles out))
  | "label" :: rest =>
    -- C15: a label set concurrently with other operations resolves to the bundle it was set to
    (st, some ((kvGet (kvs rest) "target").getD "?"))
  | _ => (st, none)

def handler : Handler St := { init := {}, step := step }

end DV.C04
