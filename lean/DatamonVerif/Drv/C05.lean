import DatamonVerif.Drv.Common
import DatamonVerif.Model.Diff
/-! Replay of C05 traces on the model `BundleDiff`.

Input lines of a case (no result): `bundle A|B e=<path>|<hash>|<size>,…`, `content c=<hash>|<len>|<fp>,…`,
`meta A|B id=<sym> desc=<len>|<fp> lists=<len>|<fp>,…`. Operation lines:
`diff store=…` → the model's `diffBundles A B`, rendered and sorted;
`update store=…` → `update` applied to the model's own download of `A`, rendered as sorted
`files=` / `meta=` lists (bytes are represented by `<len>|<fp>` of the content table). -/
namespace DV.C05
open BundleDiff

structure St where
  a : List Entry := []
  b : List Entry := []
  content : List (String × String) := []
  ma : BundleMeta String := ⟨"A", "", []⟩
  mb : BundleMeta String := ⟨"B", "", []⟩

def splitList (s : String) : List String := if s == "" then [] else s.splitOn ","

def parseEntries (s : String) : List Entry :=
  (splitList s).filterMap fun t =>
    match t.splitOn "|" with
    | [p, h, z] => some ⟨(pctDecode p).getD p, h, z.toNat?.getD 0⟩
    | _ => none

def parseContent (s : String) : List (String × String) :=
  (splitList s).filterMap fun t =>
    match t.splitOn "|" with
    | [h, l, fp] => some (h, l ++ "|" ++ fp)
    | _ => none

def contentOf (tbl : List (String × String)) (h : String) : String :=
  (BundleDiff.get tbl h).getD ("?" ++ h)

def sortStrings (l : List String) : List String := (l.toArray.qsort (· < ·)).toList

def dash (s : String) : String := if s == "" then "-" else s

def showKind : Kind → String
  | .add => "A"
  | .del => "D"
  | .dif => "U"

def showDiffEntry (d : DiffEntry) : String :=
  "|".intercalate [showKind d.kind, pctEncode d.name,
    pctEncode d.existing.path, dash d.existing.hash, toString d.existing.size,
    pctEncode d.additional.path, dash d.additional.hash, toString d.additional.size]

def showDiff (ds : List DiffEntry) : String := ",".intercalate (sortStrings (ds.map showDiffEntry))

def showStore (s : List (String × String)) : String :=
  ",".intercalate (sortStrings (s.map fun p => pctEncode p.1 ++ "|" ++ p.2))

def isMetaKey (k : String) : Bool := (stripPre metaPrefix.toList k.toList).isSome

def step (st : St) (op : String) : St × Option String :=
  match words op with
  | "case" :: _ => ({}, none)
  | "bundle" :: which :: rest =>
    let es := parseEntries ((kvGet (kvs rest) "e").getD "")
    (if which == "A" then { st with a := es } else { st with b := es }, none)
  | "content" :: rest => ({ st with content := parseContent ((kvGet (kvs rest) "c").getD "") }, none)
  | "meta" :: which :: rest =>
    let kv := kvs rest
    let m : BundleMeta String :=
      ⟨(kvGet kv "id").getD which, (kvGet kv "desc").getD "", splitList ((kvGet kv "lists").getD "")⟩
    (if which == "A" then { st with ma := m } else { st with mb := m }, none)
  | "diff" :: _ => (st, some ("ok d=" ++ showDiff (diffBundles st.a st.b)))
  | "updatef" :: rest =>
    -- judge: an update through an unfriendly destination (one failing call; slow with a 0/negative
    -- concurrency setting) reported an error, or left exactly what a fresh download leaves
    let got := ((rest.filterMap fun t => if t.startsWith "got=" then some ((t.drop 4).toString) else none).head?).getD ""
    (st, some (if got == "same" || got == "err" then "sound" else "UNSOUND"))
  | "update" :: rest =>
    let content := contentOf st.content
    let res :=
      match update content st.a st.b st.mb (download content st.a st.ma) with
      | none => "err"
      | some s =>
        "ok files=" ++ showStore (s.filter fun p => !isMetaKey p.1) ++
          " meta=" ++ showStore (s.filter fun p => isMetaKey p.1) ++ " fresh=same"
    let fs := (kvGet (kvs rest) "store") == some "fs"
    (st, some (if fs && dirFileConflict st.a st.b then res ++ " !! C05-localfs-dir-file" else res))
  | _ => (st, none)

def handler : Handler St := { init := {}, step := step }

end DV.C05
