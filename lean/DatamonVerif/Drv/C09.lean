import DatamonVerif.Drv.Common
import DatamonVerif.Model.Repo
/-! Driver for C09: replays repository operations on the model and prints the state DIFF
    classified by owning repository.

    Lines (see harness/cmd/dvh/c09.go):
    * `case …`, `reset`            – empty state
    * `s <key> <val>`              – load one object (key percent-escaped; labels/… go to vmeta)
    * `op create repo= desc= aux=` / `op delete repo=` / `op rename repo= to=` /
      `op delfiles repo= paths=a,b` – result `ok|err <diff>` (on `err` the diff is auxiliary);
      `store=silent` on a delete marks the one case run on a store with silent deletes
    * `sched name= k= descs= order=` – creators acting in the given order of store calls
    * `par name= k= descs= oks= stored=` – judge: is the observed outcome of a truly parallel run
      one that a schedule can produce (exactly one winner, whose descriptor is stored)?

    values: `R^desc^aux`, `B^count^aux`, `F^path|aux,path|aux` (`F^-` empty), `L^bid^aux`, `X^aux`. -/
namespace DV.C09
open Repo

def toS (l : Str) : String := String.ofList l
def esc (l : Str) : String := pctEncode (toS l)
def unesc (s : String) : Str := ((pctDecode s).getD "").toList

def showVal : Val → String
  | .repo d a => "R^" ++ esc d ++ "^" ++ toString a
  | .bundle n a => "B^" ++ toString n ++ "^" ++ toString a
  | .files es =>
    if es.isEmpty then "F^-"
    else "F^" ++ ",".intercalate (es.map fun e => esc e.1 ++ "|" ++ toString e.2)
  | .label b a => "L^" ++ esc b ++ "^" ++ toString a
  | .junk a => "X^" ++ toString a

def parseEntries (s : String) : List (Str × Nat) :=
  if s == "-" || s == "" then [] else
  (s.splitOn ",").map fun t =>
    match t.splitOn "|" with
    | [p, a] => (unesc p, a.toNat?.getD 0)
    | _ => (unesc t, 0)

def parseVal (s : String) : Val :=
  match s.splitOn "^" with
  | ["R", d, a] => .repo (unesc d) (a.toNat?.getD 0)
  | ["B", n, a] => .bundle (n.toNat?.getD 0) (a.toNat?.getD 0)
  | ["F", es] => .files (parseEntries es)
  | ["L", b, a] => .label (unesc b) (a.toNat?.getD 0)
  | ["X", a] => .junk (a.toNat?.getD 0)
  | _ => .junk 0

def isLabelKey (k : Str) : Bool := sLabels.isPrefixOf k

def insertSorted (x : String × String) : List (String × String) → List (String × String)
  | [] => [x]
  | y :: r => if x.1 < y.1 || (x.1 == y.1 && x.2 ≤ y.2) then x :: y :: r else y :: insertSorted x r

def sortPairs (l : List (String × String)) : List (String × String) :=
  l.foldl (fun acc x => insertSorted x acc) []

/-- all (key, before, after) with a difference, over both stores -/
def diffStore (a b : Store) : List (Str × Option Val × Option Val) :=
  let ks := dedup (keys a ++ keys b)
  ks.filterMap fun k =>
    let x := get a k
    let y := get b k
    if x == y then none else some (k, x, y)

/-- a key of a bundle that has no descriptor before nor after (never committed): what happens
    to it is not determined by the property -/
def leftover (pre post : St) (k : Str) : Bool :=
  match repoOf k with
  | some r =>
    match compAfter (bundlePrefix r) k with
    | some id => !(has pre.md (bundleKey r id)) && !(has post.md (bundleKey r id))
    | none => false
  | none => false

def owner (k : Str) : String :=
  match repoOf k with
  | some r => esc r
  | none => "?"

def showItem (k : Str) (x y : Option Val) : String :=
  match x, y with
  | some _, none => "-" ++ esc k
  | none, some v => "+" ++ esc k ++ "^" ++ showVal v
  | _, some v => "*" ++ esc k ++ "^" ++ showVal v
  | none, none => ""

def showGroups (items : List (String × String)) : String :=
  let rec go (cur : String) : List (String × String) → List String
    | [] => []
    | (o, it) :: r => if o == cur then it :: go cur r else ("@" ++ o) :: it :: go o r
  match go "\x00" (sortPairs items) with
  | [] => "same"
  | l => " ".intercalate l

/-- (compared part, auxiliary part) of the diff -/
def showDiff (pre post : St) : String × String :=
  let d := diffStore pre.md post.md ++ diffStore pre.vmd post.vmd
  let main := d.filter fun t => !(leftover pre post t.1)
  let aux := d.filter fun t => leftover pre post t.1
  let f := fun (l : List (Str × Option Val × Option Val)) =>
    showGroups (l.map fun t => (owner t.1, showItem t.1 t.2.1 t.2.2))
  (f main, f aux)

def insertStr (x : String) : List String → List String
  | [] => [x]
  | y :: r => if x ≤ y then x :: y :: r else y :: insertStr x r

def sortStrs (l : List String) : List String := l.foldl (fun acc x => insertStr x acc) []

/-- what `ListBundles` reports for every repository that has a descriptor -/
def showListing (s : St) : String :=
  let rs := (keys s.md).filterMap fun k =>
    match repoOf k with
    | some r => if sRepos.isPrefixOf k && k == repoKey r then some r else none
    | none => none
  let parts := rs.map fun r =>
    match listBundles s.md r with
    | none => esc r ++ ":!"
    | some bs =>
      let ids := sortStrs (bs.map fun b => toS b.1)
      esc r ++ ":" ++ (if ids.isEmpty then "-" else "+".intercalate ids)
  if parts.isEmpty then "-" else ";".intercalate parts

def showRes (pre : St) (p : St × Res) : String :=
  let (m, a) := showDiff pre p.1
  match p.2 with
  | .ok => "ok " ++ m ++ " blobs=0 ls=" ++ showListing p.1 ++ (if a == "same" then "" else " ## left: " ++ a)
  | .err => "err ## " ++ m ++ (if a == "same" then "" else " left: " ++ a)

def emptySt : St := { md := [], vmd := [] }

/-- Trigger region of the known finding `C09-delete-loop-silent-delete`: `DeleteRepo` on a store
    whose `Delete` of a missing key succeeds (`store=silent`, the localfs behaviour) of a
    repository that lists a bundle whose descriptor has `count = 0`: the "delete until an error
    is found" loop of `DeleteBundle` never ends (`C09_neg_deleteLoop_silent_delete`).  The model
    result on such a line is what the property demands (the repository is removed). -/
def silentLoopTrigger (s : St) (kind : String) (repo : Str) (store : String) : Bool :=
  kind == "delete" && store == "silent" && repoExists s repo &&
    match listBundles s.md repo with
    | some bs => bs.any fun b => b.2.1 == 0
    | none => false

def parseList (s : String) : List String := if s == "" || s == "-" then [] else s.splitOn ","

def showNats (l : List Nat) : String := if l.isEmpty then "-" else ",".intercalate (l.map toString)

def creators (descs : List String) (aux : Nat) : List Creator :=
  descs.map fun d => { desc := unesc d, aux := aux }

def okIdx (res : List (Nat × Res)) : List Nat :=
  (res.filter (·.2 == .ok)).map (·.1)

def storedDesc (s : St) (name : Str) : String :=
  match get s.md (repoKey name) with
  | some (.repo d _) => esc d
  | some _ => "?"
  | none => "none"

def insertNat (x : Nat) : List Nat → List Nat
  | [] => [x]
  | y :: r => if x ≤ y then x :: y :: r else y :: insertNat x r

def sortNats (l : List Nat) : List Nat := l.foldl (fun acc x => insertNat x acc) []

def step (s : St) (op : String) : St × Option String :=
  match words op with
  | "case" :: _ => (emptySt, none)
  | ["reset"] => (emptySt, none)
  | ["s", k, v] =>
    let key := unesc k
    let val := parseVal v
    if isLabelKey key then ({ s with vmd := put s.vmd key val }, none)
    else ({ s with md := put s.md key val }, none)
  | "renamef" :: rest =>
    -- judge: `RenameRepo` with one transiently failing store call reported an error, or left exactly
    -- the state of the fault-free rename
    let got := (kvGet (kvs rest) "got").getD ""
    (s, some (if got == "same" || got == "err" then "sound" else "UNSOUND"))
  | "deletecr" :: rest =>
    -- judge: `DeleteRepo` killed at its k-th store write and then run again left nothing of the
    -- repository (it held committed bundles only) and changed no key of any other repository
    let got := (kvGet (kvs rest) "got").getD ""
    (s, some (if got == "clean" then "sound" else "UNSOUND"))
  | "op" :: kind :: rest =>
    let kv := kvs rest
    let repo := unesc ((kvGet kv "repo").getD "")
    let p : St × Res :=
      match kind with
      | "create" => createRepo s repo (unesc ((kvGet kv "desc").getD "")) ((kvNat kv "aux").getD 0)
      | "delete" => deleteRepo s repo
      | "rename" => renameRepo s repo (unesc ((kvGet kv "to").getD ""))
      | "delfiles" => deleteEntries s repo ((parseList ((kvGet kv "paths").getD "")).map unesc)
      | _ => (s, .err)
    (p.1, some (showRes s p ++ (if silentLoopTrigger s kind repo ((kvGet kv "store").getD "") then
      " !! C09-delete-loop-silent-delete" else "")))
  | "sched" :: rest =>
    let kv := kvs rest
    let name := unesc ((kvGet kv "name").getD "")
    let cs := creators (parseList ((kvGet kv "descs").getD "")) ((kvNat kv "aux").getD 0)
    let order := natList ((kvGet kv "order").getD "")
    let (s', res) := runCreates name cs order s
    let (m, _) := showDiff s s'
    (s', some ("oks=" ++ showNats (sortNats (okIdx res)) ++ " stored=" ++ storedDesc s' name ++ " " ++ m))
  | "par" :: rest =>
    let kv := kvs rest
    let name := unesc ((kvGet kv "name").getD "")
    let descs := parseList ((kvGet kv "descs").getD "")
    let cs := creators descs ((kvNat kv "aux").getD 0)
    let oks := natList ((kvGet kv "oks").getD "")
    let stored := (kvGet kv "stored").getD "none"
    -- the schedule in which the observed winner (if any) moves first
    let order := oks.take 1 ++ List.range cs.length
    let (s', res) := runCreates name cs order s
    let good := sortNats (okIdx res) == sortNats oks && storedDesc s' name == stored
    (s', some (if good then "consistent" else
      "inconsistent ## model: oks=" ++ showNats (okIdx res) ++ " stored=" ++ storedDesc s' name))
  | _ => (s, none)

def handler : Handler St := { init := emptySt, step := step }

end DV.C09
