import DatamonVerif.Drv.Common
import DatamonVerif.Model.FuseRW
import DatamonVerif.Model.Inode
import DatamonVerif.Generated.Facts
/-! Trace replay for C18.

Program lines (between `case … prog` and `end`) name inodes by RANK: the order in which the kernel
first received them (root = 0); a rank dies when the kernel's lookup count of the inode returns to
zero. The driver keeps the rank ↔ model-inode table, runs `FuseRW.step` and prints the answer.
`gen …` lines are raw alloc/free histories of the inode generator, replayed on `Inode.run`; `store …` lines
are create / lookup / unlink / forget histories replayed on `Inode.srun` (raw numbers and counts).
Operations inside a known-finding trigger (`trigger`) and everything after them in the same program carry
`!! <finding-id>`: after such an operation the implementation's state is no longer determined by POSIX. -/
namespace DV.C18
open FuseRW

structure S where
  t : PosixTree := FuseRW.init
  /-- (rank, model inode) for every inode the kernel holds -/
  ranks : List (Nat × Nat) := [(0, rootIno)]
  nextRank : Nat := 1
  /-- id of a known finding whose trigger this program already passed -/
  tainted : Option String := none

def inoOf (s : S) (rank : Nat) : Nat :=
  match s.ranks.find? (·.1 == rank) with
  | some p => p.2
  | none => 0 -- no such inode in the model: answers `noent`

def rankOf? (s : S) (ino : Nat) : Option Nat := (s.ranks.find? (·.2 == ino)).map (·.1)

/-- rank of an inode handed to the kernel: its current one, or the next fresh rank -/
def giveRank (s : S) (ino : Nat) : S × Nat :=
  match rankOf? s ino with
  | some r => (s, r)
  | none => ({ s with ranks := (s.nextRank, ino) :: s.ranks, nextRank := s.nextRank + 1 }, s.nextRank)

/-- forget ranks of inodes the kernel no longer references -/
def dropDead (s : S) : S :=
  { s with ranks := s.ranks.filter fun p =>
      p.2 == rootIno || (match node s.t p.2 with | some e => e.nl != 0 | none => false) }

def insertSorted (x : String) : List String → List String
  | [] => [x]
  | y :: r => if x ≤ y then x :: y :: r else y :: insertSorted x r

def sortStrings (l : List String) : List String := l.foldl (fun acc x => insertSorted x acc) []

def kindStr : Kind → String
  | .dir => "d"
  | .file => "f"

def errStr : Errno → String
  | .noent => "noent"
  | .exist => "exists"
  | .notdir => "notdir"
  | .isdir => "isdir"
  | .notempty => "notempty"
  | .inval => "inval"

def fnv64 (b : Bytes) : UInt64 :=
  b.foldl (fun h x => (h ^^^ x.toUInt64) * 0x100000001b3) 0xcbf29ce484222325

def pathStr (p : Path) : String := "/".intercalate p

def showResult (s : S) : Result → S × String
  | .err e => (s, errStr e)
  | .entry k ino size =>
    let (s1, r) := giveRank s ino
    (s1, "ok " ++ kindStr k ++ " i=" ++ toString r ++ (if k = .file then " s=" ++ toString size else ""))
  | .attr k size => (s, "ok " ++ kindStr k ++ (if k = .file then " s=" ++ toString size else ""))
  | .bytes b => (s, "ok x=" ++ hexOfBytes b)
  | .dirents l =>
    let items := l.map fun (n, k, ino, held) =>
      n ++ ":" ++ kindStr k ++ ":" ++ (if held then (match rankOf? s ino with | some r => toString r | none => "?") else "-")
    (s, "ok n=" ++ toString l.length ++ " " ++ ",".intercalate (sortStrings items))
  | .done => (s, "ok")

/-- `gen:<seed>:<len>` or `hex:<bytes>` -/
def parseData (v : String) : Bytes :=
  match v.splitOn ":" with
  | ["gen", a, b] => (genBytes (a.toNat?.getD 0) (b.toNat?.getD 0)).toList
  | ["hex", h] => (bytesOfHex h).getD []
  | _ => []

def parseOp (s : S) (ws : List String) : Option Op :=
  match ws with
  | [] => none
  | cmd :: rest =>
    let kv := kvs rest
    let nat (k : String) : Nat := (kvNat kv k).getD 0
    let ino (k : String) : Nat := inoOf s (nat k)
    let str (k : String) : String := ((kvGet kv k).bind pctDecode).getD ""
    match cmd with
    | "create" => some (.create (ino "p") (str "n"))
    | "mkdir" => some (.mkdir (ino "p") (str "n"))
    | "lookup" => some (.lookup (ino "p") (str "n"))
    | "getattr" => some (.getattr (ino "i"))
    | "sync" => some (.getattr (ino "i")) -- FlushFile + SyncFile change nothing; answered with the attributes
    | "write" => some (.write (ino "i") (nat "off") (parseData ((kvGet kv "data").getD "")))
    | "burst" => some (.write (ino "i") 0 (List.replicate (nat "n") 0x78))
    | "trunc" => some (.trunc (ino "i") (nat "size"))
    | "read" => some (.read (ino "i") (nat "off") (nat "len"))
    | "readdir" => some (.readdir (ino "i"))
    | "rename" => some (.rename (ino "p") (str "n") (ino "q") (str "m"))
    | "unlink" => some (.unlink (ino "p") (str "n"))
    | "rmdir" => some (.rmdir (ino "p") (str "n"))
    | "forget" => some (.forget (ino "i") (nat "k"))
    | _ => none

def showFiles (l : List (Path × Bytes)) (withHash : Bool) : String :=
  let items := l.map fun (p, d) =>
    pctEncode (pathStr p) ++ ":" ++ toString d.length ++ (if withHash then ":" ++ toString (fnv64 d).toNat else "")
  "ok n=" ++ toString l.length ++ " " ++ ",".intercalate (sortStrings items)

/-- generator histories: `a` = alloc, `f<k>` = free the k-th live inode (oldest first) -/
def parseGOps (s : String) : List Inode.GOp :=
  if s == "" then [] else
  (s.splitOn ",").filterMap fun w =>
    if w == "a" then some .alloc
    else if w.startsWith "f" then (w.drop 1).toString.toNat?.map .free
    else none

def showGen (first : Nat) (ops : List Inode.GOp) : String :=
  let (st, outs) := Inode.run ⟨Inode.init first, []⟩ ops
  ",".intercalate (outs.map fun o => match o with | some n => toString n | none => "-")
    ++ " ## hi=" ++ toString st.g.highest ++ " free=" ++ showNatList st.g.free.reverse

/-- store histories: `cd`/`cf` = create directory/file, `l<k>` lookup, `u<k>` unlink, `f<k>:<n>` forget -/
def parseSOps (s : String) : List Inode.SOp :=
  if s == "" then [] else
  (s.splitOn ",").filterMap fun w =>
    if w == "cd" then some (.create true)
    else if w == "cf" then some (.create false)
    else if w.startsWith "l" then (w.drop 1).toString.toNat?.map .lookup
    else if w.startsWith "u" then (w.drop 1).toString.toNat?.map .unlink
    else if w.startsWith "f" then
      match ((w.drop 1).toString.splitOn ":").map String.toNat? with
      | [some k, some n] => some (.forget k n)
      | _ => none
    else none

def showStore (first : Nat) (ops : List Inode.SOp) : String :=
  let st := Inode.srun (Inode.sinit first) ops
  ",".intercalate (st.nodes.map fun n => toString n.ino ++ ":" ++ toString n.refCount ++ ":" ++ toString n.nlink)
    ++ " ## nodes=" ++ toString st.nodes.length

/-- Known-finding triggers: decidable predicates on the state and the operation about to run. All four are
    operations the Linux VFS never sends to a file system (it answers them itself); the mount does not repeat
    those checks, so at the operation interface its answer differs from POSIX. -/
def parentClass (t : PosixTree) (p : Nat) : String :=
  match findIno t.ents p with
  | some e => if e.kind = .dir then "dir" else "file"
  | none =>
    match findIno t.orph p with
    | some e => if e.kind = .dir then "dead" else "file"
    | none => "none"

def kindAt (t : PosixTree) (p : Nat) (n : String) : Option Kind :=
  match parentDir t p with
  | .ok pp => (findPath t.ents (pp ++ [n])).map (·.kind)
  | .error _ => none

def isDirIno (t : PosixTree) (i : Nat) : Bool :=
  match node t i with
  | some e => e.kind == .dir
  | none => false

def trigger (s : S) : Op → Option String
  | .unlink p n =>
    if parentClass s.t p == "file" then some "vfs-dead-or-file-parent"
    else if kindAt s.t p n == some .dir then some "vfs-kind-checks" else none
  | .rmdir p n =>
    if parentClass s.t p == "file" then some "vfs-dead-or-file-parent"
    else if kindAt s.t p n == some .file then some "vfs-kind-checks" else none
  | .lookup p _ => if parentClass s.t p == "file" then some "vfs-dead-or-file-parent" else none
  | .create p _ => if parentClass s.t p == "dead" then some "vfs-dead-or-file-parent" else none
  | .mkdir p _ => if parentClass s.t p == "dead" then some "vfs-dead-or-file-parent" else none
  | .rename p n q m =>
    if parentClass s.t p != "dir" || parentClass s.t q != "dir" then some "vfs-dead-or-file-parent"
    else
      let below : Bool :=
        match parentDir s.t p, parentDir s.t q with
        | .ok pp, .ok qp => (pp ++ [n]).isPrefixOf (qp ++ [m]) && (pp ++ [n]) != (qp ++ [m])
        | _, _ => false
      if kindAt s.t p n == some .dir && below then some "vfs-rename-below-itself"
      else
        match kindAt s.t p n, kindAt s.t q m with
        | some a, some b => if a != b then some "vfs-kind-checks" else none
        | _, _ => none
  | .read i _ _ => if isDirIno s.t i then some "vfs-io-on-directory" else none
  | .write i _ _ => if isDirIno s.t i then some "vfs-io-on-directory" else none
  | .trunc i _ => if isDirIno s.t i then some "vfs-io-on-directory" else none
  | _ => none

def withTaint (s : S) (res : String) : String :=
  match s.tainted with
  | some id => res ++ " !! " ++ id
  | none => res

def step (s : S) (op : String) : S × Option String :=
  match words op with
  | "case" :: _ => ({}, none)
  | ["end"] => (s, none)
  | "gen" :: rest =>
    let kv := kvs rest
    (s, some (showGen Facts.fuseRwFirstINode (parseGOps ((kvGet kv "ops").getD ""))))
  | "store" :: rest =>
    let kv := kvs rest
    (s, some (showStore Facts.fuseRwFirstINode (parseSOps ((kvGet kv "ops").getD ""))))
  | "race" :: rest =>
    -- judge: a write and a truncate of one file in flight together — whatever order they take effect
    -- in, the size shown, the bytes served and the size committed agree
    let got := (kvGet (kvs rest) "got").getD ""
    (s, some (if got == "consistent" then "sound" else "UNSOUND"))
  | ["audit"] =>
    (s, some (withTaint s ("ok ## links=" ++ toString (s.t.ents.length - 1) ++ " nodes=" ++ toString (s.t.ents.length + s.t.orph.length))))
  | ["commit"] => (s, some (withTaint s (showFiles (commitList s.t) false)))
  | ["download"] => (s, some (withTaint s (showFiles (treeFiles s.t) true)))
  | ws =>
    match parseOp s ws with
    | none => (s, none)
    | some o =>
      let s := match s.tainted, trigger s o with
        | none, some id => { s with tainted := some id }
        | _, _ => s
      let (t', r) := FuseRW.step s.t o
      let (s1, txt) := showResult { s with t := t' } r
      (dropDead s1, some (withTaint s1 txt))

def handler : Handler S := { init := {}, step := step }

end DV.C18
