import Std.Data.HashMap
import DatamonVerif.Drv.Common
import DatamonVerif.Model.List
/-! Driver for C07: replays the key table of a case and the listing operations on `Model/List`.
Keys and names are handed to the model as character lists (`String.toList`): the lexicographic
order of character lists is the byte order of the Go strings (UTF-8 preserves code point order). -/
namespace DV.C07
open Listing

structure St where
  mRev : List Entry := []          -- metadata store, reversed
  vRev : List Entry := []          -- vmetadata store, reversed
  n : Nat := 0
  idxM : Std.HashMap String Nat := {}
  idxV : Std.HashMap String Nat := {}
  frozen : Option (Store × Store) := none
  lastOp : String := ""
  lastRes : String := ""           -- cached `w=seq` answer of the last listing

def showIdx (l : List Nat) : String := ",".intercalate (l.map toString)

/-- sorting of the index sets -/
def sortNatFast (l : List Nat) : List Nat := (l.toArray.qsort (· < ·)).toList

/-- indices in the given order, runs of equal sort fields put in increasing index order -/
partial def canon : List (SK × Nat) → List Nat
  | [] => []
  | (k, i) :: rest =>
    let run := rest.takeWhile (fun p => p.1 == k)
    let tail := rest.dropWhile (fun p => p.1 == k)
    sortNatFast (i :: run.map (·.2)) ++ canon tail

def kindOf : String → Option Kind
  | "repos" => some .repos
  | "bundles" => some .bundles
  | "labels" => some .labels
  | "diamonds" => some .diamonds
  | "splits" => some .splits
  | _ => none

def dec (s : String) : String := (pctDecode s).getD s

def step (σ : St) (op : String) : St × Option String :=
  match words op with
  | "case" :: _ => ({}, none)
  | "k" :: rest =>
    let kv := kvs rest
    let key := dec ((kvGet kv "key").getD "")
    let d : Desc := { name := (dec ((kvGet kv "name").getD "")).toList, t := (kvNat kv "t").getD 0,
                      s := (dec ((kvGet kv "s").getD "")).toList }
    let isDesc := (kvGet kv "d").getD "0" == "1"
    -- keys without a descriptor the listings read (index files) carry an empty descriptor
    let e : Entry := (key.toList, if isDesc then d else { name := [], t := 0, s := [] })
    if (kvGet kv "st").getD "m" == "m" then
      ({ σ with mRev := e :: σ.mRev, idxM := σ.idxM.insert key σ.n, n := σ.n + 1 }, none)
    else
      ({ σ with vRev := e :: σ.vRev, idxV := σ.idxV.insert key σ.n, n := σ.n + 1 }, none)
  | "lsf" :: rest =>
    -- judge: a listing during which ONE descriptor read fails ends with an error or with exactly
    -- the fault-free listing (same objects, same order) — it neither hangs nor returns a part
    let got := (kvGet (kvs rest) "got").getD ""
    (σ, some (if got == "same" || got == "err" then "sound" else "UNSOUND"))
  | "ls" :: rest =>
    let kv := kvs rest
    let σ := match σ.frozen with
      | some _ => σ
      | none => { σ with frozen := some (σ.mRev.reverse, σ.vRev.reverse) }
    let (m, v) := σ.frozen.getD ([], [])
    let w := (kvGet kv "w").getD "set"
    let opKey := " ".intercalate (rest.filter (fun t => !t.startsWith "w="))
    if w == "seq" && σ.lastOp == opKey then (σ, some σ.lastRes) else
    match kindOf ((kvGet kv "kind").getD "") with
    | none => (σ, some "badkind")
    | some kind =>
      let variant := (kvGet kv "v").getD "list"
      let r := (dec ((kvGet kv "repo").getD "")).toList
      let d := (dec ((kvGet kv "dia").getD "")).toList
      let ps := (kvNat kv "ps").getD 1
      let idx := if kind == .repos || kind == .bundles then σ.idxM else σ.idxV
      let ix (l : List Entry) : List (SK × Nat) := l.map fun e => (sk e, (idx.get? (String.ofList e.1)).getD 999999999)
      -- completion order of the parallel fetch: reversed (any permutation gives the same answer, `C07_list_perm`)
      let sched : Sched := List.reverse
      -- `C07_restrict`: applyListFast = applyList, fullListFast = fullList (replay on the slice under the prefix)
      let res := if variant == "apply" then applyListFast kind m v r d ps sched else fullListFast kind m v r d ps sched
      match res with
      | .notfound => ({ σ with lastOp := opKey, lastRes := "notfound" }, some "notfound")
      | .ok l =>
        let setS := "ok " ++ showIdx (sortNatFast ((ix l).map (·.2)))
        -- what the property demands of the order: sorted by the kind's sort field
        let sorted := if variant == "apply" then isort entLe l else l
        let flag := if variant == "apply" && !sortedBySk l then " !! C07-apply-order" else ""
        let seqS := "ok " ++ showIdx (canon (ix sorted)) ++ flag
        ({ σ with lastOp := opKey, lastRes := seqS }, some (if w == "seq" then seqS else setS))
  | _ => (σ, none)

def handler : Handler St := { init := {}, step := step }

end DV.C07
