import DatamonVerif.Drv.Common
import DatamonVerif.Model.Tracker
namespace DV.C22
open Tracker

def parsePairs (s : String) : List (Nat × Nat) :=
  if s == "" then [] else
  (s.splitOn ",").filterMap fun t =>
    match t.splitOn ":" with
    | [a, b] => match a.toNat?, b.toNat? with
      | some x, some y => some (x, y)
      | _, _ => none
    | _ => none

def showMarkers (m : Markers) : String :=
  ",".intercalate (m.map fun p => toString p.1 ++ ":" ++ (if p.2 then "1" else "0"))

/-- line: `t w=<off:len,...> q=<Q> len=<L>`; result: markers after all writes and, for every
    offset `0..Q-1`, `contiguous/storage`. -/
def step (_ : Unit) (op : String) : Unit × Option String :=
  match words op with
  | "t" :: rest =>
    let kv := kvs rest
    let ws := parsePairs ((kvGet kv "w").getD "")
    let q := (kvNat kv "q").getD 0
    let len := (kvNat kv "len").getD 1
    let m := run ws
    let rs := (List.range q).map fun x =>
      let r := getRangeToRead m x len
      toString r.1 ++ "/" ++ (if r.2 then "1" else "0")
    ((), some ("r=" ++ ",".intercalate rs ++ " ## m=" ++ showMarkers m))
  | _ => ((), none)

def handler : Handler Unit := { init := (), step := step }

end DV.C22
