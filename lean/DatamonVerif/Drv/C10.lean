import DatamonVerif.Drv.Common
import DatamonVerif.Model.Squash
import DatamonVerif.Generated.Facts
/-! Driver for C10 (squash). Lines:

* `st descs=<rank:count,…> idx=<rank:i,…> labels=<name:rank:semver,…>` — the metadata really present in
  the stores before the squash (input only); the semver verdict of the Go library for every label name
  is part of the input (`isSemver` of the model is that table);
* `squash n=<N> tags=<0|1> semver=<0|1> silent=<0|1> repo=<0|1>` — result: `err` for a missing repository,
  else `ok kept=<committed ids> labels=<labels whose bundle was committed> dl=<id:same,…>` and, as
  auxiliary part, the ids left with index files only, the labels that pointed at no committed bundle and
  the number of label names on which the Lean semver recogniser disagrees with the library;
* `sv name=<label>` — auxiliary: the verdict of the Lean recogniser (documentation of the grammar). -/
namespace DV.C10
open Squash

/-! ### a recogniser for `semver.ParseTolerant` (blang/semver v3.5.1), used in auxiliary output only -/

def splitDot1 (s : List Char) : List Char × Option (List Char) :=
  match s.span (· != '.') with
  | (a, []) => (a, none)
  | (a, _ :: rest) => (a, some rest)

/-- `strings.SplitN(s, ".", 3)` -/
def splitN3 (s : List Char) : List (List Char) :=
  match splitDot1 s with
  | (a, none) => [a]
  | (a, some r) =>
    match splitDot1 r with
    | (b, none) => [a, b]
    | (b, some r2) => [a, b, r2]

/-- `strings.Split(s, ".")` -/
def splitDots (s : List Char) : List (List Char) :=
  let rec go (cur : List Char) : List Char → List (List Char)
    | [] => [cur.reverse]
    | c :: r => if c == '.' then cur.reverse :: go [] r else go (c :: cur) r
  go [] s

def isDigitC (c : Char) : Bool := '0' ≤ c && c ≤ '9'
def isAlnumDash (c : Char) : Bool := isDigitC c || ('a' ≤ c && c ≤ 'z') || ('A' ≤ c && c ≤ 'Z') || c == '-'

def numVal (s : List Char) : Nat := s.foldl (fun a c => a * 10 + (c.toNat - 48)) 0

/-- digits only, no leading zero, fits `uint64` -/
def okNumber (s : List Char) : Bool :=
  s != [] && s.all isDigitC && !(s.length > 1 && s.head? == some '0') && numVal s < 2 ^ 64

def okPre (s : List Char) : Bool :=
  s != [] && (if s.all isDigitC then okNumber s else s.all isAlnumDash)

def okBuild (s : List Char) : Bool := s != [] && s.all isAlnumDash

def isSpaceC (c : Char) : Bool := c == ' ' || c == '\t' || c == '\n' || c == '\r' || c.toNat == 11 || c.toNat == 12

/-- `semver.Parse` -/
def parseStrict (s : List Char) : Bool :=
  match splitN3 s with
  | [ma, mi, rest] =>
    let (beforePlus, build) :=
      match rest.span (· != '+') with
      | (a, []) => (a, ([] : List (List Char)))
      | (a, _ :: b) => (a, splitDots b)
    let (patch, pre) :=
      match beforePlus.span (· != '-') with
      | (a, []) => (a, ([] : List (List Char)))
      | (a, _ :: b) => (a, splitDots b)
    okNumber ma && okNumber mi && okNumber patch && pre.all okPre && build.all okBuild
  | _ => false

/-- `semver.ParseTolerant` succeeds -/
def semverTolerant (name : String) : Bool :=
  let s := ((name.toList.dropWhile isSpaceC).reverse.dropWhile isSpaceC).reverse
  let s := match s with
    | 'v' :: r => r
    | _ => s
  let parts := splitN3 s
  if parts.length < 3 then
    let last := parts.getLast?.getD []
    if last.any (fun c => c == '+' || c == '-') then false
    else parseStrict (".".toList.intercalate (parts ++ List.replicate (3 - parts.length) ['0']))
  else parseStrict s

/-! ### parsing -/

def parsePairs (s : String) : List (Nat × Nat) :=
  if s == "" then [] else
  (s.splitOn ",").filterMap fun t =>
    match t.splitOn ":" with
    | [a, b] => match a.toNat?, b.toNat? with
      | some x, some y => some (x, y)
      | _, _ => none
    | _ => none

/-- `name:rank:semver`; the escaped name contains no ',' and every ':' of a name is kept (the last two
    fields are the numbers) -/
def parseLabels (s : String) : List (String × Nat × Bool) :=
  if s == "" then [] else
  (s.splitOn ",").filterMap fun t =>
    match (t.splitOn ":").reverse with
    | sv :: rk :: nameRev =>
      match rk.toNat?, pctDecode (":".intercalate nameRev.reverse) with
      | some r, some name => some (name, r, sv == "1")
      | _, _ => none
    | _ => none

structure St where
  repo : Repo := { descs := [], idx := [], labels := [] }
  sv   : List (String × Bool) := []

def showIds (l : List Nat) : String := ",".intercalate (l.map toString)

def showLabels (l : List (String × Nat)) : String :=
  ",".intercalate (l.map fun p => pctEncode p.1 ++ ":" ++ toString p.2)

def step (s : St) (op : String) : St × Option String :=
  match words op with
  | "st" :: rest =>
    let kv := kvs rest
    let descs := parsePairs ((kvGet kv "descs").getD "")
    let idx := parsePairs ((kvGet kv "idx").getD "")
    let labs := parseLabels ((kvGet kv "labels").getD "")
    ({ repo := { descs := descs, idx := idx, labels := labs.map fun l => (l.1, l.2.1) },
       sv := labs.map fun l => (l.1, l.2.2) }, none)
  | "squash" :: rest =>
    let kv := kvs rest
    if (kvNat kv "repo").getD 1 == 0 then (s, some "err") else
    let n := effectiveN Facts.squashDefaultRetain ((kvNat kv "n").getD 0)
    let opt : Retain := { tags := (kvNat kv "tags").getD 0 == 1, semver := (kvNat kv "semver").getD 0 == 1 }
    let isSemver : String → Bool := fun name => ((s.sv.find? (·.1 == name)).map (·.2)).getD false
    -- the model of the code that exists: the first listing only sees ids with a descriptor
    let r' := squash false isSemver n opt s.repo
    let before := committedIds s.repo
    let kept := committedIds r'
    let labs := r'.labels.filter (fun l => before.contains l.2)
    let xlabs := r'.labels.filter (fun l => !before.contains l.2)
    let left := (keyIds r').filter (fun i => !kept.contains i)
    let svdiff := (s.sv.filter (fun p => semverTolerant p.1 != p.2)).length
    (s, some ("ok kept=" ++ showIds kept ++ " labels=" ++ showLabels labs
      ++ " dl=" ++ ",".intercalate (kept.map fun i => toString i ++ ":same")
      ++ " ## raw=" ++ showIds kept ++ " left=" ++ showIds left ++ " xlabels=" ++ showLabels xlabs
      ++ " svdiff=" ++ toString svdiff))
  | "sv" :: rest =>
    let kv := kvs rest
    match pctDecode ((kvGet kv "name").getD "") with
    | some name => (s, some ("ok ## semver=" ++ (if semverTolerant name then "1" else "0")))
    | none => (s, some "ok ## semver=?")
  | _ => (s, none)

def handler : Handler St := { init := {}, step := step }

end DV.C10
