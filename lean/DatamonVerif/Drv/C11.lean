import DatamonVerif.Drv.Common
import DatamonVerif.Model.Merge
/-! Driver of C11: replays the harness' merge cases on the model.

Lines:
* `merge mode=<m> arr=<batches>`   — the real `mergeSplits`, batches delivered in this order (hook);
* `mergetie mode=<m> arr=<batches>` — same, but two uploads of a path carry the same time: only what the
  property determines is compared (outcome class, flags, paths of the main tree);
* `e2e mode=<m> splits=<batches>`  — real splits uploaded and committed (arrival order not controlled);
* `single mode=<m> up=<entries>`   — the file list of a plain upload; the model merges it as one split.

`<batches>` = `;`-separated `<split>:<path>@<hash>@<size>@<time>,…`.
The model's result is the SPECIFICATION (`Merge.mergeSpec`), which by `C11_merge_eq_spec_partial` is the
code model's result outside the trigger of the known finding; the code model's own result goes after `##`. -/
namespace DV.C11
open Merge

def parseMode : String → Option Mode
  | "ignore" => some .ignore
  | "forbid" => some .forbid
  | "conflicts" => some .conflicts
  | "checkpoints" => some .checkpoints
  | _ => none

def parseEntry (s : String) : Option Entry :=
  match s.splitOn "@" with
  | [p, h, sz, t] =>
    match sz.toNat?, t.toNat? with
    | some sz, some t => some ⟨p, h, sz, t⟩
    | _, _ => none
  | _ => none

def parseBatch (s : String) : Option Batch :=
  match s.splitOn ":" with
  | [sid, es] =>
    if es == "" then some (sid, []) else
    (es.splitOn ",").mapM parseEntry |>.map fun l => (sid, l)
  | _ => none

def parseBatches (s : String) : Option (List Batch) :=
  if s == "" then some [] else (s.splitOn ";").mapM parseBatch

def showFiles (l : List (String × String × Nat)) : String :=
  ",".intercalate (l.map fun x => x.1 ++ "=" ++ x.2.1 ++ ":" ++ toString x.2.2)

def bit (b : Bool) : String := if b then "1" else "0"

def flags (mode : Mode) (flag : Bool) : String :=
  "c=" ++ bit (flag && mode != .checkpoints) ++ " k=" ++ bit (flag && mode == .checkpoints)

def showOutcome (mode : Mode) : Option State → String
  | none => "err"
  | some st => "ok " ++ flags mode st.flag ++ " f=" ++ showFiles (dump mode st)

/-- a committed bundle, downloaded: every entry comes with its bytes; the diamond is done -/
def showCommitted (mode : Mode) : Option State → String
  | none => "err"
  | some st =>
    let fs := dump mode st
    "ok " ++ flags mode st.flag ++ " f=" ++ showFiles fs ++ " dl=ok/" ++ toString fs.length ++ " state=done"

def mainPaths (st : State) : String :=
  ",".intercalate ((dump .ignore { st with conf := [] }).map (·.1))

def showTie (mode : Mode) : Option State → String
  | none => "err"
  | some st => "ok " ++ flags mode st.flag ++ " main=" ++ mainPaths st

def findingId : String := "merge-identical-copies"

def step (_ : Unit) (op : String) : Unit × Option String :=
  match words op with
  | "merge" :: rest =>
    let kv := kvs rest
    match (kvGet kv "mode").bind parseMode, (kvGet kv "arr").bind parseBatches with
    | some mode, some bs =>
      let us := flatten bs
      if !(decide (TimesDistinct us) && decide (SplitUnique us)) then ((), some "bad-domain") else
      let spec := showOutcome mode (mergeSpec mode us)
      let code := showOutcome mode (merge mode bs)
      let trig := decide (Trigger us)
      let mark := if trig && spec != code then " !! " ++ findingId else ""
      ((), some (spec ++ " ## code=" ++ code ++ " trig=" ++ bit trig ++ mark))
    | _, _ => ((), some "badline")
  | "mergetie" :: rest =>
    let kv := kvs rest
    match (kvGet kv "mode").bind parseMode, (kvGet kv "arr").bind parseBatches with
    | some mode, some bs =>
      let us := flatten bs
      if decide (TimesDistinct us) || !decide (SplitUnique us) then ((), some "bad-domain") else
      let spec := showTie mode (mergeSpec mode us)
      ((), some (spec ++ " ## code=" ++ showOutcome mode (merge mode bs)))
    | _, _ => ((), some "badline")
  | "e2e" :: rest =>
    let kv := kvs rest
    match (kvGet kv "mode").bind parseMode, (kvGet kv "splits").bind parseBatches with
    | some mode, some bs =>
      let us := flatten bs
      if !(decide (TimesDistinct us) && decide (SplitUnique us)) then ((), some "bad-domain") else
      let spec := mergeSpec mode us
      let trig := decide (Trigger us)
      ((), some (showCommitted mode spec ++ (if spec.isSome then " ## trig=" ++ bit trig else "")
        ++ (if trig then " !! " ++ findingId else "")))
    | _, _ => ((), some "badline")
  | "single" :: rest =>
    let kv := kvs rest
    let ups := (kvGet kv "up").getD ""
    let es : Option (List Entry) :=
      if ups == "" then some [] else
      (ups.splitOn ",").mapM fun t =>
        match t.splitOn "=" with
        | [p, hs] =>
          match hs.splitOn ":" with
          | [h, sz] => sz.toNat?.map fun n => (⟨p, h, n, 1⟩ : Entry)
          | _ => none
        | _ => none
    match (kvGet kv "mode").bind parseMode, es with
    | some mode, some es => ((), some (showCommitted mode (merge mode [("split", es)])))
    | _, _ => ((), some "badline")
  | _ => ((), none)

def handler : Handler Unit := { init := (), step := step }

end DV.C11
