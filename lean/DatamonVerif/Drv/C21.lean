import DatamonVerif.Drv.Common
import DatamonVerif.Model.Sidecar
import DatamonVerif.Generated.Facts
namespace DV.C21
open Sidecar

def strOf (s : String) : Str := s.toList.map Char.toNat
def ofStr (l : Str) : String := String.ofList (l.map Char.ofNat)

def dec (s : String) : Str := strOf ((pctDecode s).getD "")

/-- `name:value,name:value` (both percent-escaped) -/
def parsePs (s : String) : List (Str × Str) :=
  if s == "" then [] else
  (s.splitOn ",").map fun t =>
    match t.splitOn ":" with
    | [a] => (dec a, [])
    | a :: b :: _ => (dec a, dec b)
    | [] => ([], [])

def insertSorted (x : String) : List String → List String
  | [] => [x]
  | y :: r => if x ≤ y then x :: y :: r else y :: insertSorted x r

def sortStrings (l : List String) : List String := l.foldl (fun acc x => insertSorted x acc) []

def showItems (l : List (Str × Option Str)) : String :=
  let parts := l.map fun p =>
    match p.2 with
    | none => pctEncode (ofStr p.1)
    | some v => pctEncode (ofStr p.1) ++ "=" ++ pctEncode (ofStr v)
  ";".intercalate (sortStrings parts)

def step (_ : Unit) (op : String) : Unit × Option String :=
  match words op with
  | "enc" :: rest =>
    let kv := kvs rest
    let all := ((kvGet kv "all").getD "").splitOn "," |>.map dec
    let flag := (kvGet kv "flag") == some "1"
    let ps := parsePs ((kvGet kv "ps").getD "")
    match encodeAuto all (strOf Facts.sidecarSepExclusions) flag ps with
    | some s => ((), some ("ok ## " ++ pctEncode (ofStr s)))
    | none => ((), some "err")
  | "dec" :: rest =>
    let kv := kvs rest
    let s := dec ((kvGet kv "s").getD "")
    match decode s with
    | some items => ((), some (showItems items))
    | none => ((), some "undecodable")
  | _ => ((), none)

def handler : Handler Unit := { init := (), step := step }

end DV.C21
