import DatamonVerif.Drv.Common
import DatamonVerif.Model.FuseRO
/-! Replay of C17 traces on the `FuseRO` model. Nodes are addressed by path and resolved with the
model's own `resolve` (successive `lookUp`s from the root), so raw inode numbers are only shown
after ` ## `. -/
namespace DV.C17
open FuseRO

structure St where
  mode : Mode := .streamed
  leaf : Nat := 1
  ents : Array (Entry × Nat) := #[]          -- entry, content seed
  fs : Option FS := none
  contents : List (Nat × Bytes) := []        -- inode ↦ bytes

def fnv (bs : Bytes) : UInt64 :=
  bs.foldl (fun h b => (h ^^^ b.toUInt64) * 0x100000001b3) 0xcbf29ce484222325

def hex16 (x : UInt64) : String :=
  String.ofList ((List.range 16).map fun i => hexDigit ((x >>> (UInt64.ofNat (60 - 4 * i))).toNat % 16))

def showBytes (b : Bytes) : String :=
  if b.length ≤ 24 then "b=" ++ hexOfBytes b else "b=" ++ toString b.length ++ ":" ++ hex16 (fnv b)

def compsOf (esc : String) : Path :=
  let s := (pctDecode esc).getD ""
  if s == "" then [] else s.splitOn "/"

def summ (names : List String) : String :=
  let s := ",".intercalate (names.map pctEncode)
  if s.utf8ByteSize ≤ 200 then s else toString s.utf8ByteSize ++ ":" ++ hex16 (fnv s.toUTF8.toList)

def insertSorted (x : String) : List String → List String
  | [] => [x]
  | y :: r => if x ≤ y then x :: y :: r else y :: insertSorted x r

def sortStrings (l : List String) : List String := l.foldl (fun acc x => insertSorted x acc) []

def showNode (x : Node) : String :=
  if x.dir then s!"ok kind=d ## ino={x.inode} size={x.size} nlink={x.nlink}"
  else s!"ok kind=f size={x.size} ## ino={x.inode} nlink={x.nlink}"

/-- the node an op line addresses: `p=<path>` (resolved in the model) or `x=<raw inode>` -/
def target (fs : FS) (kv : List (String × String)) : Option Nat :=
  match kvGet kv "x" with
  | some r => r.toNat?
  | none => (resolve fs (compsOf ((kvGet kv "p").getD ""))).map (·.inode)

def cyc (l : List Nat) (k : Nat) (dflt : Nat) : Nat :=
  if l.length = 0 then dflt else l.getD (k % l.length) dflt

/-- full walk from the root: (nodes, files, dirs, inode numbers seen, dirents consistent with lookups) -/
def walkAll (fs : FS) : Nat → Nat → (Nat × Nat × Nat × List Nat × Bool)
  | 0, _ => (0, 0, 0, [], true)
  | fuel + 1, i =>
    (children fs i).foldl (fun acc d =>
      let (n, f, ds, inos, ok) := acc
      match lookUp fs i d.name with
      | none => (n + 1, f, ds, d.inode :: inos, false)
      | some x =>
        let ok := ok && x.inode == d.inode && x.dir == d.dir
        if x.dir then
          let (n', f', ds', inos', ok') := walkAll fs fuel d.inode
          (n + 1 + n', f + f', ds + 1 + ds', d.inode :: inos' ++ inos, ok && ok')
        else (n + 1, f + 1, ds, d.inode :: inos, ok)) (0, 0, 0, [], true)

def step (s : St) (op : String) : St × Option String :=
  match words op with
  | "case" :: _ :: rest =>
    let kv := kvs rest
    let mode := if (kvGet kv "mode") == some "stream" then Mode.streamed else Mode.staged
    ({ mode := mode, leaf := (kvNat kv "leaf").getD 1 }, none)
  | "ent" :: rest =>
    let kv := kvs rest
    let e : Entry := ⟨compsOf ((kvGet kv "p").getD ""), (kvNat kv "s").getD 0⟩
    ({ s with ents := s.ents.push (e, (kvNat kv "c").getD 0) }, none)
  | ["mount"] =>
    match populate (s.ents.toList.map (·.1)) with
    | none => (s, some "err")
    | some fs =>
      let contents := s.ents.toList.filterMap fun (e, seed) =>
        (resolve fs e.path).map fun x => (x.inode, (genBytes seed e.size).toList)
      ({ s with fs := some fs, contents := contents }, some "ok")
  | cmd :: rest =>
    match s.fs with
    | none => (s, none)
    | some fs =>
      let kv := kvs rest
      match cmd with
      | "lk" =>
        match target fs kv with
        | none => (s, some "unresolved")
        | some pi =>
          match lookUp fs pi ((pctDecode ((kvGet kv "n").getD "")).getD "") with
          | some x => (s, some (showNode x))
          | none => (s, some "enoent")
      | "ga" =>
        match target fs kv with
        | none => (s, some "unresolved")
        | some i =>
          match getAttr fs i with
          | some x => (s, some (showNode x))
          | none => (s, some "enoent")
      | "od" =>
        match target fs kv with
        | none => (s, some "unresolved")
        | some i => (s, some (if openDir fs i then "ok" else "enoent"))
      | "ls" =>
        match target fs kv with
        | none => (s, some "unresolved")
        | some i =>
          let bufs := natList ((kvGet kv "bufs").getD "")
          let cuts := natList ((kvGet kv "cuts").getD "")
          match session fs i (fun k => (cyc bufs k 4096, cyc cuts k 1000)) 5001 0 0 with
          | none => (s, some "enoent")
          | some ds =>
            let names := ds.map (·.name)
            (s, some s!"ok n={names.length} names={summ (sortStrings names)} ## seq={summ names}")
      | "rd" =>
        match target fs kv with
        | none => (s, some "unresolved")
        | some i =>
          let off := (kvNat kv "off").getD 0
          match readDir fs i off ((kvNat kv "buf").getD 0) with
          | none => (s, some "enoent")
          | some ds =>
            let last := (ds.getLast?.map (·.offset)).getD off
            (s, some s!"ok ## n={ds.length} last={last} names={summ (ds.map (·.name))}")
      | "rf" =>
        match target fs kv with
        | none => (s, some "unresolved")
        | some i =>
          let content := fun j => ((s.contents.find? (·.1 == j)).map (·.2)).getD []
          match readFile fs s.mode s.leaf content i ((kvNat kv "off").getD 0) ((kvNat kv "n").getD 0) with
          | .ok b => (s, some ("ok " ++ showBytes b))
          | .enoent => (s, some "enoent")
          | .err => (s, some "err")
      | "walk" =>
        let (n, f, d, inos, ok) := walkAll fs 64 rootInode
        (s, some s!"nodes={n} files={f} dirs={d} inodes={inos.eraseDups.length} direntino={if ok then "ok" else "bad"}")
      | _ => (s, none)
  | _ => (s, none)

def handler : Handler St := { init := {}, step := step }

end DV.C17
