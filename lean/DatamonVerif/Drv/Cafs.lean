import DatamonVerif.Drv.Common
import DatamonVerif.Model.Cafs
import DatamonVerif.Model.CafsSeq
import DatamonVerif.Model.Blake2b
/-! Driver for C01 / C02 / C03: replays cafs traces on `Model/Cafs.lean` with `H := BLAKE2b`. -/
namespace DV.CafsDrv
open Cafs

def toBA (b : Bytes) : ByteArray := ByteArray.mk b.toArray

/-- the hash datamon uses (`keyFromBytes` / `rootHash`): BLAKE2b-512 tree mode, fanout 0, depth 2 -/
def H (p : HP) (b : Bytes) : Bytes :=
  (Blake2b.hash { digestLen := 64, fanout := 0, depth := 2, leafLen := p.leafSize, nodeOffset := p.off,
                  nodeDepth := p.depth, innerLen := 64, lastNode := p.last } (toBA b)).toList

def h256 (b : Bytes) : String := hexOfByteArray (Blake2b.hash { digestLen := 32 } (toBA b))

def showBytes (b : Bytes) : String := toString b.length ++ ":" ++ h256 b

structure Obj where
  leaf : Nat
  content : Bytes
  key : Bytes
  keys : List Bytes := []   -- the leaf keys `put` reported

structure St where
  leaf : Nat := 64
  crc : Bool := true
  store : Store := []
  objs : List (Nat × Obj) := []
  saved : Option Store := none

def getObj (st : St) (i : Nat) : Option Obj := (st.objs.find? (·.1 == i)).map (·.2)

/-- `gen:<seed>:<len>` or hex -/
def parseContent (s : String) : Bytes :=
  match s.splitOn ":" with
  | ["gen", a, b] => (genBytes (a.toNat?.getD 0) (b.toNat?.getD 0)).toList
  | ["hex", h] => (bytesOfHex h).getD []
  | _ => []

def splitBy : List Nat → Bytes → List Bytes
  | [], b => if b = [] then [] else [b]
  | n :: r, b => b.take n :: splitBy r (b.drop n)

def insertKV (x : Bytes × Bytes) : List (Bytes × Bytes) → List (Bytes × Bytes)
  | [] => [x]
  | y :: r => if hexOfBytes x.1 ≤ hexOfBytes y.1 then x :: y :: r else y :: insertKV x r

/-- canonical snapshot of a store: first binding per key, sorted by key -/
def snapshot (s : Store) : List (Bytes × Bytes) :=
  let dedup := s.foldl (fun acc kv => if acc.any (·.1 == kv.1) then acc else acc ++ [kv]) []
  dedup.foldl (fun acc kv => insertKV kv acc) []

def showSnap (s : Store) : String :=
  let sn := snapshot s
  let all : Bytes := sn.foldl (fun acc kv => acc ++ kv.1 ++ (h256 kv.2).toUTF8.toList) []
  "n=" ++ toString sn.length ++ " h=" ++ h256 all

def showErr : RErr → String
  | .notfound => "err"
  | .corrupt => "err"
  | .badroot => "err"

/-- assemble `WriteAt` writes into a destination buffer -/
def assembleAt (ws : List (Nat × Bytes)) : Bytes :=
  ws.foldl (fun dst w =>
    let pad := if dst.length < w.1 then dst ++ List.replicate (w.1 - dst.length) 0 else dst
    pad.take w.1 ++ w.2 ++ pad.drop (w.1 + w.2.length)) []

def flipBit (b : Bytes) (bit : Nat) : Bytes :=
  b.mapIdx fun i x => if i = bit / 8 then x ^^^ (UInt8.ofNat (1 <<< (bit % 8))) else x

/-- apply a fault to the model store -/
def applyFault (st : St) (kv : List (String × String)) : St :=
  let obj := (kvNat kv "obj").getD 0
  match getObj st obj with
  | none => st
  | some o =>
    let keys := match objectKeys H o.leaf st.store o.key with
      | .ok ks => ks
      | .error _ => o.keys
    let target := (kvGet kv "blob").getD "root"
    let k : Bytes := if target == "root" then o.key else (keys[target.toNat?.getD 0]?).getD []
    let cur := (st.store.get k).getD []
    let kind := (kvGet kv "kind").getD ""
    let arg := (kvNat kv "arg").getD 0
    let s' : Store :=
      if kind == "flip" then (k, flipBit cur arg) :: st.store
      else if kind == "trunc" then (k, cur.take arg) :: st.store
      else if kind == "delete" then st.store.filter (·.1 != k)
      else if kind == "swap" then
        -- replace by leaf `arg` of object `from`
        let fromObj := (kvNat kv "from").getD obj
        match getObj st fromObj with
        | none => st.store
        | some o2 =>
          let keys2 := match objectKeys H o2.leaf st.store o2.key with
            | .ok ks => ks
            | .error _ => []
          let k2 := (keys2[arg]?).getD []
          (k, (st.store.get k2).getD []) :: st.store
      else st.store
    { st with store := s' }

def modelRead (st : St) (o : Obj) (style : String) (off n : Nat) : Except RErr Bytes :=
  match objectKeys H o.leaf st.store o.key with
  | .error e => .error e
  | .ok keys =>
    if style == "readall" || style == "writeto-stream" then readAll H true o.leaf st.store keys
    else if style == "readat" then readAt H true o.leaf st.store keys off n
    else if style == "writeto-at" then
      match writeToAt H true o.leaf st.store keys keys.length 0 with
      | .error e => .error e
      | .ok ws => .ok (assembleAt ws)
    else .error .notfound

/-- `mode=<eofOnEmpty><eager>-<cap>` -/
def parseMode (t : String) : RMode :=
  match t.splitOn "-" with
  | [f, c] =>
    let fl := f.toList
    { eofOnEmpty := fl[0]? == some '1', eager := fl[1]? == some '1', cap := c.toNat?.getD 0 }
  | _ => { eofOnEmpty := true, eager := false, cap := 0 }

/-- the caller's loop over the `Read` state machine with cyclic buffer sizes: the chunks
    delivered (newest first), each call's byte count (newest first) and how the loop ended -/
def drainSeq (m : RMode) (L : Nat) (s : Store) (keys : List Bytes) (bufs : Array Nat) :
    Nat → Nat → SR → List Bytes → List Nat → List Bytes × List Nat × ROut
  | 0, _, _, outs, cnts => (outs, cnts, .fuel)
  | fuel + 1, i, st, outs, cnts =>
    let w := bufs[i % bufs.size]?.getD 1
    match SR.read m H true L s keys w st with
    | (st', out, .ok) => drainSeq m L s keys bufs fuel (i + 1) st' (out :: outs) (out.length :: cnts)
    | (_, out, r) => (out :: outs, out.length :: cnts, r)

def modelSeq (st : St) (o : Obj) (mode : String) (bufs : List Nat) : String :=
  match objectKeys H o.leaf st.store o.key with
  | .error e => showErr e ++ " calls="
  | .ok keys =>
    let total := (keys.map fun k => ((st.store.get k).getD []).length).sum
    let (outs, cnts, r) := drainSeq (parseMode mode) o.leaf st.store keys bufs.toArray (total + 4) 0 SR.init [] []
    let calls := ",".intercalate ((cnts.reverse.take 60).map toString)
    match r with
    | .eof => "ok " ++ showBytes outs.reverse.flatten ++ " calls=" ++ calls
    | .err e => showErr e ++ " calls=" ++ calls
    | .ok => "MODEL-ok calls=" ++ calls
    | .panic => "MODEL-panic calls=" ++ calls
    | .fuel => "MODEL-fuel calls=" ++ calls

def expected (o : Obj) (style : String) (off n : Nat) : Bytes :=
  if style == "readat" then (o.content.drop off).take n else o.content

def step (st : St) (op : String) : St × Option String :=
  match words op with
  | "case" :: _ :: rest =>
    let kv := kvs rest
    ({ leaf := (kvNat kv "leaf").getD 64, crc := (kvGet kv "crc") != some "0" }, none)
  | "put" :: rest =>
    let kv := kvs rest
    let i := (kvNat kv "obj").getD 0
    let content := parseContent ((kvGet kv "content").getD "")
    let sizes := natList ((kvGet kv "chunks").getD "")
    let writes := (splitBy sizes content).filter (· ≠ [])
    let (s', r) := put H st.crc st.leaf st.store writes
    ({ st with store := s', objs := (i, { leaf := st.leaf, content := content, key := r.key, keys := r.keys }) :: st.objs },
     some ("ok key=" ++ hexOfBytes r.key ++ " written=" ++ toString r.written ++ " found=" ++ (if r.found then "1" else "0")))
  | "putf" :: _ =>
    -- a `Put` during which one store write failed (on a scratch copy of the store): it must fail
    (st, some "err")
  | "snapshot" :: _ => (st, some (showSnap st.store))
  | "fault" :: rest =>
    let base := st.saved.getD st.store
    (applyFault { st with store := base, saved := some base } (kvs rest), none)
  | "restore" :: _ => ({ st with store := st.saved.getD st.store }, none)
  | "damage" :: rest =>
    -- lasting damage (a crash remnant): applied to the current store, later operations see it
    ({ applyFault { st with saved := none } (kvs rest) with saved := none }, none)
  | "delete" :: rest =>
    -- `Fs.Delete`: the leaf blobs in key order, then the root blob; the first failing store delete ends it
    let kv := kvs rest
    match getObj st ((kvNat kv "obj").getD 0) with
    | none => (st, some "noobj")
    | some o =>
      let (s', ok) := Cafs.delete H o.leaf st.store o.key
      ({ st with store := s' }, some (if ok then "ok" else "err"))
  | "read" :: rest =>
    -- fault-free reads (C01): exact result
    let kv := kvs rest
    match getObj st ((kvNat kv "obj").getD 0) with
    | none => (st, some "noobj")
    | some o =>
      let style := (kvGet kv "style").getD ""
      if style == "readseq" then
        (st, some (modelSeq st o ((kvGet kv "mode").getD "") (natList ((kvGet kv "bufs").getD "1"))))
      else
      match modelRead st o style ((kvNat kv "off").getD 0) ((kvNat kv "n").getD 0) with
      | .ok b => (st, some ("ok " ++ showBytes b))
      | .error e => (st, some (showErr e))
  | "obs" :: rest =>
    -- C03 judge: the implementation's outcome `got` must be an error or exactly the stored bytes
    let kv := kvs rest
    match getObj st ((kvNat kv "obj").getD 0) with
    | none => (st, some "noobj")
    | some o =>
      let style := (kvGet kv "style").getD ""
      let off := (kvNat kv "off").getD 0
      let n := (kvNat kv "n").getD 0
      let got := (kvGet kv "got").getD ""
      let want := showBytes (expected o style off n)
      let pred := if style == "readseq" then "n/a" else match modelRead st o style off n with
        | .ok b => if showBytes b == want then "ok" else "WRONG"
        | .error _ => "err"
      let verdict := if got == "err" || got == want then "sound" else "UNSOUND"
      (st, some (verdict ++ " ## pred=" ++ pred))
  | "dlobs" :: rest =>
    -- C03 judge for a bundle download: `tree` = the uploaded files, `st` = ok|err reported by the
    -- download, `dest` = what the destination holds afterwards. Sound iff (an error was reported
    -- or every file arrived) and no destination file holds bytes other than the stored ones.
    let kv := kvs rest
    let tree := (((kvGet kv "tree").getD "").splitOn ";").filterMap fun t =>
      match t.splitOn "@" with
      | [n, c] => some (n, showBytes (parseContent c))
      | _ => none
    let dest := (((kvGet kv "dest").getD "").splitOn ";").filter (· ≠ "") |>.filterMap fun t =>
      match t.splitOn "@" with
      | [n, h] => some (n, h)
      | _ => none
    let status := (kvGet kv "st").getD "err"
    let noAltered := dest.all fun d => tree.any fun t => t.1 == d.1 && t.2 == d.2
    let complete := tree.all fun t => dest.any fun d => t.1 == d.1 && t.2 == d.2
    let ok := noAltered && (status == "err" || complete)
    (st, some (if ok then "sound" else "UNSOUND"))
  | _ => (st, none)

def handler : Handler St := { init := {}, step := step }

end DV.CafsDrv
