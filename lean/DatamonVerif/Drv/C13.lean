import DatamonVerif.Drv.Common
import DatamonVerif.Model.Purge
/-! Driver for C13 / C14 (purge): replays the harness' operation lines on `Model/Purge.lean`.

Lines (see `harness/cmd/dvh/c13.go`):
* `case <n> kind=c13|c14 …`                                — new history
* `up c= r= b= e=<root>:<leaf>.<leaf>;<root>:…`            — upload + commit       → `ok`
* `keep c= r= b=<ids>`                                     — metadata deletion (input only)
* `index n= ctxs= resume= tick= crash= died= fput= obs=`   — build / resume the index → `ok|err` + index
* `drop`                                                   — drop the index        → `ok`
* `purge page= nblob= fattr= pattr= fdel= flist= fmeta=`   — delete-unused         → `ok|err` + deleted blobs
* `dl c= r= b=`                                            — download + compare    → `same`
* `lock f=<force flags>` / `lockseq f=` / `unlock`         — purge lock
Keys are the first 10 hex digits of the blob keys, read as numbers (same order as the strings). -/
namespace DV.C13
open Purge

/-- the code's configuration, from the facts regenerated from purge.go on every run -/
def codeCfg : Cfg := Cfg.code

inductive Mode | c13 | c14
deriving DecidableEq

structure DState where
  mode : Mode := .c13
  st : St := {}
  lock : Bool := false
  /-- bundles whose upload re-used a stale blob (trigger of finding C13-dedup-no-touch) -/
  stale : List (Nat × Nat × Nat) := []

def hexNat (s : String) : Option Nat :=
  s.toList.foldl (fun acc c => match acc, hexVal c with
    | some a, some v => some (a * 16 + v)
    | _, _ => none) (some 0)

def hex10 (n : Nat) : String :=
  let rec go (fuel n : Nat) (acc : List Char) : List Char :=
    match fuel with
    | 0 => acc
    | f + 1 => go f (n / 16) (hexDigit (n % 16) :: acc)
  String.ofList (go 10 n [])

def keyList (sep : String) (s : String) : List Key :=
  if s == "" then [] else (s.splitOn sep).filterMap hexNat

def parseEntries (s : String) : List Entry :=
  if s == "" then [] else
  (s.splitOn ";").filterMap fun t =>
    match t.splitOn ":" with
    | [r, ls] => (hexNat r).map fun rk => { root := rk, leaves := keyList "." ls }
    | _ => none

/-- chunks are written `k.k|k.k||`: every chunk is followed by `|` (an empty chunk is just `|`) -/
def parseChunks (s : String) : List (List Key) :=
  ((s.splitOn "|").dropLast).map (keyList ".")

def showKeys (ks : List Key) : String := ",".intercalate (ks.map hex10)

def sortNat (l : List Nat) : List Nat := (l.toArray.qsort (· < ·)).toList

def showChunks (cs : List (List Key)) : String :=
  String.join (cs.map fun c => ".".intercalate (c.map hex10) ++ "|")

def flag (kv : List (String × String)) (k : String) : Bool := (kvNat kv k).getD 0 != 0

def findBundle (st : St) (c r b : Nat) : Option Bundle :=
  st.live.find? (fun x => x.ctx == c && x.repo == r && x.id == b)

def indexResult (m : Mode) (n : Nat) (tick : Bool) (all new : List (List Key)) : String :=
  let idx := "idx=" ++ showKeys (sortNat all.flatten)
  let fit := "fit=" ++ (if new.all (fun c => c.length ≤ n) then "1" else "0")
  let seq := "seq=" ++ (if tick then "*" else showChunks new)
  match m with
  | .c13 => "ok ## " ++ idx ++ " " ++ fit ++ " " ++ seq
  | .c14 => "ok " ++ idx ++ " " ++ fit ++ " " ++ seq

def stepIndex (s : DState) (kv : List (String × String)) : DState × Option String :=
  let n := (kvNat kv "n").getD 1
  let ctxs := natList ((kvGet kv "ctxs").getD "")
  let resume := flag kv "resume"
  let tick := flag kv "tick"
  let crash : Option Nat := kvNat kv "crash"          -- absent or `-1` = no crash point
  let fs := natList ((kvGet kv "fput").getD "")
  let evs := seqEvs (scanned ctxs s.st.live)
  let eevs := effEvs s.st.blobs evs
  let st := s.st
  -- a build disturbed by a transient LISTING fault: whether the command reports the fault or gets
  -- over it is not determined by the property; the implementation's verdict is an input (`res`).
  -- Reported failure: nothing is assumed to have been added. Reported success: the index must
  -- be complete (the property's "as long as the commands report success").
  if (kvGet kv "res") == some "err" then
    ({ s with st := { st with now := st.now + 1 } }, some "any")
  else if (kvGet kv "res") == some "ok" then
    let st' := if resume then step codeCfg st (.resume n ctxs evs fs) else step codeCfg st (.index n ctxs evs fs)
    ({ s with st := st' }, some "any")
  else
  if resume && st.chunks.isEmpty then
    -- no chunk to take the index time from: the command fails (the code panics on a nil time)
    ({ s with st := step codeCfg st (.resume n ctxs evs fs) }, some "err")
  else
    let full := if resume then build codeCfg n codeCfg.resumeSkip eevs fs (preload st.chunks)
                else build codeCfg n true eevs fs []
    let crashed : Bool := match crash with
      | some k => if tick then flag kv "died" else k < full.2.length
      | none => false
    if crashed then
      let k := crash.getD 0
      if k == 0 then
        -- dead before any store write: nothing changed
        ({ s with st := { st with now := st.now + 1 } }, some "err")
      else
        let left := if tick then parseChunks ((kvGet kv "obs").getD "") else full.2.take k
        let st' := step codeCfg st (.crash resume left)
        ({ s with st := st' }, some ("err ## left=" ++ showChunks left))
    else
      let st' := if resume then step codeCfg st (.resume n ctxs evs fs) else step codeCfg st (.index n ctxs evs fs)
      ({ s with st := st' }, some (indexResult s.mode n tick st'.chunks full.2))

def stepPurge (s : DState) (kv : List (String × String)) : DState × Option String :=
  let st := s.st
  let page := (kvNat kv "page").getD 1024
  let fattr := keyList "," ((kvGet kv "fattr").getD "")
  let pattr := keyList "," ((kvGet kv "pattr").getD "")
  let flist : Option Nat := kvNat kv "flist"
  let fmeta := flag kv "fmeta"
  let nblob := st.blobs.keys.length
  let pages := if nblob == 0 then 1 else (nblob + page - 1) / (if page == 0 then 1 else page)
  let idx := st.chunks.flatten
  -- a permanent GetAttr failure on a blob that is looked up (not indexed) stops the command
  let permHit := pattr.any (fun k => bHas st.blobs k && !idx.contains k)
  let listHit := match flist with | some j => j < pages | none => false
  if st.chunks.isEmpty || fmeta then
    ({ s with st := { st with now := st.now + 1 } }, some "err")
  else if permHit || listHit then
    ({ s with st := step codeCfg st (.purgePartial []) }, some "err")
  else
    let st' := step codeCfg st (.purge fattr)
    let del := st.blobs.keys.filter (fun k => !bHas st'.blobs k)
    let r := "del=" ++ showKeys (sortNat del)
    ({ s with st := st' }, some (match s.mode with | .c13 => "ok ## " ++ r | .c14 => "ok " ++ r))

def step (s : DState) (op : String) : DState × Option String :=
  match words op with
  | "case" :: rest =>
    let kv := kvs rest
    ({ mode := if (kvGet kv "kind") == some "c14" then .c14 else .c13 }, none)
  | "up" :: rest =>
    let kv := kvs rest
    let b : Bundle := { ctx := (kvNat kv "c").getD 0, repo := (kvNat kv "r").getD 0, id := (kvNat kv "b").getD 0,
                        entries := parseEntries ((kvGet kv "e").getD "") }
    let stale := if staleReuse s.st b then (b.ctx, b.repo, b.id) :: s.stale else s.stale
    ({ s with st := Purge.step codeCfg s.st (.up b), stale := stale }, some "ok")
  | "keep" :: rest =>
    let kv := kvs rest
    let op := Op.keep ((kvNat kv "c").getD 0) ((kvNat kv "r").getD 0) (natList ((kvGet kv "b").getD ""))
    ({ s with st := Purge.step codeCfg s.st op }, none)
  | "index" :: rest => stepIndex s (kvs rest)
  | "drop" :: _ => ({ s with st := Purge.step codeCfg s.st .drop }, some "ok")
  | "purge" :: rest => stepPurge s (kvs rest)
  | "dl" :: rest =>
    let kv := kvs rest
    let c := (kvNat kv "c").getD 0
    let r := (kvNat kv "r").getD 0
    let b := (kvNat kv "b").getD 0
    match findBundle s.st c r b with
    | none => (s, some "fails")
    | some bd =>
      -- the property demands `same`; where the code is known to lose a blob (the upload re-used a
      -- stale blob and the model of the code says it is gone) the line carries the finding id
      if decide (intact s.st bd) then (s, some "same")
      else if s.stale.contains (c, r, b) then (s, some "same !! C13-dedup-no-touch")
      else (s, some "same")
  | "lock" :: rest =>
    let kv := kvs rest
    let fl := (natList ((kvGet kv "f").getD "")).map (· != 0)
    let r := lockRun s.lock ((List.range fl.length).zip fl)
    ({ s with lock := r.1 }, some ("ok=" ++ toString (r.2.filter (·.2)).length))
  | "lockseq" :: rest =>
    let kv := kvs rest
    let fl := (natList ((kvGet kv "f").getD "")).map (· != 0)
    let r := lockRun s.lock ((List.range fl.length).zip fl)
    ({ s with lock := r.1 }, some ("r=" ++ ",".intercalate (r.2.map fun p => if p.2 then "1" else "0")))
  | "unlock" :: _ =>
    ({ s with lock := false }, some (if s.lock then "ok" else "notfound"))
  | _ => (s, none)

def handler : Handler DState := { init := {}, step := step }

end DV.C13
