import DatamonVerif.Drv.Common
import DatamonVerif.Model.Store
import DatamonVerif.Model.LocalFS
namespace DV.C16
open Store

/-- which model answers: the local file system model (`mem`, `disk`) or the contract itself
    (`memstore`: Delete of a missing key = notfound, `memstore-delok`: = ok) -/
inductive Kind | localfs | contract (missingOk : Bool) | unknown

structure St where
  kind : Kind := .unknown
  /-- a race on afero's MemMapFs without localfs' own lock: the trigger of known finding C16-memmapfs-excl -/
  memNoLock : Bool := false
  st : Store Bytes := []
  fs : LocalFS.FS := LocalFS.FS.empty

def dec (s : String) : String := (pctDecode s).getD "\u0000undecodable"

def showStatus : Status → String
  | .ok => "ok" | .exist => "exists" | .notfound => "notfound" | .err => "err"

def showOut : Out Bytes → String
  | .status s => showStatus s
  | .value (some b) => "ok:" ++ hexOfBytes b
  | .value none => "notfound"
  | .bool b => if b then "true" else "false"

def showItems (l : List String) : String := "[" ++ ",".intercalate (l.map pctEncode) ++ "]"

def files (s : St) : Store Bytes :=
  match s.kind with
  | .localfs => s.fs.files
  | _ => s.st

def runOp (s : St) (op : Op Bytes) : St × Option String :=
  match s.kind with
  | .localfs => let r := LocalFS.step s.fs op; ({ s with fs := r.1 }, some (showOut r.2))
  | .contract m => let r := Store.step m s.st op; ({ s with st := r.1 }, some (showOut r.2))
  | .unknown => (s, some "no-store")

def parseRes (t : String) : List Status :=
  if t == "" then [] else (t.splitOn ",").map fun x =>
    if x == "o" then Status.ok else if x == "e" then Status.exist else if x == "n" then Status.notfound else Status.err

def step (s : St) (line : String) : St × Option String :=
  match words line with
  | "case" :: rest =>
    let kv := kvs rest
    let kind := match kvGet kv "store" with
      | some "mem" => Kind.localfs
      | some "disk" => Kind.localfs
      | some "memstore" => Kind.contract false
      | some "memstore-delok" => Kind.contract true
      | _ => Kind.unknown
    ({ kind := kind, memNoLock := LocalFS.triggerMemMapFsExcl ((kvGet kv "store").getD "") ((kvGet kv "kind").getD "") ((kvGet kv "lock").getD "") }, none)
  | "putw" :: rest =>
    -- judge: a `Put` during which one write of the record failed after a partial delivery reported
    -- the failure, or the record reads back as exactly the bytes handed over
    let got := (kvGet (kvs rest) "got").getD ""
    (s, some (if got == "ok-exact" || got == "err" then "sound" else "UNSOUND"))
  | "put" :: rest =>
    let kv := kvs rest
    match bytesOfHex ((kvGet kv "v").getD "") with
    | some v => runOp s (.put (dec ((kvGet kv "k").getD "")) v ((kvGet kv "x") == some "1"))
    | none => (s, some "bad-hex")
  | "get" :: rest => runOp s (.get (dec ((kvGet (kvs rest) "k").getD "")))
  | "has" :: rest => runOp s (.has (dec ((kvGet (kvs rest) "k").getD "")))
  | "del" :: rest => runOp s (.delete (dec ((kvGet (kvs rest) "k").getD "")))
  | "list" :: rest =>
    let kv := kvs rest
    let r := keysPrefix (files s) (dec ((kvGet kv "t").getD "")) (dec ((kvGet kv "p").getD ""))
      (dec ((kvGet kv "d").getD "")) ((kvNat kv "n").getD 0)
    (s, some (showItems r.1 ++ " next=" ++ pctEncode r.2))
  | "walk" :: rest =>
    let kv := kvs rest
    let pages := allPages (files s) (dec ((kvGet kv "p").getD "")) (dec ((kvGet kv "d").getD "")) ((kvNat kv "n").getD 0)
    (s, some (if pages.isEmpty then "-" else "|".intercalate (pages.map showItems)))
  | ["keys"] => (s, some (showItems (keys (files s))))
  | "xres" :: rest =>
    -- judge: the implementation's outcome of a race of create-if-absent writers
    let kv := kvs rest
    let res := parseRes ((kvGet kv "res").getD "")
    let ok :=
      if (kvGet kv "pre") == some "1" then
        res.all (· == Status.exist) && (kvGet kv "stored") == some "pre"
      else validOutcome res ((kvGet kv "stored").bind String.toNat?)
    (s, some ((if ok then "valid" else "invalid") ++ (if s.memNoLock then " !! C16-memmapfs-excl" else "")))
  | _ => (s, none)

def handler : Handler St := { init := {}, step := step }

end DV.C16
