import DatamonVerif.Drv.C22
import DatamonVerif.Drv.C21
import DatamonVerif.Drv.Cafs
import DatamonVerif.Drv.C04
import DatamonVerif.Drv.C06
import DatamonVerif.Drv.C17
import DatamonVerif.Drv.C19
import DatamonVerif.Drv.C20
import DatamonVerif.Drv.C16
import DatamonVerif.Drv.C11
import DatamonVerif.Drv.C08
import DatamonVerif.Drv.C18
import DatamonVerif.Drv.C12
import DatamonVerif.Drv.C09
import DatamonVerif.Drv.C05
import DatamonVerif.Drv.C10
import DatamonVerif.Drv.C13
import DatamonVerif.Drv.C14
import DatamonVerif.Drv.C07
open DV

def main (args : List String) : IO UInt32 := do
  let inp ← IO.getStdin
  let out ← IO.getStdout
  match args with
  | ["model", "C01"] => loop CafsDrv.handler inp out CafsDrv.handler.init; return 0
  | ["model", "C02"] => loop CafsDrv.handler inp out CafsDrv.handler.init; return 0
  | ["model", "C03"] => loop CafsDrv.handler inp out CafsDrv.handler.init; return 0
  | ["model", "C04"] => loop C04.handler inp out C04.handler.init; return 0
  | ["model", "C15"] => loop C04.handler inp out C04.handler.init; return 0
  | ["model", "C06"] => loop C06.handler inp out C06.handler.init; return 0
  | ["model", "C21"] => loop C21.handler inp out C21.handler.init; return 0
  | ["model", "C22"] => loop C22.handler inp out C22.handler.init; return 0
  | ["model", "C17"] => loop C17.handler inp out C17.handler.init; return 0
  | ["model", "C19"] => loop C19.handler inp out C19.handler.init; return 0
  | ["model", "C20"] => loop C20.handler inp out C20.handler.init; return 0
  | ["model", "C16"] => loop C16.handler inp out C16.handler.init; return 0
  | ["model", "C11"] => loop C11.handler inp out C11.handler.init; return 0
  | ["model", "C08"] => loop C08.handler inp out C08.handler.init; return 0
  | ["model", "C18"] => loop C18.handler inp out C18.handler.init; return 0
  | ["model", "C12"] => loop C12.handler inp out C12.handler.init; return 0
  | ["model", "C09"] => loop C09.handler inp out C09.handler.init; return 0
  | ["model", "C05"] => loop C05.handler inp out C05.handler.init; return 0
  | ["model", "C10"] => loop C10.handler inp out C10.handler.init; return 0
  | ["model", "C13"] => loop C13.handler inp out C13.handler.init; return 0
  | ["model", "C14"] => loop C14.handler inp out C14.handler.init; return 0
  | ["model", "C07"] => loop C07.handler inp out C07.handler.init; return 0
  | _ => IO.eprintln "usage: dvdriver model <Cxx>"; return 2
