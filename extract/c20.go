// C20: path templates of pkg/model, the constants and regular-expression literals the path
// parsers use, and a few call-site facts of the parsers/validators.
//
// Translatable subset of a path builder (anything else aborts the run):
//
//	body   ::= "return" expr
//	         | "var" x "string" ; "switch" param "{" ("case" C ":" x "=" cexpr)* "default" ":" x "=" cexpr "}" ; "return" expr
//	         | x ":=" expr ; inverse-check* ; "return" x
//	expr   ::= string literal | named string constant | string/uint64 parameter | local
//	         | expr "+" expr | fmt.Sprint(expr, …) | fmt.Sprintf(format, expr, …)   (verbs %s %d %v %%)
//	         | strings.Join(variadic parameter, literal) | call of another translatable builder
//	         | path.Join(expr, …)                                                     (outermost only)
//	inverse-check ::= "info, err := GetConsumableStorePathMetadata(x)" | "if" cond "{ panic(…) }"
package main

import (
	"fmt"
	"go/ast"
	"go/token"
	"regexp"
	"sort"
	"strconv"
	"strings"
)

type c20Piece struct {
	kind string // lit | param | num | sepBy
	s    string
	i    int
}

type c20Tmpl []c20Piece

type c20Param struct {
	name string
	typ  string // string | uint64 | ...string | <other type name>
}

type c20Variant struct {
	label  string
	concat c20Tmpl
	join   []c20Tmpl // non-nil: the builder returns path.Join(elements…)
}

type c20Builder struct {
	name     string
	params   []c20Param
	variants []c20Variant
	checks   []string // inverse checks (consumable builders)
}

type c20Ctx struct {
	files  []*ast.File
	consts map[string]ast.Expr
	cache  map[string]*c20Builder
	busy   map[string]bool
}

func (t c20Tmpl) norm() c20Tmpl {
	var out c20Tmpl
	for _, p := range t {
		if p.kind == "lit" {
			if p.s == "" {
				continue
			}
			if n := len(out); n > 0 && out[n-1].kind == "lit" {
				out[n-1].s += p.s
				continue
			}
		}
		out = append(out, p)
	}
	return out
}

// leanChars renders a string as a Lean `List Char` literal (cheap to evaluate in proofs, unlike
// `"…".toList`).
func leanChars(s string) string {
	var cs []string
	for _, r := range s {
		switch {
		case r == '\'':
			cs = append(cs, `'\''`)
		case r == '\\':
			cs = append(cs, `'\\'`)
		case r == '\n':
			cs = append(cs, `'\n'`)
		case r == '\t':
			cs = append(cs, `'\t'`)
		case r < 32 || r == 127:
			cs = append(cs, fmt.Sprintf("Char.ofNat %d", r))
		default:
			cs = append(cs, "'"+string(r)+"'")
		}
	}
	return "[" + strings.Join(cs, ", ") + "]"
}

func (t c20Tmpl) lean() string {
	t = t.norm()
	ps := make([]string, len(t))
	for i, p := range t {
		switch p.kind {
		case "lit":
			ps[i] = ".lit " + leanChars(p.s)
		case "param":
			ps[i] = fmt.Sprintf(".param %d", p.i)
		case "num":
			ps[i] = fmt.Sprintf(".num %d", p.i)
		case "sepBy":
			ps[i] = fmt.Sprintf(".sepBy %d %s", p.i, leanChars(p.s))
		}
	}
	return "[" + strings.Join(ps, ", ") + "]"
}

// constString evaluates a constant string expression: literals, named constants, "+".
func (c *c20Ctx) constString(e ast.Expr, depth int) (string, bool) {
	if depth > 30 {
		return "", false
	}
	switch x := e.(type) {
	case *ast.BasicLit:
		return strLit(x)
	case *ast.ParenExpr:
		return c.constString(x.X, depth+1)
	case *ast.Ident:
		if v, ok := c.consts[x.Name]; ok {
			return c.constString(v, depth+1)
		}
	case *ast.BinaryExpr:
		if x.Op == token.ADD {
			a, ok1 := c.constString(x.X, depth+1)
			b, ok2 := c.constString(x.Y, depth+1)
			return a + b, ok1 && ok2
		}
	}
	return "", false
}

func typeName(e ast.Expr) string {
	switch x := e.(type) {
	case *ast.Ident:
		return x.Name
	case *ast.Ellipsis:
		return "..." + typeName(x.Elt)
	case *ast.SelectorExpr:
		return typeName(x.X) + "." + x.Sel.Name
	case *ast.StarExpr:
		return "*" + typeName(x.X)
	case *ast.ArrayType:
		return "[]" + typeName(x.Elt)
	}
	return "?"
}

func paramsOf(fd *ast.FuncDecl) []c20Param {
	var ps []c20Param
	if fd.Type.Params == nil {
		return ps
	}
	for _, f := range fd.Type.Params.List {
		t := typeName(f.Type)
		if len(f.Names) == 0 {
			ps = append(ps, c20Param{"_", t})
		}
		for _, n := range f.Names {
			ps = append(ps, c20Param{n.Name, t})
		}
	}
	return ps
}

func returnsString(fd *ast.FuncDecl) bool {
	r := fd.Type.Results
	return r != nil && len(r.List) == 1 && len(r.List[0].Names) <= 1 && typeName(r.List[0].Type) == "string"
}

type c20Env struct {
	params []c20Param
	locals map[string]c20Tmpl
}

func selCall(ce *ast.CallExpr) (pkg, name string) {
	switch f := ce.Fun.(type) {
	case *ast.SelectorExpr:
		if id, ok := f.X.(*ast.Ident); ok {
			return id.Name, f.Sel.Name
		}
	case *ast.Ident:
		return "", f.Name
	}
	return "?", "?"
}

// expr translates a string-valued expression into a template.
func (c *c20Ctx) expr(e ast.Expr, env *c20Env, where string) (c20Tmpl, error) {
	pos := fset.Position(e.Pos())
	if s, ok := c.constString(e, 0); ok {
		if id, isID := e.(*ast.Ident); !isID || env.locals[id.Name] == nil && !isParam(env, id.Name) {
			return c20Tmpl{{kind: "lit", s: s}}, nil
		}
	}
	switch x := e.(type) {
	case *ast.ParenExpr:
		return c.expr(x.X, env, where)
	case *ast.Ident:
		if t, ok := env.locals[x.Name]; ok {
			if t == nil {
				return nil, fmt.Errorf("%s: local %s used before assignment (%s)", where, x.Name, pos)
			}
			return t, nil
		}
		for i, p := range env.params {
			if p.name == x.Name {
				switch p.typ {
				case "string":
					return c20Tmpl{{kind: "param", i: i}}, nil
				case "uint64":
					return c20Tmpl{{kind: "num", i: i}}, nil
				default:
					return nil, fmt.Errorf("%s: parameter %s of type %s cannot be printed by the subset (%s)", where, x.Name, p.typ, pos)
				}
			}
		}
		return nil, fmt.Errorf("%s: cannot resolve identifier %s (%s)", where, x.Name, pos)
	case *ast.BinaryExpr:
		if x.Op != token.ADD {
			return nil, fmt.Errorf("%s: operator %s outside the subset (%s)", where, x.Op, pos)
		}
		a, err := c.expr(x.X, env, where)
		if err != nil {
			return nil, err
		}
		b, err := c.expr(x.Y, env, where)
		if err != nil {
			return nil, err
		}
		for _, p := range append(append(c20Tmpl{}, a...), b...) {
			if p.kind == "num" {
				return nil, fmt.Errorf("%s: '+' on a number is not string concatenation (%s)", where, pos)
			}
		}
		return append(append(c20Tmpl{}, a...), b...), nil
	case *ast.CallExpr:
		pkg, name := selCall(x)
		switch {
		case pkg == "fmt" && name == "Sprint":
			var out c20Tmpl
			prevNonString := false
			for _, a := range x.Args {
				t, err := c.expr(a, env, where)
				if err != nil {
					return nil, err
				}
				nonString := len(t) == 1 && t[0].kind == "num"
				if nonString && prevNonString {
					return nil, fmt.Errorf("%s: fmt.Sprint inserts a space between two adjacent non-string operands (%s)", where, pos)
				}
				prevNonString = nonString
				out = append(out, t...)
			}
			return out, nil
		case pkg == "fmt" && name == "Sprintf":
			if len(x.Args) == 0 {
				return nil, fmt.Errorf("%s: Sprintf without format (%s)", where, pos)
			}
			format, ok := c.constString(x.Args[0], 0)
			if !ok {
				return nil, fmt.Errorf("%s: Sprintf format is not a constant (%s)", where, pos)
			}
			var out c20Tmpl
			args := x.Args[1:]
			lit := ""
			for i := 0; i < len(format); i++ {
				if format[i] != '%' {
					lit += string(format[i])
					continue
				}
				i++
				if i >= len(format) {
					return nil, fmt.Errorf("%s: dangling %% in format (%s)", where, pos)
				}
				if format[i] == '%' {
					lit += "%"
					continue
				}
				if len(args) == 0 {
					return nil, fmt.Errorf("%s: Sprintf has too few arguments (%s)", where, pos)
				}
				t, err := c.expr(args[0], env, where)
				if err != nil {
					return nil, err
				}
				args = args[1:]
				isNum := false
				for _, p := range t {
					if p.kind == "num" {
						isNum = true
					}
				}
				switch format[i] {
				case 's':
					if isNum {
						return nil, fmt.Errorf("%s: %%s applied to a number (%s)", where, pos)
					}
				case 'd':
					if !(len(t) == 1 && t[0].kind == "num") {
						return nil, fmt.Errorf("%s: %%d applied to a non-number (%s)", where, pos)
					}
				case 'v':
				default:
					return nil, fmt.Errorf("%s: verb %%%c outside the subset (%s)", where, format[i], pos)
				}
				out = append(out, c20Piece{kind: "lit", s: lit})
				lit = ""
				out = append(out, t...)
			}
			if len(args) != 0 {
				return nil, fmt.Errorf("%s: Sprintf has extra arguments (%s)", where, pos)
			}
			out = append(out, c20Piece{kind: "lit", s: lit})
			return out, nil
		case pkg == "strings" && name == "Join":
			if len(x.Args) == 2 {
				if id, ok := x.Args[0].(*ast.Ident); ok {
					sep, ok2 := c.constString(x.Args[1], 0)
					for i, p := range env.params {
						if p.name == id.Name && p.typ == "...string" && ok2 {
							return c20Tmpl{{kind: "sepBy", i: i, s: sep}}, nil
						}
					}
				}
			}
			return nil, fmt.Errorf("%s: strings.Join outside the subset (%s)", where, pos)
		case pkg == "path" && name == "Join":
			return nil, fmt.Errorf("%s: path.Join is only translated as the outermost call (%s)", where, pos)
		case pkg == "":
			callee, err := c.builder(name)
			if err != nil {
				return nil, fmt.Errorf("%s: call of %s: %v", where, name, err)
			}
			if len(callee.variants) != 1 || callee.variants[0].join != nil || len(callee.checks) != 0 {
				return nil, fmt.Errorf("%s: call of %s, which is not a plain concatenation builder (%s)", where, name, pos)
			}
			// bind arguments
			subst := map[int]c20Tmpl{}
			ai := 0
			for i, p := range callee.params {
				if strings.HasPrefix(p.typ, "...") {
					if ai < len(x.Args) {
						return nil, fmt.Errorf("%s: call of %s with variadic arguments (%s)", where, name, pos)
					}
					subst[i] = c20Tmpl{}
					continue
				}
				if ai >= len(x.Args) {
					return nil, fmt.Errorf("%s: call of %s with too few arguments (%s)", where, name, pos)
				}
				t, err := c.expr(x.Args[ai], env, where)
				if err != nil {
					return nil, err
				}
				subst[i] = t
				ai++
			}
			if ai != len(x.Args) || x.Ellipsis.IsValid() {
				return nil, fmt.Errorf("%s: call of %s with unexpected arguments (%s)", where, name, pos)
			}
			var out c20Tmpl
			for _, p := range callee.variants[0].concat {
				switch p.kind {
				case "lit":
					out = append(out, p)
				case "param":
					out = append(out, subst[p.i]...)
				case "num":
					t := subst[p.i]
					if !(len(t) == 1 && t[0].kind == "num") {
						return nil, fmt.Errorf("%s: call of %s: numeric argument is not a numeric parameter (%s)", where, name, pos)
					}
					out = append(out, t...)
				case "sepBy":
					if len(subst[p.i]) != 0 {
						return nil, fmt.Errorf("%s: call of %s: variadic argument (%s)", where, name, pos)
					}
				}
			}
			return out, nil
		}
		return nil, fmt.Errorf("%s: call of %s.%s outside the subset (%s)", where, pkg, name, pos)
	}
	return nil, fmt.Errorf("%s: expression outside the subset (%s)", where, pos)
}

func isParam(env *c20Env, name string) bool {
	for _, p := range env.params {
		if p.name == name {
			return true
		}
	}
	return false
}

func onlyPanics(b *ast.BlockStmt) bool {
	if len(b.List) == 0 {
		return false
	}
	for _, s := range b.List {
		es, ok := s.(*ast.ExprStmt)
		if !ok {
			return false
		}
		ce, ok := es.X.(*ast.CallExpr)
		if !ok {
			return false
		}
		if id, ok := ce.Fun.(*ast.Ident); !ok || id.Name != "panic" {
			return false
		}
	}
	return true
}

// builder translates one function (memoised).
func (c *c20Ctx) builder(name string) (*c20Builder, error) {
	if b, ok := c.cache[name]; ok {
		return b, nil
	}
	if c.busy[name] {
		return nil, fmt.Errorf("%s is recursive", name)
	}
	fd := funcDecl(c.files, name)
	if fd == nil || fd.Body == nil {
		return nil, fmt.Errorf("%s: no such function in pkg/model", name)
	}
	if !returnsString(fd) {
		return nil, fmt.Errorf("%s does not return a single string", name)
	}
	c.busy[name] = true
	defer delete(c.busy, name)
	b := &c20Builder{name: name, params: paramsOf(fd)}

	// one optional top-level switch gives the variants
	nvar := 1
	var sw *ast.SwitchStmt
	for _, s := range fd.Body.List {
		if x, ok := s.(*ast.SwitchStmt); ok {
			if sw != nil {
				return nil, fmt.Errorf("%s: more than one switch", name)
			}
			sw = x
			nvar = len(x.Body.List)
		}
	}
	for v := 0; v < nvar; v++ {
		env := &c20Env{params: b.params, locals: map[string]c20Tmpl{}}
		variant := c20Variant{label: ""}
		var checks []string
		returned := false
		for _, s := range fd.Body.List {
			pos := fset.Position(s.Pos())
			if returned {
				return nil, fmt.Errorf("%s: statement after return (%s)", name, pos)
			}
			switch x := s.(type) {
			case *ast.DeclStmt:
				gd, ok := x.Decl.(*ast.GenDecl)
				if !ok || gd.Tok != token.VAR || len(gd.Specs) != 1 {
					return nil, fmt.Errorf("%s: declaration outside the subset (%s)", name, pos)
				}
				vs := gd.Specs[0].(*ast.ValueSpec)
				if len(vs.Names) != 1 || len(vs.Values) != 0 || typeName(vs.Type) != "string" {
					return nil, fmt.Errorf("%s: declaration outside the subset (%s)", name, pos)
				}
				env.locals[vs.Names[0].Name] = nil
			case *ast.SwitchStmt:
				tag, ok := x.Tag.(*ast.Ident)
				if !ok || x.Init != nil || !isParam(env, tag.Name) {
					return nil, fmt.Errorf("%s: switch is not over a parameter (%s)", name, pos)
				}
				hasDefault := false
				for _, cl := range x.Body.List {
					if cl.(*ast.CaseClause).List == nil {
						hasDefault = true
					}
				}
				if !hasDefault {
					return nil, fmt.Errorf("%s: switch without default (%s)", name, pos)
				}
				cl := x.Body.List[v].(*ast.CaseClause)
				if cl.List == nil {
					variant.label = "default"
				} else {
					var ls []string
					for _, e := range cl.List {
						id, ok := e.(*ast.Ident)
						if !ok {
							return nil, fmt.Errorf("%s: case label is not a named constant (%s)", name, pos)
						}
						if _, ok := c.constString(id, 0); !ok {
							return nil, fmt.Errorf("%s: case label %s is not a string constant (%s)", name, id.Name, pos)
						}
						ls = append(ls, id.Name)
					}
					variant.label = strings.Join(ls, ",")
				}
				if len(cl.Body) != 1 {
					return nil, fmt.Errorf("%s: case body outside the subset (%s)", name, pos)
				}
				as, ok := cl.Body[0].(*ast.AssignStmt)
				if !ok || as.Tok != token.ASSIGN || len(as.Lhs) != 1 || len(as.Rhs) != 1 {
					return nil, fmt.Errorf("%s: case body outside the subset (%s)", name, pos)
				}
				lhs, ok := as.Lhs[0].(*ast.Ident)
				if !ok {
					return nil, fmt.Errorf("%s: case body outside the subset (%s)", name, pos)
				}
				if _, declared := env.locals[lhs.Name]; !declared {
					return nil, fmt.Errorf("%s: assignment to undeclared local %s (%s)", name, lhs.Name, pos)
				}
				s, ok := c.constString(as.Rhs[0], 0)
				if !ok {
					return nil, fmt.Errorf("%s: case assigns a non-constant (%s)", name, pos)
				}
				env.locals[lhs.Name] = c20Tmpl{{kind: "lit", s: s}}
			case *ast.AssignStmt:
				if x.Tok != token.DEFINE {
					return nil, fmt.Errorf("%s: assignment outside the subset (%s)", name, pos)
				}
				if len(x.Lhs) == 2 && len(x.Rhs) == 1 {
					ce, ok := x.Rhs[0].(*ast.CallExpr)
					if ok {
						if _, fn := selCall(ce); fn == "GetConsumableStorePathMetadata" && len(ce.Args) == 1 {
							if id, ok := ce.Args[0].(*ast.Ident); ok && env.locals[id.Name] != nil {
								checks = append(checks, "inverse")
								continue
							}
						}
					}
					return nil, fmt.Errorf("%s: assignment outside the subset (%s)", name, pos)
				}
				if len(x.Lhs) != 1 || len(x.Rhs) != 1 {
					return nil, fmt.Errorf("%s: assignment outside the subset (%s)", name, pos)
				}
				lhs, ok := x.Lhs[0].(*ast.Ident)
				if !ok {
					return nil, fmt.Errorf("%s: assignment outside the subset (%s)", name, pos)
				}
				t, err := c.expr(x.Rhs[0], env, name)
				if err != nil {
					return nil, err
				}
				env.locals[lhs.Name] = t
			case *ast.IfStmt:
				if x.Init != nil || x.Else != nil || !onlyPanics(x.Body) || len(checks) == 0 {
					return nil, fmt.Errorf("%s: if statement outside the subset (%s)", name, pos)
				}
				be, ok := x.Cond.(*ast.BinaryExpr)
				if !ok || be.Op != token.NEQ {
					return nil, fmt.Errorf("%s: inverse check is not a != comparison (%s)", name, pos)
				}
				switch l := be.X.(type) {
				case *ast.Ident:
					if l.Name == "err" {
						checks = append(checks, "err")
						continue
					}
				case *ast.SelectorExpr:
					if id, ok := l.X.(*ast.Ident); ok && id.Name == "info" {
						rhs := "?"
						switch r := be.Y.(type) {
						case *ast.Ident:
							rhs = r.Name
						}
						checks = append(checks, l.Sel.Name+"="+rhs)
						continue
					}
				}
				return nil, fmt.Errorf("%s: inverse check outside the subset (%s)", name, pos)
			case *ast.ReturnStmt:
				if len(x.Results) != 1 {
					return nil, fmt.Errorf("%s: return outside the subset (%s)", name, pos)
				}
				returned = true
				if ce, ok := x.Results[0].(*ast.CallExpr); ok {
					if pkg, fn := selCall(ce); pkg == "path" && fn == "Join" {
						variant.join = []c20Tmpl{}
						for _, a := range ce.Args {
							t, err := c.expr(a, env, name)
							if err != nil {
								return nil, err
							}
							variant.join = append(variant.join, t.norm())
						}
						continue
					}
				}
				t, err := c.expr(x.Results[0], env, name)
				if err != nil {
					return nil, err
				}
				variant.concat = t.norm()
			default:
				return nil, fmt.Errorf("%s: statement outside the subset (%s)", name, pos)
			}
		}
		if !returned {
			return nil, fmt.Errorf("%s: no return", name)
		}
		if v == 0 {
			b.checks = checks
		}
		b.variants = append(b.variants, variant)
	}
	_ = sw
	c.cache[name] = b
	return b, nil
}

func leanDefName(goName string) string {
	n := goName
	priv := false
	switch {
	case strings.HasPrefix(n, "Get"):
		n = n[3:]
	case strings.HasPrefix(n, "get"):
		n = n[3:]
		priv = true
	}
	n = strings.ToLower(n[:1]) + n[1:]
	if priv {
		n += "Priv"
	}
	return n + "T"
}

var c20BuilderRe = regexp.MustCompile(`^(Get|get)(ArchivePath|ConsumablePath|PathTo)`)

// builders outside the naming scheme that also produce store keys / reserved paths
var c20Extra = []string{"GenerateConflictPath", "GenerateCheckpointPath", "ReverseIndexFile", "ReverseIndexPrefix", "ReverseIndex", "PurgeLock"}

func c20Facts() {
	files := parseDir("pkg/model")
	_, exprs := constLits(files)
	// constants declared inside functions are not path constants; constLits only sees package level
	c := &c20Ctx{files: files, consts: exprs, cache: map[string]*c20Builder{}, busy: map[string]bool{}}

	// ---- which functions
	var names []string
	for _, f := range files {
		for _, d := range f.Decls {
			fd, ok := d.(*ast.FuncDecl)
			if !ok || fd.Recv != nil {
				continue
			}
			if c20BuilderRe.MatchString(fd.Name.Name) && returnsString(fd) {
				names = append(names, fd.Name.Name)
			}
		}
	}
	for _, n := range c20Extra {
		if funcDecl(files, n) == nil {
			fail("C20: builder %s not found in pkg/model", n)
			continue
		}
		names = append(names, n)
	}
	sort.Strings(names)
	if len(names) < 10 {
		fail("C20: only %d path builders found in pkg/model", len(names))
	}

	emit("/-! ### C20: path templates (pkg/model) -/")
	emit("")
	emit("/-- one piece of a path builder's result: a literal, the string parameter `i`, the unsigned")
	emit("    parameter `i` printed in decimal, or the variadic string parameter `i` joined by `sep` -/")
	emit("inductive Piece where")
	emit("  | lit (s : List Char)")
	emit("  | param (i : Nat)")
	emit("  | num (i : Nat)")
	emit("  | sepBy (i : Nat) (sep : List Char)")
	emit("  deriving DecidableEq, Repr")
	emit("")
	emit("abbrev Template := List Piece")
	emit("")

	var concatRows, joinRows, sigRows, checkRows []string
	for _, n := range names {
		b, err := c.builder(n)
		if err != nil {
			fail("C20: %v", err)
			continue
		}
		var ts []string
		for _, p := range b.params {
			ts = append(ts, p.typ)
		}
		sigRows = append(sigRows, fmt.Sprintf("(%s, %s)", leanStr(n), leanStrList(ts)))
		if len(b.checks) > 0 {
			checkRows = append(checkRows, fmt.Sprintf("(%s, %s)", leanStr(n), leanStrList(b.checks)))
		}
		for _, v := range b.variants {
			key, def := n, leanDefName(n)
			if v.label != "" {
				key = n + "/" + v.label
				def = strings.TrimSuffix(def, "T") + "_" + strings.ReplaceAll(v.label, ",", "_") + "_T"
			}
			if v.join != nil {
				def = strings.TrimSuffix(def, "T") + "J"
				es := make([]string, len(v.join))
				for i, e := range v.join {
					es[i] = e.lean()
				}
				emit("/-- `%s`: path.Join of these elements -/", key)
				emit("def %s : List Template := [%s]", def, strings.Join(es, ", "))
				joinRows = append(joinRows, fmt.Sprintf("(%s, %s)", leanStr(key), def))
			} else {
				emit("/-- `%s` -/", key)
				emit("def %s : Template := %s", def, v.concat.lean())
				concatRows = append(concatRows, fmt.Sprintf("(%s, %s)", leanStr(key), def))
			}
		}
	}
	emit("")
	emit("/-- every concatenation builder (name, or name/case for builders that switch on a parameter) -/")
	emit("def pathTemplates : List (String × Template) := [\n  %s]", strings.Join(concatRows, ",\n  "))
	emit("/-- every builder that returns `path.Join(elements…)` -/")
	emit("def joinPathTemplates : List (String × List Template) := [\n  %s]", strings.Join(joinRows, ",\n  "))
	emit("/-- parameter types of every translated builder -/")
	emit("def pathBuilderParams : List (String × List String) := [\n  %s]", strings.Join(sigRows, ",\n  "))
	emit("/-- builders that check their result against the inverse function and panic on a difference -/")
	emit("def pathBuilderInverseChecks : List (String × List String) := [\n  %s]", strings.Join(checkRows, ",\n  "))
	emit("")

	// ---- constants used by the parsers
	for _, n := range []string{"repoDescriptorFile", "labelDescriptorFile", "bundleDescriptorFile", "contextDescriptorFile",
		"bundleFilesIndexPrefix", "splitFilesIndexPrefix", "indexFilePrefix", "reverseIndexFile",
		"diamondInitialDescriptorFile", "diamondFinalDescriptorFile", "splitInitialDescriptorFile", "splitFinalDescriptorFile"} {
		e, ok := exprs[n]
		if !ok {
			fail("C20: constant %s not found in pkg/model", n)
			continue
		}
		s, ok := c.constString(e, 0)
		if !ok {
			fail("C20: constant %s is not a constant string expression", n)
			continue
		}
		emit("/-- %s -/", leanStr(s))
		emit("def %s : List Char := %s", n, leanChars(s))
	}
	emit("")

	// ---- regular expressions: X = regexp.MustCompile(<constant string>) | X = Y
	res := map[string]string{}
	alias := map[string]string{}
	for _, f := range files {
		ast.Inspect(f, func(n ast.Node) bool {
			as, ok := n.(*ast.AssignStmt)
			if !ok || len(as.Lhs) != 1 || len(as.Rhs) != 1 {
				return true
			}
			lhs, ok := as.Lhs[0].(*ast.Ident)
			if !ok {
				return true
			}
			switch r := as.Rhs[0].(type) {
			case *ast.CallExpr:
				if pkg, fn := selCall(r); pkg == "regexp" && fn == "MustCompile" && len(r.Args) == 1 {
					s, ok := c.constString(r.Args[0], 0)
					if !ok {
						fail("C20: regular expression %s is not a constant string expression (%s)", lhs.Name, fset.Position(as.Pos()))
						return true
					}
					res[lhs.Name] = s
				}
			case *ast.Ident:
				if strings.HasSuffix(lhs.Name, "Re") && strings.HasSuffix(r.Name, "Re") {
					alias[lhs.Name] = r.Name
				}
			}
			return true
		})
	}
	for a, t := range alias {
		if s, ok := res[t]; ok {
			res[a] = s
		}
	}
	for _, n := range []string{"isBundleFileIndexRe", "isSplitIndexFileRe", "metaRe", "flRe", "genFileRe"} {
		s, ok := res[n]
		if !ok {
			fail("C20: regular expression %s not found in pkg/model", n)
			continue
		}
		emit("def re_%s : String := %s", n, leanStr(s))
	}
	emit("")

	// ---- GetArchivePathComponents: position table and kind tags
	if fd := funcDecl(files, "GetArchivePathComponents"); fd != nil {
		local := map[string]ast.Expr{}
		var tags []string
		splitN := int64(-1)
		ast.Inspect(fd, func(n ast.Node) bool {
			switch x := n.(type) {
			case *ast.GenDecl:
				if x.Tok == token.CONST {
					for _, sp := range x.Specs {
						vs := sp.(*ast.ValueSpec)
						for i, nm := range vs.Names {
							if i < len(vs.Values) {
								local[nm.Name] = vs.Values[i]
							}
						}
					}
				}
			case *ast.SwitchStmt:
				if ie, ok := x.Tag.(*ast.IndexExpr); ok {
					if id, ok := ie.X.(*ast.Ident); ok && id.Name == "cs" {
						if v, ok := evalInt(ie.Index, local, 0); ok && v == 0 {
							for _, cl := range x.Body.List {
								for _, e := range cl.(*ast.CaseClause).List {
									if s, ok := strLit(e); ok {
										tags = append(tags, s)
									} else {
										fail("C20: GetArchivePathComponents: kind tag is not a literal (%s)", fset.Position(e.Pos()))
									}
								}
							}
						}
					}
				}
			case *ast.CallExpr:
				if pkg, fn := selCall(x); pkg == "strings" && fn == "SplitN" && len(x.Args) == 3 {
					if sep, ok := strLit(x.Args[1]); !ok || sep != "/" {
						fail("C20: GetArchivePathComponents: SplitN separator is not \"/\"")
					}
					if v, ok := evalInt(x.Args[2], local, 0); ok {
						splitN = v
					}
				}
			}
			return true
		})
		for _, n := range []string{"maxPos", "labelPos", "repoPos", "bundlePos", "contextPos", "diamondPos", "splitPos", "indexPos"} {
			e, ok := local[n]
			if !ok {
				fail("C20: GetArchivePathComponents: constant %s not found", n)
				continue
			}
			v, ok := evalInt(e, local, 0)
			if !ok {
				fail("C20: GetArchivePathComponents: constant %s is not an integer", n)
				continue
			}
			emit("def apc_%s : Nat := %d", n, v)
		}
		if splitN < 0 {
			fail("C20: GetArchivePathComponents: strings.SplitN(archivePath, \"/\", n) not found")
		}
		emit("def apc_splitN : Nat := %d", splitN)
		tcs := make([]string, len(tags))
		for i, t := range tags {
			tcs[i] = leanChars(t)
		}
		emit("/-- %s -/", strings.Join(tags, " "))
		emit("def apc_kindTags : List (List Char) := [%s]", strings.Join(tcs, ", "))
	} else {
		fail("C20: GetArchivePathComponents not found")
	}

	// ---- GetConsumableStorePathMetadata: how the index is converted
	if fd := funcDecl(files, "GetConsumableStorePathMetadata"); fd != nil {
		var convs []string
		ast.Inspect(fd, func(n ast.Node) bool {
			if ce, ok := n.(*ast.CallExpr); ok {
				if pkg, fn := selCall(ce); pkg == "strconv" {
					s := "strconv." + fn
					for _, a := range ce.Args[1:] {
						if bl, ok := a.(*ast.BasicLit); ok {
							s += "/" + bl.Value
						} else {
							s += "/?"
						}
					}
					convs = append(convs, s)
				}
			}
			return true
		})
		emit("/-- the conversion applied to the index group of a consumable file-list path -/")
		emit("def consumableIndexConversion : List String := %s", leanStrList(convs))
	} else {
		fail("C20: GetConsumableStorePathMetadata not found")
	}

	// ---- ValidateRepo / ValidateLabel: the unicode classes accepted in a name
	for _, fn := range []string{"ValidateRepo", "ValidateLabel"} {
		fd := funcDecl(files, fn)
		if fd == nil {
			fail("C20: %s not found", fn)
			continue
		}
		var classes []string
		ast.Inspect(fd, func(n ast.Node) bool {
			ce, ok := n.(*ast.CallExpr)
			if !ok {
				return true
			}
			if pkg, f := selCall(ce); pkg == "unicode" {
				switch {
				case f == "Is" && len(ce.Args) == 2:
					if se, ok := ce.Args[0].(*ast.SelectorExpr); ok {
						classes = append(classes, se.Sel.Name)
					} else {
						fail("C20: %s: unicode.Is with a non-table argument", fn)
					}
				default:
					classes = append(classes, f)
				}
			}
			return true
		})
		emit("/-- unicode predicates/tables a rune of the name may satisfy in `%s` -/", fn)
		emit("def %sClasses : List String := %s", strings.ToLower(fn[:1])+fn[1:], leanStrList(classes))
	}
	emit("")
	_ = strconv.Itoa
}
