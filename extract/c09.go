package main

// C09: key templates of pkg/model (repo / bundle / file list / label), the character classes
// ValidateRepo accepts, and the call-site facts of CreateRepo / DeleteRepo the model relies on.

import (
	"go/ast"
	"go/token"
	"strings"
)

// c09Param marks a template piece that is a parameter of the rendering function.
func c09Param(name string) string { return "<" + name + ">" }

// c09Pieces flattens the string expression e (literals, constants, parameters, `+`, calls of
// package-level template functions, fmt.Sprint) into template pieces. env maps the identifiers in
// scope to already-resolved pieces (parameters of an inlined callee).
func c09Pieces(files []*ast.File, strs map[string]string, e ast.Expr, env map[string][]string, depth int) ([]string, bool) {
	if depth > 8 {
		return nil, false
	}
	switch x := e.(type) {
	case *ast.BasicLit:
		if s, ok := strLit(x); ok {
			return []string{s}, true
		}
	case *ast.ParenExpr:
		return c09Pieces(files, strs, x.X, env, depth+1)
	case *ast.Ident:
		if p, ok := env[x.Name]; ok {
			return p, true
		}
		if s, ok := strs[x.Name]; ok {
			return []string{s}, true
		}
	case *ast.BinaryExpr:
		if x.Op == token.ADD {
			a, ok1 := c09Pieces(files, strs, x.X, env, depth+1)
			b, ok2 := c09Pieces(files, strs, x.Y, env, depth+1)
			if ok1 && ok2 {
				return append(append([]string{}, a...), b...), true
			}
		}
	case *ast.CallExpr:
		// fmt.Sprint(a, b, …): concatenation (operands are strings or an index between strings)
		if se, ok := x.Fun.(*ast.SelectorExpr); ok {
			if pk, ok := se.X.(*ast.Ident); ok && pk.Name == "fmt" && se.Sel.Name == "Sprint" {
				var out []string
				for _, a := range x.Args {
					p, ok := c09Pieces(files, strs, a, env, depth+1)
					if !ok {
						return nil, false
					}
					out = append(out, p...)
				}
				return out, true
			}
			// strings.Join(<variadic parameter that received no argument>, sep) = ""
			if pk, ok := se.X.(*ast.Ident); ok && pk.Name == "strings" && se.Sel.Name == "Join" && len(x.Args) == 2 {
				if id, ok := x.Args[0].(*ast.Ident); ok {
					if p, ok := env[id.Name]; ok && len(p) == 0 {
						return []string{}, true
					}
				}
			}
			return nil, false
		}
		if id, ok := x.Fun.(*ast.Ident); ok {
			fd := funcDecl(files, id.Name)
			if fd == nil || fd.Body == nil || len(fd.Body.List) != 1 {
				return nil, false
			}
			ret, ok := fd.Body.List[0].(*ast.ReturnStmt)
			if !ok || len(ret.Results) != 1 {
				return nil, false
			}
			// bind the callee's parameters to the pieces of the arguments
			cenv := map[string][]string{}
			i := 0
			for _, f := range fd.Type.Params.List {
				_, variadic := f.Type.(*ast.Ellipsis)
				for _, n := range f.Names {
					switch {
					case variadic && i >= len(x.Args):
						cenv[n.Name] = []string{}
					case variadic:
						return nil, false
					case i < len(x.Args):
						p, ok := c09Pieces(files, strs, x.Args[i], env, depth+1)
						if !ok {
							return nil, false
						}
						cenv[n.Name] = p
						i++
					default:
						return nil, false
					}
				}
			}
			return c09Pieces(files, strs, ret.Results[0], cenv, depth+1)
		}
	}
	return nil, false
}

// c09Template renders the single return expression of a template function of pkg/model with its
// own parameters as markers; adjacent literals are merged.
func c09Template(files []*ast.File, strs map[string]string, name string) []string {
	fd := funcDecl(files, name)
	if fd == nil || fd.Body == nil {
		fail("C09: %s not found", name)
		return nil
	}
	var ret *ast.ReturnStmt
	for _, st := range fd.Body.List {
		if r, ok := st.(*ast.ReturnStmt); ok {
			ret = r
		}
	}
	if len(fd.Body.List) != 1 || ret == nil || len(ret.Results) != 1 {
		fail("C09: %s is no longer a single return of a string expression", name)
		return nil
	}
	env := map[string][]string{}
	for _, f := range fd.Type.Params.List {
		_, variadic := f.Type.(*ast.Ellipsis)
		for _, n := range f.Names {
			if variadic {
				env[n.Name] = []string{}
			} else {
				env[n.Name] = []string{c09Param(n.Name)}
			}
		}
	}
	ps, ok := c09Pieces(files, strs, ret.Results[0], env, 0)
	if !ok {
		fail("C09: cannot translate the key template of %s", name)
		return nil
	}
	var out []string
	for _, p := range ps {
		if p == "" {
			continue
		}
		if len(out) > 0 && !strings.HasPrefix(p, "<") && !strings.HasPrefix(out[len(out)-1], "<") {
			out[len(out)-1] += p
		} else {
			out = append(out, p)
		}
	}
	return out
}

func c09LeanChars(s string) string {
	var q []string
	for _, r := range s {
		switch r {
		case '\'':
			q = append(q, "'\\''")
		case '\\':
			q = append(q, "'\\\\'")
		default:
			q = append(q, "'"+string(r)+"'")
		}
	}
	return "[" + strings.Join(q, ", ") + "]"
}

func c09LeanCharsList(xs []string) string {
	q := make([]string, len(xs))
	for i, x := range xs {
		q[i] = c09LeanChars(x)
	}
	return "[" + strings.Join(q, ", ") + "]"
}

// c09NegatedClasses: the condition `!unicode.A(c) && !unicode.B(c) && !unicode.Is(unicode.C, c)`.
func c09NegatedClasses(e ast.Expr) ([]string, bool) {
	switch x := e.(type) {
	case *ast.ParenExpr:
		return c09NegatedClasses(x.X)
	case *ast.BinaryExpr:
		if x.Op != token.LAND {
			return nil, false
		}
		a, ok1 := c09NegatedClasses(x.X)
		b, ok2 := c09NegatedClasses(x.Y)
		return append(a, b...), ok1 && ok2
	case *ast.UnaryExpr:
		if x.Op != token.NOT {
			return nil, false
		}
		ce, ok := x.X.(*ast.CallExpr)
		if !ok {
			return nil, false
		}
		se, ok := ce.Fun.(*ast.SelectorExpr)
		if !ok {
			return nil, false
		}
		if pk, ok := se.X.(*ast.Ident); !ok || pk.Name != "unicode" {
			return nil, false
		}
		if se.Sel.Name == "Is" && len(ce.Args) == 2 {
			if t, ok := ce.Args[0].(*ast.SelectorExpr); ok {
				return []string{"Is:" + t.Sel.Name}, true
			}
			return nil, false
		}
		return []string{se.Sel.Name}, len(ce.Args) == 1
	}
	return nil, false
}

func c09Facts() {
	mfiles := parseDir("pkg/model")
	strs, _ := constLits(mfiles)
	emit("/-! C09: key templates (`<x>` = parameter x of the Go function), as character lists -/")
	for _, t := range []struct{ lean, goName string }{
		{"c09RepoKeyTemplate", "GetArchivePathToRepoDescriptor"},
		{"c09BundlePrefixTemplate", "GetArchivePathPrefixToBundles"},
		{"c09BundleKeyTemplate", "GetArchivePathToBundle"},
		{"c09FilesKeyTemplate", "GetArchivePathToBundleFileList"},
		{"c09LabelPrefixTemplate", "GetArchivePathPrefixToLabels"},
		{"c09LabelKeyTemplate", "GetArchivePathToLabel"},
	} {
		ps := c09Template(mfiles, strs, t.goName)
		emit("/-- `%s` -/", t.goName)
		emit("def %s : List (List Char) := %s", t.lean, c09LeanCharsList(ps))
	}
	// ValidateRepo: the per-character rejection condition
	var classes []string
	if fd := funcDecl(mfiles, "ValidateRepo"); fd != nil {
		n := 0
		ast.Inspect(fd, func(nd ast.Node) bool {
			rs, ok := nd.(*ast.RangeStmt)
			if !ok {
				return true
			}
			for _, st := range rs.Body.List {
				if is, ok := st.(*ast.IfStmt); ok {
					n++
					c, ok := c09NegatedClasses(is.Cond)
					if !ok {
						fail("C09: ValidateRepo: the character test is no longer a conjunction of negated unicode classes")
					}
					classes = c
				}
			}
			return true
		})
		if n != 1 {
			fail("C09: ValidateRepo: expected exactly one character test in the range loop, found %d", n)
		}
	} else {
		fail("C09: ValidateRepo not found")
	}
	emit("/-- `ValidateRepo` rejects a name containing a character that is in none of these Unicode classes -/")
	emit("def c09RepoNameClasses : List String := %s", leanStrList(classes))
	// CreateRepo: the store calls it makes and the overwrite flag of its Put
	cfiles := []*ast.File{parse("pkg/core/repo_create.go"), parse("pkg/core/delete.go")}
	var calls []string
	flag := ""
	if fd := funcDecl(cfiles, "CreateRepo"); fd != nil {
		ast.Inspect(fd, func(nd ast.Node) bool {
			ce, ok := nd.(*ast.CallExpr)
			if !ok {
				return true
			}
			if se, ok := ce.Fun.(*ast.SelectorExpr); ok {
				if id, ok := se.X.(*ast.Ident); ok && id.Name == "store" {
					calls = append(calls, se.Sel.Name)
					if se.Sel.Name == "Put" && len(ce.Args) == 4 {
						if f, ok := ce.Args[3].(*ast.SelectorExpr); ok {
							flag = f.Sel.Name
						}
					}
				}
			}
			return true
		})
	} else {
		fail("C09: CreateRepo not found")
	}
	emit("/-- the calls `CreateRepo` makes on the metadata store, in source order, and the flag of its `Put` -/")
	emit("def c09CreateRepoStoreCalls : List String := %s", leanStrList(calls))
	emit("def c09CreateRepoPutFlag : String := %s", leanStr(flag))
	// DeleteRepo: the options it adds for DeleteBundle
	var opts []string
	if fd := funcDecl(cfiles, "DeleteRepo"); fd != nil {
		ast.Inspect(fd, func(nd ast.Node) bool {
			ce, ok := nd.(*ast.CallExpr)
			if !ok {
				return true
			}
			if id, ok := ce.Fun.(*ast.Ident); ok && id.Name == "append" && len(ce.Args) >= 2 {
				if a0, ok := ce.Args[0].(*ast.Ident); ok && a0.Name == "bopts" {
					for _, a := range ce.Args[1:] {
						oc, ok := a.(*ast.CallExpr)
						if !ok || len(oc.Args) != 1 {
							fail("C09: DeleteRepo: unsupported bundle option")
							continue
						}
						fn, ok1 := oc.Fun.(*ast.Ident)
						arg, ok2 := oc.Args[0].(*ast.Ident)
						if !ok1 || !ok2 {
							fail("C09: DeleteRepo: unsupported bundle option")
							continue
						}
						opts = append(opts, fn.Name+"("+arg.Name+")")
					}
				}
			}
			return true
		})
	} else {
		fail("C09: DeleteRepo not found")
	}
	emit("/-- the options `DeleteRepo` passes to `DeleteBundle` in addition to its own -/")
	emit("def c09DeleteRepoBundleOpts : List String := %s", leanStrList(opts))
	// DeleteBundle: the arguments of its store.Delete calls in source order — the file lists first,
	// the descriptor (`pth`) last (C09_delete_crash_rerun rests on that order)
	var dels []string
	if fd := funcDecl(cfiles, "DeleteBundle"); fd != nil {
		ast.Inspect(fd, func(nd ast.Node) bool {
			ce, ok := nd.(*ast.CallExpr)
			if !ok {
				return true
			}
			if se, ok := ce.Fun.(*ast.SelectorExpr); ok && se.Sel.Name == "Delete" && len(ce.Args) == 2 {
				if id, ok := se.X.(*ast.Ident); ok && id.Name == "store" {
					if a, ok := ce.Args[1].(*ast.Ident); ok {
						dels = append(dels, a.Name)
					} else {
						dels = append(dels, "?")
					}
				}
			}
			return true
		})
	} else {
		fail("C09: DeleteBundle not found")
	}
	emit("/-- what `DeleteBundle` deletes from the metadata store, in source order (`pth` is the descriptor) -/")
	emit("def c09DeleteBundleDeletes : List String := %s", leanStrList(dels))
	emit("")
}
