// extract: the facts translator. Reads the Go sources under -repo with go/parser and writes
// lean/DatamonVerif/Generated/Facts.lean: constants, literals, path templates and call-site
// facts that the Lean models and theorems depend on. It fails closed: a construct outside the
// subset it understands aborts the run (reported by ./check as a broken obligation).
package main

import (
	"flag"
	"fmt"
	"go/ast"
	"go/parser"
	"go/token"
	"os"
	"path/filepath"
	"sort"
	"strconv"
	"strings"
)

var repo string
var fset = token.NewFileSet()
var out strings.Builder
var failures []string

func fail(format string, a ...interface{}) { failures = append(failures, fmt.Sprintf(format, a...)) }

func parse(rel string) *ast.File {
	f, err := parser.ParseFile(fset, filepath.Join(repo, rel), nil, parser.ParseComments)
	if err != nil {
		fail("cannot parse %s: %v", rel, err)
		return &ast.File{}
	}
	return f
}

// parseDir parses every non-test .go file of a package directory (all build tags).
func parseDir(rel string) []*ast.File {
	ents, err := os.ReadDir(filepath.Join(repo, rel))
	if err != nil {
		fail("cannot read %s: %v", rel, err)
		return nil
	}
	var fs []*ast.File
	for _, e := range ents {
		n := e.Name()
		if !strings.HasSuffix(n, ".go") || strings.HasSuffix(n, "_test.go") || strings.HasPrefix(n, "verif_") {
			continue
		}
		fs = append(fs, parse(filepath.Join(rel, n)))
	}
	return fs
}

func leanStr(s string) string {
	var b strings.Builder
	b.WriteByte('"')
	for _, r := range s {
		switch {
		case r == '"':
			b.WriteString("\\\"")
		case r == '\\':
			b.WriteString("\\\\")
		case r == '\n':
			b.WriteString("\\n")
		case r == '\t':
			b.WriteString("\\t")
		case r < 32 || r == 127:
			fmt.Fprintf(&b, "\\x%02x", r)
		default:
			b.WriteRune(r)
		}
	}
	b.WriteByte('"')
	return b.String()
}

func leanStrList(xs []string) string {
	q := make([]string, len(xs))
	for i, x := range xs {
		q[i] = leanStr(x)
	}
	return "[" + strings.Join(q, ", ") + "]"
}

func strLit(e ast.Expr) (string, bool) {
	bl, ok := e.(*ast.BasicLit)
	if !ok || bl.Kind != token.STRING {
		return "", false
	}
	s, err := strconv.Unquote(bl.Value)
	if err != nil {
		return "", false
	}
	return s, true
}

// constLits collects `name = "literal"` and integer constants/vars declared at package level.
func constLits(files []*ast.File) (map[string]string, map[string]ast.Expr) {
	strs := map[string]string{}
	exprs := map[string]ast.Expr{}
	for _, f := range files {
		for _, d := range f.Decls {
			gd, ok := d.(*ast.GenDecl)
			if !ok || (gd.Tok != token.CONST && gd.Tok != token.VAR) {
				continue
			}
			for _, sp := range gd.Specs {
				vs := sp.(*ast.ValueSpec)
				for i, n := range vs.Names {
					if i < len(vs.Values) {
						exprs[n.Name] = vs.Values[i]
						if s, ok := strLit(vs.Values[i]); ok {
							strs[n.Name] = s
						}
					}
				}
			}
		}
	}
	return strs, exprs
}

// evalInt evaluates integer constant expressions built from literals, names, + - * << and parentheses.
func evalInt(e ast.Expr, env map[string]ast.Expr, depth int) (int64, bool) {
	if depth > 20 {
		return 0, false
	}
	switch x := e.(type) {
	case *ast.BasicLit:
		if x.Kind == token.INT {
			v, err := strconv.ParseInt(strings.ReplaceAll(x.Value, "_", ""), 0, 64)
			return v, err == nil
		}
	case *ast.ParenExpr:
		return evalInt(x.X, env, depth+1)
	case *ast.Ident:
		if v, ok := env[x.Name]; ok {
			return evalInt(v, env, depth+1)
		}
	case *ast.CallExpr: // conversions like uint32(5 * 1024 * 1024)
		if len(x.Args) == 1 {
			if id, ok := x.Fun.(*ast.Ident); ok && (strings.HasPrefix(id.Name, "uint") || strings.HasPrefix(id.Name, "int")) {
				return evalInt(x.Args[0], env, depth+1)
			}
		}
	case *ast.BinaryExpr:
		a, ok1 := evalInt(x.X, env, depth+1)
		b, ok2 := evalInt(x.Y, env, depth+1)
		if ok1 && ok2 {
			switch x.Op {
			case token.ADD:
				return a + b, true
			case token.SUB:
				return a - b, true
			case token.MUL:
				return a * b, true
			case token.SHL:
				return a << uint(b), true
			case token.QUO:
				if b != 0 {
					return a / b, true
				}
			}
		}
	}
	return 0, false
}

func funcDecl(files []*ast.File, name string) *ast.FuncDecl {
	for _, f := range files {
		for _, d := range f.Decls {
			if fd, ok := d.(*ast.FuncDecl); ok && fd.Name.Name == name && fd.Recv == nil {
				return fd
			}
		}
	}
	return nil
}

func method(files []*ast.File, recv, name string) *ast.FuncDecl {
	for _, f := range files {
		for _, d := range f.Decls {
			fd, ok := d.(*ast.FuncDecl)
			if !ok || fd.Name.Name != name || fd.Recv == nil || len(fd.Recv.List) == 0 {
				continue
			}
			t := fd.Recv.List[0].Type
			if st, ok := t.(*ast.StarExpr); ok {
				t = st.X
			}
			if id, ok := t.(*ast.Ident); ok && id.Name == recv {
				return fd
			}
		}
	}
	return nil
}

func emit(format string, a ...interface{}) { fmt.Fprintf(&out, format+"\n", a...) }

// ---------------------------------------------------------------------------------------
// C21: sidecar parameter names and the separator exclusion literal
// ---------------------------------------------------------------------------------------
func sidecarFacts() {
	files := parseDir("pkg/sidecar/param")
	strs, _ := constLits(files)
	names := map[string]bool{}
	for _, f := range files {
		ast.Inspect(f, func(n ast.Node) bool {
			switch x := n.(type) {
			case *ast.CallExpr:
				if id, ok := x.Fun.(*ast.Ident); ok && id.Name == "appendToParamString" {
					if len(x.Args) != 3 {
						fail("appendToParamString: unexpected arity")
						return true
					}
					s, ok := strLit(x.Args[1])
					if !ok {
						fail("appendToParamString: parameter name is not a string literal at %s", fset.Position(x.Pos()))
						return true
					}
					names[s] = true
				}
			case *ast.AssignStmt:
				// rv += "S" + itemSep
				if x.Tok == token.ADD_ASSIGN && len(x.Rhs) == 1 {
					if be, ok := x.Rhs[0].(*ast.BinaryExpr); ok {
						if s, ok := strLit(be.X); ok {
							if id, ok := be.Y.(*ast.Ident); ok && id.Name == "itemSep" {
								names[s] = true
							}
						}
					}
				}
			}
			return true
		})
	}
	var ns []string
	for n := range names {
		ns = append(ns, n)
	}
	sort.Strings(ns)
	if len(ns) == 0 {
		fail("sidecar: no parameter names found")
	}
	// the exclusion literal: extra arguments appended to stringVals in setSeparators
	excl := ""
	if fd := funcDecl(files, "setSeparators"); fd != nil {
		ast.Inspect(fd, func(n ast.Node) bool {
			ce, ok := n.(*ast.CallExpr)
			if !ok {
				return true
			}
			if id, ok := ce.Fun.(*ast.Ident); ok && id.Name == "append" && len(ce.Args) >= 2 {
				if a0, ok := ce.Args[0].(*ast.Ident); ok && a0.Name == "stringVals" {
					for _, a := range ce.Args[1:] {
						if s, ok := strLit(a); ok {
							excl += s
						} else if id, ok := a.(*ast.Ident); ok {
							if v, ok := strs[id.Name]; ok {
								excl += v
							} else {
								fail("setSeparators: cannot resolve %s", id.Name)
							}
						} else {
							fail("setSeparators: unsupported exclusion argument")
						}
					}
				}
			}
			return true
		})
	} else {
		fail("sidecar: setSeparators not found")
	}
	emit("/-- every parameter name written by the sidecar encoders (2nd argument of `appendToParamString`, and the sleep flag) -/")
	emit("def sidecarParamNames : List String := %s", leanStrList(ns))
	emit("/-- characters `setSeparators` excludes in addition to the parameter values -/")
	emit("def sidecarSepExclusions : String := %s", leanStr(excl))
	emit("def sidecarFirstSep : Nat := %d", '0')
	emit("")
}

func main() {
	outPath := flag.String("out", "", "output Lean file")
	flag.StringVar(&repo, "repo", "/repo", "repository root")
	flag.Parse()
	emit("/-! GENERATED by /verif/extract from the Go sources of oneconcern/datamon — do not edit. -/")
	emit("namespace Facts")
	emit("")
	sidecarFacts()
	moreFacts()
	emit("end Facts")
	if len(failures) > 0 {
		for _, f := range failures {
			fmt.Fprintln(os.Stderr, "extract:", f)
		}
		os.Exit(1)
	}
	if *outPath == "" {
		fmt.Print(out.String())
		return
	}
	if err := os.WriteFile(*outPath, []byte(out.String()), 0o644); err != nil {
		fmt.Fprintln(os.Stderr, err)
		os.Exit(1)
	}
}
