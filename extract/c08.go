package main

// C08 facts: the archive path templates of labels / repos / bundles, the way a label key is
// parsed back (GetArchivePathComponents, case "labels"), the label-name rule enforced by
// model.ValidateLabelName, whether Label.UploadDescriptor calls it before writing, the store
// labels live in, and the character classes of repository names.

import (
	"fmt"
	"go/ast"
	"go/token"
	"sort"
	"strings"
)

// c08Tok is one piece of a path template: a literal or a parameter of the Go function.
type c08Tok struct {
	isVar bool
	s     string
}

func c08Codes(s string) string {
	parts := []string{}
	for _, r := range s {
		parts = append(parts, fmt.Sprint(int(r)))
	}
	return "[" + strings.Join(parts, ", ") + "]"
}

func c08Merge(ts []c08Tok) []c08Tok {
	var out []c08Tok
	for _, t := range ts {
		if !t.isVar && t.s == "" {
			continue
		}
		if !t.isVar && len(out) > 0 && !out[len(out)-1].isVar {
			out[len(out)-1].s += t.s
			continue
		}
		out = append(out, t)
	}
	return out
}

// c08Template renders the single `return fmt.Sprint(...)` of function `name` into tokens.
// `args` (optional) are the caller's tokens for the parameters, used when inlining.
func c08Template(files []*ast.File, strs map[string]string, name string, args [][]c08Tok, depth int) []c08Tok {
	fd := funcDecl(files, name)
	if fd == nil || fd.Body == nil || len(fd.Body.List) != 1 || depth > 5 {
		fail("c08: %s: not a single-statement function", name)
		return nil
	}
	ret, ok := fd.Body.List[0].(*ast.ReturnStmt)
	if !ok || len(ret.Results) != 1 {
		fail("c08: %s: not a single return", name)
		return nil
	}
	// parameters -> tokens
	env := map[string][]c08Tok{}
	variadic := map[string]bool{}
	i := 0
	for _, f := range fd.Type.Params.List {
		_, isVar := f.Type.(*ast.Ellipsis)
		for _, n := range f.Names {
			switch {
			case args == nil:
				env[n.Name] = []c08Tok{{true, n.Name}}
			case i < len(args):
				env[n.Name] = args[i]
			case isVar:
				env[n.Name] = nil // no variadic argument given
			default:
				fail("c08: %s: missing argument %s", name, n.Name)
			}
			variadic[n.Name] = isVar
			i++
		}
	}
	var render func(e ast.Expr) []c08Tok
	render = func(e ast.Expr) []c08Tok {
		switch x := e.(type) {
		case *ast.BasicLit:
			if s, ok := strLit(x); ok {
				return []c08Tok{{false, s}}
			}
		case *ast.Ident:
			if t, ok := env[x.Name]; ok {
				return t
			}
			if s, ok := strs[x.Name]; ok {
				return []c08Tok{{false, s}}
			}
		case *ast.BinaryExpr:
			if x.Op == token.ADD {
				return append(append([]c08Tok{}, render(x.X)...), render(x.Y)...)
			}
		case *ast.CallExpr:
			if sel, ok := x.Fun.(*ast.SelectorExpr); ok {
				if p, ok := sel.X.(*ast.Ident); ok && p.Name == "fmt" && sel.Sel.Name == "Sprint" {
					var out []c08Tok
					for _, a := range x.Args {
						out = append(out, render(a)...)
					}
					return out
				}
				if p, ok := sel.X.(*ast.Ident); ok && p.Name == "strings" && sel.Sel.Name == "Join" && len(x.Args) == 2 {
					// strings.Join(<variadic parameter>, sep): the joined value of that parameter
					if id, ok := x.Args[0].(*ast.Ident); ok && variadic[id.Name] {
						return env[id.Name]
					}
				}
			}
			if id, ok := x.Fun.(*ast.Ident); ok {
				var as [][]c08Tok
				for _, a := range x.Args {
					as = append(as, render(a))
				}
				if as == nil {
					as = [][]c08Tok{}
				}
				return c08Template(files, strs, id.Name, as, depth+1)
			}
		}
		fail("c08: %s: expression outside the translatable subset at %s", name, fset.Position(e.Pos()))
		return nil
	}
	return c08Merge(render(ret.Results[0]))
}

func c08EmitTemplate(lean, doc string, ts []c08Tok) {
	var parts, human []string
	for _, t := range ts {
		if t.isVar {
			parts = append(parts, fmt.Sprintf("(true, %s)", c08Codes(t.s)))
			human = append(human, "{"+t.s+"}")
		} else {
			parts = append(parts, fmt.Sprintf("(false, %s)", c08Codes(t.s)))
			human = append(human, t.s)
		}
	}
	emit("/-- %s: `%s` (true = parameter of the Go function, false = literal; code points) -/", doc, strings.Join(human, ""))
	emit("def %s : List (Bool × List Nat) := [%s]", lean, strings.Join(parts, ", "))
}

// c08IsErrReturn: `return fmt.Errorf(...)` / `return err` style single statement returning a non-nil error
func c08IsErrReturn(body []ast.Stmt) bool {
	if len(body) != 1 {
		return false
	}
	ret, ok := body[0].(*ast.ReturnStmt)
	if !ok || len(ret.Results) != 1 {
		return false
	}
	if id, ok := ret.Results[0].(*ast.Ident); ok && id.Name == "nil" {
		return false
	}
	return true
}

func c08Facts() {
	mfiles := parseDir("pkg/model")
	cfiles := parseDir("pkg/core")
	strs, _ := constLits(mfiles)

	// ---- path templates
	c08EmitTemplate("c08LabelKeyTemplate", "model.GetArchivePathToLabel", c08Template(mfiles, strs, "GetArchivePathToLabel", nil, 0))
	c08EmitTemplate("c08LabelPrefixTemplate", "model.GetArchivePathPrefixToLabels (the joined prefixes are one parameter)", c08Template(mfiles, strs, "GetArchivePathPrefixToLabels", nil, 0))
	c08EmitTemplate("c08RepoKeyTemplate", "model.GetArchivePathToRepoDescriptor", c08Template(mfiles, strs, "GetArchivePathToRepoDescriptor", nil, 0))
	c08EmitTemplate("c08BundleKeyTemplate", "model.GetArchivePathToBundle", c08Template(mfiles, strs, "GetArchivePathToBundle", nil, 0))

	// ---- parsing a label key back: GetArchivePathComponents, the case that uses labelPos
	labelsDir, labelPos, fileConst := "", int64(-1), ""
	if fd := funcDecl(mfiles, "GetArchivePathComponents"); fd != nil {
		_, exprs := constLits(nil)
		ast.Inspect(fd, func(n ast.Node) bool {
			switch x := n.(type) {
			case *ast.GenDecl:
				if x.Tok == token.CONST {
					for _, sp := range x.Specs {
						vs := sp.(*ast.ValueSpec)
						for i, nm := range vs.Names {
							if i < len(vs.Values) {
								exprs[nm.Name] = vs.Values[i]
							}
						}
					}
				}
			case *ast.CaseClause:
				uses := false
				for _, st := range x.Body {
					ast.Inspect(st, func(m ast.Node) bool {
						// cs[labelPos] != <const>
						if be, ok := m.(*ast.BinaryExpr); ok && be.Op == token.NEQ {
							if ix, ok := be.X.(*ast.IndexExpr); ok {
								if id, ok := ix.Index.(*ast.Ident); ok && id.Name == "labelPos" {
									if c, ok := be.Y.(*ast.Ident); ok {
										fileConst = c.Name
										uses = true
									}
								}
							}
						}
						return true
					})
				}
				if uses && len(x.List) == 1 {
					if s, ok := strLit(x.List[0]); ok {
						if labelsDir != "" && labelsDir != s {
							fail("c08: component labelPos is compared in two cases of GetArchivePathComponents")
						}
						labelsDir = s
					}
				}
			}
			return true
		})
		if v, ok := exprs["labelPos"]; ok {
			if n, ok := evalInt(v, exprs, 0); ok {
				labelPos = n
			}
		}
	} else {
		fail("c08: GetArchivePathComponents not found")
	}
	if labelsDir == "" || labelPos < 0 || fileConst == "" {
		fail("c08: cannot read the label case of GetArchivePathComponents (dir=%q pos=%d file=%q)", labelsDir, labelPos, fileConst)
	}
	fileVal, ok := strs[fileConst]
	if !ok {
		fail("c08: constant %s not found", fileConst)
	}
	emit("/-- GetArchivePathComponents: `case %q` compares component `labelPos` with %s -/", labelsDir, fileConst)
	emit("def c08LabelsDir : List Nat := %s", c08Codes(labelsDir))
	emit("def c08LabelFile : List Nat := %s", c08Codes(fileVal))
	emit("def c08LabelPos : Nat := %d", labelPos)

	// ---- the label-name rule
	var reservedNames []string
	reservedChars, shapeOK := "", false
	if fd := funcDecl(mfiles, "ValidateLabelName"); fd != nil && fd.Body != nil && len(fd.Type.Params.List) == 1 && len(fd.Type.Params.List[0].Names) == 1 {
		param := fd.Type.Params.List[0].Names[0].Name
		shapeOK = true
		if len(fd.Body.List) != 2 {
			shapeOK = false
		} else {
			sw, ok1 := fd.Body.List[0].(*ast.SwitchStmt)
			ret, ok2 := fd.Body.List[1].(*ast.ReturnStmt)
			if !ok1 || !ok2 || sw.Tag != nil || sw.Init != nil || len(ret.Results) != 1 {
				shapeOK = false
			} else {
				if id, ok := ret.Results[0].(*ast.Ident); !ok || id.Name != "nil" {
					shapeOK = false
				}
				var cond func(e ast.Expr) bool
				cond = func(e ast.Expr) bool {
					switch x := e.(type) {
					case *ast.ParenExpr:
						return cond(x.X)
					case *ast.BinaryExpr:
						if x.Op == token.LOR {
							return cond(x.X) && cond(x.Y)
						}
						if x.Op == token.EQL {
							if id, ok := x.X.(*ast.Ident); ok && id.Name == param {
								if s, ok := strLit(x.Y); ok {
									reservedNames = append(reservedNames, s)
									return true
								}
							}
						}
					case *ast.CallExpr:
						if sel, ok := x.Fun.(*ast.SelectorExpr); ok && len(x.Args) == 2 {
							if p, ok := sel.X.(*ast.Ident); ok && p.Name == "strings" && sel.Sel.Name == "ContainsAny" {
								if id, ok := x.Args[0].(*ast.Ident); ok && id.Name == param {
									if s, ok := strLit(x.Args[1]); ok {
										reservedChars += s
										return true
									}
									if c, ok := x.Args[1].(*ast.Ident); ok {
										if s, ok := strs[c.Name]; ok {
											reservedChars += s
											return true
										}
									}
								}
							}
						}
					}
					return false
				}
				for _, st := range sw.Body.List {
					cc := st.(*ast.CaseClause)
					if len(cc.List) == 0 || !c08IsErrReturn(cc.Body) {
						shapeOK = false
						continue
					}
					for _, e := range cc.List {
						if !cond(e) {
							shapeOK = false
						}
					}
				}
			}
		}
		if !shapeOK {
			fail("c08: model.ValidateLabelName left the translatable subset (switch of `name == lit` / strings.ContainsAny(name, chars) cases returning errors, then return nil)")
		}
	}
	sort.Strings(reservedNames)
	rn := make([]string, len(reservedNames))
	for i, s := range reservedNames {
		rn[i] = c08Codes(s)
	}
	emit("/-- model.ValidateLabelName rejects exactly: these whole names, and any name containing one of these characters")
	emit("    (both empty when the function does not exist) -/")
	emit("def c08LabelNameReservedNames : List (List Nat) := [%s]", strings.Join(rn, ", "))
	emit("def c08LabelNameReservedChars : List Nat := %s", c08Codes(reservedChars))

	// ---- does Label.UploadDescriptor validate the name before it writes?
	validates := false
	var stores []string
	seenStore := map[string]bool{}
	noteStores := func(fd *ast.FuncDecl) {
		if fd == nil {
			return
		}
		ast.Inspect(fd, func(n ast.Node) bool {
			if ce, ok := n.(*ast.CallExpr); ok && len(ce.Args) == 0 {
				if sel, ok := ce.Fun.(*ast.SelectorExpr); ok {
					switch sel.Sel.Name {
					case "VMetadata", "Metadata", "Blob", "Wal", "ReadLog":
						if !seenStore[sel.Sel.Name] {
							seenStore[sel.Sel.Name] = true
							stores = append(stores, sel.Sel.Name)
						}
					}
				}
			}
			return true
		})
	}
	if fd := method(cfiles, "Label", "UploadDescriptor"); fd != nil {
		// top-level statements: `err = model.ValidateLabelName(label.Descriptor.Name)` immediately
		// followed by `if err != nil { return err }`, and before any Put/PutCRC
		putSeen := false
		for i, st := range fd.Body.List {
			ast.Inspect(st, func(n ast.Node) bool {
				if ce, ok := n.(*ast.CallExpr); ok {
					if sel, ok := ce.Fun.(*ast.SelectorExpr); ok && (sel.Sel.Name == "Put" || sel.Sel.Name == "PutCRC") {
						putSeen = true
					}
				}
				return true
			})
			as, ok := st.(*ast.AssignStmt)
			if !ok || putSeen || len(as.Rhs) != 1 || len(as.Lhs) != 1 {
				continue
			}
			ce, ok := as.Rhs[0].(*ast.CallExpr)
			if !ok || len(ce.Args) != 1 {
				continue
			}
			sel, ok := ce.Fun.(*ast.SelectorExpr)
			if !ok || sel.Sel.Name != "ValidateLabelName" {
				continue
			}
			if a, ok := ce.Args[0].(*ast.SelectorExpr); !ok || a.Sel.Name != "Name" {
				continue
			}
			lhs, ok := as.Lhs[0].(*ast.Ident)
			if !ok || i+1 >= len(fd.Body.List) {
				continue
			}
			ifs, ok := fd.Body.List[i+1].(*ast.IfStmt)
			if !ok || ifs.Init != nil || ifs.Else != nil {
				continue
			}
			be, ok := ifs.Cond.(*ast.BinaryExpr)
			if !ok || be.Op != token.NEQ {
				continue
			}
			if x, ok := be.X.(*ast.Ident); !ok || x.Name != lhs.Name {
				continue
			}
			if y, ok := be.Y.(*ast.Ident); !ok || y.Name != "nil" {
				continue
			}
			if c08IsErrReturn(ifs.Body.List) {
				validates = true
			}
		}
		noteStores(fd)
	} else {
		fail("c08: (*Label).UploadDescriptor not found")
	}
	emit("/-- (*Label).UploadDescriptor calls model.ValidateLabelName on the descriptor's name and returns its error before any Put -/")
	emit("def c08UploadValidatesName : Bool := %v", validates)
	noteStores(funcDecl(cfiles, "DeleteLabel"))
	noteStores(funcDecl(cfiles, "getLabelStore"))
	sort.Strings(stores)
	emit("/-- the stores touched by UploadDescriptor, DeleteLabel and getLabelStore (download, listing) -/")
	emit("def c08LabelStores : List String := %s", leanStrList(stores))

	// ---- repository names: the unicode classes ValidateRepo accepts
	var classes []string
	if fd := funcDecl(mfiles, "ValidateRepo"); fd != nil {
		ast.Inspect(fd, func(n ast.Node) bool {
			ce, ok := n.(*ast.CallExpr)
			if !ok {
				return true
			}
			sel, ok := ce.Fun.(*ast.SelectorExpr)
			if !ok {
				return true
			}
			if p, ok := sel.X.(*ast.Ident); !ok || p.Name != "unicode" {
				return true
			}
			switch sel.Sel.Name {
			case "IsDigit", "IsLetter":
				classes = append(classes, sel.Sel.Name)
			case "Is":
				if len(ce.Args) == 2 {
					if a, ok := ce.Args[0].(*ast.SelectorExpr); ok {
						classes = append(classes, a.Sel.Name)
						return true
					}
				}
				fail("c08: ValidateRepo: unsupported unicode.Is call")
			default:
				fail("c08: ValidateRepo: unsupported unicode.%s", sel.Sel.Name)
			}
			return true
		})
	} else {
		fail("c08: ValidateRepo not found")
	}
	sort.Strings(classes)
	emit("/-- the character classes model.ValidateRepo accepts in a repository name -/")
	emit("def c08RepoNameClasses : List String := %s", leanStrList(classes))
	emit("")
}
