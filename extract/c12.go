package main

import (
	"go/ast"
	"strings"
)

// ---------------------------------------------------------------------------------------
// C12: the diamond protocol's call-site facts
//   - the overwrite flag `uploadDescriptor` of Diamond and Split hands to writeMetadata,
//     resolved through the constants of pkg/storage (NoOverWrite / OverWrite);
//   - the order of the protocol-relevant calls inside implCommit, Cancel, CreateSplit, implUpload
//     (a call inside a `defer func(){…}()` is reported as "defer:<name>").
// ---------------------------------------------------------------------------------------

func c12BoolConst(files []*ast.File, name string) (bool, bool) {
	_, exprs := constLits(files)
	e, ok := exprs[name]
	if !ok {
		return false, false
	}
	id, ok := e.(*ast.Ident)
	if !ok {
		return false, false
	}
	switch id.Name {
	case "true":
		return true, true
	case "false":
		return false, true
	}
	return false, false
}

// c12OverwriteFlag finds `x.writeMetadata(dest, <flag>, buffer)` in the method and resolves the flag.
func c12OverwriteFlag(core, storage []*ast.File, recv string) bool {
	fd := method(core, recv, "uploadDescriptor")
	if fd == nil {
		fail("c12: method %s.uploadDescriptor not found", recv)
		return false
	}
	found, val := 0, false
	ast.Inspect(fd, func(n ast.Node) bool {
		ce, ok := n.(*ast.CallExpr)
		if !ok {
			return true
		}
		sel, ok := ce.Fun.(*ast.SelectorExpr)
		if !ok || sel.Sel.Name != "writeMetadata" {
			return true
		}
		if len(ce.Args) != 3 {
			fail("c12: %s.uploadDescriptor: writeMetadata has unexpected arity", recv)
			return true
		}
		found++
		switch a := ce.Args[1].(type) {
		case *ast.SelectorExpr:
			pkg, ok := a.X.(*ast.Ident)
			if !ok || pkg.Name != "storage" {
				fail("c12: %s.uploadDescriptor: overwrite flag is not a pkg/storage constant", recv)
				return true
			}
			v, ok := c12BoolConst(storage, a.Sel.Name)
			if !ok {
				fail("c12: cannot resolve storage.%s to a boolean constant", a.Sel.Name)
				return true
			}
			val = v
		case *ast.Ident:
			switch a.Name {
			case "true":
				val = true
			case "false":
				val = false
			default:
				fail("c12: %s.uploadDescriptor: overwrite flag %s is not a constant", recv, a.Name)
			}
		default:
			fail("c12: %s.uploadDescriptor: unsupported overwrite flag expression", recv)
		}
		return true
	})
	if found != 1 {
		fail("c12: %s.uploadDescriptor: expected exactly one writeMetadata call, found %d", recv, found)
	}
	return val
}

// c12CallOrder lists, in source order, the calls inside fd whose name is in `interesting`.
func c12CallOrder(fd *ast.FuncDecl, interesting map[string]bool) []string {
	var out []string
	var walk func(n ast.Node, deferred bool)
	walk = func(n ast.Node, deferred bool) {
		ast.Inspect(n, func(m ast.Node) bool {
			switch x := m.(type) {
			case *ast.DeferStmt:
				if m == n {
					return true
				}
				walk(x.Call, true)
				return false
			case *ast.CallExpr:
				name := ""
				switch f := x.Fun.(type) {
				case *ast.Ident:
					name = f.Name
				case *ast.SelectorExpr:
					name = f.Sel.Name
				}
				if interesting[name] {
					if deferred {
						out = append(out, "defer:"+name)
					} else {
						out = append(out, name)
					}
				}
			}
			return true
		})
	}
	walk(fd.Body, false)
	return out
}

func c12Facts() {
	core := parseDir("pkg/core")
	storage := parseDir("pkg/storage")
	d := c12OverwriteFlag(core, storage, "Diamond")
	s := c12OverwriteFlag(core, storage, "Split")
	emit("/-- `(*Diamond).uploadDescriptor` writes the descriptor with this no-overwrite flag (pkg/core/diamond.go) -/")
	emit("def c12DiamondDescriptorNoOverwrite : Bool := %v", d)
	emit("/-- `(*Split).uploadDescriptor` writes the descriptor with this no-overwrite flag (pkg/core/split.go) -/")
	emit("def c12SplitDescriptorNoOverwrite : Bool := %v", s)
	interesting := map[string]bool{"diamondReady": true, "collectSplits": true, "uploadBundleDescriptor": true,
		"uploadDescriptor": true, "downloadDescriptor": true, "Upload": true}
	order := func(name string, fd *ast.FuncDecl) {
		if fd == nil {
			fail("c12: %s not found", name)
			return
		}
		emit("def c12Calls%s : List String := %s", strings.Title(name), leanStrList(c12CallOrder(fd, interesting)))
	}
	emit("/-- protocol-relevant calls of the four entry points, in source order (`defer:` = inside a deferred closure) -/")
	order("implCommit", method(core, "Diamond", "implCommit"))
	order("cancel", method(core, "Diamond", "Cancel"))
	order("createSplit", funcDecl(core, "CreateSplit"))
	order("implUpload", method(core, "Split", "implUpload"))
	emit("")
}
