package main

import (
	"go/ast"
	"go/token"
)

// C06: call-site facts the atomic-visibility theorems depend on.

// c06PutFlags returns, for every Put / PutCRC call inside fd, the name of its overwrite argument
// (the selector `storage.NoOverWrite` / `storage.OverWrite`).
func c06PutFlags(fd *ast.FuncDecl) []string {
	var flags []string
	if fd == nil {
		return nil
	}
	ast.Inspect(fd, func(n ast.Node) bool {
		ce, ok := n.(*ast.CallExpr)
		if !ok {
			return true
		}
		sel, ok := ce.Fun.(*ast.SelectorExpr)
		if !ok {
			return true
		}
		idx := -1
		switch sel.Sel.Name {
		case "Put":
			idx = 3
		case "PutCRC":
			idx = 3
		}
		if idx < 0 || len(ce.Args) <= idx {
			return true
		}
		if s, ok := ce.Args[idx].(*ast.SelectorExpr); ok {
			flags = append(flags, s.Sel.Name)
		} else {
			flags = append(flags, "?")
		}
		return true
	})
	return flags
}

func c06All(flags []string, want string) bool {
	if len(flags) == 0 {
		return false
	}
	for _, f := range flags {
		if f != want {
			return false
		}
	}
	return true
}

// c06CallPositions returns the positions of calls to the named function or method inside node.
func c06CallPositions(node ast.Node, name string) []token.Pos {
	var out []token.Pos
	ast.Inspect(node, func(n ast.Node) bool {
		ce, ok := n.(*ast.CallExpr)
		if !ok {
			return true
		}
		switch f := ce.Fun.(type) {
		case *ast.Ident:
			if f.Name == name {
				out = append(out, ce.Pos())
			}
		case *ast.SelectorExpr:
			if f.Sel.Name == name {
				out = append(out, ce.Pos())
			}
		}
		return true
	})
	return out
}

func c06Bool(b bool) string {
	if b {
		return "true"
	}
	return "false"
}

func c06Facts() {
	files := parseDir("pkg/core")
	descFlags := c06PutFlags(funcDecl(files, "uploadBundleDescriptor"))
	listFlags := c06PutFlags(funcDecl(files, "uploadBundleEntriesFileList"))
	labelFlags := c06PutFlags(method(files, "Label", "UploadDescriptor"))
	if len(descFlags) == 0 || len(listFlags) == 0 || len(labelFlags) == 0 {
		fail("C06: metadata upload functions not found or without Put calls (%v %v %v)", descFlags, listFlags, labelFlags)
	}
	// uploadBundle: every file-list upload precedes the descriptor upload, which is the last upload call
	after := false
	if ub := funcDecl(files, "uploadBundle"); ub != nil {
		d := c06CallPositions(ub, "uploadBundleDescriptor")
		l := c06CallPositions(ub, "uploadBundleEntriesFileList")
		after = len(d) == 1 && len(l) >= 1
		for _, p := range l {
			if p >= d[0] {
				after = false
			}
		}
		// nothing is put to a store after the descriptor
		for _, name := range []string{"Put", "PutCRC", "uploadBundleFiles"} {
			for _, p := range c06CallPositions(ub, name) {
				if len(d) == 1 && p > d[0] {
					after = false
				}
			}
		}
	} else {
		fail("C06: uploadBundle not found")
	}
	// Diamond.implCommit: bundle.yaml is written in the body, after the index upload; the final
	// diamond state only in the deferred function (which runs after the body returned)
	before := false
	if ic := method(files, "Diamond", "implCommit"); ic != nil {
		var deferred []ast.Node
		ast.Inspect(ic, func(n ast.Node) bool {
			if ds, ok := n.(*ast.DeferStmt); ok {
				deferred = append(deferred, ds)
			}
			return true
		})
		inDefer := func(p token.Pos) bool {
			for _, d := range deferred {
				if d.Pos() <= p && p < d.End() {
					return true
				}
			}
			return false
		}
		desc := c06CallPositions(ic, "uploadBundleDescriptor")
		done := c06CallPositions(ic, "uploadDescriptor")
		idx := c06CallPositions(ic, "Upload")
		before = len(desc) == 1 && len(done) >= 1 && !inDefer(desc[0]) && len(idx) >= 1
		for _, p := range done {
			if !inDefer(p) {
				before = false
			}
		}
		for _, p := range idx {
			if len(desc) == 1 && p >= desc[0] {
				before = false
			}
		}
	} else {
		fail("C06: Diamond.implCommit not found")
	}
	emit("/-- C06: `uploadBundleDescriptor` writes create-if-absent -/")
	emit("def c06BundleDescriptorNoOverwrite : Bool := %s", c06Bool(c06All(descFlags, "NoOverWrite")))
	emit("/-- C06: `uploadBundleEntriesFileList` writes create-if-absent -/")
	emit("def c06FileListNoOverwrite : Bool := %s", c06Bool(c06All(listFlags, "NoOverWrite")))
	emit("/-- C06: `Label.UploadDescriptor` overwrites (labels are mutable) -/")
	emit("def c06LabelOverwrites : Bool := %s", c06Bool(c06All(labelFlags, "OverWrite")))
	emit("/-- C06: in `uploadBundle` the descriptor upload follows every file-list upload and nothing is stored after it -/")
	emit("def c06DescriptorAfterFileLists : Bool := %s", c06Bool(after))
	emit("/-- C06: in `Diamond.implCommit` bundle.yaml is written after the index upload, the final diamond state only in the deferred function -/")
	emit("def c06CommitBundleBeforeDone : Bool := %s", c06Bool(before))
	emit("")
}
