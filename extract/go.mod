module extract

go 1.19
