package main

// C05 facts: the consumable-store path conventions (regexps and path builders of pkg/model/bundle.go),
// the field compared by diffBundles, the action table of the update switch in downloadBundleEntries,
// the overwrite flags of the store writes, and the presence of the bundle-id-scan repair.

import (
	"fmt"
	"go/ast"
	"go/token"
	"strings"
)

// c05Str evaluates a string expression built from literals, package-level string constants and `+`.
func c05Str(e ast.Expr, strs map[string]string) (string, bool) {
	switch x := e.(type) {
	case *ast.BasicLit:
		return strLit(x)
	case *ast.Ident:
		v, ok := strs[x.Name]
		return v, ok
	case *ast.ParenExpr:
		return c05Str(x.X, strs)
	case *ast.BinaryExpr:
		if x.Op != token.ADD {
			return "", false
		}
		a, ok1 := c05Str(x.X, strs)
		b, ok2 := c05Str(x.Y, strs)
		return a + b, ok1 && ok2
	}
	return "", false
}

// c05Render renders an expression as source-like text for identifiers and selectors.
func c05Render(e ast.Expr) string {
	switch x := e.(type) {
	case *ast.Ident:
		return x.Name
	case *ast.SelectorExpr:
		return c05Render(x.X) + "." + x.Sel.Name
	case *ast.BasicLit:
		return x.Value
	}
	return "?"
}

func c05Facts() {
	mfiles := parseDir("pkg/model")
	strs, _ := constLits(mfiles)

	// ---- regexps compiled in init()
	res := map[string]string{}
	for _, f := range mfiles {
		for _, d := range f.Decls {
			fd, ok := d.(*ast.FuncDecl)
			if !ok || fd.Name.Name != "init" || fd.Recv != nil || fd.Body == nil {
				continue
			}
			for _, st := range fd.Body.List {
				as, ok := st.(*ast.AssignStmt)
				if !ok || len(as.Lhs) != 1 || len(as.Rhs) != 1 {
					continue
				}
				id, ok := as.Lhs[0].(*ast.Ident)
				if !ok {
					continue
				}
				ce, ok := as.Rhs[0].(*ast.CallExpr)
				if !ok || c05Render(ce.Fun) != "regexp.MustCompile" || len(ce.Args) != 1 {
					continue
				}
				if s, ok := c05Str(ce.Args[0], strs); ok {
					res[id.Name] = s
				} else if id.Name == "metaRe" || id.Name == "flRe" || id.Name == "genFileRe" {
					fail("c05: cannot evaluate the pattern of %s", id.Name)
				}
			}
		}
	}
	for _, n := range []string{"metaRe", "flRe", "genFileRe"} {
		if _, ok := res[n]; !ok {
			fail("c05: regexp %s not found in pkg/model init()", n)
		}
	}

	// ---- path builders: the operands of the fmt.Sprint that builds the path
	sprintParts := func(fn string) []string {
		fd := funcDecl(mfiles, fn)
		if fd == nil || fd.Body == nil {
			fail("c05: %s not found", fn)
			return nil
		}
		var parts []string
		found := false
		ast.Inspect(fd.Body, func(n ast.Node) bool {
			ce, ok := n.(*ast.CallExpr)
			if !ok || found || c05Render(ce.Fun) != "fmt.Sprint" {
				return true
			}
			found = true
			for _, a := range ce.Args {
				if s, ok := c05Str(a, strs); ok {
					parts = append(parts, s)
				} else if id, ok := a.(*ast.Ident); ok {
					parts = append(parts, "<"+id.Name+">")
				} else {
					fail("c05: %s: unsupported fmt.Sprint operand", fn)
				}
			}
			return false
		})
		if !found {
			fail("c05: %s: no fmt.Sprint", fn)
		}
		return parts
	}
	descParts := sprintParts("GetConsumablePathToBundle")
	listParts := sprintParts("GetConsumablePathToBundleFileList")

	// ---- diffBundles: map key field and compared field
	cfiles := parseDir("pkg/core")
	var keyFields, cmpFields []string
	if fd := funcDecl(cfiles, "diffBundles"); fd != nil {
		ast.Inspect(fd.Body, func(n ast.Node) bool {
			switch x := n.(type) {
			case *ast.AssignStmt:
				if len(x.Lhs) == 1 {
					if ix, ok := x.Lhs[0].(*ast.IndexExpr); ok {
						if sel, ok := ix.Index.(*ast.SelectorExpr); ok {
							keyFields = append(keyFields, sel.Sel.Name)
						}
					}
				}
			case *ast.BinaryExpr:
				if x.Op == token.NEQ || x.Op == token.EQL {
					a, ok1 := x.X.(*ast.SelectorExpr)
					b, ok2 := x.Y.(*ast.SelectorExpr)
					if ok1 && ok2 {
						op := "!="
						if x.Op == token.EQL {
							op = "=="
						}
						cmpFields = append(cmpFields, a.Sel.Name+op+b.Sel.Name)
					}
				}
			}
			return true
		})
	} else {
		fail("c05: diffBundles not found")
	}

	// ---- the update switch of downloadBundleEntries
	type action struct{ typ, fn, entry, dest string }
	var actions []action
	if fd := funcDecl(cfiles, "downloadBundleEntries"); fd != nil {
		ast.Inspect(fd.Body, func(n ast.Node) bool {
			sw, ok := n.(*ast.SwitchStmt)
			if !ok || c05Render(sw.Tag) != "de.Type" {
				return true
			}
			for _, st := range sw.Body.List {
				cc := st.(*ast.CaseClause)
				if len(cc.List) != 1 {
					continue // default
				}
				a := action{typ: c05Render(cc.List[0])}
				n := 0
				for _, s := range cc.Body {
					gs, ok := s.(*ast.GoStmt)
					if !ok {
						continue
					}
					n++
					a.fn = c05Render(gs.Call.Fun)
					if len(gs.Call.Args) >= 3 {
						a.entry = c05Render(gs.Call.Args[1])
						a.dest = c05Render(gs.Call.Args[2])
					}
				}
				if n != 1 {
					fail("c05: update switch: case %s has %d go statements", a.typ, n)
				}
				actions = append(actions, a)
			}
			return false
		})
	} else {
		fail("c05: downloadBundleEntries not found")
	}
	if len(actions) == 0 {
		fail("c05: update switch on de.Type not found")
	}

	// ---- which flag the entry workers pass to downloadBundleEntrySyncMaybeOverwrite
	var flags []string
	for _, fn := range []string{"downloadBundleEntrySync", "downloadBundleEntryOverwrite", "downloadBundleEntry"} {
		fd := funcDecl(cfiles, fn)
		if fd == nil {
			fail("c05: %s not found", fn)
			continue
		}
		ast.Inspect(fd.Body, func(n ast.Node) bool {
			ce, ok := n.(*ast.CallExpr)
			if !ok {
				return true
			}
			switch c05Render(ce.Fun) {
			case "downloadBundleEntrySyncMaybeOverwrite":
				flags = append(flags, fn+":overwrite="+c05Render(ce.Args[len(ce.Args)-1]))
			case "downloadBundleEntrySync":
				flags = append(flags, fn+":downloadBundleEntrySync")
			}
			return true
		})
	}

	// ---- store calls of downloadBundleEntrySyncMaybeOverwrite, in source order
	var storeCalls []string
	if fd := funcDecl(cfiles, "downloadBundleEntrySyncMaybeOverwrite"); fd != nil {
		var walk func(n ast.Node, guard string)
		walk = func(n ast.Node, guard string) {
			ast.Inspect(n, func(m ast.Node) bool {
				switch x := m.(type) {
				case *ast.IfStmt:
					if id, ok := x.Cond.(*ast.Ident); ok && m != n {
						walk(x.Body, id.Name)
						return false
					}
				case *ast.CallExpr:
					f := c05Render(x.Fun)
					if strings.HasPrefix(f, "bundle.ConsumableStore.") {
						s := strings.TrimPrefix(f, "bundle.ConsumableStore.")
						if s == "Put" && len(x.Args) == 4 {
							s += "(" + c05Render(x.Args[3]) + ")"
						}
						if guard != "" {
							s = "if " + guard + ": " + s
						}
						storeCalls = append(storeCalls, s)
					}
				}
				return true
			})
		}
		walk(fd.Body, "")
	} else {
		fail("c05: downloadBundleEntrySyncMaybeOverwrite not found")
	}

	// ---- ReadTee's Put flag
	teeFlag := ""
	if fd := funcDecl(parseDir("pkg/storage"), "ReadTee"); fd != nil {
		ast.Inspect(fd.Body, func(n ast.Node) bool {
			ce, ok := n.(*ast.CallExpr)
			if ok && c05Render(ce.Fun) == "dStore.Put" && len(ce.Args) == 4 {
				teeFlag = c05Render(ce.Args[3])
			}
			return true
		})
	}
	if teeFlag == "" {
		fail("c05: storage.ReadTee: Put call not found")
	}

	// ---- the bundle id scan skips data files (fix: …)
	skips := false
	if fd := funcDecl(cfiles, "getBundleIDFromPath"); fd != nil {
		ast.Inspect(fd.Body, func(n ast.Node) bool {
			is, ok := n.(*ast.IfStmt)
			if !ok || is.Init == nil {
				return true
			}
			as, ok := is.Init.(*ast.AssignStmt)
			if !ok || len(as.Rhs) != 1 {
				return true
			}
			ta, ok := as.Rhs[0].(*ast.TypeAssertExpr)
			if !ok || c05Render(ta.X) != "err" || c05Render(ta.Type) != "model.ConsumableStorePathMetadataErr" {
				return true
			}
			for _, s := range is.Body.List {
				if rs, ok := s.(*ast.ReturnStmt); ok && len(rs.Results) == 2 &&
					c05Render(rs.Results[0]) == `""` && c05Render(rs.Results[1]) == "nil" {
					skips = true
				}
			}
			return true
		})
	} else {
		fail("c05: getBundleIDFromPath not found")
	}

	emit("/-- `metaRe`, `flRe`, `genFileRe` of pkg/model/bundle.go (consumable-store metadata paths) -/")
	emit("def c05MetaRe : String := %s", leanStr(res["metaRe"]))
	emit("def c05FileListRe : String := %s", leanStr(res["flRe"]))
	emit("def c05GeneratedFileRe : String := %s", leanStr(res["genFileRe"]))
	emit("/-- operands of the `fmt.Sprint` in `GetConsumablePathToBundle` / `GetConsumablePathToBundleFileList` -/")
	emit("def c05ConsumableBundlePath : List String := %s", leanStrList(descParts))
	emit("def c05ConsumableFileListPath : List String := %s", leanStrList(listParts))
	emit("/-- `diffBundles`: field the two maps are keyed by, and the comparisons between entries -/")
	emit("def c05DiffKeyFields : List String := %s", leanStrList(keyFields))
	emit("def c05DiffComparisons : List String := %s", leanStrList(cmpFields))
	var as []string
	for _, a := range actions {
		as = append(as, fmt.Sprintf("%s:%s:%s:%s", a.typ, a.fn, a.entry, a.dest))
	}
	emit("/-- `switch de.Type` of `downloadBundleEntries`: case : worker : bundle entry : bundle written to -/")
	emit("def c05UpdateActions : List String := %s", leanStrList(as))
	emit("def c05EntryWorkers : List String := %s", leanStrList(flags))
	emit("/-- store calls of `downloadBundleEntrySyncMaybeOverwrite`, in source order -/")
	emit("def c05EntryStoreCalls : List String := %s", leanStrList(storeCalls))
	emit("def c05ReadTeePutFlag : String := %s", leanStr(teeFlag))
	emit("/-- `getBundleIDFromPath` returns (\"\", nil) for a path that is not a metadata path -/")
	emit("def c05IdScanSkipsDataFiles : Bool := %v", skips)
	emit("")
}
