package main

import (
	"go/ast"
	"go/token"
)

// ---------------------------------------------------------------------------------------
// C18: the inode generator of the mutable mount and two call-site facts of fs_rw_ops.go
// ---------------------------------------------------------------------------------------

// c18HighestWrites lists, in source order, how a method writes `<recv>.highestInode`.
func c18HighestWrites(fd *ast.FuncDecl) []string {
	var ws []string
	isHighest := func(e ast.Expr) bool {
		se, ok := e.(*ast.SelectorExpr)
		return ok && se.Sel.Name == "highestInode"
	}
	ast.Inspect(fd, func(n ast.Node) bool {
		switch x := n.(type) {
		case *ast.IncDecStmt:
			if isHighest(x.X) {
				if x.Tok == token.INC {
					ws = append(ws, "inc")
				} else {
					ws = append(ws, "dec")
				}
			}
		case *ast.AssignStmt:
			for _, l := range x.Lhs {
				if isHighest(l) {
					ws = append(ws, "assign")
				}
			}
		}
		return true
	})
	return ws
}

func c18Facts() {
	files := parseDir("pkg/fuse")
	_, exprs := constLits(files)
	first, ok := evalInt(exprs["firstINode"], exprs, 0)
	if e, has := exprs["firstINode"]; !has || e == nil || !ok {
		fail("fuse: cannot evaluate firstINode")
	}
	alloc := method(files, "iNodeGenerator", "allocINode")
	free := method(files, "iNodeGenerator", "freeINode")
	if alloc == nil || free == nil {
		fail("fuse: allocINode / freeINode not found")
		return
	}
	// explicit (non-deferred) fs.lock.Unlock() calls in MkDir
	unlocks := -1
	if md := method(files, "fsMutable", "MkDir"); md != nil {
		unlocks = 0
		ast.Inspect(md, func(n ast.Node) bool {
			if _, isDefer := n.(*ast.DeferStmt); isDefer {
				return false
			}
			if ce, ok := n.(*ast.CallExpr); ok {
				if se, ok := ce.Fun.(*ast.SelectorExpr); ok && se.Sel.Name == "Unlock" {
					if in, ok := se.X.(*ast.SelectorExpr); ok && in.Sel.Name == "lock" {
						unlocks++
					}
				}
			}
			return true
		})
	} else {
		fail("fuse: fsMutable.MkDir not found")
	}
	// shouldDelete: every `return true`-equivalent path must test both refCount == 0 and Nlink == 0.
	// Recognised shape: a single `return a && b` whose conjuncts are exactly those two tests.
	needsUnlinked := false
	if sd := funcDecl(files, "shouldDelete"); sd != nil && sd.Body != nil {
		var rets []*ast.ReturnStmt
		ast.Inspect(sd, func(n ast.Node) bool {
			if r, ok := n.(*ast.ReturnStmt); ok {
				rets = append(rets, r)
			}
			return true
		})
		if len(rets) == 1 && len(rets[0].Results) == 1 {
			seen := map[string]bool{}
			var walk func(e ast.Expr) bool
			walk = func(e ast.Expr) bool {
				be, ok := e.(*ast.BinaryExpr)
				if !ok {
					return false
				}
				if be.Op == token.LAND {
					return walk(be.X) && walk(be.Y)
				}
				if be.Op == token.EQL {
					if se, ok := be.X.(*ast.SelectorExpr); ok {
						if bl, ok := be.Y.(*ast.BasicLit); ok && bl.Value == "0" {
							seen[se.Sel.Name] = true
							return true
						}
					}
				}
				return false
			}
			if walk(rets[0].Results[0]) && seen["refCount"] && seen["Nlink"] {
				needsUnlinked = true
			}
		}
	} else {
		fail("fuse: shouldDelete not found")
	}
	emit("/-- `firstINode` of pkg/fuse/fs.go: the inode generator starts above it -/")
	emit("def fuseRwFirstINode : Nat := %d", first)
	emit("/-- how allocINode / freeINode write `highestInode`, in source order -/")
	emit("def fuseAllocHighestWrites : List String := %s", leanStrList(c18NonNil(c18HighestWrites(alloc))))
	emit("def fuseFreeHighestWrites : List String := %s", leanStrList(c18NonNil(c18HighestWrites(free))))
	emit("/-- explicit (non-deferred) `fs.lock.Unlock()` calls in fsMutable.MkDir (the lock is released by a defer) -/")
	emit("def fuseMkDirExplicitUnlocks : Nat := %d", unlocks)
	emit("/-- shouldDelete is `refCount == 0 && Nlink == 0` for every kind of node -/")
	emit("def fuseShouldDeleteNeedsUnlinked : Bool := %v", needsUnlinked)
	emit("")
}

func c18NonNil(xs []string) []string {
	if xs == nil {
		return []string{}
	}
	return xs
}
