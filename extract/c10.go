package main

import (
	"go/ast"
	"go/token"
	"strconv"
)

// ---------------------------------------------------------------------------------------
// C10: call-site facts of RepoSquash / DeleteBundle
// ---------------------------------------------------------------------------------------

// c10CallName returns the name of the function or method called.
func c10CallName(ce *ast.CallExpr) string {
	switch f := ce.Fun.(type) {
	case *ast.Ident:
		return f.Name
	case *ast.SelectorExpr:
		return f.Sel.Name
	}
	return ""
}

// c10Mentions tells whether an identifier or selector with one of the names occurs below n.
func c10Mentions(n ast.Node, names ...string) bool {
	found := false
	ast.Inspect(n, func(x ast.Node) bool {
		switch y := x.(type) {
		case *ast.Ident:
			for _, nm := range names {
				if y.Name == nm {
					found = true
				}
			}
		}
		return !found
	})
	return found
}

func c10Facts() {
	files := parseDir("pkg/core")

	// (1) is WithMinimalBundle(true) appended to the options BEFORE the first bundle listing of RepoSquash?
	sq := funcDecl(files, "RepoSquash")
	if sq == nil {
		fail("C10: RepoSquash not found")
		return
	}
	firstList, minimalAt := token.NoPos, token.NoPos
	ast.Inspect(sq.Body, func(n ast.Node) bool {
		ce, ok := n.(*ast.CallExpr)
		if !ok {
			return true
		}
		switch c10CallName(ce) {
		case "ListBundles", "ListBundlesApply":
			if firstList == token.NoPos || ce.Pos() < firstList {
				firstList = ce.Pos()
			}
		case "WithMinimalBundle":
			if len(ce.Args) != 1 {
				fail("C10: WithMinimalBundle: unexpected arity")
				return true
			}
			if id, ok := ce.Args[0].(*ast.Ident); !ok || id.Name != "true" {
				fail("C10: WithMinimalBundle: argument is not the literal true at %s", fset.Position(ce.Pos()))
				return true
			}
			if minimalAt == token.NoPos || ce.Pos() < minimalAt {
				minimalAt = ce.Pos()
			}
		}
		return true
	})
	if firstList == token.NoPos {
		fail("C10: RepoSquash does not list bundles")
	}
	byKey := minimalAt != token.NoPos && minimalAt < firstList
	// the listing helpers must skip ids without descriptor unless minimal: getBundleAsync continues on ErrNotExists
	if gb := funcDecl(files, "getBundleAsync"); gb == nil || !c10Mentions(gb, "ErrNotExists") {
		fail("C10: getBundleAsync no longer skips ids whose descriptor does not exist")
	}
	emit("/-- RepoSquash: is the FIRST bundle listing done by key only (`WithMinimalBundle(true)` appended before it)? -/")
	emit("def squashFirstListingByKeyOnly : Bool := %v", byKey)

	// (2) default of retainNLatest
	dflt := int64(-1)
	if ds := funcDecl(files, "defaultSettings"); ds != nil {
		ast.Inspect(ds, func(n ast.Node) bool {
			kv, ok := n.(*ast.KeyValueExpr)
			if !ok {
				return true
			}
			if id, ok := kv.Key.(*ast.Ident); ok && id.Name == "retainNLatest" {
				if bl, ok := kv.Value.(*ast.BasicLit); ok && bl.Kind == token.INT {
					v, err := strconv.ParseInt(bl.Value, 0, 64)
					if err == nil {
						dflt = v
					}
				}
			}
			return true
		})
	}
	if dflt < 0 {
		fail("C10: defaultSettings: retainNLatest literal not found")
	}
	emit("/-- `defaultSettings().retainNLatest` (WithRetainNLatest ignores values <= 0) -/")
	emit("def squashDefaultRetain : Nat := %d", dflt)

	// (3) the delete-until-error loop of DeleteBundle: does it test the presence of the file first?
	db := funcDecl(files, "DeleteBundle")
	if db == nil {
		fail("C10: DeleteBundle not found")
		return
	}
	loops, guarded := 0, 0
	ast.Inspect(db.Body, func(n ast.Node) bool {
		fs, ok := n.(*ast.ForStmt)
		if !ok {
			return true
		}
		// the unbounded loop: its condition does not compare the counter with indexFiles
		if fs.Cond != nil && c10Mentions(fs.Cond, "indexFiles") {
			return true
		}
		loops++
		hasCall, breaks := false, false
		ast.Inspect(fs.Body, func(m ast.Node) bool {
			switch y := m.(type) {
			case *ast.CallExpr:
				if c10CallName(y) == "Has" {
					hasCall = true
				}
			case *ast.BranchStmt:
				if y.Tok == token.BREAK {
					breaks = true
				}
			}
			return true
		})
		if hasCall && breaks {
			guarded++
		}
		return true
	})
	if loops != 1 {
		fail("C10: DeleteBundle: expected exactly one unbounded delete loop, found %d", loops)
	}
	emit("/-- DeleteBundle: the loop used when the descriptor gives no file count stops at the first missing file (`store.Has`) -/")
	emit("def deleteLoopChecksPresence : Bool := %v", loops == 1 && guarded == 1)

	// (4) squash and the deletions never touch the blob store
	touches := false
	for _, name := range []string{"RepoSquash", "DeleteBundle", "DeleteLabel"} {
		fd := funcDecl(files, name)
		if fd == nil {
			fail("C10: %s not found", name)
			continue
		}
		if c10Mentions(fd, "getBlobStore", "BlobStore", "Blob") {
			touches = true
		}
	}
	emit("/-- RepoSquash / DeleteBundle / DeleteLabel mention the blob store -/")
	emit("def squashTouchesBlobStore : Bool := %v", touches)
	emit("")
}
