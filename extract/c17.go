package main

import (
	"go/ast"
	"go/token"
)

// C17: constants of the read-only FUSE file system (pkg/fuse) the Lean model FuseRO depends on:
// the inode counter's start, the link counts populateFSAddNodes uses to tell directories from
// files, the nominal size of directories, and the start value / increment shape of the inode
// generator `next` in WithNodesFromEntry (pre-increment: the first inode handed out is firstINode+1).
func fuseROFacts() {
	files := parseDir("pkg/fuse")
	_, exprs := constLits(files)
	need := func(name string) int64 {
		e, ok := exprs[name]
		if !ok {
			fail("pkg/fuse: constant %s not found", name)
			return 0
		}
		v, ok := evalInt(e, exprs, 0)
		if !ok {
			fail("pkg/fuse: constant %s is not an integer constant expression", name)
		}
		return v
	}
	first := need("firstINode")
	dirLinks := need("dirLinkCount")
	fileLinks := need("fileLinkCount")

	// newBundleEntry: the Size literal of synthesised directory entries
	dirSize := int64(-1)
	if fd := funcDecl(files, "newBundleEntry"); fd != nil {
		ast.Inspect(fd, func(n ast.Node) bool {
			kv, ok := n.(*ast.KeyValueExpr)
			if !ok {
				return true
			}
			if id, ok := kv.Key.(*ast.Ident); ok && id.Name == "Size" {
				if v, ok := evalInt(kv.Value, exprs, 0); ok {
					dirSize = v
				} else {
					fail("newBundleEntry: Size is not an integer constant")
				}
			}
			return true
		})
	} else {
		fail("pkg/fuse: newBundleEntry not found")
	}
	if dirSize < 0 {
		fail("newBundleEntry: no Size field")
	}

	// populateFSAddBundleEntries: `inode := firstINode`
	startsAtFirst := false
	if fd := funcDecl(files, "populateFSAddBundleEntries"); fd != nil {
		ast.Inspect(fd, func(n ast.Node) bool {
			as, ok := n.(*ast.AssignStmt)
			if !ok || as.Tok != token.DEFINE || len(as.Lhs) != 1 || len(as.Rhs) != 1 {
				return true
			}
			l, ok1 := as.Lhs[0].(*ast.Ident)
			r, ok2 := as.Rhs[0].(*ast.Ident)
			if ok1 && ok2 && l.Name == "inode" && r.Name == "firstINode" {
				startsAtFirst = true
			}
			return true
		})
	} else {
		fail("pkg/fuse: populateFSAddBundleEntries not found")
	}
	if !startsAtFirst {
		fail("populateFSAddBundleEntries: the inode counter no longer starts with `inode := firstINode`")
	}

	// WithNodesFromEntry: next := func(i *InodeID) InodeID { *i++; return *i }
	preIncrement := false
	if fd := method(files, "populate", "WithNodesFromEntry"); fd != nil {
		ast.Inspect(fd, func(n ast.Node) bool {
			as, ok := n.(*ast.AssignStmt)
			if !ok || len(as.Lhs) != 1 || len(as.Rhs) != 1 {
				return true
			}
			l, ok := as.Lhs[0].(*ast.Ident)
			fl, ok2 := as.Rhs[0].(*ast.FuncLit)
			if !ok || !ok2 || l.Name != "next" || len(fl.Body.List) != 2 {
				return true
			}
			inc, ok := fl.Body.List[0].(*ast.IncDecStmt)
			ret, ok2 := fl.Body.List[1].(*ast.ReturnStmt)
			if ok && ok2 && inc.Tok == token.INC && len(ret.Results) == 1 {
				if _, ok := inc.X.(*ast.StarExpr); ok {
					if _, ok := ret.Results[0].(*ast.StarExpr); ok {
						preIncrement = true
					}
				}
			}
			return true
		})
	} else {
		fail("pkg/fuse: (*populate).WithNodesFromEntry not found")
	}
	if !preIncrement {
		fail("WithNodesFromEntry: the inode generator is no longer `*i++; return *i`")
	}

	emit("/-- `firstINode` (pkg/fuse/fs.go): the read-only inode counter starts here; `next` pre-increments -/")
	emit("def fuseFirstINode : Nat := %d", first)
	emit("/-- `dirLinkCount` / `fileLinkCount`: populateFSAddNodes files an entry as a directory iff Nlink = dirLinkCount -/")
	emit("def fuseDirLinkCount : Nat := %d", dirLinks)
	emit("def fuseFileLinkCount : Nat := %d", fileLinks)
	emit("/-- Size of the directory entries synthesised by `newBundleEntry` -/")
	emit("def fuseRoDirSize : Nat := %d", dirSize)
	emit("")
}
