package main

import (
	"go/ast"
	"go/token"
	"sort"
)

// C16: what the localfs model takes from pkg/storage/localfs/store.go —
//   - the open(2) flags of Put and the flag added for a create-if-absent Put,
//   - Delete treating "does not exist" as success,
//   - the library calls of KeysPrefix (sorted output, start-key paging, no path.Clean of the prefix).
func c16Facts() {
	files := parseDir("pkg/storage/localfs")
	sel := func(e ast.Expr) (string, bool) { // pkg.Name
		se, ok := e.(*ast.SelectorExpr)
		if !ok {
			return "", false
		}
		id, ok := se.X.(*ast.Ident)
		if !ok {
			return "", false
		}
		return id.Name + "." + se.Sel.Name, true
	}
	var orFlags func(e ast.Expr) ([]string, bool)
	orFlags = func(e ast.Expr) ([]string, bool) {
		switch x := e.(type) {
		case *ast.ParenExpr:
			return orFlags(x.X)
		case *ast.BinaryExpr:
			if x.Op != token.OR {
				return nil, false
			}
			a, ok1 := orFlags(x.X)
			b, ok2 := orFlags(x.Y)
			return append(a, b...), ok1 && ok2
		case *ast.SelectorExpr:
			s, ok := sel(x)
			if !ok || len(s) < 4 || s[:3] != "os." {
				return nil, false
			}
			return []string{s[3:]}, true
		}
		return nil, false
	}

	put := method(files, "localFS", "Put")
	if put == nil || put.Type.Params == nil || len(put.Type.Params.List) != 4 || len(put.Type.Params.List[3].Names) != 1 {
		fail("localfs: Put(ctx, key, source, exclusive) not found")
		return
	}
	exclName := put.Type.Params.List[3].Names[0].Name
	var base, excl []string
	nFlagAssign, nOpen := 0, 0
	ast.Inspect(put, func(n ast.Node) bool {
		switch x := n.(type) {
		case *ast.AssignStmt:
			if len(x.Lhs) == 1 && len(x.Rhs) == 1 {
				if id, ok := x.Lhs[0].(*ast.Ident); ok && id.Name == "flag" {
					nFlagAssign++
					if x.Tok != token.DEFINE {
						fail("localfs Put: `flag` is assigned outside its definition and the exclusive branch at %s", fset.Position(x.Pos()))
					}
					fs, ok := orFlags(x.Rhs[0])
					if !ok {
						fail("localfs Put: open flags are not an or of os.O_* constants")
					}
					base = fs
				}
			}
		case *ast.IfStmt:
			if id, ok := x.Cond.(*ast.Ident); ok && id.Name == exclName && x.Init == nil && x.Else == nil {
				for _, st := range x.Body.List {
					as, ok := st.(*ast.AssignStmt)
					if !ok || as.Tok != token.OR_ASSIGN || len(as.Lhs) != 1 || len(as.Rhs) != 1 {
						fail("localfs Put: unexpected statement in the exclusive branch")
						continue
					}
					if id, ok := as.Lhs[0].(*ast.Ident); !ok || id.Name != "flag" {
						fail("localfs Put: the exclusive branch does not update `flag`")
						continue
					}
					fs, ok := orFlags(as.Rhs[0])
					if !ok {
						fail("localfs Put: exclusive flags are not os.O_* constants")
					}
					excl = append(excl, fs...)
				}
				return false // do not count the |= as an assignment above
			}
		case *ast.CallExpr:
			if se, ok := x.Fun.(*ast.SelectorExpr); ok && se.Sel.Name == "OpenFile" {
				nOpen++
				if len(x.Args) != 3 {
					fail("localfs Put: OpenFile arity")
				} else if id, ok := x.Args[1].(*ast.Ident); !ok || id.Name != "flag" {
					fail("localfs Put: OpenFile is not called with `flag`")
				}
			}
		}
		return true
	})
	if nFlagAssign != 1 || nOpen == 0 {
		fail("localfs Put: expected one definition of `flag` and at least one OpenFile(key, flag, …), got %d / %d", nFlagAssign, nOpen)
	}
	emit("/-- open(2) flags of every `localfs.Put` -/")
	emit("def localfsPutFlags : List String := %s", leanStrList(base))
	emit("/-- flags added when the `exclusive` (no-overwrite) argument is true -/")
	emit("def localfsPutExclusiveFlags : List String := %s", leanStrList(excl))

	// Delete: `err != nil && !os.IsNotExist(err)` is the only failure
	ignores := false
	if del := method(files, "localFS", "Delete"); del != nil {
		ast.Inspect(del, func(n ast.Node) bool {
			if ue, ok := n.(*ast.UnaryExpr); ok && ue.Op == token.NOT {
				if ce, ok := ue.X.(*ast.CallExpr); ok {
					if s, ok := sel(ce.Fun); ok && s == "os.IsNotExist" {
						ignores = true
					}
				}
			}
			return true
		})
	} else {
		fail("localfs: Delete not found")
	}
	b := "false"
	if ignores {
		b = "true"
	}
	// the retried operations of Put: every `operation := func() error {…}` closure must call the
	// rewind helper before it (re)opens the record (C16_put_retry_exact is about that order)
	var rewinds []string
	ast.Inspect(put.Body, func(n ast.Node) bool {
		as, ok := n.(*ast.AssignStmt)
		if !ok || len(as.Lhs) != 1 || len(as.Rhs) != 1 {
			return true
		}
		id, ok := as.Lhs[0].(*ast.Ident)
		fl, ok2 := as.Rhs[0].(*ast.FuncLit)
		if !ok || !ok2 || id.Name != "operation" {
			return true
		}
		first := ""
		ast.Inspect(fl.Body, func(m ast.Node) bool {
			if first != "" {
				return false
			}
			if ce, ok := m.(*ast.CallExpr); ok {
				switch f := ce.Fun.(type) {
				case *ast.Ident:
					first = f.Name
				case *ast.SelectorExpr:
					first = f.Sel.Name
				}
				return false
			}
			return true
		})
		rewinds = append(rewinds, first)
		return true
	})
	emit("/-- first call made by each retried `operation` closure of `localfs.Put` -/")
	emit("def localfsPutOperationFirstCalls : List String := %s", leanStrList(rewinds))
	emit("/-- `localfs.Delete` treats a missing file as success -/")
	emit("def localfsDeleteIgnoresNotExist : Bool := %s", b)

	// KeysPrefix: package-level functions it calls
	calls := map[string]bool{}
	if kp := method(files, "localFS", "KeysPrefix"); kp != nil {
		ast.Inspect(kp, func(n ast.Node) bool {
			if ce, ok := n.(*ast.CallExpr); ok {
				if s, ok := sel(ce.Fun); ok {
					switch s[:len(s)-len(ce.Fun.(*ast.SelectorExpr).Sel.Name)-1] {
					case "sort", "strings", "path", "filepath", "afero":
						calls[s] = true
					}
				}
			}
			return true
		})
	} else {
		fail("localfs: KeysPrefix not found")
	}
	var cs []string
	for c := range calls {
		cs = append(cs, c)
	}
	sort.Strings(cs)
	emit("/-- library functions called by `localfs.KeysPrefix` -/")
	emit("def localfsKeysPrefixCalls : List String := %s", leanStrList(cs))
	emit("")
}
