package main

import (
	"go/ast"
	"go/types"
)

// ---------------------------------------------------------------------------------------
// C11: diamond merge — the hidden folders of deconflicted paths, which split a clobbered or a
// losing version is filed under, what happens to an identical copy, mode → renaming function
// ---------------------------------------------------------------------------------------
func c11Facts() {
	// (1) model.GenerateConflictPath / GenerateCheckpointPath: path.Join(<literal>, splitID, pth)
	mfiles := []*ast.File{parse("pkg/model/diamond.go")}
	dir := func(fn string) string {
		fd := funcDecl(mfiles, fn)
		if fd == nil || fd.Body == nil || len(fd.Body.List) != 1 {
			fail("c11: %s not found or not a single statement", fn)
			return ""
		}
		var params []string
		for _, fl := range fd.Type.Params.List {
			for _, n := range fl.Names {
				params = append(params, n.Name)
			}
		}
		ret, ok := fd.Body.List[0].(*ast.ReturnStmt)
		if !ok || len(ret.Results) != 1 || len(params) != 2 {
			fail("c11: %s: unexpected shape", fn)
			return ""
		}
		ce, ok := ret.Results[0].(*ast.CallExpr)
		if !ok || types.ExprString(ce.Fun) != "path.Join" || len(ce.Args) != 3 {
			fail("c11: %s is not path.Join(dir, split, path)", fn)
			return ""
		}
		lit, ok := strLit(ce.Args[0])
		if !ok || types.ExprString(ce.Args[1]) != params[0] || types.ExprString(ce.Args[2]) != params[1] {
			fail("c11: %s: arguments of path.Join are not (literal, %s, %s)", fn, params[0], params[1])
			return ""
		}
		return lit
	}
	emit("/-- first component of `model.GenerateConflictPath` / `GenerateCheckpointPath` (`path.Join(dir, splitID, pth)`) -/")
	emit("def mergeConflictDir : String := %s", leanStr(dir("GenerateConflictPath")))
	emit("def mergeCheckpointDir : String := %s", leanStr(dir("GenerateCheckpointPath")))

	cfiles := []*ast.File{parse("pkg/core/diamond_commit.go"), parse("pkg/core/diamond.go")}
	ms := method(cfiles, "Diamond", "mergeSplits")
	if ms == nil {
		fail("c11: Diamond.mergeSplits not found")
		return
	}
	// (2) the split argument of every d.deconflicter(...) call of the merge loop, in source order
	var deconf []string
	// (3) the branch taken for an identical copy: nested conditions and calls inside `if file.Hash == existing.Hash`
	var identical []string
	foundIdentical := false
	// (4) the arbitration test
	var arbitration []string
	ast.Inspect(ms, func(n ast.Node) bool {
		switch x := n.(type) {
		case *ast.CallExpr:
			if types.ExprString(x.Fun) == "d.deconflicter" {
				if len(x.Args) != 2 {
					fail("c11: deconflicter: unexpected arity")
					return true
				}
				deconf = append(deconf, types.ExprString(x.Args[0]))
			}
		case *ast.IfStmt:
			c := types.ExprString(x.Cond)
			if c == "file.Hash == existing.Hash" {
				foundIdentical = true
				ast.Inspect(x.Body, func(m ast.Node) bool {
					switch y := m.(type) {
					case *ast.IfStmt:
						identical = append(identical, "if "+types.ExprString(y.Cond))
					case *ast.CallExpr:
						identical = append(identical, types.ExprString(y.Fun))
					case *ast.BranchStmt:
						identical = append(identical, y.Tok.String())
					}
					return true
				})
			}
			if c == "file.Timestamp.After(existing.Timestamp)" || c == "file.Timestamp.Before(existing.Timestamp)" ||
				c == "!file.Timestamp.Before(existing.Timestamp)" || c == "existing.Timestamp.Before(file.Timestamp)" {
				arbitration = append(arbitration, c)
			}
		}
		return true
	})
	if !foundIdentical {
		fail("c11: mergeSplits: the test `file.Hash == existing.Hash` was not found")
	}
	emit("/-- split argument of each `d.deconflicter(…)` call in `mergeSplits`, in source order -/")
	emit("def mergeDeconflictSplitArgs : List String := %s", leanStrList(deconf))
	emit("/-- what `mergeSplits` does inside `if file.Hash == existing.Hash` (conditions, calls, branch statements) -/")
	emit("def mergeIdenticalBranch : List String := %s", leanStrList(identical))
	emit("/-- the time comparisons of `mergeSplits` -/")
	emit("def mergeArbitration : List String := %s", leanStrList(arbitration))

	// (5) NewDiamond: conflict mode → renaming function
	nd := funcDecl(cfiles, "NewDiamond")
	var table []string
	if nd == nil {
		fail("c11: NewDiamond not found")
	} else {
		ast.Inspect(nd, func(n ast.Node) bool {
			sw, ok := n.(*ast.SwitchStmt)
			if !ok || sw.Tag == nil || types.ExprString(sw.Tag) != "diamond.DiamondDescriptor.Mode" {
				return true
			}
			for _, st := range sw.Body.List {
				cc := st.(*ast.CaseClause)
				label := "default"
				if len(cc.List) > 0 {
					label = ""
					for i, e := range cc.List {
						if i > 0 {
							label += ","
						}
						label += types.ExprString(e)
					}
				}
				what := "?"
				for _, s := range cc.Body {
					switch y := s.(type) {
					case *ast.BranchStmt:
						what = y.Tok.String()
					case *ast.AssignStmt:
						if len(y.Lhs) == 1 && len(y.Rhs) == 1 && types.ExprString(y.Lhs[0]) == "diamond.deconflicter" {
							if _, isLit := y.Rhs[0].(*ast.FuncLit); isLit {
								what = "func"
							} else {
								what = types.ExprString(y.Rhs[0])
							}
						}
					}
				}
				table = append(table, label+" => "+what)
			}
			return false
		})
	}
	if len(table) == 0 {
		fail("c11: NewDiamond: switch on the conflict mode not found")
	}
	emit("/-- `NewDiamond`: conflict handling mode ⇒ renaming function of deconflicted paths -/")
	emit("def mergeModeDeconflicter : List String := %s", leanStrList(table))
	emit("")
}
