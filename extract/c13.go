package main

import (
	"go/ast"
	"go/token"
)

// ---------------------------------------------------------------------------------------
// C13 / C14: call-site facts of pkg/core/purge.go that the purge model depends on.
// Each fact is the presence of one repaired behaviour; the Lean side derives the model
// configuration from them and `decide`s that it is the repaired one, so that a revert of a
// repair breaks the build of the theorems instead of going unnoticed.
// ---------------------------------------------------------------------------------------

func c13Bool(b bool) string {
	if b {
		return "true"
	}
	return "false"
}

// c13IsCall reports whether n is a call of `<anything>.<sel>` or of the plain function `sel`.
func c13IsCall(n ast.Node, sel string) (*ast.CallExpr, bool) {
	ce, ok := n.(*ast.CallExpr)
	if !ok {
		return nil, false
	}
	switch f := ce.Fun.(type) {
	case *ast.SelectorExpr:
		return ce, f.Sel.Name == sel
	case *ast.Ident:
		return ce, f.Name == sel
	}
	return ce, false
}

func c13Contains(root ast.Node, sel string) (found bool, pos token.Pos) {
	if root == nil {
		return false, 0
	}
	ast.Inspect(root, func(n ast.Node) bool {
		if _, ok := c13IsCall(n, sel); ok && !found {
			found, pos = true, n.Pos()
		}
		return true
	})
	return
}

// c13RetryClosures returns the function literals passed as first argument to backoff.Retry in fd.
func c13RetryClosures(fd *ast.FuncDecl) []*ast.FuncLit {
	var out []*ast.FuncLit
	ast.Inspect(fd, func(n ast.Node) bool {
		if ce, ok := c13IsCall(n, "Retry"); ok && len(ce.Args) >= 1 {
			if fl, ok := ce.Args[0].(*ast.FuncLit); ok {
				out = append(out, fl)
			}
		}
		return true
	})
	return out
}

func purgeFacts() {
	files := parseDir("pkg/core")

	// (1) checkAndDeleteKey: the retry closures return the error of the store call (never the
	// enclosing function's `err`), and a definitive GetAttr failure returns before any deletion.
	retInner, attrStops := false, false
	if fd := funcDecl(files, "checkAndDeleteKey"); fd != nil {
		cl := c13RetryClosures(fd)
		if len(cl) != 2 {
			fail("checkAndDeleteKey: expected 2 backoff.Retry closures, found %d", len(cl))
		}
		retInner = len(cl) > 0
		for _, fl := range cl {
			ast.Inspect(fl.Body, func(n ast.Node) bool {
				if rs, ok := n.(*ast.ReturnStmt); ok {
					for _, r := range rs.Results {
						id, ok := r.(*ast.Ident)
						if !ok || (id.Name != "e" && id.Name != "nil") {
							retInner = false
						}
					}
				}
				return true
			})
		}
		ast.Inspect(fd, func(n ast.Node) bool {
			is, ok := n.(*ast.IfStmt)
			if !ok || is.Init == nil {
				return true
			}
			if has, _ := c13Contains(is.Init, "GetAttr"); !has {
				return true
			}
			for _, s := range is.Body.List {
				if _, ok := s.(*ast.ReturnStmt); ok {
					attrStops = true
				}
			}
			return true
		})
	} else {
		fail("purge: checkAndDeleteKey not found")
	}

	// (2) the chunk reader does not mark keys while streaming; chunkUploader marks after the Put
	marksAfter := false
	rd := method(files, "dbReader", "Read")
	cu := funcDecl(files, "chunkUploader")
	if rd == nil || cu == nil {
		fail("purge: dbReader.Read or chunkUploader not found")
	} else {
		setInRead, _ := c13Contains(rd, "Set")
		hasPut, putPos := c13Contains(cu, "Put")
		hasMark, markPos := c13Contains(cu, "MarkUploaded")
		if !hasPut {
			fail("chunkUploader: no Put call")
		}
		marksAfter = !setInRead && hasPut && hasMark && markPos > putPos
	}

	// (3) bundleKeys only takes the known-root shortcut when told so, and the scanner passes !options.resume
	resumeKeeps := false
	if fd := funcDecl(files, "bundleKeys"); fd != nil {
		guarded := false
		ast.Inspect(fd, func(n ast.Node) bool {
			is, ok := n.(*ast.IfStmt)
			if !ok {
				return true
			}
			if be, ok := is.Cond.(*ast.BinaryExpr); ok && be.Op == token.LAND {
				x, okx := be.X.(*ast.Ident)
				y, oky := be.Y.(*ast.Ident)
				if okx && oky && x.Name == "found" && y.Name == "skipKnownRoots" {
					guarded = true
				}
			}
			if id, ok := is.Cond.(*ast.Ident); ok && id.Name == "found" {
				guarded = false // an unguarded shortcut
				return false
			}
			return true
		})
		passes := false
		if sc := funcDecl(files, "repoKeysScanner"); sc != nil {
			ast.Inspect(sc, func(n ast.Node) bool {
				if ce, ok := c13IsCall(n, "bundleKeys"); ok && len(ce.Args) == 6 {
					if ue, ok := ce.Args[5].(*ast.UnaryExpr); ok && ue.Op == token.NOT {
						if se, ok := ue.X.(*ast.SelectorExpr); ok && se.Sel.Name == "resume" {
							passes = true
						}
					}
				}
				return true
			})
		}
		resumeKeeps = guarded && passes
	} else {
		fail("purge: bundleKeys not found")
	}

	// (5) a build that does not resume drops the previous index first
	drops := false
	if fd := funcDecl(files, "PurgeBuildReverseIndex"); fd != nil {
		ast.Inspect(fd, func(n ast.Node) bool {
			is, ok := n.(*ast.IfStmt)
			if !ok {
				return true
			}
			mentionsResume := false
			ast.Inspect(is.Cond, func(m ast.Node) bool {
				if ue, ok := m.(*ast.UnaryExpr); ok && ue.Op == token.NOT {
					if se, ok := ue.X.(*ast.SelectorExpr); ok && se.Sel.Name == "resume" {
						mentionsResume = true
					}
				}
				return true
			})
			if has, _ := c13Contains(is.Body, "PurgeDropReverseIndex"); has && mentionsResume {
				drops = true
			}
			return true
		})
	} else {
		fail("purge: PurgeBuildReverseIndex not found")
	}

	// lock: without force the lock file is written with storage.NoOverWrite (= true)
	lockNoOverwrite := false
	if fd := funcDecl(files, "PurgeLock"); fd != nil {
		elseNoOver, putUsesVar := false, false
		ast.Inspect(fd, func(n ast.Node) bool {
			switch x := n.(type) {
			case *ast.IfStmt:
				if se, ok := x.Cond.(*ast.SelectorExpr); ok && se.Sel.Name == "force" {
					if blk, ok := x.Else.(*ast.BlockStmt); ok && len(blk.List) == 1 {
						if as, ok := blk.List[0].(*ast.AssignStmt); ok && len(as.Rhs) == 1 {
							if r, ok := as.Rhs[0].(*ast.SelectorExpr); ok && r.Sel.Name == "NoOverWrite" {
								elseNoOver = true
							}
						}
					}
				}
			case *ast.CallExpr:
				if ce, ok := c13IsCall(x, "Put"); ok && len(ce.Args) == 4 {
					if id, ok := ce.Args[3].(*ast.Ident); ok && id.Name == "overwrite" {
						putUsesVar = true
					}
				}
			}
			return true
		})
		_, sexprs := constLits(parseDir("pkg/storage"))
		noOverTrue := false
		if e, ok := sexprs["NoOverWrite"]; ok {
			if id, ok := e.(*ast.Ident); ok && id.Name == "true" {
				noOverTrue = true
			}
		}
		lockNoOverwrite = elseNoOver && putUsesVar && noOverTrue
	} else {
		fail("purge: PurgeLock not found")
	}

	// cafs writer: a duplicate blob is neither rewritten nor touched (finding C13-dedup-no-touch)
	dedupTouches := false
	if fd := method(parseDir("pkg/cafs"), "fsWriter", "writeBlob"); fd != nil {
		dedupTouches, _ = c13Contains(fd, "Touch")
	} else {
		fail("cafs: fsWriter.writeBlob not found")
	}

	emit("/-- purge.go checkAndDeleteKey: both backoff.Retry closures return the store call's own error -/")
	emit("def purgeRetryReturnsInner : Bool := %s", c13Bool(retInner))
	emit("/-- purge.go checkAndDeleteKey: a definitive GetAttr failure returns before the blob can be deleted -/")
	emit("def purgeAttrFailureStops : Bool := %s", c13Bool(attrStops))
	emit("/-- purge.go: dbReader.Read marks nothing; chunkUploader calls MarkUploaded after the chunk Put -/")
	emit("def purgeMarksAfterPut : Bool := %s", c13Bool(marksAfter))
	emit("/-- purge.go: bundleKeys skips the leaves of known roots only when `skipKnownRoots`, passed as `!options.resume` -/")
	emit("def purgeResumeKeepsLeaves : Bool := %s", c13Bool(resumeKeeps))
	emit("/-- purge.go: PurgeBuildReverseIndex drops the previous index unless resuming -/")
	emit("def purgeDropsBeforeRebuild : Bool := %s", c13Bool(drops))
	emit("/-- purge.go PurgeLock: without force the lock is put with storage.NoOverWrite (= true) -/")
	emit("def purgeLockNoOverwrite : Bool := %s", c13Bool(lockNoOverwrite))
	emit("/-- cafs writer.go writeBlob: a duplicate blob gets its update time refreshed (Touch) -/")
	emit("def cafsDedupTouches : Bool := %s", c13Bool(dedupTouches))
	emit("")
}
