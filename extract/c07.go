package main

// C07 facts: the metadata path roots and descriptor file names of pkg/model, and the call-site
// facts of the listings in pkg/core the Lean model of the listings depends on:
//   - the delimiter handed to KeysPrefix by every listXChan,
//   - the base-name filters of the diamond / split listings, and that they are handed to
//     fetchKeys (which applies them AFTER its end-of-listing test) rather than wrapped around the iterator,
//   - which full listings sort the accumulated result once more.

import (
	"go/ast"
	"go/token"
	"sort"
)

// c07EvalStr evaluates string constant expressions: literals, names, and `+`.
func c07EvalStr(e ast.Expr, env map[string]ast.Expr, depth int) (string, bool) {
	if depth > 20 {
		return "", false
	}
	switch x := e.(type) {
	case *ast.BasicLit:
		return strLit(x)
	case *ast.ParenExpr:
		return c07EvalStr(x.X, env, depth+1)
	case *ast.Ident:
		if v, ok := env[x.Name]; ok {
			return c07EvalStr(v, env, depth+1)
		}
	case *ast.BinaryExpr:
		if x.Op == token.ADD {
			a, ok1 := c07EvalStr(x.X, env, depth+1)
			b, ok2 := c07EvalStr(x.Y, env, depth+1)
			return a + b, ok1 && ok2
		}
	}
	return "", false
}

// c07ReturnLit: the string literal returned by a one-statement function.
func c07ReturnLit(files []*ast.File, name string) string {
	fd := funcDecl(files, name)
	if fd == nil || fd.Body == nil || len(fd.Body.List) != 1 {
		fail("c07: %s is not a one-statement function", name)
		return ""
	}
	rs, ok := fd.Body.List[0].(*ast.ReturnStmt)
	if !ok || len(rs.Results) != 1 {
		fail("c07: %s does not return a single value", name)
		return ""
	}
	s, ok := strLit(rs.Results[0])
	if !ok {
		fail("c07: %s does not return a string literal", name)
	}
	return s
}

func c07SelName(e ast.Expr) string {
	switch x := e.(type) {
	case *ast.Ident:
		return x.Name
	case *ast.SelectorExpr:
		return x.Sel.Name
	}
	return ""
}

func c07Facts() {
	mfiles := parseDir("pkg/model")
	_, exprs := constLits(mfiles)
	konst := func(name string) string {
		e, ok := exprs[name]
		if !ok {
			fail("c07: constant %s not found in pkg/model", name)
			return ""
		}
		s, ok := c07EvalStr(e, exprs, 0)
		if !ok {
			fail("c07: constant %s is not a string constant expression", name)
		}
		return s
	}
	emit("/-- C07: metadata path roots (`getArchivePathTo*`) -/")
	emit("def c07ReposRoot : String := %s", leanStr(c07ReturnLit(mfiles, "getArchivePathToRepos")))
	emit("def c07BundlesRoot : String := %s", leanStr(c07ReturnLit(mfiles, "getArchivePathToBundles")))
	emit("def c07LabelsRoot : String := %s", leanStr(c07ReturnLit(mfiles, "getArchivePathToLabels")))
	emit("def c07DiamondsRoot : String := %s", leanStr(c07ReturnLit(mfiles, "getArchivePathToDiamonds")))
	emit("/-- C07: descriptor file names -/")
	emit("def c07RepoFile : String := %s", leanStr(konst("repoDescriptorFile")))
	emit("def c07BundleFile : String := %s", leanStr(konst("bundleDescriptorFile")))
	emit("def c07LabelFile : String := %s", leanStr(konst("labelDescriptorFile")))
	emit("def c07DiamondDone : String := %s", leanStr(konst("diamondFinalDescriptorFile")))
	emit("def c07DiamondRunning : String := %s", leanStr(konst("diamondInitialDescriptorFile")))
	emit("def c07SplitDone : String := %s", leanStr(konst("splitFinalDescriptorFile")))
	emit("def c07SplitRunning : String := %s", leanStr(konst("splitInitialDescriptorFile")))
	emit("def c07IndexFilePrefix : String := %s", leanStr(konst("splitFilesIndexPrefix")))
	// the "splits" path element of GetArchivePathPrefixToSplits
	splitsElem := ""
	if fd := funcDecl(mfiles, "GetArchivePathPrefixToSplits"); fd != nil {
		ast.Inspect(fd, func(n ast.Node) bool {
			if ce, ok := n.(*ast.CallExpr); ok && c07SelName(ce.Fun) == "Sprint" {
				for _, a := range ce.Args {
					if s, ok := strLit(a); ok && s != "/" {
						splitsElem += s
					}
				}
			}
			return true
		})
	}
	if splitsElem == "" {
		fail("c07: GetArchivePathPrefixToSplits: path element not found")
	}
	emit("def c07SplitsElem : String := %s", leanStr(splitsElem))

	// ---- call sites in pkg/core
	cfiles := parseDir("pkg/core")
	type site struct{ fn, kind string }
	sites := []site{{"listReposChan", "repos"}, {"listBundlesChan", "bundles"}, {"listLabelsChan", "labels"},
		{"listDiamondsChan", "diamonds"}, {"listSplitsChan", "splits"}}
	var delims, filters []string
	for _, st := range sites {
		fd := funcDecl(cfiles, st.fn)
		if fd == nil {
			fail("c07: %s not found", st.fn)
			continue
		}
		nKeys, delim := 0, ""
		wrapped := false // basenameKeyFilter(...)(...) applied to the iterator's result: the pre-fix shape
		var fetchFilters []string
		ast.Inspect(fd, func(n ast.Node) bool {
			ce, ok := n.(*ast.CallExpr)
			if !ok {
				return true
			}
			switch c07SelName(ce.Fun) {
			case "KeysPrefix":
				nKeys++
				if len(ce.Args) != 5 {
					fail("c07: %s: KeysPrefix arity", st.fn)
					return true
				}
				s, ok := strLit(ce.Args[3])
				if !ok {
					fail("c07: %s: the delimiter of KeysPrefix is not a literal", st.fn)
				}
				delim = s
			case "fetchKeys":
				for _, a := range ce.Args {
					if inner, ok := a.(*ast.CallExpr); ok && c07SelName(inner.Fun) == "basenameKeyFilter" && len(inner.Args) == 1 {
						if s, ok := strLit(inner.Args[0]); ok {
							fetchFilters = append(fetchFilters, s)
						} else {
							fail("c07: %s: basenameKeyFilter argument is not a literal", st.fn)
						}
					}
				}
			}
			if inner, ok := ce.Fun.(*ast.CallExpr); ok && c07SelName(inner.Fun) == "basenameKeyFilter" {
				wrapped = true
			}
			return true
		})
		if nKeys != 1 {
			fail("c07: %s: expected exactly one KeysPrefix call, found %d", st.fn, nKeys)
		}
		if wrapped {
			fail("c07: %s: basenameKeyFilter wraps the iterator (a page emptied by the filter would end the listing)", st.fn)
		}
		delims = append(delims, "("+leanStr(st.kind)+", "+leanStr(delim)+")")
		for _, f := range fetchFilters {
			filters = append(filters, "("+leanStr(st.kind)+", "+leanStr(f)+")")
		}
	}
	emit("/-- C07: delimiter handed to KeysPrefix by each listing -/")
	emit("def c07Delims : List (String × String) := [%s]", c07Join(delims))
	emit("/-- C07: base-name filters handed to fetchKeys -/")
	emit("def c07BaseFilters : List (String × String) := [%s]", c07Join(filters))

	// fetchKeys: inside the loop, `if len(ks) == 0 { break }` precedes the application of the filters
	after := false
	if fd := funcDecl(cfiles, "fetchKeys"); fd != nil {
		ast.Inspect(fd, func(n ast.Node) bool {
			fs, ok := n.(*ast.ForStmt)
			if !ok || fs.Cond != nil {
				return true
			}
			posEmpty, posFilter := -1, -1
			for i, stmt := range fs.Body.List {
				switch x := stmt.(type) {
				case *ast.IfStmt:
					if be, ok := x.Cond.(*ast.BinaryExpr); ok && be.Op == token.EQL {
						if ce, ok := be.X.(*ast.CallExpr); ok && c07SelName(ce.Fun) == "len" && len(x.Body.List) == 1 {
							if br, ok := x.Body.List[0].(*ast.BranchStmt); ok && br.Tok == token.BREAK && posEmpty < 0 {
								posEmpty = i
							}
						}
					}
				case *ast.RangeStmt:
					if c07SelName(x.X) == "filters" {
						posFilter = i
					}
				}
			}
			if posEmpty >= 0 && posFilter > posEmpty {
				after = true
			}
			return false
		})
	} else {
		fail("c07: fetchKeys not found")
	}
	emit("/-- C07: fetchKeys applies its filters after the empty-page test -/")
	emit("def c07FilterAfterEmptyTest : Bool := %v", after)

	// full listings that sort the accumulated result
	var sorted []string
	for _, fn := range []string{"ListRepos", "ListBundles", "ListLabels", "ListDiamonds", "ListSplits"} {
		fd := funcDecl(cfiles, fn)
		if fd == nil {
			fail("c07: %s not found", fn)
			continue
		}
		has := false
		ast.Inspect(fd, func(n ast.Node) bool {
			if ce, ok := n.(*ast.CallExpr); ok {
				if se, ok := ce.Fun.(*ast.SelectorExpr); ok && se.Sel.Name == "Sort" && c07SelName(se.X) == "sort" {
					has = true
				}
			}
			return true
		})
		if has {
			sorted = append(sorted, fn)
		}
	}
	sort.Strings(sorted)
	emit("/-- C07: full listings ending with `sort.Sort` of the accumulated result -/")
	emit("def c07FinalSort : List String := %s", leanStrList(sorted))
	emit("")
}

func c07Join(xs []string) string {
	out := ""
	for i, x := range xs {
		if i > 0 {
			out += ", "
		}
		out += x
	}
	return out
}
