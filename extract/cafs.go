package main

import (
	"go/ast"
	"go/printer"
	"strings"
)

// C01–C03: the BLAKE2b tree parameters written in pkg/cafs/hasher.go, the leaf-size bounds and the
// places where the reader decides which (node offset, last-node) pair verifies a leaf.

func cafsExprString(e ast.Expr) string {
	var b strings.Builder
	_ = printer.Fprint(&b, fset, e)
	return b.String()
}

// cafsTreeLiteral returns "Field=expr;…" of the blake2b.Tree composite literal inside fn.
func cafsTreeLiteral(fd *ast.FuncDecl) string {
	var parts []string
	if fd == nil {
		return ""
	}
	ast.Inspect(fd, func(n ast.Node) bool {
		cl, ok := n.(*ast.CompositeLit)
		if !ok {
			return true
		}
		if sel, ok := cl.Type.(*ast.SelectorExpr); !ok || sel.Sel.Name != "Tree" {
			return true
		}
		for _, el := range cl.Elts {
			if kv, ok := el.(*ast.KeyValueExpr); ok {
				parts = append(parts, cafsExprString(kv.Key)+"="+cafsExprString(kv.Value))
			}
		}
		return false
	})
	return strings.Join(parts, ";")
}

func cafsFacts() {
	files := parseDir("pkg/cafs")
	root := cafsTreeLiteral(funcDecl(files, "rootHash"))
	leaf := cafsTreeLiteral(funcDecl(files, "keyFromBytes"))
	if root == "" || leaf == "" {
		fail("cafs: blake2b.Tree literals not found in rootHash / keyFromBytes")
	}
	_, exprs := constLits(files)
	maxLeaf, ok1 := evalIntUnits(exprs["MaxLeafSize"], exprs)
	defLeaf, ok2 := evalIntUnits(exprs["DefaultLeafSize"], exprs)
	if !ok1 || !ok2 {
		fail("cafs: cannot evaluate MaxLeafSize / DefaultLeafSize")
	}
	// the "short last leaf" convention appears at every verification site of the reader
	conv := 0
	for _, f := range files {
		ast.Inspect(f, func(n ast.Node) bool {
			be, ok := n.(*ast.BinaryExpr)
			if !ok || be.Op.String() != "&&" {
				return true
			}
			s := cafsExprString(be)
			if strings.Contains(s, "!= r.leafSize") && (strings.Contains(s, "len(r.keys)") || strings.Contains(s, "r.lastChunk")) {
				conv++
			}
			return true
		})
	}
	emit("/-- C02: the BLAKE2b tree parameters of the root node (`rootHash`) -/")
	emit("def cafsRootTree : String := %s", leanStr(root))
	emit("/-- C02: the BLAKE2b tree parameters of a leaf node (`keyFromBytes`) -/")
	emit("def cafsLeafTree : String := %s", leanStr(leaf))
	emit("def cafsMaxLeafSize : Nat := %d", maxLeaf)
	emit("def cafsDefaultLeafSize : Nat := %d", defLeaf)
	emit("/-- C03: number of reader sites applying the short-last-leaf verification convention (Read, ReadAt, WriteTo) -/")
	emit("def cafsVerifyConventionSites : Nat := %d", conv)
	emit("")
}

// evalIntUnits evaluates integer constants that may use the docker/go-units MiB / KiB names.
func evalIntUnits(e ast.Expr, env map[string]ast.Expr) (int64, bool) {
	if e == nil {
		return 0, false
	}
	s := cafsExprString(e)
	s = strings.ReplaceAll(s, "units.MiB", "1048576")
	s = strings.ReplaceAll(s, "units.KiB", "1024")
	// simple products "a * b"
	total := int64(1)
	for _, f := range strings.Split(s, "*") {
		f = strings.TrimSpace(strings.TrimSuffix(strings.TrimPrefix(strings.TrimSpace(f), "uint32("), ")"))
		var v int64
		for _, ch := range f {
			if ch < '0' || ch > '9' {
				return evalInt(e, env, 0)
			}
			v = v*10 + int64(ch-'0')
		}
		total *= v
	}
	return total, true
}
