package main

import (
	"go/ast"
	"go/token"
)

// ---------------------------------------------------------------------------------------
// C19: write-ahead log — page cap, look-back window, start-key shape, no-overwrite flag of Add
// ---------------------------------------------------------------------------------------

// evalDur evaluates a duration expression built from integer literals, time.<Unit>, * and
// parentheses; the result is in nanoseconds.
func evalDur(e ast.Expr, env map[string]ast.Expr) (int64, bool) {
	units := map[string]int64{"Nanosecond": 1, "Microsecond": 1e3, "Millisecond": 1e6, "Second": 1e9, "Minute": 60e9, "Hour": 3600e9}
	switch x := e.(type) {
	case *ast.ParenExpr:
		return evalDur(x.X, env)
	case *ast.SelectorExpr:
		if id, ok := x.X.(*ast.Ident); ok && id.Name == "time" {
			u, ok := units[x.Sel.Name]
			return u, ok
		}
	case *ast.BinaryExpr:
		if x.Op == token.MUL {
			a, ok1 := evalDur(x.X, env)
			b, ok2 := evalDur(x.Y, env)
			return a * b, ok1 && ok2
		}
	default:
		return evalInt(e, env, 0)
	}
	return 0, false
}

// isCallTo reports whether e is a call `<recv>.<name>(...)`.
func isCallTo(e ast.Expr, name string) (*ast.CallExpr, bool) {
	ce, ok := e.(*ast.CallExpr)
	if !ok {
		return nil, false
	}
	se, ok := ce.Fun.(*ast.SelectorExpr)
	if !ok || se.Sel.Name != name {
		return nil, false
	}
	return ce, true
}

func walFacts() {
	files := parseDir("pkg/wal")
	_, exprs := constLits(files)
	// maxEntriesPerList
	if e, ok := exprs["maxEntriesPerList"]; ok {
		if v, ok := evalInt(e, exprs, 0); ok && v > 0 {
			emit("/-- `maxEntriesPerList` of pkg/wal: the cap `ListTokens` puts on `max` -/")
			emit("def walMaxEntriesPerList : Nat := %d", v)
		} else {
			fail("wal: maxEntriesPerList is not a positive integer constant")
		}
	} else {
		fail("wal: maxEntriesPerList not found")
	}
	// GetExpirationDuration: a single `return <duration expression>`
	if fd := method(files, "WAL", "GetExpirationDuration"); fd != nil && fd.Body != nil && len(fd.Body.List) == 1 {
		rs, ok := fd.Body.List[0].(*ast.ReturnStmt)
		if !ok || len(rs.Results) != 1 {
			fail("wal: GetExpirationDuration is not a single return")
		} else if ns, ok := evalDur(rs.Results[0], exprs); ok && ns > 0 && ns%1e9 == 0 {
			emit("/-- `(*WAL).GetExpirationDuration()` in seconds -/")
			emit("def walExpirationSeconds : Nat := %d", ns/1e9)
		} else {
			fail("wal: GetExpirationDuration does not return a whole number of seconds")
		}
	} else {
		fail("wal: GetExpirationDuration not found or not a one-statement method")
	}
	// ListTokens: ksuid.FromParts(k.Time().Add(-w.GetExpirationDuration()*N), b) with b := make([]byte, 16);
	// KeysPrefix(ctx, ksuidOld.String(), "", "", max)
	if fd := method(files, "WAL", "ListTokens"); fd != nil {
		factor := int64(0)
		zeroPayload := false
		prefixOK := false
		ast.Inspect(fd, func(n ast.Node) bool {
			switch x := n.(type) {
			case *ast.AssignStmt:
				if len(x.Lhs) == 1 && len(x.Rhs) == 1 {
					if id, ok := x.Lhs[0].(*ast.Ident); ok && id.Name == "b" {
						if ce, ok := x.Rhs[0].(*ast.CallExpr); ok {
							if f, ok := ce.Fun.(*ast.Ident); ok && f.Name == "make" && len(ce.Args) == 2 {
								if v, ok := evalInt(ce.Args[1], exprs, 0); ok && v == 16 {
									zeroPayload = true
								}
							}
						}
					}
				}
			case *ast.CallExpr:
				if ce, ok := isCallTo(x, "Add"); ok && len(ce.Args) == 1 {
					// (-w.GetExpirationDuration()) * N   or   -(w.GetExpirationDuration() * N)
					arg := ce.Args[0]
					if be, ok := arg.(*ast.BinaryExpr); ok && be.Op == token.MUL {
						if ue, ok := be.X.(*ast.UnaryExpr); ok && ue.Op == token.SUB {
							if _, ok := isCallTo(ue.X, "GetExpirationDuration"); ok {
								if v, ok := evalInt(be.Y, exprs, 0); ok {
									factor = v
								}
							}
						}
					} else if ue, ok := arg.(*ast.UnaryExpr); ok && ue.Op == token.SUB {
						if _, ok := isCallTo(ue.X, "GetExpirationDuration"); ok {
							factor = 1
						} else if pe, ok := ue.X.(*ast.ParenExpr); ok {
							if be, ok := pe.X.(*ast.BinaryExpr); ok && be.Op == token.MUL {
								if _, ok := isCallTo(be.X, "GetExpirationDuration"); ok {
									if v, ok := evalInt(be.Y, exprs, 0); ok {
										factor = v
									}
								}
							}
						}
					}
				}
				if ce, ok := isCallTo(x, "KeysPrefix"); ok && len(ce.Args) == 5 {
					p, ok1 := strLit(ce.Args[2])
					d, ok2 := strLit(ce.Args[3])
					_, ok3 := isCallTo(ce.Args[1], "String")
					if ok1 && ok2 && ok3 && p == "" && d == "" {
						prefixOK = true
					}
				}
			}
			return true
		})
		if factor <= 0 {
			fail("wal: ListTokens: look-back `k.Time().Add(-w.GetExpirationDuration()*N)` not recognised")
		} else {
			emit("/-- `ListTokens` back-dates the start token by this many expiration durations -/")
			emit("def walLookbackFactor : Nat := %d", factor)
		}
		if !zeroPayload {
			fail("wal: ListTokens: start token payload `b := make([]byte, 16)` not recognised")
		} else {
			emit("/-- the back-dated start token has the all-zero payload -/")
			emit("def walStartPayload : Nat := 0")
		}
		if !prefixOK {
			fail("wal: ListTokens: KeysPrefix(ctx, <token>.String(), \"\", \"\", max) not recognised")
		} else {
			emit("/-- `ListTokens` lists the whole store (empty prefix and delimiter) from the start token -/")
			emit("def walListPrefix : String := \"\"")
		}
	} else {
		fail("wal: ListTokens not found")
	}
	// Add: w.walStore.Put(ctx, e.Token, strings.NewReader(e.Payload), storage.NoOverWrite)
	if fd := method(files, "WAL", "Add"); fd != nil {
		found := 0
		ast.Inspect(fd, func(n ast.Node) bool {
			if ce, ok := isCallTo(n2e(n), "Put"); ok && len(ce.Args) == 4 {
				if se, ok := ce.Args[3].(*ast.SelectorExpr); ok {
					switch se.Sel.Name {
					case "NoOverWrite":
						found = 1
					case "OverWrite":
						found = 2
					}
				}
			}
			return true
		})
		switch found {
		case 1:
			emit("/-- `Add` puts the entry under its token with `storage.NoOverWrite` -/")
			emit("def walAddNoOverwrite : Bool := true")
		case 2:
			emit("def walAddNoOverwrite : Bool := false")
		default:
			fail("wal: Add: Put(..., storage.NoOverWrite) not recognised")
		}
	} else {
		fail("wal: Add not found")
	}
	// (*WAL).read: the slot taken by the issuer is given back by a `defer` that is the first
	// statement of the function, i.e. on every path (C19_slots_exact)
	first := ""
	if fd := method(files, "WAL", "read"); fd != nil && fd.Body != nil && len(fd.Body.List) > 0 {
		if ds, ok := fd.Body.List[0].(*ast.DeferStmt); ok {
			if se, ok := ds.Call.Fun.(*ast.SelectorExpr); ok {
				first = "defer " + se.Sel.Name
			}
		}
	} else {
		fail("wal: read not found")
	}
	emit("/-- first statement of `(*WAL).read` when it is a deferred method call -/")
	emit("def walReadFirstStatement : String := %s", leanStr(first))
	// storage.NoOverWrite itself
	sfiles := parseDir("pkg/storage")
	_, sexprs := constLits(sfiles)
	if id, ok := sexprs["NoOverWrite"].(*ast.Ident); !ok || id.Name != "true" {
		fail("storage: NoOverWrite is not the constant true")
	}
	emit("")
}

func n2e(n ast.Node) ast.Expr {
	if e, ok := n.(ast.Expr); ok {
		return e
	}
	return nil
}
