package main

func moreFacts() {
	fuseROFacts()
	walFacts()
}
