package main

func moreFacts() {}
