package main

func moreFacts() {
	fuseROFacts()
	walFacts()
	c20Facts()
	c16Facts()
	c11Facts()
	c08Facts()
	c18Facts()
	c12Facts()
	c09Facts()
	c05Facts()
	c10Facts()
	c06Facts()
	purgeFacts()
	c07Facts()
	cafsFacts()
}
