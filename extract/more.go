package main

func moreFacts() {
	fuseROFacts()
	walFacts()
	c20Facts()
	c16Facts()
	c11Facts()
}
