#!/usr/bin/env python3
"""verify_mutant.py <out-dir of a seeding agent> <A|B> <property id> [<name under seeded/>]
Confirms a seeded change independently in a scratch worktree of /repo HEAD: the demonstration passes
without the change; with it the tree builds, the touched packages' tests pass and the demonstration
fails. Copies the result to /verif/seeded/<id>-<variant>/ when everything is confirmed."""
import sys, os, re, json, subprocess, shutil, glob

out, var, pid = sys.argv[1].rstrip("/"), sys.argv[2], sys.argv[3]
dstvar = sys.argv[4] if len(sys.argv) > 4 else var  # name under /verif/seeded (second round: C, D)
src = os.path.join(out, var)
WT = "/tmp/vm-wt-%s%s" % (pid, var)
ENV = dict(os.environ, GOFLAGS="-mod=mod", GOPROXY="off", GOSUMDB="off", GOTOOLCHAIN="local")
RUNNABLE = {"pkg/cafs", "pkg/model", "pkg/wal", "pkg/fuse", "pkg/storage/localfs", "pkg/filetracker", "pkg/sidecar/param", "pkg/metrics", "pkg/errors"}

def sh(cmd, cwd=WT, timeout=1000):
    try:
        p = subprocess.run(cmd, cwd=cwd, env=ENV, shell=True, stdout=subprocess.PIPE, stderr=subprocess.STDOUT, timeout=timeout)
        return p.returncode, p.stdout.decode("utf-8", "replace")
    except subprocess.TimeoutExpired:
        return 124, "TIMEOUT"

subprocess.run("git -C /repo worktree remove --force %s 2>/dev/null; rm -rf %s; git -C /repo worktree add --detach %s HEAD" % (WT, WT, WT),
               shell=True, stdout=subprocess.DEVNULL, stderr=subprocess.DEVNULL)
res = {"property": pid, "variant": var, "repo_head": subprocess.check_output("git -C /repo rev-parse --short HEAD", shell=True).decode().strip()}
try:
    demos = [f for f in glob.glob(os.path.join(src, "demo", "*")) if f.endswith(".go")]
    note = " ".join(open(f).read() for f in glob.glob(os.path.join(src, "demo", "*.txt")))
    placed = []
    run = None
    for d in demos:
        base = os.path.basename(d)
        m = re.findall(r"((?:cmd|pkg|internal)/[\w./-]*)", note)
        dest = None
        for cand in m:
            cand = cand.rstrip(".,;:")
            if cand.endswith(base):
                dest = cand; break
        if dest is None:
            for cand in m:
                cand = cand.rstrip(".,;:")
                if not cand.endswith(".go"):
                    dest = cand.rstrip("/") + "/" + base; break
        if dest is None:
            # no placement note: a test file goes into the (first) package the patch touches
            tp = sorted({os.path.dirname(l[6:].strip()) for l in open(os.path.join(src, "patch.diff")) if l.startswith("+++ b/")})
            if base.endswith("_test.go") and tp:
                dest = tp[0] + "/" + base
                note += " -run " + "TestMutDemo" + pid + var
            else:
                raise SystemExit("cannot place demo " + d)
        os.makedirs(os.path.dirname(os.path.join(WT, dest)), exist_ok=True)
        shutil.copyfile(d, os.path.join(WT, dest))
        placed.append(dest)
        ddir = os.path.dirname(dest)
        tags = "-tags verif " if "-tags verif" in note else ""
        if base == "main.go":
            run = "timeout 900 go run %s./%s" % (tags, ddir)
        else:
            t = re.search(r"-run '?(\w+)'?", note)
            run = "timeout 900 go test %s-count=1 %s ./%s/" % (tags, ("-run " + t.group(1)) if t else "", ddir)
    res["demo_placed"], res["demo_cmd"] = placed, run
    rc0, o0 = sh(run)
    res["demo_without_change"] = "pass" if rc0 == 0 else "FAIL rc=%d: %s" % (rc0, o0[-300:])
    patch = os.path.join(src, "patch.diff")
    rc, o = sh("git apply --check %s && git apply %s" % (patch, patch))
    res["patch_applies"] = rc == 0
    if rc != 0:
        res["patch_error"] = o[-300:]
        raise SystemExit(0)
    touched = sorted({os.path.dirname(l[6:].strip()) for l in open(patch) if l.startswith("+++ b/")})
    res["touched"] = touched
    # the demonstration is not part of the tree that must build, nor of the existing tests
    stash = {}
    for d in placed:
        stash[d] = open(os.path.join(WT, d)).read()
        os.remove(os.path.join(WT, d))
    rc, o = sh("go build ./... && go build -tags verif ./pkg/...", timeout=1200)
    res["builds"] = rc == 0
    tests = {}
    for t in touched:
        if t in RUNNABLE:
            sel = "-run 'TestNewWAL1|TestWAL_Add|TestWAL_ListEntries'" if t == "pkg/wal" else ""  # TestWAL_GetToken needs the network (fails on the unchanged tree too)
            rc, o = sh("timeout 1200 go test -count=1 %s ./%s/ 2>&1 | tail -5" % (sel, t), timeout=1300)
            ok = rc == 0 and "FAIL" not in o.replace("TestWAL_GetToken", "")
            if t == "pkg/wal":
                ok = "FAIL" not in re.sub(r".*TestWAL_GetToken.*\n?", "", o).replace("FAIL\tgithub.com/oneconcern/datamon/pkg/wal", "")
            tests[t] = "pass" if ok else "FAIL: " + o[-300:]
    if any(t.startswith("pkg/core") or t.startswith("pkg/model") or t.startswith("pkg/cafs") for t in touched):
        rc, o = sh("timeout 1200 go test -count=1 ./pkg/fuse/ 2>&1 | tail -3", timeout=1300)
        tests["pkg/fuse (imports core)"] = "pass" if rc == 0 and "FAIL" not in o else "FAIL: " + o[-300:]
    res["existing_tests"] = tests
    for d, txt in stash.items():
        open(os.path.join(WT, d), "w").write(txt)
    rc1, o1 = sh(run)
    res["demo_with_change"] = "fails (as required)" if rc1 != 0 else "PASSES (change not demonstrated)"
    res["demo_failure_tail"] = o1[-400:] if rc1 != 0 else ""
    ok = (rc0 == 0 and rc1 != 0 and res["builds"] and all(v == "pass" for v in tests.values()))
    res["confirmed"] = ok
    if ok:
        dst = "/verif/seeded/%s-%s" % (pid, dstvar)
        shutil.rmtree(dst, ignore_errors=True)
        os.makedirs(dst + "/demo")
        shutil.copyfile(patch, dst + "/patch.diff")
        for d in glob.glob(os.path.join(src, "demo", "*")):
            shutil.copyfile(d, dst + "/demo/" + os.path.basename(d))
        meta = {}
        try:
            meta = json.load(open(os.path.join(src, "meta.json")))
        except Exception:
            pass
        meta.update({"property": pid, "confirmed_by_integrator": res})
        json.dump(meta, open(dst + "/meta.json", "w"), indent=1)
finally:
    print(json.dumps(res, indent=1))
    subprocess.run("git -C /repo worktree remove --force %s; rm -rf %s" % (WT, WT), shell=True, stdout=subprocess.DEVNULL, stderr=subprocess.DEVNULL)
