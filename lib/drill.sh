#!/bin/sh
# drill.sh <patch.diff> <Cxx> [Cyy …] — apply a seeded change to /repo, run the quick checks of the
# given properties, undo the change. Prints one verdict line per check.
set -u
patch="$(readlink -f "$1")"; shift
cd /verif
if ! git -C /repo apply --check "$patch" 2>/dev/null; then echo "DRILL: patch does not apply: $patch"; exit 2; fi
git -C /repo apply "$patch"
for id in "$@"; do
  # evidence is only ever committed from runs on the unchanged tree: keep the current file
  [ -f evidence/$id.json ] && cp evidence/$id.json /var/tmp/evidence-keep-$id.json
  out=$(timeout 3000 ./check "$id" --tier "${DRILL_TIER:-quick}" 2>&1 | grep -E "^(OK|VIOLATION|KNOWN-FINDING)" | cut -c1-160 | grep -v KNOWN | head -2 | tr '\n' ' ')
  echo "DRILL $(basename $(dirname "$patch"))/$(basename "$patch") $id: $out"
  [ -f /var/tmp/evidence-keep-$id.json ] && mv /var/tmp/evidence-keep-$id.json evidence/$id.json
done
git -C /repo apply -R "$patch"
git -C /repo status --short | head -3
