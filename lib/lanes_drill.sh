#!/bin/bash
# lanes_drill.sh <jobs-file> [lanes] — drills seeded changes in parallel lanes. Each lane has its own
# copy of /verif and its own git worktree of /repo (outside /repo and /verif, removed at the end), so
# /repo itself is never touched. A job line is: <seeded-dir-name> <Cxx> [<Cyy> …]
# Output: one "DRILL <name> <Cxx>: <verdict>" line per check, also appended to /var/tmp/lanes/results.txt
set -u
jobs="$(readlink -f "$1")"; lanes="${2:-3}"
base=${LANES_BASE:-/var/tmp/lanes}
mkdir -p $base
for n in $(seq 1 $lanes); do
  rm -rf $base/l$n; mkdir -p $base/l$n
  git -C /repo worktree remove --force $base/l$n/repo 2>/dev/null
  git -C /repo worktree add --detach $base/l$n/repo HEAD >/dev/null 2>&1
  rsync -a --exclude .git --exclude replays --exclude 'evidence/*.log' /verif/ $base/l$n/verif/
  sed -i "s#=> /repo#=> $base/l$n/repo#" $base/l$n/verif/harness/go.mod
done
lane() {
  n=$1
  while true; do
    line=$( flock $base/jobs.lock sh -c "head -1 $base/jobs.todo; sed -i 1d $base/jobs.todo" )
    [ -z "$line" ] && break
    set -- $line; name=$1; shift
    patch=/verif/seeded/$name/patch.diff
    if ! git -C $base/l$n/repo apply --check $patch 2>/dev/null; then echo "DRILL $name: patch does not apply" | tee -a $base/results.txt; continue; fi
    git -C $base/l$n/repo apply $patch
    for id in "$@"; do
      out=$(cd $base/l$n/verif && VERIF_REPO=$base/l$n/repo VERIF_SEED=${VERIF_SEED:-1} timeout 3000 ./check "$id" --tier "${DRILL_TIER:-quick}" 2>&1 | grep -E "^(OK|VIOLATION)" | cut -c1-150 | head -2 | tr '\n' ' ')
      echo "DRILL $name $id: $out" | tee -a $base/results.txt
      mkdir -p $base/replays/$name; cp $base/l$n/verif/replays/$id-* $base/replays/$name/ 2>/dev/null; rm -f $base/l$n/verif/replays/$id-*
    done
    git -C $base/l$n/repo apply -R $patch
  done
}
cp "$jobs" $base/jobs.todo; : > $base/jobs.lock
for n in $(seq 1 $lanes); do lane $n & done
wait
for n in $(seq 1 $lanes); do git -C /repo worktree remove --force $base/l$n/repo 2>/dev/null; rm -rf $base/l$n; done
git -C /repo worktree prune
