"""Per-property configuration of ./check (sub-command of the harness, Lean modules, evidence text)."""

CAFS_TRUSTED = ["BLAKE2b: the Lean implementation (Model/Blake2b.lean) equals minio/blake2b-simd and Python hashlib (tested, not proved); "
                "collision-freeness is an explicit hypothesis (NoCollision) of the theorems that need it",
                "harness/internal/memstore as the blob store contract"]

PROPS = {
    "C19": {
        "sub": "c19",
        "trivial": r"^order$",
        "level_text": "Proof: for every history of appends (any payloads, any - even colliding - random draws, concurrent appends in the "
                      "order of their puts; C19_appends_commute: that order does not matter) C19_tokens_unique (pairwise distinct tokens, from the "
                      "no-overwrite put whose flag is extracted from Add's call site), C19_token_order / C19_token_order_history (generator times "
                      "one second apart give tokens in time order, as numbers and - C19_ksuid_string_lt_iff, proved for the 27-digit base-62 "
                      "rendering - as strings), C19_list_exact (for every max > 0 and EVERY completion order of the parallel fetches the result is "
                      "exactly the first min(max, maxEntriesPerList) stored entries from the back-dated start key, in token order, payloads "
                      "unchanged, no panic), C19_lookback_complete and the history-level C19_wal_returns_appended. The look-back (2 x "
                      "GetExpirationDuration), the page cap, the zero start payload, the empty prefix and the no-overwrite flag are regenerated "
                      "from pkg/wal on every run. The model is tied to pkg/wal by differential runs of the real Add/ListEntries on the "
                      "reference object store (logical clock, 1..16 concurrent appenders, forced token collisions, unfetchable blobs).",
        "level_note": "Trusted: Lean kernel, the facts translator, the harness and its memstore (the store contract: start-key listing in key "
                      "order, create-if-absent, monotone update times). Modelled, not proved: the YAML decoder of the reader is a parameter `dec`; "
                      "the theorems need NoSelfRef (no stored blob is an entry descriptor naming its own key with a different payload), which Add "
                      "cannot violate short of guessing the 128 random bits of its future token (C19_neg_selfref_payload shows the effect). "
                      "Randomness of KSUID payloads is not modelled: uniqueness comes from the no-overwrite put. Goroutine leaks of ListEntries "
                      "(early returns) and the unused MaxConcurrency option are outside the property.",
        "trusted": ["harness/internal/memstore implements the store contract the log is written against (GCS semantics)",
                    "segmentio/ksuid v1.0.4: String() is the 27-digit base-62 form of the 160-bit number (three library outputs are checked by `decide` in Props/C19.lean)"],
        "assumptions": ["the object store lists keys in byte order from a start key and Put(NoOverWrite) is create-if-absent (store contract)",
                        "update times of the token generator object never go back (store contract)",
                        "KSUID time does not underflow: lookback <= time(from), i.e. from-tokens later than 2014-05-13 + 20 min (C19_neg_lookback_underflow outside)",
                        "no payload is a YAML entry descriptor naming the token it is about to be given (NoSelfRef)"],
        "rule": "one evaluation = one operation of a case run on the real pkg/wal in a worker process and compared with the Lean model: "
                "`add` (ok / exists for a forced collision, token time within the generator clock interval of its batch), `list` (the returned "
                "entries as add-index:length:FNV-1a of the payload, in order; `next` is auxiliary), `order` (all stored tokens sorted as STRINGS "
                "vs the model's numeric order). distinct = distinct operation text; the `order` line of a case is not counted as distinct input",
        "timeout_quick": 600,
        "timeout_thorough": 3000,
    },
    "C17": {
        "sub": "c17",
        "trivial": r"^(mount|walk|od |ga x=|rd x=|rf x=)",
        "level_text": "Proof: for every bundle whose entry paths are non-empty and prefix-free (any order, any number of entries, "
                      "any depth) the Lean model of populateFS / LookUpInode / GetInodeAttributes / ReadDir / ReadFile satisfies "
                      "C17_populate_ok (no table collision), C17_tree_exact (successive lookups succeed exactly on entries = files with "
                      "their size, proper ancestors = directories, and the root), C17_readdir_exact (listing table = immediate children, "
                      "each once, inode/kind as LookUpInode reports, offsets = position+1), C17_readdir_resume (any session of pages with "
                      "per-page buffers >= one dirent, resumed at the offset of any consumed dirent, from any valid offset, yields the "
                      "remaining children exactly once), C17_inode_unique / C17_getattr_exact, and C17_read_exact (ReadFile = "
                      "(content.drop off).take n in both mount modes; streamed = cafs ReadAt arithmetic over the leaves). Side conditions on "
                      "firstINode / link counts are discharged by `decide` on facts regenerated from pkg/fuse on every run. The model is "
                      "tied to the code by differential runs: random trees uploaded as real bundles, mounted in both modes, the "
                      "fuseutil.FileSystem object driven with random programs, every result compared with the model.",
        "level_note": "Trusted: Lean kernel, the facts translator, the harness (incl. its parser of the fuse_dirent wire layout) and driver. "
                      "Modelled, not verified: the Go code (hand-written functional model; tables as finite maps). Not modelled: the kernel "
                      "side of FUSE and jacobsa/fuse's server loop (the operation interface is the observation point), attribute "
                      "times/uid/gid/permission bits, cafs caching/prefetching/hash verification (C01-C03), core.Publish (C04). Paths are "
                      "lists of components: the correspondence path.Dir/path.Base = dropLast/last holds for clean relative paths only.",
        "trusted": ["fuse_dirent wire layout as written by jacobsa/fuse fuseutil.WriteDirent (parsed back by the harness)",
                    "reference object stores (harness/internal/memstore) and storage/localfs as staging area"],
        "assumptions": ["entry paths are clean relative paths (no empty, '.' or '..' component), pairwise distinct, none a proper prefix directory of another",
                        "the bytes stored for an entry have the length the entry records (upload, C01/C04)",
                        "buffers of a listing session hold at least one dirent (the kernel uses >= 4096 bytes; a name is <= 255 bytes)",
                        "pre-downloaded mode stages into a localfs directory as `datamon bundle mount` does"],
        "rule": "one evaluation = one file-system operation (LookUpInode, GetInodeAttributes, OpenDir, ReadDir page, whole listing "
                "session, ReadFile, full tree walk) executed on the real read-only file system object of a freshly uploaded and "
                "mounted random bundle and compared with the Lean model; nodes are addressed by path so raw inode numbers are "
                "auxiliary; distinct = distinct operation text; operations on unknown inodes, OpenDir, mount and walk lines are not "
                "counted as non-trivial",
        "timeout_quick": 300,
        "timeout_thorough": 1500,
    },
    "C01": {
        "sub": "c01",
        "trivial": r"content=gen:\d+:0 ",
        "lean_modules": ["DatamonVerif.Props.C01"],
        "timeout_quick": 900, "timeout_thorough": 3400,
        "level_text": "Proof: theorems about the model of the cafs writer, Put and the three readers (all contents, leaf sizes, write "
                      "chunkings, read programs); model tied to pkg/cafs by differential runs of Put/Read/ReadAt/WriteTo on memstore.",
        "level_note": "Trusted: Lean kernel, harness+driver, memstore as the store contract, the Lean BLAKE2b (tested against Go). "
                      "Not in the model: buffer pool, LRU pinning, prefetch goroutines, WriteTo parallelism (exercised by the harness only).",
        "trusted": CAFS_TRUSTED,
        "assumptions": ["blob reader returns data then EOF separately (memstore / afero behaviour)"],
    },
    "C02": {
        "sub": "c02",
        "trivial": r"content=gen:\d+:0 ",
        "lean_modules": ["DatamonVerif.Props.C02"],
        "timeout_quick": 900, "timeout_thorough": 3400,
        "level_text": "Proof: key = BLAKE2b tree root of the leaves (specKey) independent of chunking, flush completion order and store "
                      "content; idempotent duplicate put; frame; injectivity under the no-collision hypothesis. Keys of the real code are "
                      "compared with the Lean BLAKE2b tree hash on every put, store snapshots after every put.",
        "level_note": "Trusted: Lean kernel, harness+driver, memstore. BLAKE2b collision-freeness is a hypothesis; CRC32 collisions are ignored "
                      "(the CRC check of existsAndValidBlob is modelled as byte equality).",
        "trusted": CAFS_TRUSTED,
    },
    "C03": {
        "sub": "c03",
        "trivial": r"^never-trivial$",
        "lean_modules": ["DatamonVerif.Props.C03"],
        "timeout_quick": 900, "timeout_thorough": 3400,
        "level_text": "Proof: for EVERY store content (any fault), a verified read returns an error or exactly the stored bytes, under the "
                      "no-collision hypothesis on the pairs hashed. The implementation's outcome under sampled single-blob faults is judged "
                      "by the same predicate (error or exact bytes) evaluated in Lean.",
        "level_note": "Trusted: Lean kernel, harness+driver, memstore. Faults are sampled in the correspondence run, universal in the theorem.",
        "trusted": CAFS_TRUSTED,
    },
    "C04": {
        "sub": "c04",
        "trivial": r"^(upload keys= |download sel=all => ok files=$)",
        "timeout_quick": 1200, "timeout_thorough": 3400,
        "level_text": "Proof: theorems about the model of bundle upload/download metadata flow (entries one-to-one with the uploaded "
                      "files, index-file batching and reassembly by position for every entries-per-file and arrival order, filtered and "
                      "single-file downloads, repeated and missing keys), over an abstract content store (C01/C02). Tied to pkg/core by "
                      "differential uploads/downloads on memstore and localfs with entries-per-file 1,2,3,7,1000.",
        "level_note": "Trusted: Lean kernel, harness+driver, memstore, yaml.v2 for descriptor encoding (names with YAML-significant "
                      "characters are exercised, not modelled). Goroutine fan-out is modelled as an arbitrary arrival order.",
        "trusted": CAFS_TRUSTED + ["gopkg.in/yaml.v2 round-trips bundle entries"],
    },
    "C21": {
        "sub": "c21",
        "trivial": r"^enc .* ps=$",
        "level_text": "Proof: C21_roundtrip_auto (decode . encode = the non-empty parameters + sleep flag, for every parameter set; separators "
                      "fresh by C21_separators_fresh; rejection characterised by C21_encode_rejects_iff), with the name/exclusion side "
                      "condition discharged by `decide` on facts regenerated from params.go on every run. The implementation's strings are "
                      "decoded by the Lean reference decoder that occurs in the theorem and compared with the parameters given.",
        "level_note": "Trusted: Lean kernel, the facts translator, the harness. The reference decoder is the documented format "
                      "(= deserialize_dict of hack/fuse-demo/wrap_datamon.sh); the zsh script itself is not executed. Values are valid UTF-8.",
        "trusted": ["reference decoder = documented format (first two characters are the separators); the shipped zsh decoder is not run"],
        "assumptions": ["values are valid UTF-8 strings", "bundle / database names are distinct (they key the environment variables)",
                        "pg DestBundleID and Contributor are not part of the environment format (never encoded by the code)"],
    },
    "C22": {
        "sub": "c22",
        "level_text": "Proof: theorem C22_tracker_exact (Lean 4, no bound on the number of writes, offsets or lengths) states the property "
                      "in full for the model of trackWrite/getRangeToRead; the model is tied to pkg/filetracker by exhaustive small-scope "
                      "plus random differential runs of the real tracker against the compiled model.",
        "level_note": "Trusted: Lean kernel (axioms propext, Classical.choice, Quot.sound), the harness and driver, go-immutable-radix as a sorted map. "
                      "The Go code is modelled (hand-written functional model of the marker walk), not verified directly.",
        "trivial": r"w= ",
        "trusted": ["hashicorp/go-immutable-radix behaves like a sorted map (observed through its ordered walk)"],
        "assumptions": ["offsets and lengths are non-negative (negative offsets are rejected by getKey in the Go code)"],
        "rule": "one evaluation = one write history run on the real tracker (markers dumped, every offset below q queried) "
                "and compared with the Lean model; all histories of <=3 (quick) / <=4 (thorough) writes over a small "
                "offset/length space are enumerated, longer ones are random; distinct = distinct history+query text; "
                "the empty history is trivial",
    },
}
