"""Per-property configuration of ./check (sub-command of the harness, Lean modules, evidence text)."""

PROPS = {
    "C21": {
        "sub": "c21",
        "trivial": r"^enc .* ps=$",
        "level_text": "Proof: C21_roundtrip_auto (decode . encode = the non-empty parameters + sleep flag, for every parameter set; separators "
                      "fresh by C21_separators_fresh; rejection characterised by C21_encode_rejects_iff), with the name/exclusion side "
                      "condition discharged by `decide` on facts regenerated from params.go on every run. The implementation's strings are "
                      "decoded by the Lean reference decoder that occurs in the theorem and compared with the parameters given.",
        "level_note": "Trusted: Lean kernel, the facts translator, the harness. The reference decoder is the documented format "
                      "(= deserialize_dict of hack/fuse-demo/wrap_datamon.sh); the zsh script itself is not executed. Values are valid UTF-8.",
        "trusted": ["reference decoder = documented format (first two characters are the separators); the shipped zsh decoder is not run"],
        "assumptions": ["values are valid UTF-8 strings", "bundle / database names are distinct (they key the environment variables)",
                        "pg DestBundleID and Contributor are not part of the environment format (never encoded by the code)"],
    },
    "C22": {
        "sub": "c22",
        "level_text": "Proof: theorem C22_tracker_exact (Lean 4, no bound on the number of writes, offsets or lengths) states the property "
                      "in full for the model of trackWrite/getRangeToRead; the model is tied to pkg/filetracker by exhaustive small-scope "
                      "plus random differential runs of the real tracker against the compiled model.",
        "level_note": "Trusted: Lean kernel (axioms propext, Classical.choice, Quot.sound), the harness and driver, go-immutable-radix as a sorted map. "
                      "The Go code is modelled (hand-written functional model of the marker walk), not verified directly.",
        "trivial": r"w= ",
        "trusted": ["hashicorp/go-immutable-radix behaves like a sorted map (observed through its ordered walk)"],
        "assumptions": ["offsets and lengths are non-negative (negative offsets are rejected by getKey in the Go code)"],
        "rule": "one evaluation = one write history run on the real tracker (markers dumped, every offset below q queried) "
                "and compared with the Lean model; all histories of <=3 (quick) / <=4 (thorough) writes over a small "
                "offset/length space are enumerated, longer ones are random; distinct = distinct history+query text; "
                "the empty history is trivial",
    },
}
