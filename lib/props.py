"""Per-property configuration of ./check (sub-command of the harness, Lean modules, evidence text)."""

CAFS_TRUSTED = ["BLAKE2b: the Lean implementation (Model/Blake2b.lean) equals minio/blake2b-simd and Python hashlib (tested, not proved); "
                "collision-freeness is an explicit hypothesis (NoCollision) of the theorems that need it",
                "harness/internal/memstore as the blob store contract"]

PROPS = {
    "C01": {
        "sub": "c01",
        "trivial": r"content=gen:\d+:0 ",
        "lean_modules": ["DatamonVerif.Props.C01"],
        "timeout_quick": 900, "timeout_thorough": 3400,
        "level_text": "Proof: theorems about the model of the cafs writer, Put and the three readers (all contents, leaf sizes, write "
                      "chunkings, read programs); model tied to pkg/cafs by differential runs of Put/Read/ReadAt/WriteTo on memstore.",
        "level_note": "Trusted: Lean kernel, harness+driver, memstore as the store contract, the Lean BLAKE2b (tested against Go). "
                      "Not in the model: buffer pool, LRU pinning, prefetch goroutines, WriteTo parallelism (exercised by the harness only).",
        "trusted": CAFS_TRUSTED,
        "assumptions": ["blob reader returns data then EOF separately (memstore / afero behaviour)"],
    },
    "C02": {
        "sub": "c02",
        "trivial": r"content=gen:\d+:0 ",
        "lean_modules": ["DatamonVerif.Props.C02"],
        "timeout_quick": 900, "timeout_thorough": 3400,
        "level_text": "Proof: key = BLAKE2b tree root of the leaves (specKey) independent of chunking, flush completion order and store "
                      "content; idempotent duplicate put; frame; injectivity under the no-collision hypothesis. Keys of the real code are "
                      "compared with the Lean BLAKE2b tree hash on every put, store snapshots after every put.",
        "level_note": "Trusted: Lean kernel, harness+driver, memstore. BLAKE2b collision-freeness is a hypothesis; CRC32 collisions are ignored "
                      "(the CRC check of existsAndValidBlob is modelled as byte equality).",
        "trusted": CAFS_TRUSTED,
    },
    "C03": {
        "sub": "c03",
        "trivial": r"^never-trivial$",
        "lean_modules": ["DatamonVerif.Props.C03"],
        "timeout_quick": 900, "timeout_thorough": 3400,
        "level_text": "Proof: for EVERY store content (any fault), a verified read returns an error or exactly the stored bytes, under the "
                      "no-collision hypothesis on the pairs hashed. The implementation's outcome under sampled single-blob faults is judged "
                      "by the same predicate (error or exact bytes) evaluated in Lean.",
        "level_note": "Trusted: Lean kernel, harness+driver, memstore. Faults are sampled in the correspondence run, universal in the theorem.",
        "trusted": CAFS_TRUSTED,
    },
    "C04": {
        "sub": "c04",
        "trivial": r"^(upload keys= |download sel=all => ok files=$)",
        "timeout_quick": 1200, "timeout_thorough": 3400,
        "level_text": "Proof: theorems about the model of bundle upload/download metadata flow (entries one-to-one with the uploaded "
                      "files, index-file batching and reassembly by position for every entries-per-file and arrival order, filtered and "
                      "single-file downloads, repeated and missing keys), over an abstract content store (C01/C02). Tied to pkg/core by "
                      "differential uploads/downloads on memstore and localfs with entries-per-file 1,2,3,7,1000.",
        "level_note": "Trusted: Lean kernel, harness+driver, memstore, yaml.v2 for descriptor encoding (names with YAML-significant "
                      "characters are exercised, not modelled). Goroutine fan-out is modelled as an arbitrary arrival order.",
        "trusted": CAFS_TRUSTED + ["gopkg.in/yaml.v2 round-trips bundle entries"],
    },
    "C21": {
        "sub": "c21",
        "trivial": r"^enc .* ps=$",
        "level_text": "Proof: C21_roundtrip_auto (decode . encode = the non-empty parameters + sleep flag, for every parameter set; separators "
                      "fresh by C21_separators_fresh; rejection characterised by C21_encode_rejects_iff), with the name/exclusion side "
                      "condition discharged by `decide` on facts regenerated from params.go on every run. The implementation's strings are "
                      "decoded by the Lean reference decoder that occurs in the theorem and compared with the parameters given.",
        "level_note": "Trusted: Lean kernel, the facts translator, the harness. The reference decoder is the documented format "
                      "(= deserialize_dict of hack/fuse-demo/wrap_datamon.sh); the zsh script itself is not executed. Values are valid UTF-8.",
        "trusted": ["reference decoder = documented format (first two characters are the separators); the shipped zsh decoder is not run"],
        "assumptions": ["values are valid UTF-8 strings", "bundle / database names are distinct (they key the environment variables)",
                        "pg DestBundleID and Contributor are not part of the environment format (never encoded by the code)"],
    },
    "C22": {
        "sub": "c22",
        "level_text": "Proof: theorem C22_tracker_exact (Lean 4, no bound on the number of writes, offsets or lengths) states the property "
                      "in full for the model of trackWrite/getRangeToRead; the model is tied to pkg/filetracker by exhaustive small-scope "
                      "plus random differential runs of the real tracker against the compiled model.",
        "level_note": "Trusted: Lean kernel (axioms propext, Classical.choice, Quot.sound), the harness and driver, go-immutable-radix as a sorted map. "
                      "The Go code is modelled (hand-written functional model of the marker walk), not verified directly.",
        "trivial": r"w= ",
        "trusted": ["hashicorp/go-immutable-radix behaves like a sorted map (observed through its ordered walk)"],
        "assumptions": ["offsets and lengths are non-negative (negative offsets are rejected by getKey in the Go code)"],
        "rule": "one evaluation = one write history run on the real tracker (markers dumped, every offset below q queried) "
                "and compared with the Lean model; all histories of <=3 (quick) / <=4 (thorough) writes over a small "
                "offset/length space are enumerated, longer ones are random; distinct = distinct history+query text; "
                "the empty history is trivial",
    },
}
