"""Per-property configuration of ./check (sub-command of the harness, Lean modules, evidence text)."""

CAFS_TRUSTED = ["BLAKE2b: the Lean implementation (Model/Blake2b.lean) equals minio/blake2b-simd and Python hashlib (tested, not proved); "
                "collision-freeness is an explicit hypothesis (NoCollision) of the theorems that need it",
                "harness/internal/memstore as the blob store contract"]

PROPS = {
    "C11": {
        "sub": "c11",
        "trivial": r"^(merge|mergetie) mode=\S+ arr=[^;,]*$",
        "level_text": "Proof (Lean 4, every input, every arrival order = List.Perm of the sequence of split entries, all four modes) for: "
                      "latest write wins in the main tree (C11_main_latest; C11_main_maximal without the distinct-times hypothesis), the main tree "
                      "is the same in every mode (C11_main_tree_mode_independent, ..._mode_order_independent), ignore mode adds nothing "
                      "(C11_ignore_adds_nothing), identical contents never count as conflicts and every deconflicted entry is a genuine conflict "
                      "filed under its own split (C11_identical_never_conflict, C11_conflict_entry_sound, C11_flag_sound), forbid mode fails "
                      "exactly on a conflict (C11_forbid_iff_conflict, C11_forbid_order_independent), the flags (C11_flag_iff_conflict), "
                      "single-split diamond = plain upload (C11_single_split_eq_upload, C11_single_split_chunks). Partial (domain = outside the "
                      "trigger of the known finding merge-identical-copies): the whole commit equals the specification and does not depend on the "
                      "arrival order (C11_merge_eq_spec_partial, C11_merge_order_independent_partial / _batches); refuted inside the trigger by "
                      "C11_neg_order_dependent_identical_losers / _identical_winner, and for equal upload times by C11_neg_tie_order_dependent "
                      "(all by `decide`). The model (Model/Merge.lean) is the code after two fix: commits; the shape of the source it depends on "
                      "is re-extracted on every run (C11_facts_source_shape). The real mergeSplits is driven through a hook with exact arrival "
                      "orders (all permutations of up to 4-5 batches, samples above), and real splits are uploaded and committed end to end.",
        "level_note": "Trusted: Lean kernel (axioms propext, Classical.choice, Quot.sound), the facts translator, the harness and driver, "
                      "go-immutable-radix as a sorted map. The Go code is modelled, not verified directly. The model keeps main and deconflicted "
                      "paths in two maps, i.e. assumes that `.conflicts/<split>/<path>` renderings do not collide (C11_deconflict_injective: true for "
                      "split IDs without '/'; uploads filter out paths under .conflicts/ and .checkpoints/). Upload times of one path are assumed "
                      "distinct (equal times: only outcome class, flags and the set of main paths are compared) and a split lists a path once. "
                      "End-to-end runs do not control the order of the parallel index downloads.",
        "trusted": ["hashicorp/go-immutable-radix behaves like a sorted map keyed by the rendered path"],
        "assumptions": ["two uploads of one path by different splits never carry the same nanosecond timestamp (TimesDistinct); with equal times "
                        "the first arrival stays in the main tree and the property does not determine the winner",
                        "a split lists a path at most once (SplitUnique): its file list is the key listing of one upload generation",
                        "no uploaded path lies under .conflicts/ or .checkpoints/ and split IDs contain no '/' (rendering of deconflicted paths is injective)",
                        "every entry carries a non-zero timestamp (the merger panics otherwise: internal safeguard of the code)"],
        "rule": "one evaluation = one (input, mode, arrival order) run on the real merger (hook: Diamond.mergeSplits fed from a pre-filled "
                "indexer channel; e2e/single: real split uploads + Diamond.Commit + download) whose outcome class, conflict flags and sorted "
                "(path -> hash:size) list were compared with the specification computed by the Lean model; distinct = distinct operation text; "
                "single-upload inputs are trivial. After `##` the implementation's result is also compared with the CODE model's result "
                "(aux_only_differences = 0 means the model is exact, inside the known-finding region too).",
        "thorough_seeds": 2,
    },
    "C16": {
        "sub": "c16",
        "trivial": r"^keys$|^walk p= d= n=[123]$",
        "level_text": "Proof: C16_store_refines_map (put/get/has/delete of the store contract = the map specification, all histories), "
                      "C16_localfs_refines / C16_localfs_refines_map (the local file system model, with its directories, MkdirAll, O_EXCL and Remove, "
                      "is indistinguishable from the contract on key universes where no key is a proper path-prefix of another), "
                      "C16_excl_unique / C16_excl_outcome_valid (any schedule of atomic create-if-absent writers: exactly one wins and its bytes are stored), "
                      "C16_listing_mem / C16_listing_sorted / C16_rollup_cut / C16_walk_order_irrelevant (listing = exactly the keys or immediate "
                      "sub-prefixes, each once, lexicographic, whatever the walk order), C16_paging_complete / C16_keysPrefix_paging (every page "
                      "size >= 1: following next from \"\" yields exactly the listing). The models are tied to localfs (afero memory FS and a real "
                      "directory) and to the harness reference store by replaying the same random histories on all of them and on the Lean models; "
                      "races of 2..16 real goroutines are judged by the theorem's predicate.",
        "level_note": "Partial: the operating system / afero (O_EXCL atomicity, O_TRUNC, directory semantics) is modelled, not verified; a "
                      "non-exclusive Put is not atomic on a real file system (concurrent readers may see a truncated file) and is outside the theorems; "
                      "keys are clean relative paths. Trusted: Lean kernel, harness, driver, facts translator.",
        "trusted": ["the operating system's open(O_CREAT|O_EXCL) is atomic; afero.OsFs/BasePathFs pass calls through",
                    "Go's sort.Strings / strings.HasPrefix / strings.Index on valid UTF-8 agree with Lean's code-point order and list-of-Char search"],
        "assumptions": ["keys are clean relative paths (non-empty components, none '.' or '..', no leading or trailing '/')",
                        "no key ever used is a proper path-prefix of another key ever used (a file and a directory cannot share a path; "
                        "directories outlive their files: C16_neg_leftover_directory)",
                        "page size >= 1; no fault injection (I/O errors) and no concurrent non-exclusive writers"],
        "rule": "one evaluation = one store operation (put/get/has/del/list/walk/keys) or one race outcome whose implementation result was "
                "compared with the Lean model's; every history runs on localfs-memory, localfs-disk, memstore and memstore-delok; "
                "distinct = distinct operation text; the closing keys / whole-store walk lines of a history are trivial",
        "timeout_quick": 600,
        "timeout_thorough": 3000,
    },
    "C20": {
        "sub": "c20",
        "trivial": r"^(build k=(PurgeLock|ReverseIndex|ReverseIndexPrefix|GetArchivePathPrefixToRepos|GetArchivePathPrefixToContexts) a=$|collide |cls )",
        "level_text": "Proof for paths, reserved-path detection and name validation: C20_parse_render (GetArchivePathComponents after every "
                      "GetArchivePathTo*/GetPathToContext builder returns exactly the components, for all slash-free names, all ids accepted by "
                      "ksuid.Parse, every index), C20_fileIndex, C20_render_disjoint (equal paths => same kind and same components), "
                      "C20_other_builders_disjoint, C20_consumable_roundtrip_desc/_list (+ _builders_total, _disjoint), C20_isGenerated_exact "
                      "(genFileRe accepts exactly .datamon/.conflicts/.checkpoints at the root and below), C20_validateRepo_exact / "
                      "C20_validateLabel_exact / C20_ascii_alphabets, C20_validated_label_roundtrip, C20_conflict_paths_reserved, "
                      "C20_reverse_index_roundtrip. The theorems are proved for any template with the expected segment structure and "
                      "discharged by `decide` on the path templates, constants and regexp literals regenerated from pkg/model on every run "
                      "(C20_facts_*). PARTIAL for 'every descriptor reads back equal': decided by the differential run only (real yaml.v2 "
                      "round trip of randomly populated repo, bundle, file-list, label, diamond, split, context and WAL descriptors).",
        "level_note": "Trusted: Lean kernel, the facts translator (extract/c20.go: straight-line Sprint/Sprintf/+/path.Join builders only, "
                      "anything else aborts), the harness and driver. Modelled by hand and tied differentially: GetArchivePathComponents, "
                      "GetConsumableStorePathMetadata, IsGeneratedFile (direct predicate for the regexp, literal compared), path.Clean, "
                      "ksuid.Parse (segmentio/ksuid v1.0.4: 27 bytes, value < 2^160, digits not validated). Letter/decimal-digit status of "
                      "non-ASCII runes is a parameter of the validation model (supplied per name from Go's unicode tables); the Hyphen and Pc "
                      "tables are concrete and compared with Go's on every rune (thorough). The YAML codec is an external library: that "
                      "clause has no Lean model (no non-circular statement is possible) and is reported as differential evidence only.",
        "trusted": ["gopkg.in/yaml.v2 (descriptor clause is differential only)", "Go unicode tables for non-ASCII letters/digits (oracle per name)",
                    "regexp literals are compared with the ones the direct predicates were written for, not interpreted"],
        "assumptions": ["names and paths are valid UTF-8", "names contain no '/' (guaranteed for validated repo and label names: C20_validated_label_roundtrip); "
                        "diamond and generation ids are accepted by ksuid.Parse; split ids are non-empty; context names are plain path components",
                        "consumable bundle ids contain no newline; descriptor ids do not contain '-bundle-files-' (KSUIDs contain no '-')",
                        "descriptor timestamps lie in years 1..9999 in their own zone (RFC 3339)"],
        "rule": "one evaluation = one builder call, parser call, predicate call, validation call or descriptor round trip on the real code, "
                "compared with the Lean model (judge lines rt/crt/chunk: real parser on the real builder's path vs. the components the "
                "theorem demands); distinct = distinct operation text; constant builders and table/summary lines are trivial",
    },
    "C19": {
        "sub": "c19",
        "trivial": r"^order$",
        "level_text": "Proof: for every history of appends (any payloads, any - even colliding - random draws, concurrent appends in the "
                      "order of their puts; C19_appends_commute: that order does not matter) C19_tokens_unique (pairwise distinct tokens, from the "
                      "no-overwrite put whose flag is extracted from Add's call site), C19_token_order / C19_token_order_history (generator times "
                      "one second apart give tokens in time order, as numbers and - C19_ksuid_string_lt_iff, proved for the 27-digit base-62 "
                      "rendering - as strings), C19_list_exact (for every max > 0 and EVERY completion order of the parallel fetches the result is "
                      "exactly the first min(max, maxEntriesPerList) stored entries from the back-dated start key, in token order, payloads "
                      "unchanged, no panic), C19_lookback_complete and the history-level C19_wal_returns_appended. The look-back (2 x "
                      "GetExpirationDuration), the page cap, the zero start payload, the empty prefix and the no-overwrite flag are regenerated "
                      "from pkg/wal on every run. The model is tied to pkg/wal by differential runs of the real Add/ListEntries on the "
                      "reference object store (logical clock, 1..16 concurrent appenders, forced token collisions, unfetchable blobs).",
        "level_note": "Trusted: Lean kernel, the facts translator, the harness and its memstore (the store contract: start-key listing in key "
                      "order, create-if-absent, monotone update times). Modelled, not proved: the YAML decoder of the reader is a parameter `dec`; "
                      "the theorems need NoSelfRef (no stored blob is an entry descriptor naming its own key with a different payload), which Add "
                      "cannot violate short of guessing the 128 random bits of its future token (C19_neg_selfref_payload shows the effect). "
                      "Randomness of KSUID payloads is not modelled: uniqueness comes from the no-overwrite put. Goroutine leaks of ListEntries "
                      "(early returns) and the unused MaxConcurrency option are outside the property.",
        "trusted": ["harness/internal/memstore implements the store contract the log is written against (GCS semantics)",
                    "segmentio/ksuid v1.0.4: String() is the 27-digit base-62 form of the 160-bit number (three library outputs are checked by `decide` in Props/C19.lean)"],
        "assumptions": ["the object store lists keys in byte order from a start key and Put(NoOverWrite) is create-if-absent (store contract)",
                        "update times of the token generator object never go back (store contract)",
                        "KSUID time does not underflow: lookback <= time(from), i.e. from-tokens later than 2014-05-13 + 20 min (C19_neg_lookback_underflow outside)",
                        "no payload is a YAML entry descriptor naming the token it is about to be given (NoSelfRef)"],
        "rule": "one evaluation = one operation of a case run on the real pkg/wal in a worker process and compared with the Lean model: "
                "`add` (ok / exists for a forced collision, token time within the generator clock interval of its batch), `list` (the returned "
                "entries as add-index:length:FNV-1a of the payload, in order; `next` is auxiliary), `order` (all stored tokens sorted as STRINGS "
                "vs the model's numeric order). distinct = distinct operation text; the `order` line of a case is not counted as distinct input",
        "timeout_quick": 600,
        "timeout_thorough": 3000,
    },
    "C17": {
        "sub": "c17",
        "trivial": r"^(mount|walk|od |ga x=|rd x=|rf x=)",
        "level_text": "Proof: for every bundle whose entry paths are non-empty and prefix-free (any order, any number of entries, "
                      "any depth) the Lean model of populateFS / LookUpInode / GetInodeAttributes / ReadDir / ReadFile satisfies "
                      "C17_populate_ok (no table collision), C17_tree_exact (successive lookups succeed exactly on entries = files with "
                      "their size, proper ancestors = directories, and the root), C17_readdir_exact (listing table = immediate children, "
                      "each once, inode/kind as LookUpInode reports, offsets = position+1), C17_readdir_resume (any session of pages with "
                      "per-page buffers >= one dirent, resumed at the offset of any consumed dirent, from any valid offset, yields the "
                      "remaining children exactly once), C17_inode_unique / C17_getattr_exact, and C17_read_exact (ReadFile = "
                      "(content.drop off).take n in both mount modes; streamed = cafs ReadAt arithmetic over the leaves). Side conditions on "
                      "firstINode / link counts are discharged by `decide` on facts regenerated from pkg/fuse on every run. The model is "
                      "tied to the code by differential runs: random trees uploaded as real bundles, mounted in both modes, the "
                      "fuseutil.FileSystem object driven with random programs, every result compared with the model.",
        "level_note": "Trusted: Lean kernel, the facts translator, the harness (incl. its parser of the fuse_dirent wire layout) and driver. "
                      "Modelled, not verified: the Go code (hand-written functional model; tables as finite maps). Not modelled: the kernel "
                      "side of FUSE and jacobsa/fuse's server loop (the operation interface is the observation point), attribute "
                      "times/uid/gid/permission bits, cafs caching/prefetching/hash verification (C01-C03), core.Publish (C04). Paths are "
                      "lists of components: the correspondence path.Dir/path.Base = dropLast/last holds for clean relative paths only.",
        "trusted": ["fuse_dirent wire layout as written by jacobsa/fuse fuseutil.WriteDirent (parsed back by the harness)",
                    "reference object stores (harness/internal/memstore) and storage/localfs as staging area"],
        "assumptions": ["entry paths are clean relative paths (no empty, '.' or '..' component), pairwise distinct, none a proper prefix directory of another",
                        "the bytes stored for an entry have the length the entry records (upload, C01/C04)",
                        "buffers of a listing session hold at least one dirent (the kernel uses >= 4096 bytes; a name is <= 255 bytes)",
                        "pre-downloaded mode stages into a localfs directory as `datamon bundle mount` does"],
        "rule": "one evaluation = one file-system operation (LookUpInode, GetInodeAttributes, OpenDir, ReadDir page, whole listing "
                "session, ReadFile, full tree walk) executed on the real read-only file system object of a freshly uploaded and "
                "mounted random bundle and compared with the Lean model; nodes are addressed by path so raw inode numbers are "
                "auxiliary; distinct = distinct operation text; operations on unknown inodes, OpenDir, mount and walk lines are not "
                "counted as non-trivial",
        "timeout_quick": 300,
        "timeout_thorough": 1500,
    },
    "C01": {
        "sub": "c01",
        "trivial": r"content=gen:\d+:0 ",
        "lean_modules": ["DatamonVerif.Props.C01"],
        "timeout_quick": 900, "timeout_thorough": 3400,
        "level_text": "Proof: theorems about the model of the cafs writer, Put and the three readers (all contents, leaf sizes, write "
                      "chunkings, read programs); model tied to pkg/cafs by differential runs of Put/Read/ReadAt/WriteTo on memstore.",
        "level_note": "Trusted: Lean kernel, harness+driver, memstore as the store contract, the Lean BLAKE2b (tested against Go). "
                      "Not in the model: buffer pool, LRU pinning, prefetch goroutines, WriteTo parallelism (exercised by the harness only).",
        "trusted": CAFS_TRUSTED,
        "assumptions": ["blob reader returns data then EOF separately (memstore / afero behaviour)"],
    },
    "C02": {
        "sub": "c02",
        "trivial": r"content=gen:\d+:0 ",
        "lean_modules": ["DatamonVerif.Props.C02"],
        "timeout_quick": 900, "timeout_thorough": 3400,
        "level_text": "Proof: key = BLAKE2b tree root of the leaves (specKey) independent of chunking, flush completion order and store "
                      "content; idempotent duplicate put; frame; injectivity under the no-collision hypothesis. Keys of the real code are "
                      "compared with the Lean BLAKE2b tree hash on every put, store snapshots after every put.",
        "level_note": "Trusted: Lean kernel, harness+driver, memstore. BLAKE2b collision-freeness is a hypothesis; CRC32 collisions are ignored "
                      "(the CRC check of existsAndValidBlob is modelled as byte equality).",
        "trusted": CAFS_TRUSTED,
    },
    "C03": {
        "sub": "c03",
        "trivial": r"^never-trivial$",
        "lean_modules": ["DatamonVerif.Props.C03"],
        "timeout_quick": 900, "timeout_thorough": 3400,
        "level_text": "Proof: for EVERY store content (any fault), a verified read returns an error or exactly the stored bytes, under the "
                      "no-collision hypothesis on the pairs hashed. The implementation's outcome under sampled single-blob faults is judged "
                      "by the same predicate (error or exact bytes) evaluated in Lean.",
        "level_note": "Trusted: Lean kernel, harness+driver, memstore. Faults are sampled in the correspondence run, universal in the theorem.",
        "trusted": CAFS_TRUSTED,
    },
    "C04": {
        "sub": "c04",
        "trivial": r"^(upload keys= |download sel=all => ok files=$)",
        "timeout_quick": 1200, "timeout_thorough": 3400,
        "level_text": "Proof: theorems about the model of bundle upload/download metadata flow (entries one-to-one with the uploaded "
                      "files, index-file batching and reassembly by position for every entries-per-file and arrival order, filtered and "
                      "single-file downloads, repeated and missing keys), over an abstract content store (C01/C02). Tied to pkg/core by "
                      "differential uploads/downloads on memstore and localfs with entries-per-file 1,2,3,7,1000.",
        "level_note": "Trusted: Lean kernel, harness+driver, memstore, yaml.v2 for descriptor encoding (names with YAML-significant "
                      "characters are exercised, not modelled). Goroutine fan-out is modelled as an arbitrary arrival order.",
        "trusted": CAFS_TRUSTED + ["gopkg.in/yaml.v2 round-trips bundle entries"],
    },
    "C21": {
        "sub": "c21",
        "trivial": r"^enc .* ps=$",
        "level_text": "Proof: C21_roundtrip_auto (decode . encode = the non-empty parameters + sleep flag, for every parameter set; separators "
                      "fresh by C21_separators_fresh; rejection characterised by C21_encode_rejects_iff), with the name/exclusion side "
                      "condition discharged by `decide` on facts regenerated from params.go on every run. The implementation's strings are "
                      "decoded by the Lean reference decoder that occurs in the theorem and compared with the parameters given.",
        "level_note": "Trusted: Lean kernel, the facts translator, the harness. The reference decoder is the documented format "
                      "(= deserialize_dict of hack/fuse-demo/wrap_datamon.sh); the zsh script itself is not executed. Values are valid UTF-8.",
        "trusted": ["reference decoder = documented format (first two characters are the separators); the shipped zsh decoder is not run"],
        "assumptions": ["values are valid UTF-8 strings", "bundle / database names are distinct (they key the environment variables)",
                        "pg DestBundleID and Contributor are not part of the environment format (never encoded by the code)"],
    },
    "C22": {
        "sub": "c22",
        "level_text": "Proof: theorem C22_tracker_exact (Lean 4, no bound on the number of writes, offsets or lengths) states the property "
                      "in full for the model of trackWrite/getRangeToRead; the model is tied to pkg/filetracker by exhaustive small-scope "
                      "plus random differential runs of the real tracker against the compiled model.",
        "level_note": "Trusted: Lean kernel (axioms propext, Classical.choice, Quot.sound), the harness and driver, go-immutable-radix as a sorted map. "
                      "The Go code is modelled (hand-written functional model of the marker walk), not verified directly.",
        "trivial": r"w= ",
        "trusted": ["hashicorp/go-immutable-radix behaves like a sorted map (observed through its ordered walk)"],
        "assumptions": ["offsets and lengths are non-negative (negative offsets are rejected by getKey in the Go code)"],
        "rule": "one evaluation = one write history run on the real tracker (markers dumped, every offset below q queried) "
                "and compared with the Lean model; all histories of <=3 (quick) / <=4 (thorough) writes over a small "
                "offset/length space are enumerated, longer ones are random; distinct = distinct history+query text; "
                "the empty history is trivial",
    },
}
