"""Per-property configuration of ./check (sub-command of the harness, Lean modules, evidence text)."""

CAFS_TRUSTED = ["BLAKE2b: the Lean implementation (Model/Blake2b.lean) equals minio/blake2b-simd and Python hashlib (tested, not proved); "
                "collision-freeness is an explicit hypothesis (NoCollision) of the theorems that need it",
                "harness/internal/memstore as the blob store contract"]

PROPS = {
    "C07": {
        "sub": "c07",
        "thorough_seeds": 1,
        "trivial": r"^ls .* w=set$",
        "level_text": "Proof: for every store content, page size n >= 1 and completion order of the parallel fetches, the model of "
                      "fetchKeys / basenameKeyFilter / mergeKeys / per-batch fetch+sort returns exactly the existing objects of the kind, "
                      "each once (C07_repos/bundles/labels/diamonds/splits_complete_exact, on top of C07_fetch_complete: the page loop "
                      "returns every item for every page size); ListRepos/ListLabels/ListDiamonds/ListSplits are sorted by the kind's "
                      "sort field and ListBundles by id for every page size (C07_full_ordered, C07_bundles_ordered), independent of the "
                      "completion order (C07_list_perm). The streaming *Apply variants are ordered iff no later batch holds an object "
                      "sorting before one of an earlier batch (C07_apply_ordered_iff; witness C07_neg_apply_order_depends_on_page_size: "
                      "known finding C07-apply-order). C07_restrict: a listing only depends on the slice of the store under its prefix "
                      "(the driver replays on that slice). The model is tied to pkg/core by listing real stores (real API + real "
                      "descriptors at the real paths) with page sizes 1..2048 and concurrency 1..32 and comparing set and order.",
        "level_note": "Trusted: Lean kernel, harness and driver, the reference object store (memstore: start-key tokens, sorted items). "
                      "The Go code is modelled by hand (goroutine pipelines as sequential stages; the completion order of a batch is an "
                      "arbitrary permutation). Interruptions (done channel) and store errors are not modelled; descriptors are assumed "
                      "to carry the id of their path. Label versions (WithLabelVersions) need a versioned store and are not covered.",
        "trusted": ["memstore implements the KeysPrefix contract of DESIGN 3.1 (sorted items, start-key token, next = first item not returned)"],
        "assumptions": ["repository, label, diamond and split names contain no '/'",
                        "every key under a listed prefix has the documented shape (otherwise the Go code returns a parse error)",
                        "an object exists iff its descriptor exists (a diamond / split: its running descriptor, as DiamondExists does)",
                        "start times are non-zero (the Less of diamonds/splits falls back to ids otherwise); ties of the sort field "
                        "are compared up to permutation (sort.Sort is not stable)"],
        "rule": "one evaluation = one listing call (kind, variant ListX / ListXApply, repo, page size, concurrency) on the real code, "
                "compared twice with the Lean model: the set of returned objects (w=set) and their order (w=seq); distinct = distinct "
                "w=seq operation text; the w=set lines are not counted",
    },
    "C13": {
        "sub": "c13",
        "lean_modules": ["DatamonVerif.Props.C13", "DatamonVerif.Props.C14"],
        "trivial": r"^(unlock|drop)$",
        "timeout_quick": 900, "timeout_thorough": 3000, "thorough_seeds": 1,
        "level_text": "Proof (partial): C13_purge_safe_partial — for EVERY history of uploads, bundle/repo deletions and squashes, index builds "
                      "(any chunk size >= 1, any interleaving of entry scans and ticker chunk uploads, any transient chunk Put failures, killed "
                      "after any chunk write leaving arbitrary chunks behind, resumed any number of times), index drops and delete-unused runs "
                      "(complete or interrupted, any transient GetAttr failures) in which delete-unused runs on an index whose last build "
                      "reported success and no upload made after a successful build re-uses a blob that is neither indexed nor newer than "
                      "the index, every committed bundle keeps all its root and leaf blobs. C13_resume_covers (a resumed build indexes every "
                      "scanned key whatever chunks the killed run left), C13_retry_idempotent. The full statement C13_purge_safe_full is "
                      "REFUTED by C13_neg_dedup_no_touch (known finding C13-dedup-no-touch: cafs does not touch a deduplicated blob). The "
                      "theorems are stated for the configuration Cfg.code computed from facts regenerated from purge.go on every run "
                      "(C13_code_cfg by decide); three further defects were repaired (fix: commits) and keep a decide-checked negation witness.",
        "level_note": "Partial: the clause 'every bundle whose upload started after the index' fails when that upload deduplicates against an orphaned old blob "
                      "(recorded finding, replayed on the implementation on every run). Modelled, not verified: blob keys as numbers with the hygiene "
                      "hypothesis wfEntries (a root determines its leaves, no root key is a leaf key: true of cafs unless BLAKE2b collides); one "
                      "monotone clock shared by the process and the store (the harness keeps >= 3 ms between phases and records only order); pebble "
                      "behaves like a sorted map; a store call is atomic; a crash is modelled in-process (every store call after the k-th chunk write "
                      "returns a permanent error); uploads concurrent with an index build are outside the statement and not generated; backoff "
                      "timing is not modelled (transient = finitely many failures). Trusted: Lean kernel, facts translator, harness, driver, memstore.",
        "trusted": ["cockroachdb/pebble behind core.kvStore behaves like a sorted map with SetIfNotExists/Set",
                    "harness/internal/c13store (fault and crash injection) and harness/internal/memstore (reference object store, wall-clock mode)"],
        "assumptions": ["no BLAKE2b collision among the keys of a history (wfEntries)", "update times of the blob store and the purge process come from one monotone clock",
                        "transient failures are finite: every retried call eventually succeeds within the backoff budget",
                        "no upload runs concurrently with an index build (the property excludes them)"],
        "rule": "one evaluation = one operation (upload, index build/resume, drop, delete-unused, download of one committed bundle) executed on the real "
                "pkg/core code on the reference store with the real pebble KV and compared with the Lean model's prediction (ok/err class per command, "
                "same/differs/fails per download); directed minimal histories of every repaired defect and the exhaustive kill-after-every-chunk-write "
                "sweep come first, random histories after; distinct = distinct operation text",
    },
    "C14": {
        "sub": "c14",
        "lean_modules": ["DatamonVerif.Props.C14"],
        "trivial": r"^(unlock|drop)$",
        "timeout_quick": 900, "timeout_thorough": 3000, "thorough_seeds": 1,
        "level_text": "Proof: C14_index_exact (for every chunk size n >= 1, every interleaving of entry scans and ticker driven chunk uploads and every "
                      "sequence of transient Put failures the union of the uploaded chunks = roots + leaves of the scanned entries, every chunk has "
                      "<= n keys, the until-a-chunk-adds-nothing loop ends with the whole KV uploaded; C14_index_exact_bundles, "
                      "C14_index_schedule_independent), C14_deleteUnused_exact / C14_deleted_iff (deleted <=> present, not indexed, not newer than the "
                      "index time; times unchanged), C14_lock_exclusive / C14_lock_one_winner (every interleaving of non-forced attempts: exactly the "
                      "first succeeds, none while held; C14_lock_forced), all for Cfg.code computed from facts regenerated from purge.go on every run. "
                      "The index chunks, the chunk sequence and the set of deleted blobs of the real code are compared with the model's on every run.",
        "level_note": "Modelled, not verified: keys as numbers with wfEntries (no BLAKE2b collision between a root and a leaf key, a root determines its leaves); "
                      "chunk size 0 is outside the theorem (C14_neg_chunk_size_zero: nothing is indexed; the CLI never passes 0); one lock attempt = one atomic "
                      "create-if-absent Put (fact purgeLockNoOverwrite); the ticker driven chunk boundaries are compared as a set + size bound only. "
                      "A rebuild used to keep the trailing chunks of a longer previous index (C14_neg_stale_chunks): repaired by a fix: commit. "
                      "Corrupted root blobs (indexed without leaves by design) are outside the no-fault statement. Trusted: Lean kernel, facts translator, harness, driver, memstore.",
        "trusted": ["cockroachdb/pebble behind core.kvStore behaves like a sorted map", "memstore Put with NoOverWrite is an atomic create-if-absent (GCS precondition)"],
        "assumptions": ["no BLAKE2b collision among the keys of a history (wfEntries)", "index chunk size >= 1", "blob update times and the index time come from one monotone clock"],
        "rule": "one evaluation = one operation (upload, index build, drop, delete-unused, concurrent or sequential lock acquisitions, unlock) executed on the real "
                "pkg/core code and compared with the Lean model: exact sorted key list of all index chunk files, chunk-by-chunk sequence when the ticker is off, "
                "size bound, exact set of deleted blobs, number of successful lock acquisitions; distinct = distinct operation text",
    },
    "C15": {
        "sub": "c15",
        "race": True,
        "trivial": r"^never-trivial$",
        "timeout_quick": 1500, "timeout_thorough": 3400,
        "level_text": "Proof: for ANY number of programs of atomic store writes that are pairwise compatible (different keys, or the same "
                      "value: content-addressed blobs, fresh bundle/split ids, distinct labels) and ANY interleaving, the final store "
                      "answers every read like the sequential run (C15_noninterference, via C15_compatible_commute), so every operation's "
                      "result is what it produces alone. Randomised concurrent workloads (2..16 goroutines, heavy content overlap: uploads, "
                      "downloads, label sets, split uploads + commits) run under the Go race detector; every result is compared with the "
                      "sequential Lean model of that operation (the C04 model). PARTIAL for the clause 'no data race occurs in the process': "
                      "that is a statement about the Go memory model which no executable Lean model can exhibit; the race detector run is "
                      "evidence attached to the correspondence run (a race report aborts the case and is reported as a violation), not a proof.",
        "level_note": "Trusted: Lean kernel, harness+driver, memstore, the Go race detector (for the monitored clause only). One store call = one "
                      "atomic step; goroutine interleaving inside one operation is covered by C02 (flush order) and C04 (arrival order).",
        "trusted": CAFS_TRUSTED + ["Go race detector (evidence for the data-race clause, not a proof)"],
        "assumptions": ["concurrent operations use fresh bundle / split ids and distinct label names (compatible footprints)",
                        "the Found/duplicate flag legitimately depends on the interleaving and is not part of an operation's result"],
    },
    "C06": {
        "sub": "c06",
        "trivial": r"^never-trivial$",
        "timeout_quick": 1200, "timeout_thorough": 3400,
        "level_text": "Proof: for every store, every upload (any number of blobs and index files) and EVERY crash prefix of its write "
                      "sequence, no bundle changes visibility and no other metadata key changes before the descriptor lands "
                      "(C06_upload_invisible_until_done), the bundle is visible and complete afterwards (C06_upload_visible_when_done), "
                      "existing metadata keys keep their values under any later writes because metadata writes are create-if-absent "
                      "(C06_immutable_once_visible/_under_crash), a label set is one atomic write (C06_label_atomic); the write order and "
                      "the create-if-absent flags are facts regenerated from pkg/core on every run (C06_facts). The real upload, label set "
                      "and diamond commit are crashed at every store write (before/after it lands) and list/latest/labels/download of every "
                      "bundle plus a retried operation are compared with what the theorems demand.",
        "level_note": "Trusted: Lean kernel, facts translator, harness+driver, memstore (a single store Put is atomic: the store contract). "
                      "Keys are structured values in the model; their rendering to distinct path strings is C20's theorem.",
        "trusted": ["a single store Put is atomic (object-store contract)", "key rendering is injective (C20_render_disjoint)"],
        "assumptions": ["the new bundle's id is fresh", "a crash is a prefix of the operation's store writes; reads after the crash are made by a new process",
                        "a retried diamond commit after bundle.yaml landed is C12's known finding and is not replayed here"],
    },
    "C10": {
        "sub": "c10",
        "trivial": r"^squash .* repo=0 |^sv ",
        "level_text": "Proof: C10_squash_exact (for every well-formed repository, every N and every retain option: the committed bundles after "
                      "the squash are exactly the N most recent ones and those retained by a label / semver label; each keeps every metadata "
                      "key; every other bundle loses every key; the remaining labels are exactly those that did not point at a removed "
                      "bundle), C10_squash_keeps_latest (no hypothesis on the repository: leftovers of interrupted uploads anywhere), "
                      "C10_deleteBundle_terminates (the delete loop ends on every store). The listing by key only and the unguarded loop of "
                      "the code before the fix: commits are refuted (C10_neg_*, C10_oldloop_diverges_silent). The model is tied to pkg/core by "
                      "call-site facts regenerated on every run and by histories built with the real upload code killed at every mutating "
                      "store call, squashed by the real RepoSquash and compared with the model.",
        "level_note": "Trusted: Lean kernel, the facts translator, the harness, the reference store (memstore, both Delete conventions). "
                      "RepoSquash/DeleteBundle are modelled (hand-written functional model), not verified directly; store errors other than "
                      "'missing key' and concurrent writers during a squash are not modelled; 'downloadable with unchanged content' is the "
                      "theorem that every metadata key of a kept bundle is unchanged plus the extracted fact that squash never calls the blob "
                      "store, and is observed by downloading every kept bundle before and after.",
        "trusted": ["github.com/blang/semver ParseTolerant decides what a semver label is: its verdict for every label name is an input of the model",
                    "KSUID order of bundle ids = order of creation (ids are built from chosen times)"],
        "assumptions": ["WF: index files of a committed bundle are numbered below its descriptor's count; labels point at ids that have keys",
                        "no store error other than 'key does not exist'; no concurrent upload or squash while a squash runs",
                        "at most one page of bundles/labels per listing batch (paging is C07/C08)"],
        "rule": "one evaluation = one repository history (0..40 real uploads, some killed at a chosen mutating store call, labels) dumped from "
                "the stores, squashed by core.RepoSquash and compared with the Lean model: ok/err/hang class, committed bundles, labels of "
                "committed bundles, download of every kept bundle vs. a pre-squash copy; the sv lines (semver recogniser, auxiliary) are "
                "evaluations without compared content; distinct = distinct state + squash options; squash of a missing repository is trivial",
        "timeout_quick": 900, "timeout_thorough": 3000,
    },
    "C05": {
        "sub": "c05",
        "trivial": r"^(diff|update) store=\w+ nA=0 nB=0 ",
        "thorough_seeds": 1,
        "timeout_quick": 600,
        "timeout_thorough": 3000,
        "level_text": "Proof: C05_diff_exact (for bundles with distinct paths the diff has every name once, a name is reported iff the path "
                      "was added, removed or changed its content key, every entry has the right type and existing/additional entries; "
                      "C05_diff_exact_general states the same for arbitrary entry lists with last-entry-wins), C05_diffMaps_perm / "
                      "C05_diff_perm (the diff as a set is independent of map iteration and entry order), C05_update_eq_download "
                      "(a destination holding a download of A, updated to B with the diff entries processed in ANY order, succeeds and holds "
                      "under every key exactly what a fresh download of B holds, .datamon metadata included; C05_update_perm_download: the "
                      "same as a permutation of key/bytes pairs) and C05_local_id (the id of the local copy is found whatever the listing "
                      "order and the file names); C05_update_localfs_partial: on a localfs directory the update does what the flat store "
                      "does whenever no path is a directory of another one (the complement of finding C05-localfs-dir-file). Path conventions, the compared field, the update action table and the NoOverWrite "
                      "flags are regenerated from the Go source on every run and checked by C05_facts_agree. The model is tied to the "
                      "code by running the real core.Upload / Publish / Diff / Update on pairs of trees with controlled overlap against "
                      "the object-store reference (memstore) and a localfs directory, comparing diff entries and the final destination "
                      "(every file's length and SHA-256 prefix, metadata files, byte-equality with a fresh download) with the model.",
        "level_note": "Trusted: Lean kernel (axioms propext, Classical.choice, Quot.sound), facts translator, harness and driver. Modelled, not "
                      "verified: the Go code (hand-written functional model). File contents are abstract (content key -> bytes; C01-C03 "
                      "relate keys and bytes); the YAML decoding of the local metadata into the entry list A is not modelled (the harness "
                      "reads A from the archive and checks core.Diff, which decodes the local copy, against it). Concurrency is modelled "
                      "as an arbitrary ORDER of whole per-entry operations (the entries have pairwise distinct keys). On localfs a "
                      "file<->directory change between A and B is outside the theorem (flat key space) and fails in the code: recorded "
                      "finding C05-localfs-dir-file with Lean witnesses C05_neg_localfs_*.",
        "trusted": ["memstore = object-store semantics (flat keys, Delete of a missing key fails); localfs through afero.OsFs"],
        "assumptions": ["paths within one bundle are pairwise distinct (C05_neg_duplicate_paths_order shows the diff is order dependent otherwise)",
                        "no bundle entry is a .datamon/*.yaml path (never uploaded: genFileRe, checked in C05_facts_agree)",
                        "bundle ids contain no '-' and no newline (KSUIDs are alphanumeric); at most 2^63 file lists",
                        "the destination holds exactly a previous download of A (no extra or modified files)"],
        "rule": "one evaluation = one core.Diff or core.Update call on a (tree A, tree B, destination store) triple whose result was compared "
                "with the Lean model (diff: sorted entries with both bundle entries; update: ok/err, every destination file as "
                "path|length|sha256-prefix, metadata files, equality with a fresh download); distinct = distinct case text + line; "
                "pairs of two empty trees are trivial",
    },
    "C09": {
        "sub": "c09",
        "lean_modules": ["DatamonVerif.Props.C09", "DatamonVerif.Props.C09Crash"],
        "trivial": r"paths=-$",
        "level_text": "Proof: C09_create_unique (any number of creators of one name, every order of their single atomic no-overwrite Put: exactly one "
                      "ok, the stored descriptor is the winner's), C09_delete_exact (descriptor, every visible bundle with all its file lists, every "
                      "label gone; every key of another repository untouched; nothing created or modified), C09_rename_exact (same ids, descriptors, "
                      "file lists and labels under the new name and nothing else there; old name removed; others untouched), C09_deleteEntries_exact "
                      "(every file list of every visible bundle = former entries, in order, minus the paths; all else unchanged) for a model that works "
                      "on the real key strings by prefix listing like the Go code; key templates, CreateRepo's single NoOverWrite Put, ValidateRepo's "
                      "classes and DeleteRepo's bundle options are discharged on facts regenerated from the sources on every run. The model is tied to "
                      "pkg/core by replaying, from the dumped metadata state, every operation of random multi-repository histories and comparing the "
                      "full state DIFF grouped by owning repository (GetArchivePathComponents), plus ListBundles of every repository."
                      " Round 2: C09_delete_crash_rerun (DeleteRepo killed at any store delete of its bundle phase and run again leaves nothing; invariant over the deletion discipline, order regenerated from delete.go); DeleteRepo crash sweeps and RenameRepo under one failing call are judged.",
        "level_note": "Trusted: Lean kernel, facts translator, harness (memstore = GCS semantics: atomic create-if-absent Put, Delete of a missing key "
                      "fails). Values are abstracted to the fields the operations read plus a hash of the rest. The frame clauses need repository names "
                      "without '/', which is all CreateRepo creates (validName_noSlash; necessity: C09_neg_frame_needs_noSlash); rename needs an unused "
                      "new name (C09_neg_rename_needs_fresh). Error paths that stop half-way are modelled only up to ok/err (auxiliary in the trace).",
        "trusted": ["memstore (reference object store: atomic no-overwrite Put, Delete/Get of a missing key = ErrNotExists)",
                    "abstraction of YAML values: compared fields + hash of all remaining fields"],
        "assumptions": ["repository names contain no '/' (enforced by ValidateRepo for every name CreateRepo / RenameRepo creates)",
                        "rename: nothing is stored under the new name beforehand (RenameRepo itself only checks the descriptor)",
                        "a bundle is 'of the repository' when its descriptor exists (file lists of never-committed uploads are outside the statement)",
                        "the object store executes each Put atomically (concurrent creators: one store call each)"],
        "rule": "one evaluation = one operation (create / delete / rename / delete-files / one schedule of concurrent creators / one truly parallel "
                "create race) run on the real pkg/core and compared with the Lean model started from the same dumped state; distinct = distinct "
                "operation text; delete-files with no path is trivial",
    },
    "C12": {
        "sub": "c12",
        "thorough_seeds": 1,
        "timeout_quick": 1500,
        "timeout_thorough": 3000,
        "level_text": "Proof: the diamond protocol AS IT IS is a transition system over a create-if-absent store (Model/Diamond.lean: commit, cancel and "
                      "split-run actors, one step = one protocol-relevant store call, schedule = list of actor indices, crash = never scheduled "
                      "again). Proved for any number of actors, any schedule length and any crash points: C12_done_unique_immutable (terminal and "
                      "split-done descriptors written at most once, never rewritten, one winner each), C12_refused_after_terminal, "
                      "C12_done_split_not_rerun, C12_commit_content + C12_commit_listing (bundle = merge of the generations recorded in split-done "
                      "for the splits done when the commit listed them; a run that lost the split-done race contributes nothing), "
                      "C12_at_most_one_bundle_serial / _crash_aware (at most one bundle unless a commit passes its ready check while another commit "
                      "sits in its section or a crashed commit left bundle.yaml without diamond-done), C12_crash_is_never_scheduled. The headline "
                      "'at most one bundle' is REFUTED outside that domain by C12_neg_overlapping_commits and "
                      "C12_neg_crash_before_done_then_retry (decide); both reproduce on the real code (known findings). The no-overwrite flags and "
                      "the call order of the four entry points are facts regenerated from the Go sources on every run.",
        "level_note": "Partial: one store call is one atomic step; the goroutines inside one API call (parallel descriptor/index fetches, blob "
                      "uploads) are not modelled beyond the order of their protocol-relevant calls; merge conflict handling is C11's subject "
                      "(harness uses disjoint or identical files across splits). Trusted: Lean kernel, facts translator, harness + scheduler store, "
                      "memstore as the create-if-absent store. The real pkg/core entry points are driven call by call through seeded and exhaustive "
                      "interleavings with crashes and truly parallel runs; every trace must be accepted by the model's actor automata.",
        "trivial": r"^(term|splits)$",
        "trusted": ["memstore implements put-if-absent atomically (GCS precondition semantics)",
                    "calls classified as protocol-irrelevant (repo checks, blobs, immutable descriptors, bundle index files) commute with every other call"],
        "assumptions": ["files of different splits have different paths or identical content (no merge conflicts: C11)",
                        "one page of keys per splits listing (fewer than 1024 keys under the diamond)",
                        "a crash = every further store call of that API call fails; a retry is a fresh API call"],
        "rule": "one evaluation = one compared line: every protocol-relevant store call of every actor (`ev`: call kind + result class must be "
                "what the model's automaton does next), every API result class (`fin`), the final diamond state, split states, bundles with "
                "contents (`term`/`splits`/`bundles`), and the headline `amo` (at most one bundle; inside a finding trigger the line is tagged). "
                "distinct = distinct operation text (the `amo` line carries the whole schedule)",
    },
    "C18": {
        "sub": "c18",
        "trivial": r"^(gen|store) ops=$",
        "thorough_seeds": 1,
        "timeout_quick": 900,
        "timeout_thorough": 3000,
        "level_text": "Proof (Lean 4, all programs, no bound on length, names or sizes) about two models. (1) The inode generator of "
                      "pkg/fuse/inode.go and the reference counting of the inode store (refCount / Nlink / shouldDelete / ForgetInode): "
                      "C18_inode_gen_unique (an allocation never returns a number in use, after any alloc/free history), "
                      "C18_store_inodes_unique (no two nodes of the store share an inode whatever is created, looked up, unlinked and "
                      "forgotten), C18_linked_never_reclaimed (a linked node survives every forget), with refutations for the unrepaired "
                      "code (C18_neg_inode_gen_old, C18_neg_linked_dir_reclaimed_old). (2) The reference tree PosixTree with step = the "
                      "POSIX answer (errno, kind, size, inode, bytes, directory entries) of every FUSE operation the property names: "
                      "C18_wf_run / C18_names_unique / C18_inode_unique / C18_tree_shape (every program keeps names unique per directory, "
                      "inodes unique among live nodes, every entry inside a linked directory), C18_remove_exactly_one and "
                      "C18_rmdir_only_empty, C18_rename_preserves_contents, C18_write_changes_one, C18_trunc_changes_one, "
                      "C18_read_after_write, C18_held_stays (a referenced inode stays addressable until forgotten), C18_forget_keeps_tree, "
                      "and C18_commit_eq_tree (the recursive commit walk lists every file of the visible tree exactly once, path and bytes, "
                      "nothing else). The real fsMutable is run against the reference tree operation by operation (random programs "
                      "following the kernel protocol, inodes as ranks), followed by an audit of its three tables, Commit, and a download of "
                      "the bundle; the generator and the store are compared in raw inode numbers / reference counts.",
        "level_note": "Partial: the reference tree is the specification (what POSIX demands at the fuseutil.FileSystem interface), not a "
                      "model of the Go tables; lookupTree / readDirMap / iNodeStore are tied to it by the differential runs and by the "
                      "table audit (hook), the generator and the store's reference counting by their own models and raw-number traces. "
                      "The kernel side of FUSE and jacobsa/fuse are not modelled: the harness plays the kernel (lookup counts, the checks "
                      "the VFS makes before calling a file system). Backing files are bytes on the local disk. No concurrency. "
                      "Trusted: Lean kernel, harness, driver, facts translator, the in-memory object store the commit writes to.",
        "trusted": ["harness/internal/memstore (object store the commit uploads to); cafs / core upload and download are exercised, not modelled"],
        "assumptions": [
            "kernel protocol: every inode passed to an operation is one the kernel holds a lookup reference for; a forget never exceeds the lookups received; the root is never forgotten",
            "checks the Linux VFS makes before it calls a file system are made by the harness: parents of lookup/unlink/rmdir/rename are linked directories "
            "(create/mkdir also get files as parent: ENOTDIR), unlink only on files and rmdir only on directories, rename only between entries of the same kind, "
            "never onto itself, never a directory below itself; no read/write/truncate on directories; no empty writes. One program in five ends with ONE operation "
            "outside these checks; the mount's answers there differ from POSIX and are recorded as the four vfs-* known findings (not reachable through the kernel)",
            "names are single path components from a 4-name alphabet; file contents stay below 1 KiB (the cafs writer hangs on a Write larger than a leaf: C01)",
            "operations are issued one at a time (no concurrent FUSE requests)",
            "bundle entry names are compared without their leading '/' (a mutable mount commits '/a/f' where an upload commits 'a/f'; both download to a/f)",
        ],
        "rule": "one evaluation = one operation line (an FS operation of a program, an audit, a commit, a download, or one whole generator / store history) "
                "whose implementation result was compared with the Lean model's; distinct = distinct operation text; empty histories are trivial",
    },
    "C08": {
        "sub": "c08",
        "trivial": r"^(mkrepo|bundle) ",
        "level_text": "Proof: the object-store model of UploadDescriptor / DownloadDescriptor / ListLabels / DeleteLabel refines the map "
                      "repo -> name -> bundle (C08_refines for every operation, C08_history for every history from the empty context, for "
                      "every name, prefix and unicode oracle): get returns the last assignment or not-found (C08_get_last_set, "
                      "C08_get_after_delete), prefix listings are exact and duplicate-free (C08_list_exact), DeleteBundle removes exactly the labels last set to the deleted bundle whatever their number (C08_delete_bundle_labels), set/delete change no metadata "
                      "key and no other label, also across repositories whose names are prefixes of each other (C08_label_frame, "
                      "C08_label_frame_labels), every accepted name is afterwards resolved and listed (C08_accepted_resolvable). Path "
                      "templates, the label-name rule, the validation call site and the label store are facts regenerated from the Go "
                      "source on every run (C08_facts). The real pkg/core is run on the reference object store over random histories with "
                      "hostile names and prefixes and compared operation by operation (result class, resolved bundle rank, sorted listing, "
                      "frame check from store snapshots) with the compiled model."
                      " Round 2: C08_list_race_sound (keys scanned and descriptors fetched in different states); listings under a failing descriptor read / a concurrent delete are judged.",
        "level_note": "Trusted: Lean kernel, facts translator, harness, memstore as the object-store contract (GCS semantics: overwrite put, "
                      "delete of a missing key = not found, prefix listing). Modelled, not verified: the Go code itself; YAML round-trip of the "
                      "descriptor is taken as the identity; paging / worker pool / per-batch sort only permute a listing and are abstracted "
                      "(the harness varies the batch size); label versions (versioned buckets) are out of scope. Listing prefixes of the "
                      "form <name>/<prefix of label.yaml> are excluded (known finding C08-prefix-slash).",
        "trusted": ["harness/internal/memstore is the storage.Store contract datamon is written for (GCS semantics)",
                    "gopkg.in/yaml.v2 round-trips label names and bundle ids (exercised with hostile names, not proved)"],
        "assumptions": ["label names and prefixes are valid UTF-8", "repositories are created through core.CreateRepo (validated names)",
                        "operations of one history are sequential (concurrent label writers are not part of C08)",
                        "the vmetadata store is used unversioned (label versions / `#` version keys are not modelled)"],
        "rule": "one evaluation = one label operation (set / get / del / list, plus the final audit of every repo and every name used) "
                "run on the real pkg/core over memstore and compared with the Lean model's result; distinct = distinct operation text; "
                "mkrepo / bundle set-up lines are trivial",
        "thorough_seeds": 2,
    },
    "C11": {
        "sub": "c11",
        "trivial": r"^(merge|mergetie) mode=\S+ arr=[^;,]*$",
        "level_text": "Proof (Lean 4, every input, every arrival order = List.Perm of the sequence of split entries, all four modes) for: "
                      "latest write wins in the main tree (C11_main_latest; C11_main_maximal without the distinct-times hypothesis), the main tree "
                      "is the same in every mode (C11_main_tree_mode_independent, ..._mode_order_independent), ignore mode adds nothing "
                      "(C11_ignore_adds_nothing), identical contents never count as conflicts and every deconflicted entry is a genuine conflict "
                      "filed under its own split (C11_identical_never_conflict, C11_conflict_entry_sound, C11_flag_sound), forbid mode fails "
                      "exactly on a conflict (C11_forbid_iff_conflict, C11_forbid_order_independent), the flags (C11_flag_iff_conflict), "
                      "single-split diamond = plain upload (C11_single_split_eq_upload, C11_single_split_chunks). Partial (domain = outside the "
                      "trigger of the known finding merge-identical-copies): the whole commit equals the specification and does not depend on the "
                      "arrival order (C11_merge_eq_spec_partial, C11_merge_order_independent_partial / _batches); refuted inside the trigger by "
                      "C11_neg_order_dependent_identical_losers / _identical_winner, and for equal upload times by C11_neg_tie_order_dependent "
                      "(all by `decide`). The model (Model/Merge.lean) is the code after two fix: commits; the shape of the source it depends on "
                      "is re-extracted on every run (C11_facts_source_shape). The real mergeSplits is driven through a hook with exact arrival "
                      "orders (all permutations of up to 4-5 batches, samples above), and real splits are uploaded and committed end to end.",
        "level_note": "Trusted: Lean kernel (axioms propext, Classical.choice, Quot.sound), the facts translator, the harness and driver, "
                      "go-immutable-radix as a sorted map. The Go code is modelled, not verified directly. The model keeps main and deconflicted "
                      "paths in two maps, i.e. assumes that `.conflicts/<split>/<path>` renderings do not collide (C11_deconflict_injective: true for "
                      "split IDs without '/'; uploads filter out paths under .conflicts/ and .checkpoints/). Upload times of one path are assumed "
                      "distinct (equal times: only outcome class, flags and the set of main paths are compared) and a split lists a path once. "
                      "End-to-end runs do not control the order of the parallel index downloads.",
        "trusted": ["hashicorp/go-immutable-radix behaves like a sorted map keyed by the rendered path"],
        "assumptions": ["two uploads of one path by different splits never carry the same nanosecond timestamp (TimesDistinct); with equal times "
                        "the first arrival stays in the main tree and the property does not determine the winner",
                        "a split lists a path at most once (SplitUnique): its file list is the key listing of one upload generation",
                        "no uploaded path lies under .conflicts/ or .checkpoints/ and split IDs contain no '/' (rendering of deconflicted paths is injective)",
                        "every entry carries a non-zero timestamp (the merger panics otherwise: internal safeguard of the code)"],
        "rule": "one evaluation = one (input, mode, arrival order) run on the real merger (hook: Diamond.mergeSplits fed from a pre-filled "
                "indexer channel; e2e/single: real split uploads + Diamond.Commit + download) whose outcome class, conflict flags and sorted "
                "(path -> hash:size) list were compared with the specification computed by the Lean model; distinct = distinct operation text; "
                "single-upload inputs are trivial. After `##` the implementation's result is also compared with the CODE model's result "
                "(aux_only_differences = 0 means the model is exact, inside the known-finding region too).",
        "thorough_seeds": 2,
    },
    "C16": {
        "sub": "c16",
        "lean_modules": ["DatamonVerif.Props.C16", "DatamonVerif.Props.C16Put"],
        "trivial": r"^keys$|^walk p= d= n=[123]$",
        "level_text": "Proof: C16_store_refines_map (put/get/has/delete of the store contract = the map specification, all histories), "
                      "C16_localfs_refines / C16_localfs_refines_map (the local file system model, with its directories, MkdirAll, O_EXCL and Remove, "
                      "is indistinguishable from the contract on key universes where no key is a proper path-prefix of another), "
                      "C16_excl_unique / C16_excl_outcome_valid (any schedule of atomic create-if-absent writers: exactly one wins and its bytes are stored), "
                      "C16_listing_mem / C16_listing_sorted / C16_rollup_cut / C16_walk_order_irrelevant (listing = exactly the keys or immediate "
                      "sub-prefixes, each once, lexicographic, whatever the walk order), C16_paging_complete / C16_keysPrefix_paging (every page "
                      "size >= 1: following next from \"\" yields exactly the listing). The models are tied to localfs (afero memory FS and a real "
                      "directory) and to the harness reference store by replaying the same random histories on all of them and on the Lean models; "
                      "races of 2..16 real goroutines are judged by the theorem's predicate."
                      " Round 2: C16_put_retry_exact (localfs.Put under any write-fault schedule and its retry policy: success means the exact bytes; Model/PutRetry) after two genuine defects were found and fixed (retry from a consumed source, PipeIO losing the write error).",
        "level_note": "Partial: the operating system / afero (O_EXCL atomicity, O_TRUNC, directory semantics) is modelled, not verified; a "
                      "non-exclusive Put is not atomic on a real file system (concurrent readers may see a truncated file) and is outside the theorems; "
                      "keys are clean relative paths. Trusted: Lean kernel, harness, driver, facts translator.",
        "trusted": ["the operating system's open(O_CREAT|O_EXCL) is atomic; afero.OsFs/BasePathFs pass calls through",
                    "Go's sort.Strings / strings.HasPrefix / strings.Index on valid UTF-8 agree with Lean's code-point order and list-of-Char search"],
        "assumptions": ["keys are clean relative paths (non-empty components, none '.' or '..', no leading or trailing '/')",
                        "no key ever used is a proper path-prefix of another key ever used (a file and a directory cannot share a path; "
                        "directories outlive their files: C16_neg_leftover_directory)",
                        "page size >= 1; no fault injection (I/O errors) and no concurrent non-exclusive writers"],
        "rule": "one evaluation = one store operation (put/get/has/del/list/walk/keys) or one race outcome whose implementation result was "
                "compared with the Lean model's; every history runs on localfs-memory, localfs-disk, memstore and memstore-delok; "
                "distinct = distinct operation text; the closing keys / whole-store walk lines of a history are trivial",
        "timeout_quick": 600,
        "timeout_thorough": 3000,
    },
    "C20": {
        "sub": "c20",
        "trivial": r"^(build k=(PurgeLock|ReverseIndex|ReverseIndexPrefix|GetArchivePathPrefixToRepos|GetArchivePathPrefixToContexts) a=$|collide |cls )",
        "level_text": "Proof for paths, reserved-path detection and name validation: C20_parse_render (GetArchivePathComponents after every "
                      "GetArchivePathTo*/GetPathToContext builder returns exactly the components, for all slash-free names, all ids accepted by "
                      "ksuid.Parse, every index), C20_fileIndex, C20_render_disjoint (equal paths => same kind and same components), "
                      "C20_other_builders_disjoint, C20_consumable_roundtrip_desc/_list (+ _builders_total, _disjoint), C20_isGenerated_exact "
                      "(genFileRe accepts exactly .datamon/.conflicts/.checkpoints at the root and below), C20_validateRepo_exact / "
                      "C20_validateLabel_exact / C20_ascii_alphabets, C20_validated_label_roundtrip, C20_conflict_paths_reserved, "
                      "C20_reverse_index_roundtrip. The theorems are proved for any template with the expected segment structure and "
                      "discharged by `decide` on the path templates, constants and regexp literals regenerated from pkg/model on every run "
                      "(C20_facts_*). PARTIAL for 'every descriptor reads back equal': decided by the differential run only (real yaml.v2 "
                      "round trip of randomly populated repo, bundle, file-list, label, diamond, split, context and WAL descriptors).",
        "level_note": "Trusted: Lean kernel, the facts translator (extract/c20.go: straight-line Sprint/Sprintf/+/path.Join builders only, "
                      "anything else aborts), the harness and driver. Modelled by hand and tied differentially: GetArchivePathComponents, "
                      "GetConsumableStorePathMetadata, IsGeneratedFile (direct predicate for the regexp, literal compared), path.Clean, "
                      "ksuid.Parse (segmentio/ksuid v1.0.4: 27 bytes, value < 2^160, digits not validated). Letter/decimal-digit status of "
                      "non-ASCII runes is a parameter of the validation model (supplied per name from Go's unicode tables); the Hyphen and Pc "
                      "tables are concrete and compared with Go's on every rune (thorough). The YAML codec is an external library: that "
                      "clause has no Lean model (no non-circular statement is possible) and is reported as differential evidence only.",
        "trusted": ["gopkg.in/yaml.v2 (descriptor clause is differential only)", "Go unicode tables for non-ASCII letters/digits (oracle per name)",
                    "regexp literals are compared with the ones the direct predicates were written for, not interpreted"],
        "assumptions": ["names and paths are valid UTF-8", "names contain no '/' (guaranteed for validated repo and label names: C20_validated_label_roundtrip); "
                        "diamond and generation ids are accepted by ksuid.Parse; split ids are non-empty; context names are plain path components",
                        "consumable bundle ids contain no newline; descriptor ids do not contain '-bundle-files-' (KSUIDs contain no '-')",
                        "descriptor timestamps lie in years 1..9999 in their own zone (RFC 3339)"],
        "rule": "one evaluation = one builder call, parser call, predicate call, validation call or descriptor round trip on the real code, "
                "compared with the Lean model (judge lines rt/crt/chunk: real parser on the real builder's path vs. the components the "
                "theorem demands); distinct = distinct operation text; constant builders and table/summary lines are trivial",
    },
    "C19": {
        "sub": "c19",
        "lean_modules": ["DatamonVerif.Props.C19", "DatamonVerif.Props.C19Slots"],
        "trivial": r"^order$",
        "level_text": "Proof: for every history of appends (any payloads, any - even colliding - random draws, concurrent appends in the "
                      "order of their puts; C19_appends_commute: that order does not matter) C19_tokens_unique (pairwise distinct tokens, from the "
                      "no-overwrite put whose flag is extracted from Add's call site), C19_token_order / C19_token_order_history (generator times "
                      "one second apart give tokens in time order, as numbers and - C19_ksuid_string_lt_iff, proved for the 27-digit base-62 "
                      "rendering - as strings), C19_list_exact (for every max > 0 and EVERY completion order of the parallel fetches the result is "
                      "exactly the first min(max, maxEntriesPerList) stored entries from the back-dated start key, in token order, payloads "
                      "unchanged, no panic), C19_lookback_complete and the history-level C19_wal_returns_appended. The look-back (2 x "
                      "GetExpirationDuration), the page cap, the zero start payload, the empty prefix and the no-overwrite flag are regenerated "
                      "from pkg/wal on every run. The model is tied to pkg/wal by differential runs of the real Add/ListEntries on the "
                      "reference object store (logical clock, 1..16 concurrent appenders, forced token collisions, unfetchable blobs).",
        "level_note": "Trusted: Lean kernel, the facts translator, the harness and its memstore (the store contract: start-key listing in key "
                      "order, create-if-absent, monotone update times). Modelled, not proved: the YAML decoder of the reader is a parameter `dec`; "
                      "the theorems need NoSelfRef (no stored blob is an entry descriptor naming its own key with a different payload), which Add "
                      "cannot violate short of guessing the 128 random bits of its future token (C19_neg_selfref_payload shows the effect). "
                      "Randomness of KSUID payloads is not modelled: uniqueness comes from the no-overwrite put. Goroutine leaks of ListEntries "
                      "(early returns) and the unused MaxConcurrency option are outside the property.",
        "trusted": ["harness/internal/memstore implements the store contract the log is written against (GCS semantics)",
                    "segmentio/ksuid v1.0.4: String() is the 27-digit base-62 form of the 160-bit number (three library outputs are checked by `decide` in Props/C19.lean)"],
        "assumptions": ["the object store lists keys in byte order from a start key and Put(NoOverWrite) is create-if-absent (store contract)",
                        "update times of the token generator object never go back (store contract)",
                        "KSUID time does not underflow: lookback <= time(from), i.e. from-tokens later than 2014-05-13 + 20 min (C19_neg_lookback_underflow outside)",
                        "no payload is a YAML entry descriptor naming the token it is about to be given (NoSelfRef)"],
        "rule": "one evaluation = one operation of a case run on the real pkg/wal in a worker process and compared with the Lean model: "
                "`add` (ok / exists for a forced collision, token time within the generator clock interval of its batch), `list` (the returned "
                "entries as add-index:length:FNV-1a of the payload, in order; `next` is auxiliary), `order` (all stored tokens sorted as STRINGS "
                "vs the model's numeric order). distinct = distinct operation text; the `order` line of a case is not counted as distinct input",
        "timeout_quick": 600,
        "timeout_thorough": 3000,
    },
    "C17": {
        "sub": "c17",
        "trivial": r"^(mount|walk|od |ga x=|rd x=|rf x=)",
        "level_text": "Proof: for every bundle whose entry paths are non-empty and prefix-free (any order, any number of entries, "
                      "any depth) the Lean model of populateFS / LookUpInode / GetInodeAttributes / ReadDir / ReadFile satisfies "
                      "C17_populate_ok (no table collision), C17_tree_exact (successive lookups succeed exactly on entries = files with "
                      "their size, proper ancestors = directories, and the root), C17_readdir_exact (listing table = immediate children, "
                      "each once, inode/kind as LookUpInode reports, offsets = position+1), C17_readdir_resume (any session of pages with "
                      "per-page buffers >= one dirent, resumed at the offset of any consumed dirent, from any valid offset, yields the "
                      "remaining children exactly once), C17_inode_unique / C17_getattr_exact, and C17_read_exact (ReadFile = "
                      "(content.drop off).take n in both mount modes; streamed = cafs ReadAt arithmetic over the leaves). Side conditions on "
                      "firstINode / link counts are discharged by `decide` on facts regenerated from pkg/fuse on every run. The model is "
                      "tied to the code by differential runs: random trees uploaded as real bundles, mounted in both modes, the "
                      "fuseutil.FileSystem object driven with random programs, every result compared with the model.",
        "level_note": "Trusted: Lean kernel, the facts translator, the harness (incl. its parser of the fuse_dirent wire layout) and driver. "
                      "Modelled, not verified: the Go code (hand-written functional model; tables as finite maps). Not modelled: the kernel "
                      "side of FUSE and jacobsa/fuse's server loop (the operation interface is the observation point), attribute "
                      "times/uid/gid/permission bits, cafs caching/prefetching/hash verification (C01-C03), core.Publish (C04). Paths are "
                      "lists of components: the correspondence path.Dir/path.Base = dropLast/last holds for clean relative paths only.",
        "trusted": ["fuse_dirent wire layout as written by jacobsa/fuse fuseutil.WriteDirent (parsed back by the harness)",
                    "reference object stores (harness/internal/memstore) and storage/localfs as staging area"],
        "assumptions": ["entry paths are clean relative paths (no empty, '.' or '..' component), pairwise distinct, none a proper prefix directory of another",
                        "the bytes stored for an entry have the length the entry records (upload, C01/C04)",
                        "buffers of a listing session hold at least one dirent (the kernel uses >= 4096 bytes; a name is <= 255 bytes)",
                        "pre-downloaded mode stages into a localfs directory as `datamon bundle mount` does"],
        "rule": "one evaluation = one file-system operation (LookUpInode, GetInodeAttributes, OpenDir, ReadDir page, whole listing "
                "session, ReadFile, full tree walk) executed on the real read-only file system object of a freshly uploaded and "
                "mounted random bundle and compared with the Lean model; nodes are addressed by path so raw inode numbers are "
                "auxiliary; distinct = distinct operation text; operations on unknown inodes, OpenDir, mount and walk lines are not "
                "counted as non-trivial",
        "timeout_quick": 300,
        "timeout_thorough": 1500,
    },
    "C01": {
        "sub": "c01",
        "trivial": r"content=gen:\d+:0 ",
        "lean_modules": ["DatamonVerif.Props.C01", "DatamonVerif.Props.C01Seq", "DatamonVerif.Props.C01Put", "DatamonVerif.Props.C01Delete"],
        "timeout_quick": 900, "timeout_thorough": 3400,
        "level_text": "Proof: theorems about the model of the cafs writer, Put and the three readers (all contents, leaf sizes, write "
                      "chunkings, read programs); model tied to pkg/cafs by differential runs of Put/Read/ReadAt/WriteTo on memstore."
                      " Round 2: the sequential Read(data) state machine itself (Model/CafsSeq: idx, open reader, readSoFar, lastChunk; blob-reader behaviour RMode as a parameter) with C01_readSeq_roundtrip / C01_put_then_readSeq for ANY buffer sizes, compared call by call; Fs.Delete and crash remnants in the model (C01_delete_then_put, Compat).",
        "level_note": "Trusted: Lean kernel, harness+driver, memstore as the store contract, the Lean BLAKE2b (tested against Go). "
                      "Not in the model: buffer pool, LRU pinning, prefetch goroutines, WriteTo parallelism (exercised by the harness only).",
        "trusted": CAFS_TRUSTED,
        "assumptions": ["the store's blob reader is one of the RMode behaviours of Model/CafsSeq.lean (EOF with or after the last bytes, "
                        "(0,nil) or (0,EOF) on an empty buffer at the end, short reads capped at k bytes); the Read theorems hold for every mode"],
    },
    "C02": {
        "sub": "c02",
        "trivial": r"content=gen:\d+:0 ",
        "lean_modules": ["DatamonVerif.Props.C02"],
        "timeout_quick": 900, "timeout_thorough": 3400,
        "level_text": "Proof: key = BLAKE2b tree root of the leaves (specKey) independent of chunking, flush completion order and store "
                      "content; idempotent duplicate put; frame; injectivity under the no-collision hypothesis. Keys of the real code are "
                      "compared with the Lean BLAKE2b tree hash on every put, store snapshots after every put.",
        "level_note": "Trusted: Lean kernel, harness+driver, memstore. BLAKE2b collision-freeness is a hypothesis; CRC32 collisions are ignored "
                      "(the CRC check of existsAndValidBlob is modelled as byte equality).",
        "trusted": CAFS_TRUSTED,
    },
    "C03": {
        "sub": "c03",
        "trivial": r"^never-trivial$",
        "lean_modules": ["DatamonVerif.Props.C03", "DatamonVerif.Props.C03Seq"],
        "timeout_quick": 900, "timeout_thorough": 3400,
        "level_text": "Proof: for EVERY store content (any fault), a verified read returns an error or exactly the stored bytes, under the "
                      "no-collision hypothesis on the pairs hashed. The implementation's outcome under sampled single-blob faults is judged "
                      "by the same predicate (error or exact bytes) evaluated in Lean."
                      " Round 2: C03_readSeq_sound (the Read state machine on an arbitrary store: EOF reached => exact content), call-by-call comparison on damaged stores; single-file download and a retrying destination are judged as well.",
        "level_note": "Trusted: Lean kernel, harness+driver, memstore. Faults are sampled in the correspondence run, universal in the theorem.",
        "trusted": CAFS_TRUSTED,
    },
    "C04": {
        "sub": "c04",
        "trivial": r"^(upload keys= |download sel=all => ok files=$)",
        "timeout_quick": 1200, "timeout_thorough": 3400,
        "level_text": "Proof: theorems about the model of bundle upload/download metadata flow (entries one-to-one with the uploaded "
                      "files, index-file batching and reassembly by position for every entries-per-file and arrival order, filtered and "
                      "single-file downloads, repeated and missing keys), over an abstract content store (C01/C02). Tied to pkg/core by "
                      "differential uploads/downloads on memstore and localfs with entries-per-file 1,2,3,7,1000."
                      " Round 2: C04_has_fault_same / C04_get_fault_fails (the source calls of an upload made explicit); the same upload with one transiently failing store call is judged (error or same entries).",
        "level_note": "Trusted: Lean kernel, harness+driver, memstore, yaml.v2 for descriptor encoding (names with YAML-significant "
                      "characters are exercised, not modelled). Goroutine fan-out is modelled as an arbitrary arrival order.",
        "trusted": CAFS_TRUSTED + ["gopkg.in/yaml.v2 round-trips bundle entries"],
    },
    "C21": {
        "sub": "c21",
        "trivial": r"^enc .* ps=$",
        "level_text": "Proof: C21_roundtrip_auto (decode . encode = the non-empty parameters + sleep flag, for every parameter set; separators "
                      "fresh by C21_separators_fresh; rejection characterised by C21_encode_rejects_iff), with the name/exclusion side "
                      "condition discharged by `decide` on facts regenerated from params.go on every run. The implementation's strings are "
                      "decoded by the Lean reference decoder that occurs in the theorem and compared with the parameters given.",
        "level_note": "Trusted: Lean kernel, the facts translator, the harness. The reference decoder is the documented format "
                      "(= deserialize_dict of hack/fuse-demo/wrap_datamon.sh); the zsh script itself is not executed. Values are valid UTF-8.",
        "trusted": ["reference decoder = documented format (first two characters are the separators); the shipped zsh decoder is not run"],
        "assumptions": ["values are valid UTF-8 strings", "bundle / database names are distinct (they key the environment variables)",
                        "pg DestBundleID and Contributor are not part of the environment format (never encoded by the code)"],
    },
    "C22": {
        "sub": "c22",
        "level_text": "Proof: theorem C22_tracker_exact (Lean 4, no bound on the number of writes, offsets or lengths) states the property "
                      "in full for the model of trackWrite/getRangeToRead, and C22_tracker_canonical / _order_independent / _idempotent show the markers depend only on the set of written offsets; the model is tied to pkg/filetracker by exhaustive small-scope "
                      "plus random differential runs of the real tracker against the compiled model.",
        "level_note": "Trusted: Lean kernel (axioms propext, Classical.choice, Quot.sound), the harness and driver, go-immutable-radix as a sorted map. "
                      "The Go code is modelled (hand-written functional model of the marker walk), not verified directly.",
        "trivial": r"w= ",
        "trusted": ["hashicorp/go-immutable-radix behaves like a sorted map (observed through its ordered walk)"],
        "assumptions": ["offsets and lengths are non-negative (negative offsets are rejected by getKey in the Go code)"],
        "rule": "one evaluation = one write history run on the real tracker (markers dumped, every offset below q queried) "
                "and compared with the Lean model; all histories of <=3 (quick) / <=4 (thorough) writes over a small "
                "offset/length space are enumerated, longer ones are random; distinct = distinct history+query text; "
                "the empty history is trivial",
    },
}
