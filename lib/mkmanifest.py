#!/usr/bin/env python3
"""Regenerates /verif/MANIFEST.json from lib/props.py (claimed checks) and the property list."""
import json, os, sys
ROOT = os.path.dirname(os.path.dirname(os.path.abspath(__file__)))
sys.path.insert(0, os.path.join(ROOT, "lib"))
from props import PROPS
base = json.load(open("/root/.vp/BASELINE.json"))
ids = [json.loads(l)["id"] for l in open(os.path.join(ROOT, "properties.jsonl"))]
hooks = [l.strip() for l in os.popen("git -C /repo log --format=%H --grep='^verif hook' ").read().split()]
checks, na = [], []
for pid in ids:
    c = PROPS.get(pid)
    if c is None or not c.get("claimed", True):
        na.append({"property_id": pid, "reason": (c or {}).get("na_reason", "no check built yet in this session; see DESIGN.md section 9 (work in progress, not a limit of the technique)")})
        continue
    checks.append({
        "property_id": pid,
        "quick_cmd": "./check %s --tier quick" % pid,
        "thorough_cmd": "./check %s --tier thorough" % pid,
        "evidence_file": "/verif/evidence/%s.json" % pid,
        "replay_cmd_template": "./check %s --replay {path}" % pid,
        "engine": "lean4-proof+correspondence",
        "level_claimed": {"category": c.get("level", "proof"), "text": c["level_text"], "design_ref": "DESIGN.md section 5, %s" % pid},
        "level_note": c["level_note"],
        "technique": c.get("technique", "Lean 4 theorems over an executable model + differential correspondence of the model with the Go code"),
    })
m = {
    "version": 1,
    "setup_cmd": "./setup.sh",
    "hooks": {"guard": "verif", "enable": "go build -tags verif (harness module with replace github.com/oneconcern/datamon => /repo)",
              "baseline_off_cmd": base["cmd"], "source_commits": hooks, "add_only": True},
    "engines": [{"name": "lean4-proof+correspondence", "path": "/verif/check",
                 "serves_properties": [c["property_id"] for c in checks],
                 "kind_free_text": "Lean 4 (kernel-checked theorems about executable models in lean/DatamonVerif) tied to the Go code by a regenerated facts file (extract/) and a differential harness (harness/) whose traces are replayed on the Lean model driver"}],
    "checks": checks,
    "not_applicable": na,
    "notes": "Every check: regenerate facts from /repo, lake build of the property's theorems, #print axioms audit, go build -tags verif of the harness against /repo's working tree, run, replay on the Lean model, diff. known_findings.json lists recorded defects and fix: commits.",
}
json.dump(m, open(os.path.join(ROOT, "MANIFEST.json"), "w"), indent=1)
print("claimed", len(checks), "not_applicable", len(na))
