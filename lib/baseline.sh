#!/bin/bash
# Runs the pinned baseline suite (guard off) on /repo's working tree and reports which stable_pass tests do not pass.
export GOFLAGS=-mod=mod GOPROXY=off GOSUMDB=off GOTOOLCHAIN=local
out=${1:-/var/tmp/baseline.gotest.json}
(cd /repo && go test -mod=mod -json -vet=off -count=1 -timeout 25m ./... > "$out" 2>/var/tmp/baseline.err)
python3 - "$out" <<'PY'
import json,sys
base=json.load(open('/root/.vp/BASELINE.json'))
want=set(base['stable_pass'])
res={}
for line in open(sys.argv[1]):
    try: e=json.loads(line)
    except Exception: continue
    if e.get('Test') and e.get('Action') in('pass','fail','skip'):
        res[e['Package']+'::'+e['Test']]=e['Action']
bad=[t for t in sorted(want) if res.get(t)!='pass']
print('stable_pass',len(want),'passing',len(want)-len(bad))
for t in bad: print('NOT PASSING',t,res.get(t))
PY
