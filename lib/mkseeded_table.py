#!/usr/bin/env python3
"""mkseeded_table.py <results file of lib/lanes_drill.sh> — prints the DESIGN.md table rows of the second
round of seeded changes (seeded/Cxx-C, Cxx-D) with the verdict of the last drill."""
import json, sys, os, re
NOTES = {
 "C01-C": "missed at first (no crash remnants in the store) → store histories between puts: a blob of an earlier object left empty / cut / altered, `Fs.Delete`, re-put of the same content, read back from a fresh instance (`damage`, `delete` lines; model `writeBlob` repairs)",
 "C01-D": "missed at first (no `Delete` in the model) → same store histories: `Fs.Delete` modelled, re-put through the same long-lived instance, read from a fresh one",
 "C02-C": "missed at first (no write faults during `Put`) → `putf`: `Put` on a scratch copy while ONE store write fails, uploads slowed so that several are in flight; it must fail",
 "C02-D": "detected by the check as first built",
 "C03-C": "missed at first (downloads used a non-retrying destination) → `dlobs dst=fs-retry`: default localfs retry policy with one chunk writer per file",
 "C03-D": "missed at first (no single-file download) → `dlobs dst=file`: `core.PublishFile` of a damaged file",
 "C04-C": "detected by the check as first built",
 "C04-D": "missed at first (no transient faults on the source) → `uploadf`: the same upload with ONE failing existence check / read / store write fails or yields the same entries",
 "C05-C": "missed at first → `updatef variant=slow`: slow destination with a 0/negative concurrency setting, the copy is compared the moment `Update` returns",
 "C05-D": "missed at first → `updatef variant=fault`: ONE failing destination call; `Update` errs or the copy is exact",
 "C06-C": "detected by the check as first built (fail-once sweep of every store write)",
 "C06-D": "missed at first (default listing page size only) → the page size of post-crash listings cycles through 1, 2, 3, default",
 "C07-C": "detected by the check as first built",
 "C07-D": "detected by the check as first built",
 "C08-C": "missed at first → `listf kind=read-fault`: listing with a slow consumer, small pages and ONE failing descriptor read fails or is exact",
 "C08-D": "missed at first → `listf kind=concurrent-delete`: another client deletes a label between the key scan and the existence check of its descriptor; every untouched label must still be listed",
 "C09-C": "detected at first only through a rare scenario (a missing file list, 1/25) → `renamef`: `RenameRepo` with ONE failing read or copy-write errs or equals the fault-free rename",
 "C09-D": "missed at first → `deletecr`: `DeleteRepo` killed at every store write (landed or not), then run again: nothing of the repository remains",
 "C10-C": "missed at first (default listing page size only) → squashes run with page sizes 1, 2, 3, default",
 "C10-D": "detected by the check as first built",
 "C11-C": "timing dependent (needs the index writer to lag): missed in the first drill, reported with failing inputs since commits run with varying page sizes and under load; single-split uploads are compared with a plain upload",
 "C11-D": "detected by the check as first built",
 "C12-C": "missed at first (scheduled cases use the default page size) → `pagecommit`: k completed splits committed with page sizes 1,2,3,4,5,8: the bundle holds every completed split",
 "C12-D": "missed at first (no read faults) → `termfault`: a committed / canceled diamond under ONE failing descriptor read accepts no split and yields no further bundle",
 "C13-C": "missed at first → directed history `upload-straddles-resume`: blobs written between the interrupted build and its resume, descriptor landing after the resumed scan",
 "C13-D": "missed at first (the race window is narrow) → directed history `ticker-straddles-scan`: the schedule is forced through the metadata store (listing of the last repository held until the first ticker chunk has been read, its write acknowledged late)",
 "C14-C": "detected by the check as first built",
 "C14-D": "missed by C14's own histories (caught by C13's) → C13 and C14 now share their directed histories (≥ 10 chunks killed late and resumed)",
 "C15-C": "missed at first (one index file per bundle) → uploads/downloads use 1–3 entries per index file (test hook), index files complete in any order",
 "C15-D": "missed at first → `downloadf`: download through a retrying destination, 1–10 concurrent files, ONE failing blob read: fails or exact",
 "C16-C": "missed at first (sources were always `bytes.Reader`) → `Put` sources alternate between `io.WriterTo` and plain `io.Reader`",
 "C16-D": "detected by the check as first built",
 "C17-C": "detected by the check as first built",
 "C17-D": "detected by the check as first built",
 "C18-C": "missed at first (sequential programs only) → `race`: a write held right after its data reached the backing file (staging fs wrapped through the verif hook `VerifWrapStaging`) while a truncate runs; size shown = bytes served = size committed",
 "C18-D": "missed at first (random programs rarely build it) → every 15th program starts from a wide nested tree (4 directories × up to 4 sub-directories with files); the hang is reported by the worker watchdog",
 "C19-C": "detected by the check as first built",
 "C19-D": "missed at first → a storm of failed blob fetches (two listings of > 1000 entries while every `Get` fails) before the big listings",
 "C20-C": "detected by the check as first built",
 "C20-D": "detected by the check as first built",
 "C21-C": "detected by the check as first built",
 "C21-D": "detected by the check as first built",
 "C22-C": "missed at first (sequential histories only) → concurrent writers: the tracked set is the union of the writes whatever order they took effect in",
 "C22-D": "detected by the check as first built",
}
res = {}
if len(sys.argv) > 1 and os.path.exists(sys.argv[1]):
    for l in open(sys.argv[1]):
        m = re.match(r"DRILL (\S+) (C\d\d): (\S+)(.*)", l)
        if m:
            v = "reported (failing input)" if m.group(3) == "VIOLATION" and "no-failing-input-found" not in l else ("reported (no failing input)" if m.group(3) == "VIOLATION" else "NOT reported")
            res[(m.group(1), m.group(2))] = v
def cut(s, n):
    s = " ".join(str(s).split()).replace("|", "/")
    return s if len(s) <= n else s[:n].rsplit(" ", 1)[0] + " …"
for d in sorted(os.listdir("/verif/seeded")):
    if not d.endswith(("-C", "-D")):
        continue
    meta = json.load(open("/verif/seeded/%s/meta.json" % d))
    pid = d[:3]
    what = meta.get("summary") or meta.get("change") or meta.get("what") or meta.get("description") or ""
    needs = meta.get("needs") or meta.get("what_it_needs") or meta.get("needs_to_manifest") or ""
    print("| `seeded/%s` | %s | %s | %s | %s — last drill: %s |" % (d, pid, cut(what, 260), cut(needs, 260), NOTES.get(d, ""), res.get((d, pid), "?")))
