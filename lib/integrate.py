#!/usr/bin/env python3
"""integrate.py <workdir>  — merge a builder's private copy (/tmp/wb-XXX/verif) into /verif.
New files are copied; the shared files (Driver.lean, extract/more.go, lib/props.py,
known_findings.json) are merged by inserting the builder's added lines."""
import sys, os, subprocess, json, shutil, difflib, re

W = sys.argv[1].rstrip("/")
SRC = os.path.join(W, "verif")
DST = "/verif"
SKIP_PREFIX = ("evidence/", "replays/", "harness/go.mod", "harness/go.sum", "harness/bin/", "lean/.lake", "lean/Audit/",
               "lean/DatamonVerif/Generated/Facts.lean", "extract/bin/", ".lock", "MANIFEST.json", "lean/lake-manifest.json",
               "harness/internal/memstore/memstore.go", "harness/internal/corekit/corekit.go", "docs/", "check", "lib/integrate.py",
               "lib/mkmanifest.py", "setup.sh", "DESIGN.md")
SHARED = {"lean/Driver.lean", "extract/more.go", "lib/props.py", "known_findings.json"}

def git(*a, cwd=SRC):
    return subprocess.run(["git"] + list(a), cwd=cwd, stdout=subprocess.PIPE, stderr=subprocess.PIPE).stdout.decode()

status = git("status", "--porcelain", "--untracked-files=all")
changed = []
for line in status.splitlines():
    path = line[3:].strip().strip('"')
    if any(path.startswith(p) for p in SKIP_PREFIX):
        continue
    changed.append((line[:2].strip(), path))

def added_lines(path):
    base = git("show", "HEAD:" + path).splitlines()
    cur = open(os.path.join(SRC, path)).read().splitlines()
    out = []
    for tag, i1, i2, j1, j2 in difflib.SequenceMatcher(None, base, cur, autojunk=False).get_opcodes():
        if tag in ("insert", "replace"):
            out.append(cur[j1:j2])
    return out

report = []
for st, path in changed:
    src, dst = os.path.join(SRC, path), os.path.join(DST, path)
    if path in SHARED:
        continue
    if os.path.isdir(src):
        continue
    if os.path.exists(dst) and st != "??":
        base = git("show", "HEAD:" + path)
        if open(dst).read() != base:
            report.append("CONFLICT (changed on both sides, left alone): " + path)
            continue
    if os.path.exists(dst) and st == "??" and open(dst).read() != open(src).read():
        report.append("EXISTS with different content (left alone): " + path)
        continue
    os.makedirs(os.path.dirname(dst), exist_ok=True)
    shutil.copyfile(src, dst)
    report.append("copied " + path)

# ---- Driver.lean
if any(p == "lean/Driver.lean" for _, p in changed):
    blocks = added_lines("lean/Driver.lean")
    d = open(os.path.join(DST, "lean/Driver.lean")).read().splitlines()
    for b in blocks:
        for l in b:
            if l in d:
                continue
            if l.startswith("import "):
                idx = max(i for i, x in enumerate(d) if x.startswith("import "))
                d.insert(idx + 1, l)
            elif '["model"' in l:
                idx = next(i for i, x in enumerate(d) if x.strip().startswith("| _ =>"))
                d.insert(idx, l)
            else:
                report.append("Driver.lean: unplaced line: " + l)
    open(os.path.join(DST, "lean/Driver.lean"), "w").write("\n".join(d) + "\n")
    report.append("merged lean/Driver.lean")

# ---- extract/more.go
if any(p == "extract/more.go" for _, p in changed):
    blocks = added_lines("extract/more.go")
    d = open(os.path.join(DST, "extract/more.go")).read()
    calls = [l.strip() for b in blocks for l in b if re.match(r"^\s*\w+\(\)\s*$", l)]
    for c in calls:
        if c not in d:
            if "func moreFacts() {}" in d:
                d = d.replace("func moreFacts() {}", "func moreFacts() {\n\t%s\n}" % c)
            else:
                i = d.rindex("}")
                d = d[:i] + "\t%s\n" % c + d[i:]
    open(os.path.join(DST, "extract/more.go"), "w").write(d)
    report.append("merged extract/more.go: " + ", ".join(calls))

# ---- lib/props.py
if any(p == "lib/props.py" for _, p in changed):
    blocks = added_lines("lib/props.py")
    d = open(os.path.join(DST, "lib/props.py")).read()
    text = "\n".join("\n".join(b) for b in blocks)
    # top-level helper definitions go before PROPS, entries right after "PROPS = {"
    entries, helpers = [], []
    cur = None
    for b in blocks:
        s = "\n".join(b)
        if re.search(r'^\s{4}"C\d+": \{', s, re.M):
            entries.append(s)
        else:
            helpers.append(s)
    for h in helpers:
        if h.strip() and h not in d:
            d = d.replace("PROPS = {", h + "\n\nPROPS = {", 1)
    for e in entries:
        ids = re.findall(r'^\s{4}"(C\d+)": \{', e, re.M)
        if all(('"%s": {' % i) in d for i in ids):
            report.append("props.py: entries already present: %s" % ids)
            continue
        d = d.replace("PROPS = {\n", "PROPS = {\n" + e.rstrip("\n") + "\n", 1)
    open(os.path.join(DST, "lib/props.py"), "w").write(d)
    report.append("merged lib/props.py")

# ---- known_findings.json
if any(p == "known_findings.json" for _, p in changed):
    a = json.load(open(os.path.join(SRC, "known_findings.json")))
    b = json.load(open(os.path.join(DST, "known_findings.json")))
    for key in ("findings", "fixed"):
        for e in a.get(key, []):
            if e not in b[key] and not any(x.get("property") == e.get("property") and x.get("commit") == e.get("commit") and x.get("id") == e.get("id") for x in b[key]):
                b[key].append(e)
    json.dump(b, open(os.path.join(DST, "known_findings.json"), "w"), indent=1)
    report.append("merged known_findings.json")

print("\n".join(report))
