package main

// C16 — the local filesystem store behaves like an object store.
//
// The same operation histories are run against
//   mem             localfs on afero.NewBasePathFs(afero.NewMemMapFs(), "/base")
//   disk            localfs on a real scratch directory (under $VERIF_WORK)
//   memstore        the harness' reference store (Delete of a missing key = notfound)
//   memstore-delok  the same with DeleteMissingOK (the localfs convention)
// and every line is replayed on the Lean model (Model/LocalFS.lean for the first two,
// Model/Store.lean — the contract — for the reference store).
//
// kinds of cases:
//   hist      key universe in which no key is a proper path-prefix of another (the domain of
//             theorem C16_localfs_refines); components are string-prefixes of one another
//   conflict  no such restriction: disk and the reference stores only (afero's MemMapFs lets a
//             file and a directory share a path, it is not a file system there)
//   paging    a populated store, then every page size 1..|listing|+1 for several prefixes/delimiters
//   race      2..16 goroutines doing one create-if-absent Put each on the same key; the outcome is
//             judged by the predicate of theorem C16_excl_outcome_valid (disk, disk+lock, mem+lock,
//             memstore; and mem without lock, where afero's MemMapFs — whose O_EXCL is
//             check-then-create — is a known finding)

import (
	"bytes"
	"context"
	"errors"
	"fmt"
	"io"
	"io/ioutil"
	"os"
	"path/filepath"
	"sort"
	"strings"
	"sync"

	"dvh/internal/memstore"
	"dvh/internal/tr"

	"github.com/oneconcern/datamon/pkg/storage"
	"github.com/oneconcern/datamon/pkg/storage/localfs"
	"github.com/oneconcern/datamon/pkg/storage/status"
	"github.com/spf13/afero"
	"go.uber.org/zap"
)

func init() { subs["c16"] = c16 }

type c16Op struct {
	kind       string // put get has del list walk keys
	key        string
	val        []byte
	excl       bool
	tok, pfx   string
	delim      string
	count      int
	everyCount bool // walk: one line per page size 1..|listing|+1
}

var c16ctx = context.Background()

func c16Class(err error) string {
	switch {
	case err == nil:
		return "ok"
	case errors.Is(err, status.ErrNotExists) || os.IsNotExist(err):
		return "notfound"
	case errors.Is(err, status.ErrExists) || os.IsExist(err) ||
		strings.Contains(err.Error(), "file exists") || strings.Contains(err.Error(), "file already exists"):
		return "exists"
	default:
		return "err"
	}
}

func c16Items(ks []string) string {
	e := make([]string, len(ks))
	for i, k := range ks {
		e[i] = tr.Esc(k)
	}
	return "[" + strings.Join(e, ",") + "]"
}

// c16Guard turns a panic of the implementation into the result "panic".
func c16Guard(f func() string) (res string) {
	defer func() {
		if r := recover(); r != nil {
			res = "panic"
		}
	}()
	return f()
}

// c16Walk is the loop of pkg/core/keys.go fetchKeys: follow `next` from "" until a page is empty
// or next is "".
func c16Walk(s storage.Store, pfx, delim string, count int) (pages [][]string, res string) {
	tok := ""
	for i := 0; ; i++ {
		if i > 200 { // no listing of these small stores has that many pages
			return pages, "loop"
		}
		ks, next, err := s.KeysPrefix(c16ctx, tok, pfx, delim, count)
		if err != nil {
			return pages, "err"
		}
		if len(ks) == 0 {
			break
		}
		pages = append(pages, ks)
		if next == "" {
			break
		}
		tok = next
	}
	if len(pages) == 0 {
		return pages, "-"
	}
	parts := make([]string, len(pages))
	for i, p := range pages {
		parts[i] = c16Items(p)
	}
	return pages, strings.Join(parts, "|")
}

// c16Source hands the bytes over as an io.WriterTo (bytes.Reader) or as a plain io.Reader (what a
// pipe, a LimitReader or a wrapped reader is): the stores take different code paths for the two.
func c16Source(v []byte, pick int) io.Reader {
	if pick%2 == 0 {
		return bytes.NewReader(v)
	}
	return struct{ io.Reader }{bytes.NewReader(v)}
}

func c16Exec(c *ctx, s storage.Store, op c16Op) {
	w := c.w
	switch op.kind {
	case "put":
		x := 0
		if op.excl {
			x = 1
		}
		r := c16Guard(func() string {
			return c16Class(s.Put(c16ctx, op.key, c16Source(op.val, len(op.key)+len(op.val)), op.excl))
		})
		w.Op(fmt.Sprintf("put k=%s v=%s x=%d", tr.Esc(op.key), tr.Hex(op.val), x), r)
		w.Count("put=" + r)
	case "get":
		r := c16Guard(func() string {
			rd, err := s.Get(c16ctx, op.key)
			if err != nil {
				return c16Class(err)
			}
			b, err := ioutil.ReadAll(rd)
			_ = rd.Close()
			if err != nil {
				return "err"
			}
			return "ok:" + tr.Hex(b)
		})
		w.Op("get k="+tr.Esc(op.key), r)
		if len(r) > 2 && r[:3] == "ok:" {
			w.Count("get=ok")
		} else {
			w.Count("get=" + r)
		}
	case "has":
		r := c16Guard(func() string {
			b, err := s.Has(c16ctx, op.key)
			if err != nil {
				return "err"
			}
			return fmt.Sprint(b)
		})
		w.Op("has k="+tr.Esc(op.key), r)
		w.Count("has=" + r)
	case "del":
		r := c16Guard(func() string { return c16Class(s.Delete(c16ctx, op.key)) })
		w.Op("del k="+tr.Esc(op.key), r)
		w.Count("del=" + r)
	case "list":
		n := 0
		r := c16Guard(func() string {
			ks, next, err := s.KeysPrefix(c16ctx, op.tok, op.pfx, op.delim, op.count)
			if err != nil {
				return "err"
			}
			n = len(ks)
			return c16Items(ks) + " next=" + tr.Esc(next)
		})
		w.Op(fmt.Sprintf("list t=%s p=%s d=%s n=%d", tr.Esc(op.tok), tr.Esc(op.pfx), tr.Esc(op.delim), op.count), r)
		w.Count(fmt.Sprintf("list delim=%q", op.delim))
		if n == 0 {
			w.Count("list=empty-page")
		}
	case "walk":
		counts := []int{op.count}
		if op.everyCount {
			total := 0
			c16Guard(func() string {
				ks, _, _ := s.KeysPrefix(c16ctx, "", op.pfx, op.delim, 1<<30)
				total = len(ks)
				return ""
			})
			counts = counts[:0]
			for n := 1; n <= total+1; n++ {
				counts = append(counts, n)
			}
		}
		for _, n := range counts {
			np := 0
			r := c16Guard(func() string {
				pages, res := c16Walk(s, op.pfx, op.delim, n)
				np = len(pages)
				return res
			})
			w.Op(fmt.Sprintf("walk p=%s d=%s n=%d", tr.Esc(op.pfx), tr.Esc(op.delim), n), r)
			w.Count(fmt.Sprintf("walk pages=%s", c16Bucket(np)))
		}
	case "keys":
		r := c16Guard(func() string {
			ks, err := s.Keys(c16ctx)
			if err != nil {
				return "err"
			}
			ks = append([]string(nil), ks...)
			sort.Strings(ks) // Keys() promises no order
			return c16Items(ks)
		})
		w.Op("keys", r)
	}
}

func c16Bucket(n int) string {
	switch {
	case n <= 3:
		return fmt.Sprint(n)
	case n <= 7:
		return "4-7"
	default:
		return "8+"
	}
}

// ---- stores ----

type c16Store struct {
	name  string
	store storage.Store
	clean func()
}

var c16DirSeq int

func c16Disk(lock bool) (storage.Store, func(), error) {
	base := os.Getenv("VERIF_WORK")
	if base == "" {
		var err error
		if base, err = ioutil.TempDir("", "dvh-c16-"); err != nil {
			return nil, nil, err
		}
	}
	c16DirSeq++
	dir := filepath.Join(base, "c16", fmt.Sprint(c16DirSeq))
	if err := os.MkdirAll(dir, 0o700); err != nil {
		return nil, nil, err
	}
	s := localfs.New(afero.NewBasePathFs(afero.NewOsFs(), dir), localfs.WithRetry(false), localfs.WithLock(lock), localfs.WithLogger(zap.NewNop()))
	return s, func() { _ = os.RemoveAll(dir) }, nil
}

func c16Mem(lock bool) storage.Store {
	return localfs.New(afero.NewBasePathFs(afero.NewMemMapFs(), "/base"), localfs.WithRetry(false), localfs.WithLock(lock), localfs.WithLogger(zap.NewNop()))
}

func c16Stores(withMem bool) ([]c16Store, error) {
	var out []c16Store
	if withMem {
		out = append(out, c16Store{"mem", c16Mem(false), func() {}})
	}
	d, clean, err := c16Disk(false)
	if err != nil {
		return nil, err
	}
	out = append(out, c16Store{"disk", d, clean})
	out = append(out, c16Store{"memstore", memstore.New("c16"), func() {}})
	ms := memstore.New("c16")
	ms.DeleteMissingOK = true
	out = append(out, c16Store{"memstore-delok", ms, func() {}})
	return out, nil
}

// ---- generators ----

// components: string-prefixes of one another, characters below and above '/', a multi-byte rune
var c16Comps = []string{"a", "ab", "a.b", "a-b", "a.", "a-", "abc", "b", "b.a", "a b", "a+", "a0", "A", ".a", "a..", "é", "a--b", "ba", "a,b", "a%"}

func c16Key(r *tr.Rng, comps []string) string {
	depth := 1 + r.Intn(4)
	if r.Intn(3) == 0 {
		depth = 1 + r.Intn(2)
	}
	parts := make([]string, depth)
	for i := range parts {
		parts[i] = comps[r.Intn(len(comps))]
	}
	return strings.Join(parts, "/")
}

func c16IsParent(p, k string) bool { return len(k) > len(p) && strings.HasPrefix(k, p+"/") }

func c16Universe(r *tr.Rng, size int, prefixFree bool) []string {
	// a few components per case, so that keys share directories and prefixes
	nc := 2 + r.Intn(5)
	comps := make([]string, nc)
	for i := range comps {
		comps[i] = c16Comps[r.Intn(len(c16Comps))]
	}
	var u []string
	seen := map[string]bool{}
	for tries := 0; len(u) < size && tries < size*30; tries++ {
		k := c16Key(r, comps)
		if seen[k] {
			continue
		}
		ok := true
		if prefixFree {
			for _, o := range u {
				if c16IsParent(o, k) || c16IsParent(k, o) {
					ok = false
					break
				}
			}
		}
		if ok {
			seen[k] = true
			u = append(u, k)
		}
	}
	return u
}

func c16Val(r *tr.Rng) []byte {
	switch r.Intn(6) {
	case 0:
		return []byte{}
	case 1:
		return tr.GenBytes(r.Uint64(), 20+r.Intn(40))
	default:
		return tr.GenBytes(r.Uint64(), 1+r.Intn(6))
	}
}

var c16Delims = []string{"", "", "/", "/", "/", "-", ".", "b", "/a", "--", "é"}

func c16Prefix(r *tr.Rng, u []string) string {
	switch r.Intn(8) {
	case 0:
		return ""
	case 1:
		return c16Comps[r.Intn(len(c16Comps))]
	case 2:
		return u[r.Intn(len(u))] // a whole key
	case 3:
		// up to and including a slash of some key ("bundles/repo/"), or without it ("bundles/repo")
		k := u[r.Intn(len(u))]
		idx := []int{}
		for i := 0; i < len(k); i++ {
			if k[i] == '/' {
				idx = append(idx, i)
			}
		}
		if len(idx) == 0 {
			return k + "/"
		}
		i := idx[r.Intn(len(idx))]
		if r.Bool() {
			return k[:i+1]
		}
		return k[:i]
	default:
		// any raw string prefix of a key, cut at a rune boundary
		k := []rune(u[r.Intn(len(u))])
		return string(k[:r.Intn(len(k)+1)])
	}
}

func c16Token(r *tr.Rng, u []string) string {
	switch r.Intn(6) {
	case 0, 1:
		return ""
	case 2:
		return u[r.Intn(len(u))]
	case 3:
		return c16Prefix(r, u)
	case 4:
		return u[r.Intn(len(u))] + "\x01" // just behind a key
	default:
		return c16Comps[r.Intn(len(c16Comps))] + "/" + c16Comps[r.Intn(len(c16Comps))]
	}
}

func c16List(r *tr.Rng, u []string) c16Op {
	return c16Op{kind: "list", tok: c16Token(r, u), pfx: c16Prefix(r, u), delim: c16Delims[r.Intn(len(c16Delims))], count: 1 + r.Intn(len(u)+2)}
}

func c16History(r *tr.Rng, u []string, n int) []c16Op {
	ops := make([]c16Op, 0, n+4)
	// Keys() is only asked of a store whose root directory exists (localfs creates it with the
	// first Put; on a missing root Keys() reports the walk's error while KeysPrefix lists nothing)
	seenPut := false
	for i := 0; i < n; i++ {
		k := u[r.Intn(len(u))]
		x := r.Intn(100)
		if x >= 96 && !seenPut {
			x = 0
		}
		switch {
		case x < 38:
			seenPut = true
			ops = append(ops, c16Op{kind: "put", key: k, val: c16Val(r), excl: r.Bool()})
		case x < 52:
			ops = append(ops, c16Op{kind: "get", key: k})
		case x < 60:
			ops = append(ops, c16Op{kind: "has", key: k})
		case x < 74:
			ops = append(ops, c16Op{kind: "del", key: k})
		case x < 88:
			ops = append(ops, c16List(r, u))
		case x < 96:
			ops = append(ops, c16Op{kind: "walk", pfx: c16Prefix(r, u), delim: c16Delims[r.Intn(len(c16Delims))], count: 1 + r.Intn(len(u)+1)})
		default:
			ops = append(ops, c16Op{kind: "keys"})
		}
	}
	if !seenPut {
		ops = append(ops, c16Op{kind: "put", key: u[0], val: c16Val(r)})
	}
	ops = append(ops, c16Op{kind: "keys"}, c16Op{kind: "walk", pfx: "", delim: "", count: 1 + r.Intn(3)})
	return ops
}

func c16RunHistory(c *ctx, kind string, u []string, ops []c16Op, withMem bool) error {
	stores, err := c16Stores(withMem)
	if err != nil {
		return err
	}
	for _, st := range stores {
		c.w.Case("store=%s kind=%s keys=%d ops=%d", st.name, kind, len(u), len(ops))
		for _, op := range ops {
			c16Exec(c, st.store, op)
		}
		c.w.End()
		st.clean()
	}
	c.w.Count("case kind=" + kind)
	return nil
}

// ---- races ----

func c16Race(c *ctx, name string, lock int, s storage.Store, n int, key string, pre []byte, size int, seed uint64) {
	c.w.Case("store=%s kind=race lock=%d writers=%d size=%d", name, lock, n, size)
	hasPre := 0
	if pre != nil {
		hasPre = 1
		c16Exec(c, s, c16Op{kind: "put", key: key, val: pre, excl: false})
	}
	vals := make([][]byte, n)
	for i := range vals {
		vals[i] = append([]byte{byte(i), byte(n)}, tr.GenBytes(seed+uint64(i), size)...)
	}
	res := make([]string, n)
	start := make(chan struct{})
	var wg sync.WaitGroup
	for i := 0; i < n; i++ {
		wg.Add(1)
		go func(i int) {
			defer wg.Done()
			defer func() {
				if r := recover(); r != nil {
					res[i] = "p"
				}
			}()
			<-start
			switch c16Class(s.Put(c16ctx, key, c16Source(vals[i], i), storage.NoOverWrite)) {
			case "ok":
				res[i] = "o"
			case "exists":
				res[i] = "e"
			default:
				res[i] = "x"
			}
		}(i)
	}
	close(start)
	wg.Wait()
	stored := "none"
	if rd, err := s.Get(c16ctx, key); err == nil {
		b, err := ioutil.ReadAll(rd)
		_ = rd.Close()
		if err == nil {
			if pre != nil && bytes.Equal(b, pre) {
				stored = "pre"
			}
			for i, v := range vals {
				if bytes.Equal(b, v) {
					stored = fmt.Sprint(i)
				}
			}
		}
	}
	// judge line: the implementation's outcome is in the operation text; the driver evaluates the
	// predicate of theorem C16_excl_outcome_valid on it
	c.w.Op(fmt.Sprintf("xres pre=%d n=%d res=%s stored=%s", hasPre, n, strings.Join(res, ","), stored), "valid")
	c.w.Count(fmt.Sprintf("race store=%s lock=%d", name, lock))
	c.w.Count(fmt.Sprintf("race writers=%s", c16Bucket(n)))
	c.w.End()
}

// ---- a disk that hiccups: one Write of the record delivers a prefix and fails -------------------
// Put reports the failure, or the record holds exactly the bytes handed over ("reads return the last
// written bytes"): never a success with other bytes. Both retry policies, both kinds of source.

type c16FlakyFs struct {
	afero.Fs
	mu     sync.Mutex
	failAt int // the failAt-th Write (1-based) fails after delivering `keep` bytes; 0 = never
	keep   int
	writes int
}

type c16FlakyFile struct {
	afero.File
	fs *c16FlakyFs
}

func (f *c16FlakyFs) OpenFile(name string, flag int, perm os.FileMode) (afero.File, error) {
	file, err := f.Fs.OpenFile(name, flag, perm)
	if err != nil {
		return nil, err
	}
	return &c16FlakyFile{File: file, fs: f}, nil
}

func (f *c16FlakyFile) Write(p []byte) (int, error) {
	f.fs.mu.Lock()
	f.fs.writes++
	hit := f.fs.failAt != 0 && f.fs.writes == f.fs.failAt
	keep := f.fs.keep
	f.fs.mu.Unlock()
	if hit {
		if keep > len(p) {
			keep = len(p)
		}
		n, _ := f.File.Write(p[:keep])
		return n, errors.New("injected: transient write error")
	}
	return f.File.Write(p)
}

func c16Flaky(c *ctx) {
	n := 24
	if c.thorough() {
		n = 120
	}
	r := tr.NewRng(c.seed*131 + 16)
	for i := 0; i < n; i++ {
		retry := i%4 == 0 // the default policy backs off for half a second and more: a few cases only
		size := r.Pick(1, 10, 100, 5000, 40000, 70000)
		val := tr.GenBytes(uint64(i+1), size)
		ffs := &c16FlakyFs{Fs: afero.NewMemMapFs(), failAt: 1 + r.Intn(2), keep: r.Intn(size + 1)}
		st := localfs.New(ffs, localfs.WithRetry(retry), localfs.WithLogger(zap.NewNop()))
		prior := r.Intn(3) == 0
		if prior {
			ffs.failAt = 0
			_ = st.Put(c16ctx, "k", bytes.NewReader([]byte("previous content")), storage.OverWrite)
			ffs.writes, ffs.failAt = 0, 1+r.Intn(2)
		}
		srcKind := "writerto"
		if i%2 == 1 {
			srcKind = "plain"
		}
		err := st.Put(c16ctx, "k", c16Source(val, i), storage.OverWrite)
		got := "err"
		if err == nil {
			got = "ok-exact"
			rd, gerr := st.Get(c16ctx, "k")
			if gerr != nil {
				got = "ok-but-absent"
			} else {
				b, _ := io.ReadAll(rd)
				_ = rd.Close()
				if !bytes.Equal(b, val) {
					got = fmt.Sprintf("ok-differs:%d-bytes-instead-of-%d", len(b), len(val))
				}
			}
		}
		ffs.mu.Lock()
		fired := ffs.writes >= ffs.failAt
		ffs.mu.Unlock()
		if !fired {
			continue
		}
		c.w.Case("store=localfs-mem kind=flaky lock=0")
		c.w.Op(fmt.Sprintf("putw src=%s retry=%v size=%d failwrite=%d keep=%d prior=%v got=%s", srcKind, retry, size, ffs.failAt, ffs.keep, prior, got), "sound")
		c.w.End()
		c.w.Count(fmt.Sprintf("flaky-disk:src=%s,retry=%v", srcKind, retry))
	}
}

func c16(c *ctx) error {
	r := c.rng
	nHist, nConf, nPaging, nRace := 200, 60, 30, 40
	if c.thorough() {
		nHist, nConf, nPaging, nRace = 2500, 600, 300, 400
	}

	// fixed regression cases first: the inputs on which the code before the fix failed
	fixed := [][]c16Op{
		{ // prefix with a trailing slash must not match sibling repositories; roll-up after the prefix
			{kind: "put", key: "bundles/repo/b1/f", val: []byte("x")}, {kind: "put", key: "bundles/repo2/b2/f", val: []byte("x")},
			{kind: "put", key: "bundles/repo.x/b3/f", val: []byte("x")}, {kind: "put", key: "bundles/repo/b0/f", val: []byte("x")},
			{kind: "list", pfx: "bundles/repo/", delim: "/", count: 100}, {kind: "list", pfx: "bundles/repo/", delim: "", count: 100},
			{kind: "list", pfx: "bundles/repo", delim: "", count: 100}, {kind: "walk", pfx: "bundles/", delim: "/", everyCount: true},
		},
		{ // lexicographic order, not directory-walk order; unknown token = start key
			{kind: "put", key: "a/b/c", val: []byte("x")}, {kind: "put", key: "a/b.d/e", val: []byte("x")}, {kind: "put", key: "a.c", val: []byte("x")},
			{kind: "list", pfx: "", delim: "", count: 100}, {kind: "list", pfx: "a", delim: "", count: 1},
			{kind: "list", tok: "a/b", pfx: "a", delim: "", count: 5}, {kind: "list", tok: "zzz", pfx: "a", delim: "", count: 5},
			{kind: "walk", pfx: "a", delim: "", everyCount: true},
		},
		{ // a listing abandoned after its first page must not freeze later listings of the prefix
			{kind: "put", key: "p/a", val: []byte("x")}, {kind: "put", key: "p/b", val: []byte("x")}, {kind: "put", key: "p/c", val: []byte("x")},
			{kind: "list", pfx: "p/", delim: "", count: 2}, {kind: "put", key: "p/d", val: []byte("x")}, {kind: "del", key: "p/a"},
			{kind: "list", pfx: "p/", delim: "", count: 100}, {kind: "list", pfx: "p/", delim: "/", count: 1}, {kind: "list", pfx: "p", delim: "/", count: 100},
		},
		{ // missing directory, empty store, multi-character delimiter
			{kind: "list", pfx: "", delim: "", count: 10}, {kind: "list", pfx: "q/r/", delim: "", count: 10},
			{kind: "put", key: "p/a--b", val: []byte("x")}, {kind: "put", key: "p/a--c", val: []byte("x")},
			{kind: "list", pfx: "q/r/", delim: "/", count: 10}, {kind: "list", pfx: "p/", delim: "--", count: 10}, {kind: "walk", pfx: "p/", delim: "-", count: 1},
		},
	}
	for _, ops := range fixed {
		if err := c16RunHistory(c, "fixed", []string{"-"}, ops, true); err != nil {
			return err
		}
	}
	c16Flaky(c)

	for i := 0; i < nHist; i++ {
		u := c16Universe(r, 2+r.Intn(11), true)
		ops := c16History(r, u, 15+r.Intn(45))
		if err := c16RunHistory(c, "hist", u, ops, true); err != nil {
			return err
		}
	}
	for i := 0; i < nConf; i++ {
		u := c16Universe(r, 2+r.Intn(8), false)
		// make sure there are path-prefix conflicts: add parents / children of some keys
		for j := 0; j < 1+r.Intn(3); j++ {
			k := u[r.Intn(len(u))]
			if i := strings.LastIndex(k, "/"); i > 0 && r.Bool() {
				u = append(u, k[:i])
			} else {
				u = append(u, k+"/"+c16Comps[r.Intn(len(c16Comps))])
			}
		}
		ops := c16History(r, u, 15+r.Intn(45))
		if err := c16RunHistory(c, "conflict", u, ops, false); err != nil {
			return err
		}
	}
	for i := 0; i < nPaging; i++ {
		u := c16Universe(r, 3+r.Intn(14), true)
		var ops []c16Op
		for j, k := range u {
			if j == 0 || r.Intn(8) > 0 {
				ops = append(ops, c16Op{kind: "put", key: k, val: c16Val(r)})
			}
		}
		for j := 0; j < 3; j++ {
			ops = append(ops, c16Op{kind: "walk", pfx: c16Prefix(r, u), delim: c16Delims[r.Intn(len(c16Delims))], everyCount: true})
		}
		ops = append(ops, c16Op{kind: "walk", pfx: "", delim: "", everyCount: true})
		if err := c16RunHistory(c, "paging", u, ops, true); err != nil {
			return err
		}
	}
	for i := 0; i < nRace; i++ {
		n := 2 + r.Intn(15)
		key := c16Key(r, c16Comps)
		size := r.Pick(0, 10, 1000, 70000)
		var pre []byte
		if r.Intn(5) == 0 {
			pre = []byte("already here")
		}
		seed := r.Uint64()
		d, clean, err := c16Disk(false)
		if err != nil {
			return err
		}
		c16Race(c, "disk", 0, d, n, key, pre, size, seed)
		clean()
		d, clean, err = c16Disk(true)
		if err != nil {
			return err
		}
		c16Race(c, "disk", 1, d, n, key, pre, size, seed)
		clean()
		c16Race(c, "mem", 1, c16Mem(true), n, key, pre, size, seed)
		// afero's MemMapFs implements O_EXCL as check-then-create: without localfs' own lock two
		// writers may both win (known finding C16-memmapfs-excl; the driver marks these cases)
		c16Race(c, "mem", 0, c16Mem(false), n, key, pre, size, seed)
		c16Race(c, "memstore", 0, memstore.New("c16"), n, key, pre, size, seed)
	}
	c.extra["stores"] = "mem = localfs on afero MemMapFs under BasePathFs; disk = localfs on a scratch directory; memstore(-delok) = harness reference store"
	c.extra["races"] = "real goroutines released together; on mem without localfs.WithLock two winners are possible (afero's MemMapFs implements O_EXCL as check-then-create): known finding C16-memmapfs-excl"
	return nil
}
