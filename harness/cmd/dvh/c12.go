package main

// C12 — a diamond commits at most once, from completed splits only.
//
// The real pkg/core entry points (Diamond.Commit, Diamond.Cancel, CreateSplit + Split.Upload) run as
// goroutines, each on its OWN c12store wrappers around shared memstores. In scheduled mode the
// harness releases one store call at a time; calls that read or write protocol state (diamond-done,
// split-done, split-running, the generation's index file, the splits listing, bundle.yaml) are the
// "significant" calls = the steps of the Lean model, everything else (repo checks, blobs, immutable
// descriptors, bundle index files) is released automatically while its actor is being advanced.
// The trace is the global, linearised sequence of significant calls with their result classes
// (it must be accepted by the model's actor automata), the API result class of every actor, and the
// final diamond / split / bundle state; `amo` is the property's headline (at most one bundle).

import (
	"context"
	"errors"
	"fmt"
	"os"
	"runtime"
	"sort"
	"strings"
	"sync"
	"time"

	"gopkg.in/yaml.v2"

	"dvh/internal/c12store"
	"dvh/internal/corekit"
	"dvh/internal/crashstore"
	"dvh/internal/tr"

	context2 "github.com/oneconcern/datamon/pkg/context"
	"github.com/oneconcern/datamon/pkg/core"
	corestatus "github.com/oneconcern/datamon/pkg/core/status"
	"github.com/oneconcern/datamon/pkg/model"
	storagestatus "github.com/oneconcern/datamon/pkg/storage/status"
)

func init() { subs["c12"] = c12 }

const (
	c12Repo    = "r"
	c12Timeout = 180 * time.Second // a generous hang detector: the machine may be heavily loaded
)

type c12Actor struct {
	kind  string   // commit | cancel | run
	split int      // run: split number (split id "s<split>")
	files [][2]int // run: (path id, content id)
}

func (a c12Actor) String() string {
	if a.kind != "run" {
		return a.kind
	}
	fs := make([]string, len(a.files))
	for i, f := range a.files {
		fs[i] = fmt.Sprintf("%d=%d", f[0], f[1])
	}
	return fmt.Sprintf("run:%d:%s", a.split, strings.Join(fs, "+"))
}

func c12Path(p int) string { return fmt.Sprintf("d%d/f%d", p%3, p) }
func c12Content(cid int) []byte {
	return []byte(fmt.Sprintf("c12 content %d %s", cid, strings.Repeat("x", cid%7)))
}
func c12SplitID(split int) string { return fmt.Sprintf("s%d", split) }

type c12Event struct {
	crash bool
	actor int
	kind  string
	res   string
	aux   string
}

type c12Case struct {
	c       *ctx
	mode    string
	actors  []c12Actor
	env     *corekit.Env
	sched   *c12store.Sched
	did     string
	mu      sync.Mutex
	errs    []error
	crashed []bool
	hung    []bool
	parked  []*c12store.Call
	done    []bool
	events  []c12Event
	broken  string // harness-level problem (hang), reported in the trace
}

func (k *c12Case) stores(actor int) context2.Stores {
	s, e := k.sched, k.env
	return context2.NewStores(s.Wrap(actor, "wal", e.Wal), s.Wrap(actor, "readlog", e.ReadLog),
		s.Wrap(actor, "blob", e.Blob), s.Wrap(actor, "meta", e.Meta), s.Wrap(actor, "vmeta", e.VMeta))
}

// classify maps a store call of an actor to the model step it is, or "" for a call the protocol
// state does not depend on.
func (k *c12Case) classify(actor int, call *c12store.Call) string {
	a := k.actors[actor]
	isPut := call.Op == "put" || call.Op == "putnx"
	switch call.Store {
	case "vmeta":
		base := "diamonds/" + c12Repo + "/" + k.did + "/"
		if !strings.HasPrefix(call.Key, base) {
			return ""
		}
		rest := call.Key[len(base):]
		switch {
		case rest == "diamond-done.yaml" && call.Op == "get":
			return "dget"
		case rest == "diamond-done.yaml" && isPut:
			return "dput"
		case rest == "splits/" && call.Op == "keysprefix" && a.kind == "commit":
			return "list"
		}
		if a.kind == "run" && strings.HasPrefix(rest, "splits/") {
			parts := strings.Split(rest[len("splits/"):], "/")
			switch {
			case len(parts) == 2 && parts[1] == "split-done.yaml" && call.Op == "get":
				return "sget"
			case len(parts) == 2 && parts[1] == "split-done.yaml" && isPut:
				return "sput"
			case len(parts) == 2 && parts[1] == "split-running.yaml" && call.Op == "get":
				return "rget"
			case len(parts) == 2 && parts[1] == "split-running.yaml" && isPut:
				return "rput"
			case len(parts) == 3 && isPut:
				return "gput"
			}
		}
	case "meta":
		if a.kind == "commit" && isPut && strings.HasPrefix(call.Key, "bundles/"+c12Repo+"/") && strings.HasSuffix(call.Key, "/bundle.yaml") {
			return "bput"
		}
	}
	return ""
}

func c12EvResult(kind, res string) string {
	switch kind {
	case "dget", "sget", "rget":
		switch res {
		case "ok":
			return "found"
		case "notfound":
			return "absent"
		}
		return "err"
	default:
		return res // ok | exists | err
	}
}

func (k *c12Case) record(actor int, call *c12store.Call, kind string) {
	aux := ""
	if kind == "list" {
		var done []string
		for _, key := range call.Keys {
			if strings.HasSuffix(key, "/split-done.yaml") {
				parts := strings.Split(key, "/")
				done = append(done, parts[len(parts)-2])
			}
		}
		aux = " ## listed-done=" + strings.Join(done, ",")
	}
	k.events = append(k.events, c12Event{actor: actor, kind: kind, res: c12EvResult(kind, call.Res), aux: aux})
}

// c12Class maps an API error to the result classes of the trace.
func c12Class(err error) string {
	if err == nil {
		return "ok"
	}
	msg := err.Error()
	switch {
	case strings.HasPrefix(msg, "panic:"):
		return "panic"
	case errors.Is(err, c12store.ErrCrashed) || strings.Contains(msg, c12store.ErrCrashed.Error()):
		return "crashed"
	case strings.Contains(msg, "diamond is not ready") || strings.Contains(msg, "diamond is already terminated"):
		return "refused"
	case errors.Is(err, corestatus.ErrSplitAlreadyDone) || strings.Contains(msg, corestatus.ErrSplitAlreadyDone.Error()):
		return "already"
	case strings.Contains(msg, "no split to commit"):
		return "nosplit"
	case errors.Is(err, storagestatus.ErrExists) || strings.Contains(msg, storagestatus.ErrExists.Error()):
		return "exists"
	default:
		return "err"
	}
}

func (k *c12Case) runActor(i int) {
	a := k.actors[i]
	st := k.stores(i)
	var err error
	switch a.kind {
	case "commit":
		err = corekit.Recover(func() error {
			d := core.NewDiamond(c12Repo, st,
				core.DiamondDescriptor(model.NewDiamondDescriptor(model.DiamondID(k.did))),
				core.DiamondLogger(corekit.Nop), core.DiamondMessage("c12 commit"))
			return d.Commit()
		})
	case "cancel":
		err = corekit.Recover(func() error {
			d := core.NewDiamond(c12Repo, st,
				core.DiamondDescriptor(model.NewDiamondDescriptor(model.DiamondID(k.did))),
				core.DiamondLogger(corekit.Nop))
			return d.Cancel()
		})
	case "run":
		files := map[string][]byte{}
		for _, f := range a.files {
			files[c12Path(f[0])] = c12Content(f[1])
		}
		err = corekit.Recover(func() error {
			// the sequence of `datamon diamond split add` (cmd/datamon/cmd/split_add.go)
			sp := core.NewSplit(c12Repo, k.did, st,
				core.SplitDescriptor(model.NewSplitDescriptor(model.SplitID(c12SplitID(a.split)))),
				core.SplitConsumableStore(corekit.TreeStore(files)), core.SplitLogger(corekit.Nop))
			if _, e := core.CreateSplit(c12Repo, k.did, st,
				core.SplitDescriptor(&sp.SplitDescriptor), core.SplitLogger(corekit.Nop)); e != nil {
				return e
			}
			return sp.Upload()
		})
	}
	k.mu.Lock()
	k.errs[i] = err
	k.mu.Unlock()
	k.sched.Finish(i)
}

func c12NewCase(c *ctx, mode string, actors []c12Actor) (*c12Case, error) {
	k := &c12Case{c: c, mode: mode, actors: actors, env: corekit.NewEnv(), sched: c12store.NewSched(mode == "free")}
	n := len(actors)
	k.errs, k.crashed, k.hung = make([]error, n), make([]bool, n), make([]bool, n)
	k.parked, k.done = make([]*c12store.Call, n), make([]bool, n)
	if err := k.env.CreateRepo(c12Repo); err != nil {
		return nil, err
	}
	dd, err := core.CreateDiamond(c12Repo, k.env.Stores)
	if err != nil {
		return nil, err
	}
	k.did = dd.DiamondID
	return k, nil
}

var c12DumpOnce sync.Once

// c12DumpStacks writes all goroutine stacks to stderr (once per process) when a hang is detected.
func c12DumpStacks(why string) {
	c12DumpOnce.Do(func() {
		buf := make([]byte, 1<<22)
		n := runtime.Stack(buf, true)
		fmt.Fprintf(os.Stderr, "c12: HANG: %s\n%s\n", why, buf[:n])
	})
}

// settle advances actor i through protocol-irrelevant calls until it is parked at a significant
// call or its API call has returned.
func (k *c12Case) settle(i int) bool {
	for {
		fin, ok := k.sched.WaitActor(i, c12Timeout)
		if !ok {
			c12DumpStacks(fmt.Sprintf("actor %d (%s) made no progress; pending=%d\n%s\nevents=%s", i, k.actors[i], len(k.sched.Pending(i)), k.sched.Debug(), k.schedText()))
			k.hung[i], k.broken = true, fmt.Sprintf("actor %d made no progress", i)
			return false
		}
		if fin {
			k.done[i], k.parked[i] = true, nil
			return true
		}
		var sig *c12store.Call
		for _, p := range k.sched.Pending(i) {
			if k.classify(i, p) == "" {
				if !k.sched.Release(p, c12Timeout) {
					k.hung[i], k.broken = true, fmt.Sprintf("actor %d: a released call did not complete", i)
					return false
				}
			} else {
				sig = p
			}
		}
		if sig != nil {
			k.parked[i] = sig
			return true
		}
	}
}

// step releases the significant call actor i is parked at and settles the actor again.
func (k *c12Case) step(i int) bool {
	p := k.parked[i]
	kind := k.classify(i, p)
	k.parked[i] = nil
	if !k.sched.Release(p, c12Timeout) {
		k.hung[i], k.broken = true, fmt.Sprintf("actor %d: significant call did not complete", i)
		return false
	}
	k.record(i, p, kind)
	return k.settle(i)
}

func (k *c12Case) crash(i int) bool {
	k.sched.Crash(i)
	k.crashed[i], k.parked[i], k.done[i] = true, nil, true
	k.events = append(k.events, c12Event{crash: true, actor: i})
	if !k.sched.WaitFinished(i, c12Timeout) {
		k.hung[i], k.broken = true, fmt.Sprintf("actor %d did not return after its crash", i)
		return false
	}
	return true
}

func (k *c12Case) live() []int {
	var l []int
	for i := range k.actors {
		if !k.done[i] && k.parked[i] != nil {
			l = append(l, i)
		}
	}
	return l
}

// c12Policy decides, among the live actors, who moves next (crash = true: that actor crashes).
type c12Policy func(k *c12Case, live []int) (actor int, crash bool)

// runScheduled drives the case to the end: every actor either finishes or crashes.
func (k *c12Case) runScheduled(pol c12Policy) {
	for i := range k.actors {
		go k.runActor(i)
	}
	ok := true
	for i := range k.actors {
		if ok = k.settle(i); !ok {
			break
		}
	}
	for ok {
		live := k.live()
		if len(live) == 0 {
			break
		}
		a, cr := pol(k, live)
		if cr {
			ok = k.crash(a)
		} else {
			ok = k.step(a)
		}
	}
	k.finish()
}

// finish makes sure no goroutine stays blocked and waits for all API calls to return.
func (k *c12Case) finish() {
	if k.broken != "" {
		// let everything run out without further store effects
		for i := range k.actors {
			k.sched.Crash(i)
		}
	}
	k.sched.SetFree()
	for i := range k.actors {
		if !k.sched.WaitFinished(i, c12Timeout) {
			k.hung[i] = true
			if k.broken == "" {
				k.broken = fmt.Sprintf("actor %d never returned", i)
			}
		}
	}
}

// runFree lets all actors run truly in parallel; crashAfter[i] >= 0 crashes actor i right after its
// crashAfter[i]-th significant call (0 = before the first).
func (k *c12Case) runFree(crashAfter []int, jitterSeed uint64) {
	counts := make([]int, len(k.actors))
	var evmu sync.Mutex
	k.sched.OnExec = func(call *c12store.Call) {
		kind := k.classify(call.Actor, call)
		if kind == "" {
			return
		}
		evmu.Lock()
		defer evmu.Unlock()
		k.record(call.Actor, call, kind)
		counts[call.Actor]++
		if crashAfter[call.Actor] >= 0 && counts[call.Actor] == crashAfter[call.Actor] && !k.crashed[call.Actor] {
			k.sched.Crash(call.Actor)
			k.crashed[call.Actor] = true
			k.events = append(k.events, c12Event{crash: true, actor: call.Actor})
		}
	}
	rngs := make([]*tr.Rng, len(k.actors))
	for i := range rngs {
		rngs[i] = tr.NewRng(jitterSeed*977 + uint64(i)*7919 + 1)
	}
	k.sched.Jitter = func(actor int) {
		// per-actor generator: only the goroutines of one actor share it (benign if they race on it,
		// it only perturbs the schedule) — guard anyway
		evmu.Lock()
		n := rngs[actor].Intn(4)
		evmu.Unlock()
		for j := 0; j < n; j++ {
			runtime.Gosched()
		}
	}
	for i := range k.actors {
		if crashAfter[i] == 0 {
			k.sched.Crash(i)
			k.crashed[i] = true
			k.events = append(k.events, c12Event{crash: true, actor: i})
		}
	}
	start := make(chan struct{})
	for i := range k.actors {
		go func(i int) { <-start; k.runActor(i) }(i)
	}
	close(start)
	for i := range k.actors {
		if !k.sched.WaitFinished(i, c12Timeout) {
			k.hung[i], k.broken = true, fmt.Sprintf("actor %d never returned", i)
		}
	}
	k.sched.OnExec = nil
	for i := range k.actors {
		k.done[i] = true
	}
}

// ---- final observation -------------------------------------------------------------------

func (k *c12Case) writers() (termWriter int, genActor map[string]int, bundleOwner map[string]int) {
	termWriter, genActor, bundleOwner = -1, map[string]int{}, map[string]int{}
	for _, call := range k.sched.Log() {
		if call.Res != "ok" {
			continue
		}
		switch k.classify(call.Actor, call) {
		case "dput":
			termWriter = call.Actor
		case "gput":
			parts := strings.Split(call.Key, "/")
			genActor[parts[len(parts)-2]] = call.Actor
		case "bput":
			parts := strings.Split(call.Key, "/")
			bundleOwner[parts[len(parts)-2]] = call.Actor
		}
	}
	return
}

// hashContent maps blob root hashes to content ids, read off the index files the runs wrote.
func (k *c12Case) hashContent() map[string]int {
	out := map[string]int{}
	for _, call := range k.sched.Log() {
		if call.Res != "ok" || k.classify(call.Actor, call) != "gput" {
			continue
		}
		raw, ok := k.env.VMeta.Raw(call.Key)
		if !ok {
			continue
		}
		var es model.BundleEntries
		if yaml.Unmarshal(raw, &es) != nil {
			continue
		}
		byPath := map[string]int{}
		for _, f := range k.actors[call.Actor].files {
			byPath[c12Path(f[0])] = f[1]
		}
		for _, e := range es.BundleEntries {
			if cid, ok := byPath[e.NameWithPath]; ok {
				out[e.Hash] = cid
			}
		}
	}
	return out
}

func (k *c12Case) observe(checkDownload bool) (term, splits, bundles string, nb int, aux string) {
	termWriter, genActor, bundleOwner := k.writers()
	// diamond
	dd, err := core.GetDiamond(c12Repo, k.did, k.env.Stores)
	switch {
	case err != nil:
		term = "err"
	case dd.State == model.DiamondInitialized:
		term = "none"
	default:
		term = fmt.Sprintf("%s:%d", dd.State, termWriter)
		if dd.State == model.DiamondDone {
			if o, ok := bundleOwner[dd.BundleID]; !ok || o != termWriter {
				term += ":points-to-foreign-bundle"
			}
		}
	}
	// splits
	seen := map[int]bool{}
	var ks []int
	for _, a := range k.actors {
		if a.kind == "run" && !seen[a.split] {
			seen[a.split] = true
			ks = append(ks, a.split)
		}
	}
	sort.Ints(ks)
	var sp []string
	for _, s := range ks {
		sd, err := core.GetSplit(c12Repo, k.did, c12SplitID(s), k.env.Stores)
		switch {
		case err != nil && corekit.ErrClass(err) == "notfound":
			sp = append(sp, fmt.Sprintf("%d:absent", s))
		case err != nil:
			sp = append(sp, fmt.Sprintf("%d:err", s))
		case sd.State == model.SplitDone:
			g, ok := genActor[sd.GenerationID]
			if !ok {
				g = -1
			}
			sp = append(sp, fmt.Sprintf("%d:done:%d", s, g))
		default:
			sp = append(sp, fmt.Sprintf("%d:%s", s, sd.State))
		}
	}
	splits = strings.Join(sp, ",")
	if splits == "" {
		splits = "none"
	}
	// bundles: a bundle exists once its bundle.yaml exists
	hc := k.hashContent()
	pathID := map[string]int{}
	for _, a := range k.actors {
		for _, f := range a.files {
			pathID[c12Path(f[0])] = f[0]
		}
	}
	type bd struct {
		owner   int
		content string
	}
	var bs []bd
	for _, key := range k.env.Meta.SortedKeys() {
		if !strings.HasPrefix(key, "bundles/"+c12Repo+"/") || !strings.HasSuffix(key, "/bundle.yaml") {
			continue
		}
		id := strings.Split(key, "/")[2]
		owner, ok := bundleOwner[id]
		if !ok {
			owner = -1
		}
		type ent struct{ p, c int }
		var ents []ent
		bad := ""
		for _, ik := range k.env.Meta.SortedKeys() {
			if !strings.HasPrefix(ik, "bundles/"+c12Repo+"/"+id+"/bundle-files-") {
				continue
			}
			raw, _ := k.env.Meta.Raw(ik)
			var es model.BundleEntries
			if err := yaml.Unmarshal(raw, &es); err != nil {
				bad = "unreadable-index"
				continue
			}
			for _, e := range es.BundleEntries {
				p, ok1 := pathID[e.NameWithPath]
				cid, ok2 := hc[e.Hash]
				if !ok1 || !ok2 {
					bad = "unknown-entry:" + tr.Esc(e.NameWithPath)
					continue
				}
				ents = append(ents, ent{p, cid})
			}
		}
		sort.Slice(ents, func(i, j int) bool { return ents[i].p < ents[j].p })
		parts := make([]string, len(ents))
		for i, e := range ents {
			parts[i] = fmt.Sprintf("%d=%d", e.p, e.c)
		}
		content := strings.Join(parts, "+")
		if content == "" {
			content = "-"
		}
		if bad != "" {
			content += ":" + bad
		}
		if checkDownload && bad == "" {
			files, _, err := corekit.Download(k.env.Stores, c12Repo, id)
			if err != nil {
				content += ":download-" + corekit.ErrClass(err)
			} else {
				if len(files) != len(ents) {
					content += ":download-differs"
				} else {
					for _, e := range ents {
						if string(files[c12Path(e.p)]) != string(c12Content(e.c)) {
							content += ":download-differs"
							break
						}
					}
				}
			}
		}
		bs = append(bs, bd{owner, content})
	}
	sort.Slice(bs, func(i, j int) bool { return bs[i].owner < bs[j].owner })
	nb = len(bs)
	parts := make([]string, len(bs))
	for i, b := range bs {
		parts[i] = fmt.Sprintf("%d:%s", b.owner, b.content)
	}
	bundles = strings.Join(parts, ";")
	if bundles == "" {
		bundles = "none"
	}
	listed, lerr := core.ListBundles(c12Repo, k.env.Stores)
	aux = fmt.Sprintf("listbundles=%d/%s late=%d", len(listed), corekit.ErrClass(lerr), k.sched.Late())
	return
}

func (k *c12Case) schedText() string {
	parts := make([]string, len(k.events))
	for i, e := range k.events {
		if e.crash {
			parts[i] = fmt.Sprintf("x%d", e.actor)
		} else {
			parts[i] = fmt.Sprintf("%d", e.actor)
		}
	}
	if len(parts) == 0 {
		return "-"
	}
	return strings.Join(parts, ",")
}

type c12Line struct {
	op, res string
	note    bool
}

// c12Out is one rendered case (cases run in parallel, the trace is written in a fixed order).
type c12Out struct {
	header string
	lines  []c12Line
	counts []string
}

func c12Flush(c *ctx, o *c12Out) {
	c.w.Case("%s", o.header)
	for _, l := range o.lines {
		if l.note {
			c.w.Note(l.op)
		} else {
			c.w.Op(l.op, l.res)
		}
	}
	c.w.End()
	for _, x := range o.counts {
		c.w.Count(x)
	}
}

// render turns the finished case into trace lines.
func (k *c12Case) render(tag string) *c12Out {
	o := &c12Out{}
	as := make([]string, len(k.actors))
	for i, a := range k.actors {
		as[i] = a.String()
	}
	o.header = fmt.Sprintf("c12 mode=%s tag=%s actors=%s", k.mode, tag, strings.Join(as, ";"))
	op := func(op, res string) { o.lines = append(o.lines, c12Line{op: op, res: res}) }
	count := func(x string) { o.counts = append(o.counts, x) }
	ncr := 0
	for _, e := range k.events {
		if e.crash {
			o.lines = append(o.lines, c12Line{op: fmt.Sprintf("crash a=%d", e.actor), note: true})
			ncr++
		} else {
			op(fmt.Sprintf("ev a=%d k=%s", e.actor, e.kind), e.res+e.aux)
		}
	}
	for i := range k.actors {
		k.mu.Lock()
		err := k.errs[i]
		k.mu.Unlock()
		cl := c12Class(err)
		res := cl
		switch {
		case k.hung[i]:
			res = "hang"
		case k.crashed[i]:
			res = "crashed ## api=" + cl
		}
		op(fmt.Sprintf("fin a=%d", i), res)
		count("result/" + k.actors[i].kind + "=" + strings.SplitN(res, " ", 2)[0])
	}
	term, splits, bundles, nb, aux := k.observe(len(k.events)%4 == 0)
	if k.broken != "" {
		term += ":harness-" + tr.Esc(k.broken)
	}
	op("term", term)
	op("splits", splits)
	op("bundles", bundles+" ## "+aux)
	holds := 1
	if nb > 1 {
		holds = 0
	}
	op("amo sched="+k.schedText(), fmt.Sprintf("holds=%d ## bundles=%d", holds, nb))
	count("mode=" + k.mode)
	count("tag=" + tag)
	count(fmt.Sprintf("actors=%d", len(k.actors)))
	count(fmt.Sprintf("crashes=%d", ncr))
	count(fmt.Sprintf("bundles=%d", nb))
	count("term=" + strings.SplitN(term, ":", 2)[0])
	count(fmt.Sprintf("steps>=%d", (len(k.events)-ncr)/5*5))
	return o
}

// c12Parallel runs f(0..n-1) on a pool of workers and returns the results in index order.
func c12Parallel(n int, f func(i int) (*c12Out, error)) ([]*c12Out, error) {
	outs := make([]*c12Out, n)
	errs := make([]error, n)
	workers := runtime.NumCPU()
	if workers > 16 {
		workers = 16
	}
	if workers > n {
		workers = n
	}
	var wg sync.WaitGroup
	next := make(chan int)
	for w := 0; w < workers; w++ {
		wg.Add(1)
		go func() {
			defer wg.Done()
			for i := range next {
				outs[i], errs[i] = f(i)
			}
		}()
	}
	for i := 0; i < n; i++ {
		next <- i
	}
	close(next)
	wg.Wait()
	for _, e := range errs {
		if e != nil {
			return nil, e
		}
	}
	return outs, nil
}

// ---- exploration --------------------------------------------------------------------------

// c12Follow replays a fixed choice prefix and then always takes option 0; it records the options
// it had. The choice sequences form a tree that c12Exhaustive walks breadth first: the unexplored
// siblings of a run with choices c and widths w are c[:i] ++ [v] for i >= len(prefix), 0 < v < w[i].
type c12Follow struct {
	prefix          []int
	choices, widths []int
}

func (o *c12Follow) pick(n int) int {
	v := 0
	if len(o.choices) < len(o.prefix) {
		v = o.prefix[len(o.choices)]
		if v >= n {
			v = n - 1
		}
	}
	o.choices = append(o.choices, v)
	o.widths = append(o.widths, n)
	return v
}

// c12Exhaustive runs every interleaving of the significant steps of `actors` after the actors in
// `prefix` ran alone to completion (in that order) and before the actors in `suffix` do; at most
// maxCrash crashes, of actors in `crashable`, at every point. limit > 0 caps the number of cases.
func c12Exhaustive(c *ctx, tag string, actors []c12Actor, prefix, suffix []int, crashable map[int]bool, maxCrash, limit int) error {
	inPre, inSuf := map[int]bool{}, map[int]bool{}
	for _, i := range prefix {
		inPre[i] = true
	}
	for _, i := range suffix {
		inSuf[i] = true
	}
	type result struct{ choices, widths []int }
	var one func(job []int, attempt int) (*c12Out, *result, error)
	one = func(job []int, attempt int) (*c12Out, *result, error) {
		k, err := c12NewCase(c, "sched", actors)
		if err != nil {
			return nil, nil, err
		}
		odo := &c12Follow{prefix: job}
		crashes := 0
		k.runScheduled(func(k *c12Case, live []int) (int, bool) {
			// the prefix actors first, one after the other
			for _, p := range prefix {
				for _, l := range live {
					if l == p {
						return p, false
					}
				}
			}
			var mid []int
			for _, l := range live {
				if !inPre[l] && !inSuf[l] {
					mid = append(mid, l)
				}
			}
			if len(mid) == 0 {
				for _, s := range suffix {
					for _, l := range live {
						if l == s {
							return s, false
						}
					}
				}
				return live[0], false
			}
			var cr []int
			if crashes < maxCrash {
				for _, l := range mid {
					if crashable[l] {
						cr = append(cr, l)
					}
				}
			}
			v := odo.pick(len(mid) + len(cr))
			if v < len(mid) {
				return mid[v], false
			}
			crashes++
			return cr[v-len(mid)], true
		})
		if k.broken != "" && attempt == 0 {
			// an apparent hang may be processor starvation on a loaded machine: replay the same choices once
			return one(job, 1)
		}
		return k.render(tag), &result{odo.choices, odo.widths}, nil
	}
	wave := [][]int{nil}
	total := 0
	for len(wave) > 0 {
		if limit > 0 && total+len(wave) > limit {
			wave = wave[:limit-total]
			c.extra["c12_truncated_"+tag] = limit
		}
		results := make([]*result, len(wave))
		outs, err := c12Parallel(len(wave), func(i int) (*c12Out, error) {
			o, r, e := one(wave[i], 0)
			results[i] = r
			return o, e
		})
		if err != nil {
			return err
		}
		var next [][]int
		for i, o := range outs {
			c12Flush(c, o)
			total++
			r := results[i]
			for pos := len(wave[i]); pos < len(r.choices); pos++ {
				for v := 1; v < r.widths[pos]; v++ {
					job := append(append([]int(nil), r.choices[:pos]...), v)
					next = append(next, job)
				}
			}
		}
		if limit > 0 && total >= limit {
			break
		}
		wave = next
	}
	c.extra["c12_cases_"+tag] = total
	return nil
}

func c12Files(rng *tr.Rng, split, run int) [][2]int {
	// paths are private to the split (10*split + j), plus path 0 shared by everybody with the same
	// content; the content ids of a run are private to the run, so the bundle tells whose files it holds
	var fs [][2]int
	if rng.Intn(3) == 0 {
		fs = append(fs, [2]int{0, 0})
	}
	n := 1 + rng.Intn(3)
	for j := 0; j < n; j++ {
		fs = append(fs, [2]int{10*split + j + 1, 100*split + 10*run + j + 1})
	}
	return fs
}

// c12RandomActors: 1..3 commits/cancels (retries are further commit actors), up to 2 splits with up
// to 2 runs each.
func c12RandomActors(rng *tr.Rng) []c12Actor {
	var as []c12Actor
	nsplits := 1 + rng.Intn(2)
	for s := 1; s <= nsplits; s++ {
		nruns := 1 + rng.Intn(2)
		for r := 0; r < nruns; r++ {
			as = append(as, c12Actor{kind: "run", split: s, files: c12Files(rng, s, r)})
		}
	}
	nc := 1 + rng.Intn(3)
	for i := 0; i < nc; i++ {
		if rng.Intn(4) == 0 {
			as = append(as, c12Actor{kind: "cancel"})
		} else {
			as = append(as, c12Actor{kind: "commit"})
		}
	}
	// shuffle so that actor indices carry no meaning
	p := rng.Perm(len(as))
	out := make([]c12Actor, len(as))
	for i, j := range p {
		out[i] = as[j]
	}
	return out
}

func c12RandomScheduled(c *ctx, n int) error {
	seeds := make([]uint64, n)
	for i := range seeds {
		seeds[i] = c.rng.Uint64()
	}
	const chunk = 256
	for lo := 0; lo < n; lo += chunk {
		hi := lo + chunk
		if hi > n {
			hi = n
		}
		outs, err := c12Parallel(hi-lo, func(j int) (*c12Out, error) {
			for attempt := 0; ; attempt++ {
				rng := tr.NewRng(seeds[lo+j])
				actors := c12RandomActors(rng)
				k, err := c12NewCase(c, "sched", actors)
				if err != nil {
					return nil, err
				}
				// actors become eligible after a random number of global steps (late starters = retries)
				startAfter := make([]int, len(actors))
				for i, a := range actors {
					switch {
					case a.kind == "run":
						startAfter[i] = rng.Pick(0, 0, 0, 4, 8)
					default:
						startAfter[i] = rng.Pick(0, 4, 6, 8, 12, 16)
					}
				}
				pCrash := rng.Pick(0, 0, 5, 10, 20) // percent per decision
				stick := rng.Pick(0, 30, 60, 85)
				steps, last := 0, -1
				k.runScheduled(func(k *c12Case, live []int) (int, bool) {
					steps++
					var el []int
					for _, l := range live {
						if startAfter[l] <= steps {
							el = append(el, l)
						}
					}
					if len(el) == 0 {
						el = live
					}
					if rng.Intn(100) < pCrash {
						return el[rng.Intn(len(el))], true
					}
					if last >= 0 && rng.Intn(100) < stick {
						for _, l := range el {
							if l == last {
								return l, false
							}
						}
					}
					last = el[rng.Intn(len(el))]
					return last, false
				})
				if k.broken != "" && attempt == 0 {
					continue // replay the same seed once (processor starvation looks like a hang)
				}
				return k.render("random"), nil
			}
		})
		if err != nil {
			return err
		}
		for _, o := range outs {
			c12Flush(c, o)
		}
	}
	return nil
}

// c12RandomFree: truly parallel goroutines (one case at a time, so that the actors of a case
// really compete for the processors).
func c12RandomFree(c *ctx, n int) error {
	for it := 0; it < n; it++ {
		actors := c12RandomActors(c.rng)
		crashAfter := make([]int, len(actors))
		for i := range crashAfter {
			crashAfter[i] = -1
			if c.rng.Intn(6) == 0 {
				crashAfter[i] = c.rng.Intn(6)
			}
		}
		jitter := c.rng.Uint64()
		var k *c12Case
		for attempt := 0; attempt < 2; attempt++ {
			var err error
			if k, err = c12NewCase(c, "free", actors); err != nil {
				return err
			}
			k.runFree(crashAfter, jitter)
			if k.broken == "" {
				break // otherwise run it once more: processor starvation looks like a hang
			}
		}
		c12Flush(c, k.render("parallel"))
	}
	return nil
}

func c12(c *ctx) error {
	run := func(split, r int, files ...[2]int) c12Actor {
		return c12Actor{kind: "run", split: split, files: files}
	}
	commit, cancel := c12Actor{kind: "commit"}, c12Actor{kind: "cancel"}
	th := c.thorough()
	all := func(xs ...int) map[int]bool {
		m := map[int]bool{}
		for _, x := range xs {
			m[x] = true
		}
		return m
	}
	// E1: two commits race after one completed split, one crash anywhere (both findings live here)
	if err := c12Exhaustive(c, "two-commits", []c12Actor{run(1, 0, [2]int{1, 11}), commit, commit},
		[]int{0}, nil, all(1, 2), 1, 0); err != nil {
		return err
	}
	// E2: commit, crash at every point, then a retry; then a second retry
	if err := c12Exhaustive(c, "commit-retry", []c12Actor{run(1, 0, [2]int{1, 11}, [2]int{2, 12}), commit, commit, commit},
		[]int{0, 1}, []int{2, 3}, all(1), 1, 0); err != nil {
		return err
	}
	// (crashes are taken by the odometer only for "mid" actors: make the first commit a mid actor)
	if err := c12Exhaustive(c, "commit-crash-retry", []c12Actor{run(1, 0, [2]int{1, 11}, [2]int{2, 12}), commit, commit, commit},
		[]int{0}, []int{2, 3}, all(1), 1, 0); err != nil {
		return err
	}
	// E3: commit against cancel
	if err := c12Exhaustive(c, "commit-cancel", []c12Actor{run(1, 0, [2]int{1, 11}), commit, cancel},
		[]int{0}, nil, all(1, 2), 1, 0); err != nil {
		return err
	}
	// E4: two runs of the same split race, then a commit, then a third run of that split
	lim := 250
	if th {
		lim = 0
	}
	if err := c12Exhaustive(c, "two-runs-one-split", []c12Actor{run(1, 0, [2]int{1, 11}), run(1, 1, [2]int{1, 21}, [2]int{2, 22}), commit, run(1, 2, [2]int{1, 31})},
		nil, []int{2, 3}, nil, 0, lim); err != nil {
		return err
	}
	// E5: a run racing a commit (another split is already complete)
	mc := 0
	if th {
		mc = 1
	}
	if err := c12Exhaustive(c, "run-vs-commit", []c12Actor{run(1, 0, [2]int{1, 11}), run(2, 0, [2]int{21, 211}), commit},
		[]int{0}, nil, all(1, 2), mc, 0); err != nil {
		return err
	}
	// E6: a run racing a cancel, then a new split is refused
	if err := c12Exhaustive(c, "run-vs-cancel", []c12Actor{run(1, 0, [2]int{1, 11}), cancel, run(2, 0, [2]int{21, 211})},
		nil, []int{2}, all(0, 1), 1, 0); err != nil {
		return err
	}
	if th {
		// E7: two commits and a cancel; two runs of one split with a crash
		if err := c12Exhaustive(c, "two-commits-cancel", []c12Actor{run(1, 0, [2]int{1, 11}), commit, commit, cancel},
			[]int{0}, nil, nil, 0, 0); err != nil {
			return err
		}
		if err := c12Exhaustive(c, "two-runs-crash", []c12Actor{run(1, 0, [2]int{1, 11}), run(1, 1, [2]int{1, 21}), commit},
			nil, []int{2}, all(0, 1), 1, 6000); err != nil {
			return err
		}
	}
	nr, nf := 900, 300
	if th {
		nr, nf = 30000, 6000
	}
	if err := c12RandomScheduled(c, nr); err != nil {
		return err
	}
	if err := c12RandomFree(c, nf); err != nil {
		return err
	}
	return c12Directed(c)
}

// c12Directed: two judged scenarios outside the scheduler.
//   - pagecommit: k completed splits (and some running ones), committed with listing page size p: the
//     bundle holds the files of EVERY completed split, of no running one, whatever p;
//   - termfault: a committed / canceled diamond while ONE read of its descriptors fails transiently:
//     no new split is accepted and no (further) bundle appears.
func c12Directed(c *ctx) error {
	rng := tr.NewRng(c.seed*31 + 12)
	n := 40
	if c.thorough() {
		n = 400
	}
	mk := func(env *corekit.Env, did string, split int, files map[string][]byte, upload bool) error {
		return corekit.Recover(func() error {
			sp := core.NewSplit(c12Repo, did, env.Stores,
				core.SplitDescriptor(model.NewSplitDescriptor(model.SplitID(c12SplitID(split)))),
				core.SplitConsumableStore(corekit.TreeStore(files)), core.SplitLogger(corekit.Nop))
			if _, e := core.CreateSplit(c12Repo, did, env.Stores, core.SplitDescriptor(&sp.SplitDescriptor), core.SplitLogger(corekit.Nop)); e != nil {
				return e
			}
			if !upload {
				return nil
			}
			return sp.Upload()
		})
	}
	bundleFiles := func(env *corekit.Env) (int, map[string]bool, error) {
		bs, err := core.ListBundles(c12Repo, env.Stores)
		if err != nil {
			return 0, nil, err
		}
		names := map[string]bool{}
		for _, b := range bs {
			mb := corekit.NewBundle(env.Stores, c12Repo, nil, 0, b.ID)
			if e := corekit.Recover(func() error { return core.DownloadMetadata(context.Background(), mb) }); e != nil {
				return len(bs), nil, e
			}
			for _, en := range mb.BundleEntries {
				names[en.NameWithPath] = true
			}
		}
		return len(bs), names, nil
	}
	for i := 0; i < n; i++ {
		env := corekit.NewEnv()
		if env.CreateRepo(c12Repo) != nil {
			continue
		}
		dd, err := core.CreateDiamond(c12Repo, env.Stores)
		if err != nil {
			continue
		}
		k := 1 + rng.Intn(4)
		running := rng.Intn(2)
		want := map[string]bool{}
		emptyFirst := i%4 == 1 // the first completed split holds nothing (an empty directory)
		allEmpty := i%16 == 3  // … or every split does: the commit yields an empty bundle
		for sidx := 1; sidx <= k+running; sidx++ {
			files := map[string][]byte{}
			for f := 0; f < 1+rng.Intn(3) && !(emptyFirst && sidx == 1) && !allEmpty; f++ {
				name := fmt.Sprintf("s%d/f%d", sidx, f)
				files[name] = []byte(fmt.Sprintf("%d-%d-%d", i, sidx, f))
				if sidx <= k {
					want[name] = true
				}
			}
			if e := mk(env, dd.DiamondID, sidx, files, sidx <= k); e != nil {
				return fmt.Errorf("c12 directed: split %d: %v", sidx, e)
			}
		}
		page := []int{1, 2, 3, 4, 5, 8, 1024}[i%7]
		c.w.Case("c12 directed pagecommit")
		cerr := corekit.Recover(func() error {
			d := core.NewDiamond(c12Repo, env.Stores, core.DiamondDescriptor(model.NewDiamondDescriptor(model.DiamondID(dd.DiamondID))),
				core.DiamondLogger(corekit.Nop), core.DiamondMessage("c12 pages"))
			return d.Commit(core.BatchSize(page))
		})
		got := "all"
		if cerr != nil {
			got = "err:" + c12Class(cerr)
		} else if nb, names, e := bundleFiles(env); e != nil || nb != 1 {
			got = fmt.Sprintf("bundles=%d", nb)
		} else {
			for name := range want {
				if !names[name] {
					got = "missing:" + name
				}
			}
			for name := range names {
				if !want[name] {
					got = "extra:" + name
				}
			}
		}
		c.w.Op(fmt.Sprintf("pagecommit done=%d running=%d page=%d got=%s", k, running, page, got), "sound")
		c.w.Count("directed=pagecommit")
		c.w.End()
		if cerr != nil {
			continue
		}
		// ---- the diamond is terminated now (or make a canceled one): transient read faults
		term := "committed"
		tenv := env
		if i%3 == 0 {
			term = "canceled"
			tenv = corekit.NewEnv()
			if tenv.CreateRepo(c12Repo) != nil {
				continue
			}
			d2, e := core.CreateDiamond(c12Repo, tenv.Stores)
			if e != nil {
				continue
			}
			if mk(tenv, d2.DiamondID, 1, map[string][]byte{"x": []byte("x")}, true) != nil {
				continue
			}
			if corekit.Recover(func() error {
				return core.NewDiamond(c12Repo, tenv.Stores, core.DiamondDescriptor(model.NewDiamondDescriptor(model.DiamondID(d2.DiamondID))), core.DiamondLogger(corekit.Nop)).Cancel()
			}) != nil {
				continue
			}
			dd = d2
		}
		before, _, _ := bundleFiles(tenv)
		g := &crashstore.Group{FailReadOp: "get", FailReadKey: "diamond-done.yaml", FailReadAt: 1 + rng.Intn(2)}
		fst := corekit.WithStores(tenv.Wal, tenv.ReadLog, tenv.Blob, crashstore.Wrap(g, "meta", tenv.Meta), crashstore.Wrap(g, "vmeta", tenv.VMeta))
		action := []string{"split", "commit"}[i%2]
		var aerr error
		if action == "split" {
			aerr = corekit.Recover(func() error {
				sp := core.NewSplit(c12Repo, dd.DiamondID, fst,
					core.SplitDescriptor(model.NewSplitDescriptor(model.SplitID(c12SplitID(9)))),
					core.SplitConsumableStore(corekit.TreeStore(map[string][]byte{"late": []byte("late")})), core.SplitLogger(corekit.Nop))
				if _, e := core.CreateSplit(c12Repo, dd.DiamondID, fst, core.SplitDescriptor(&sp.SplitDescriptor), core.SplitLogger(corekit.Nop)); e != nil {
					return e
				}
				return sp.Upload()
			})
		} else {
			aerr = corekit.Recover(func() error {
				return core.NewDiamond(c12Repo, fst, core.DiamondDescriptor(model.NewDiamondDescriptor(model.DiamondID(dd.DiamondID))),
					core.DiamondLogger(corekit.Nop), core.DiamondMessage("late")).Commit()
			})
		}
		after, _, _ := bundleFiles(tenv)
		lateSplit := false
		for _, key := range tenv.VMeta.SortedKeys() {
			if strings.Contains(key, "/splits/"+c12SplitID(9)+"/") {
				lateSplit = true
			}
		}
		got = "refused"
		switch {
		case after != before:
			got = fmt.Sprintf("bundles:%d->%d", before, after)
		case lateSplit:
			got = "late-split-accepted"
		case aerr == nil:
			got = "returned-ok"
		}
		if g.Reads() >= g.FailReadAt {
			c.w.Case("c12 directed termfault")
			c.w.Op(fmt.Sprintf("termfault diamond=%s action=%s at=%d got=%s", term, action, g.FailReadAt, got), "sound")
			c.w.Count("directed=termfault-" + term)
			c.w.End()
		}
	}
	return nil
}
