package main

// C17 — a read-only mount shows exactly the bundle.
//
// Every case uploads a random tree as a bundle (reference object stores), builds the read-only
// file system in one of the two mount modes (streamed / pre-downloaded) and drives the
// fuseutil.FileSystem operation object with a random program. No kernel mount.
//
// Trace (one case):
//   case <n> mode=stream|staged leaf=<L> files=<k>     (staged = pre-downloaded into a localfs directory)
//   ent p=<path> s=<size> c=<content seed>      (input lines, in the order of bundle.GetBundleEntries())
//   mount => ok|err
//   lk p=<parent path> n=<name> => ok kind=f size=<s> ## ino=<raw> nlink=.. | ok kind=d ## ino= size= nlink= | enoent
//   ga p=<path> | ga x=<raw inode> => ok kind=.. [size=..] ## ...        |  enoent
//   od p=<path> => ok | enoent                                                (OpenDir)
//   ls p=<dir> bufs=<b,...> cuts=<c,...> => ok n=<count> names=<sorted> ## seq=<in order>
//   rd p=<dir>|x=<raw> off=<o> buf=<b> => ok|enoent ## n=<count> last=<offset> names=<in order>
//   rf p=<path>|x=<raw> off=<o> n=<len> => ok b=<hex> | ok b=<len>:<fnv64> | enoent | err   (err: reading a directory)
//   walk => nodes=<n> files=<f> dirs=<d> inodes=<distinct inode numbers> direntino=ok|bad
//   end
// Nodes are addressed by path; the harness resolves paths with real LookUpInode calls from the
// root, the model driver resolves them in the model (so raw inode numbers are never compared;
// they are shown after ` ## `).

import (
	"context"
	"encoding/binary"
	"fmt"
	"os"
	"os/exec"
	"path/filepath"
	"sort"
	"strings"
	"syscall"
	"time"

	"dvh/internal/memstore"
	"dvh/internal/tr"

	"github.com/jacobsa/fuse/fuseops"
	"github.com/jacobsa/fuse/fuseutil"
	"github.com/spf13/afero"
	"go.uber.org/zap"

	context2 "github.com/oneconcern/datamon/pkg/context"
	"github.com/oneconcern/datamon/pkg/core"
	dfuse "github.com/oneconcern/datamon/pkg/fuse"
	"github.com/oneconcern/datamon/pkg/model"
	"github.com/oneconcern/datamon/pkg/storage/localfs"
)

var c17Endless int

func init() { subs["c17"] = c17; subs["c17probe"] = c17Probe }

// c17Probe uploads one multi-leaf file with a 256-byte leaf size. On a tree where cafs' writer cannot
// take a Write longer than a leaf (io.Copy hands over 32 KiB at a time) this hangs or dies, so it
// runs in a child process with a timeout; when it succeeds the cases also use small leaf sizes.
func c17Probe(c *ctx) error {
	stores := context2.NewStores(memstore.New("wal"), memstore.New("readlog"), memstore.New("blob"), memstore.New("meta"), memstore.New("vmeta"))
	if err := core.CreateRepo(model.RepoDescriptor{Name: "r", Description: "d"}, stores); err != nil {
		return err
	}
	src := memstore.New("src")
	src.SetRaw("f", tr.GenBytes(7, 3000))
	desc := model.NewBundleDescriptor(model.Message("m"))
	desc.LeafSize = 256
	b := core.NewBundle(core.Repo("r"), core.ContextStores(stores), core.ConsumableStore(src),
		core.Logger(zap.NewNop()), core.BundleDescriptor(desc))
	if err := core.Upload(context.Background(), b); err != nil {
		return err
	}
	if b.BundleID == "" {
		return fmt.Errorf("probe: no bundle id after upload")
	}
	return nil
}

func c17SmallLeavesWork() bool {
	ctxb, cancel := context.WithTimeout(context.Background(), 4*time.Second)
	defer cancel()
	cmd := exec.CommandContext(ctxb, os.Args[0], "c17probe", "-out", os.DevNull)
	return cmd.Run() == nil
}

type c17File struct {
	path string
	size int
	seed uint64
}

type c17Dirent struct {
	ino  uint64
	off  uint64
	name string
	typ  uint32
}

// parseDirents decodes the fuse_dirent wire layout written by fuseutil.WriteDirent:
// ino u64, off u64, namelen u32, type u32, name, zero padding to a multiple of 8 (host order).
func c17ParseDirents(b []byte) ([]c17Dirent, bool) {
	var out []c17Dirent
	for len(b) > 0 {
		if len(b) < 24 {
			return out, false
		}
		d := c17Dirent{
			ino: binary.LittleEndian.Uint64(b[0:]),
			off: binary.LittleEndian.Uint64(b[8:]),
			typ: binary.LittleEndian.Uint32(b[20:]),
		}
		nl := int(binary.LittleEndian.Uint32(b[16:]))
		tot := 24 + nl
		if nl%8 != 0 {
			tot += 8 - nl%8
		}
		if tot > len(b) {
			return out, false
		}
		d.name = string(b[24 : 24+nl])
		out = append(out, d)
		b = b[tot:]
	}
	return out, true
}

func c17Errno(err error) string {
	if err == nil {
		return "ok"
	}
	if e, ok := err.(syscall.Errno); ok {
		switch e {
		case syscall.ENOENT:
			return "enoent"
		case syscall.EIO:
			return "err"
		case syscall.ENOTDIR:
			return "err"
		}
		return "err"
	}
	return "err"
}

// fnv64 is FNV-1a (64 bit), the digest used for long byte strings on both sides.
func c17Fnv(b []byte) uint64 {
	h := uint64(0xcbf29ce484222325)
	for _, c := range b {
		h ^= uint64(c)
		h *= 0x100000001b3
	}
	return h
}

func c17Bytes(b []byte) string {
	if len(b) <= 24 {
		return "b=" + tr.Hex(b)
	}
	return fmt.Sprintf("b=%d:%016x", len(b), c17Fnv(b))
}

var c17Names = []string{"a", "b", "c", "d", "data", "x.txt", "y.csv", "with space", "dot.dot.d", ".hidden", "ünï", "日本", "a=b", "p%q", "c,d",
	"..x", "x..", "...", "-", "~", "a:b", "LONG-name-that-is-rather-long-0123456789-abcdefghijklmnopqrstuvwxyz", "t\tab", "q?*", "e", "f", "g"}

func c17Name(c *ctx, i int) string {
	switch c.rng.Intn(6) {
	case 0:
		return fmt.Sprintf("f%d", i)
	case 1:
		return fmt.Sprintf("%s-%d", c17Names[c.rng.Intn(len(c17Names))], i)
	case 2:
		// names of every length modulo 8 (dirent padding)
		return strings.Repeat("n", 1+c.rng.Intn(20)) + fmt.Sprint(i)
	default:
		return c17Names[c.rng.Intn(len(c17Names))]
	}
}

// c17Tree draws a set of file paths: distinct, clean, none a proper prefix directory of another.
func c17Tree(c *ctx, leaf int) []c17File {
	type dir struct {
		path  string
		depth int
	}
	shape := c.rng.Intn(10)
	nfiles := 1 + c.rng.Intn(12)
	maxDepth := 1 + c.rng.Intn(6)
	switch shape {
	case 0:
		nfiles = 0 // the empty bundle
	case 1:
		nfiles = 1
	case 2: // many siblings in one directory
		nfiles = 60 + c.rng.Intn(141)
		if !c.thorough() && c.rng.Intn(3) > 0 {
			nfiles = 20 + c.rng.Intn(60)
		}
	case 3: // one deep chain
		maxDepth = 6
	}
	if c.thorough() && shape > 3 {
		nfiles = 1 + c.rng.Intn(40)
	}
	dirs := []dir{{"", 0}}
	used := map[string]bool{} // every path in use, as a file or as a directory
	isDir := map[string]bool{"": true}
	var files []c17File
	for i := 0; len(files) < nfiles && i < nfiles*20+20; i++ {
		d := dirs[c.rng.Intn(len(dirs))]
		if shape == 2 && c.rng.Intn(10) > 0 {
			d = dirs[len(dirs)-1]
		}
		// possibly descend through new directories
		for d.depth < maxDepth-1 && (c.rng.Intn(3) == 0 || (shape == 3 && d.depth < 5)) {
			nm := c17Name(c, i)
			p := nm
			if d.path != "" {
				p = d.path + "/" + nm
			}
			if used[p] && !isDir[p] {
				break
			}
			if !isDir[p] {
				isDir[p], used[p] = true, true
				dirs = append(dirs, dir{p, d.depth + 1})
			}
			d = dir{p, d.depth + 1}
		}
		nm := c17Name(c, i)
		p := nm
		if d.path != "" {
			p = d.path + "/" + nm
		}
		if used[p] {
			continue
		}
		used[p] = true
		var size int
		switch c.rng.Intn(10) {
		case 0:
			size = 0
		case 1:
			size = 1
		case 2: // multi-leaf
			size = leaf + c.rng.Intn(2*leaf+2)
		case 3: // exactly on a leaf boundary
			size = leaf * (1 + c.rng.Intn(2))
		case 4:
			size = leaf - 1 + c.rng.Intn(3)
		default:
			size = c.rng.Intn(300)
		}
		if shape == 2 && size > 2000 && c.rng.Intn(8) > 0 {
			size = c.rng.Intn(50)
		}
		files = append(files, c17File{path: p, size: size, seed: c.rng.Uint64()>>1 | 1})
	}
	return files
}

type c17Mount struct {
	fs     fuseutil.FileSystem
	ino    map[string]uint64 // path -> inode, learned through LookUpInode
	isDir  map[string]bool
	leaf   int
	byPath map[string]c17File
}

// c17Poisoned: an operation panicked or hung; the file system object is in an undefined state and
// the rest of the case is not run.
var c17Poisoned bool

func c17Guard(f func() error) (res string) {
	defer func() {
		if r := recover(); r != nil {
			res = "panic"
		}
		if res == "panic" || res == "hang" {
			c17Poisoned = true
		}
	}()
	done := make(chan string, 1)
	go func() {
		defer func() {
			if r := recover(); r != nil {
				done <- "panic"
			}
		}()
		err := f()
		if err != nil && os.Getenv("C17_DEBUG") != "" {
			fmt.Fprintf(os.Stderr, "debug: %T %v\n", err, err)
		}
		done <- c17Errno(err)
	}()
	select {
	case r := <-done:
		return r
	case <-time.After(20 * time.Second):
		return "hang"
	}
}

func (m *c17Mount) lookup(parent uint64, name string) (string, *fuseops.LookUpInodeOp) {
	op := &fuseops.LookUpInodeOp{Parent: fuseops.InodeID(parent), Name: name}
	r := c17Guard(func() error { return m.fs.LookUpInode(context.Background(), op) })
	return r, op
}

// resolve walks a path from the root with LookUpInode.
func (m *c17Mount) resolve(p string) (uint64, bool) {
	if p == "" {
		return fuseops.RootInodeID, true
	}
	if i, ok := m.ino[p]; ok {
		return i, true
	}
	cur := uint64(fuseops.RootInodeID)
	sofar := ""
	for _, comp := range strings.Split(p, "/") {
		r, op := m.lookup(cur, comp)
		if r != "ok" {
			return 0, false
		}
		cur = uint64(op.Entry.Child)
		if sofar == "" {
			sofar = comp
		} else {
			sofar += "/" + comp
		}
		m.ino[sofar] = cur
		m.isDir[sofar] = op.Entry.Attributes.Mode.IsDir()
	}
	return cur, true
}

func c17Attr(a fuseops.InodeAttributes, ino uint64) string {
	if a.Mode.IsDir() {
		return fmt.Sprintf("ok kind=d ## ino=%d size=%d nlink=%d", ino, a.Size, a.Nlink)
	}
	return fmt.Sprintf("ok kind=f size=%d ## ino=%d nlink=%d", a.Size, ino, a.Nlink)
}

func (m *c17Mount) readDir(ino uint64, off uint64, buf int) (string, []c17Dirent) {
	op := &fuseops.ReadDirOp{Inode: fuseops.InodeID(ino), Offset: fuseops.DirOffset(off), Dst: make([]byte, buf)}
	r := c17Guard(func() error { return m.fs.ReadDir(context.Background(), op) })
	if r != "ok" {
		return r, nil
	}
	if op.BytesRead < 0 || op.BytesRead > buf {
		return "badlen", nil
	}
	ds, ok := c17ParseDirents(op.Dst[:op.BytesRead])
	if !ok {
		return "badwire", ds
	}
	return "ok", ds
}

func c17EscList(xs []string) string {
	ys := make([]string, len(xs))
	for i, x := range xs {
		ys[i] = tr.Esc(x)
	}
	return strings.Join(ys, ",")
}

func c17Summ(names []string) string {
	s := c17EscList(names)
	if len(s) <= 200 {
		return s
	}
	return fmt.Sprintf("%d:%016x", len(s), c17Fnv([]byte(s)))
}

func c17IntList(xs []int) string {
	ys := make([]string, len(xs))
	for i, x := range xs {
		ys[i] = fmt.Sprint(x)
	}
	return strings.Join(ys, ",")
}

func c17(c *ctx) error {
	work := os.Getenv("VERIF_WORK")
	if work == "" {
		d, err := os.MkdirTemp("", "dv-c17-")
		if err != nil {
			return err
		}
		defer os.RemoveAll(d)
		work = d
	}
	ncases := 360
	if c.thorough() {
		ncases = 900
	}
	if c17SmallLeavesWork() {
		c17LeafSizes = append(c17LeafSizes, 64, 96, 256, 1000, 4096, 4096)
		c.extra["small_leaf_sizes"] = true
	} else {
		c.extra["small_leaf_sizes"] = "no: cafs Write cannot take more than one leaf per call on this tree; leaves are >= 32 KiB"
	}
	start := time.Now()
	budget := 15 * time.Second
	if c.thorough() {
		budget = 200 * time.Second
	}
	for i := 0; i < ncases; i++ {
		if time.Since(start) > budget {
			c.extra["stopped_at_case"] = i
			break
		}
		if err := c17Case(c, work, i); err != nil {
			return err
		}
	}
	secs := map[string]float64{}
	for k, v := range c17T {
		secs[k] = float64(v.Milliseconds()) / 1000
	}
	c.extra["seconds_by_phase"] = secs
	return nil
}

// c17LeafSizes: cafs' writer cannot take a Write longer than a leaf and io.Copy hands over 32 KiB
// at a time, so leaves are at least 32 KiB here (DESIGN.md C01 finding).
var c17LeafSizes = []int{32 * 1024, 32 * 1024, 40000, 64 * 1024}

var c17T = map[string]time.Duration{}

func c17Case(c *ctx, work string, idx int) error {
	ctxb := context.Background()
	t0 := time.Now()
	lap := func(k string) { c17T[k] += time.Since(t0); t0 = time.Now() }
	leaf := c17LeafSizes[c.rng.Intn(len(c17LeafSizes))]
	files := c17Tree(c, leaf)
	streamed := c.rng.Bool()
	// the staging area is a localfs directory, as in `datamon bundle mount` (core.Publish into a store
	// without WriteAt takes cafs' sequential Read path, which panics on empty files: C01's finding)
	const memStaging = false

	// stores + repo + upload
	meta, blob := memstore.New("meta"), memstore.New("blob")
	stores := context2.NewStores(memstore.New("wal"), memstore.New("readlog"), blob, meta, memstore.New("vmeta"))
	if err := core.CreateRepo(model.RepoDescriptor{Name: "r", Description: "d"}, stores); err != nil {
		return fmt.Errorf("create repo: %w", err)
	}
	src := memstore.New("src")
	byPath := map[string]c17File{}
	for _, f := range files {
		src.SetRaw(f.path, tr.GenBytes(f.seed, f.size))
		byPath[f.path] = f
	}
	desc := model.NewBundleDescriptor(model.Message("m"))
	desc.LeafSize = uint32(leaf)
	up := core.NewBundle(core.Repo("r"), core.ContextStores(stores), core.ConsumableStore(src),
		core.Logger(zap.NewNop()), core.BundleDescriptor(desc))
	if err := core.Upload(ctxb, up); err != nil {
		return fmt.Errorf("upload: %w", err)
	}
	lap("upload")

	// the bundle object that is mounted
	var stagingDir string
	opts := []core.BundleOption{core.Repo("r"), core.ContextStores(stores), core.BundleID(up.BundleID), core.Logger(zap.NewNop())}
	if memStaging {
		opts = append(opts, core.ConsumableStore(memstore.New("staging")))
	} else {
		stagingDir = filepath.Join(work, fmt.Sprintf("stage-%d", idx))
		if err := os.MkdirAll(stagingDir, 0o755); err != nil {
			return err
		}
		defer os.RemoveAll(stagingDir)
		opts = append(opts, core.ConsumableStore(localfs.New(afero.NewBasePathFs(afero.NewOsFs(), stagingDir))))
	}
	bundle := core.NewBundle(opts...)

	mode := "staged"
	if streamed {
		mode = "stream"
	} else if memStaging {
		mode = "staged-mem"
	}
	fsOpts := []dfuse.Option{dfuse.Streaming(streamed), dfuse.Logger(zap.NewNop())}
	if streamed {
		// the command's defaults: 50 MB cache, prefetch 1, verify on; vary them
		fsOpts = append(fsOpts, dfuse.CacheSize(c.rng.Pick(50_000_000, 50_000_000, 3*leaf, leaf)),
			dfuse.Prefetch(c.rng.Pick(1, 1, 0, 2)), dfuse.VerifyHash(c.rng.Intn(4) > 0))
	}
	var rofs *dfuse.ReadOnlyFS
	c17Poisoned = false
	mres := c17Guard(func() error {
		var err error
		rofs, err = dfuse.NewReadOnlyFS(bundle, fsOpts...)
		return err
	})

	lap("mount-" + mode)
	c.w.Case("mode=%s leaf=%d files=%d", mode, leaf, len(files))
	c.w.Count("mode=" + mode)
	c.w.Count(fmt.Sprintf("files=%s", c17Bucket(len(files))))
	// entries in the order the file system was populated from
	entries := bundle.GetBundleEntries()
	maxDepth, maxSib := 0, 0
	sib := map[string]int{}
	for _, e := range entries {
		f, ok := byPath[e.NameWithPath]
		seed := f.seed
		if !ok {
			seed = 0
		}
		c.w.Note(fmt.Sprintf("ent p=%s s=%d c=%d", tr.Esc(e.NameWithPath), e.Size, seed))
		comps := strings.Split(e.NameWithPath, "/")
		if len(comps) > maxDepth {
			maxDepth = len(comps)
		}
		for k := 0; k < len(comps); k++ {
			par := strings.Join(comps[:k], "/")
			key := par + "\x00" + comps[k]
			if sib[key] == 0 {
				sib[key] = 1
				sib["#"+par]++
				if sib["#"+par] > maxSib {
					maxSib = sib["#"+par]
				}
			}
		}
		if f.size == 0 {
			c.w.Count("file=empty")
		} else if f.size > leaf {
			c.w.Count("file=multi-leaf")
		} else {
			c.w.Count("file=single-leaf")
		}
	}
	c.w.Count(fmt.Sprintf("depth=%d", maxDepth))
	c.w.Count("max-siblings=" + c17Bucket(maxSib))
	if len(entries) != len(files) {
		c.w.Count("entries!=files")
	}
	c.w.Op("mount", mres)
	if mres != "ok" || rofs == nil {
		c.w.End()
		return nil
	}
	m := &c17Mount{fs: rofs.VerifFS(), ino: map[string]uint64{}, isDir: map[string]bool{"": true}, leaf: leaf, byPath: byPath}
	c17Program(c, m, files)
	lap("program-" + mode)
	c.w.End()
	return nil
}

func c17Bucket(n int) string {
	switch {
	case n == 0:
		return "0"
	case n == 1:
		return "1"
	case n <= 5:
		return "2-5"
	case n <= 20:
		return "6-20"
	case n <= 60:
		return "21-60"
	case n <= 120:
		return "61-120"
	}
	return "121+"
}

func c17Program(c *ctx, m *c17Mount, files []c17File) {
	// the universe of paths: files, their ancestors, and some that do not exist
	dirSet := map[string]bool{"": true}
	var filePaths []string
	for _, f := range files {
		filePaths = append(filePaths, f.path)
		comps := strings.Split(f.path, "/")
		for k := 1; k < len(comps); k++ {
			dirSet[strings.Join(comps[:k], "/")] = true
		}
	}
	var dirPaths []string
	for d := range dirSet {
		dirPaths = append(dirPaths, d)
	}
	sort.Strings(dirPaths)
	anyPath := func() string {
		if len(filePaths) > 0 && c.rng.Intn(3) > 0 {
			return filePaths[c.rng.Intn(len(filePaths))]
		}
		return dirPaths[c.rng.Intn(len(dirPaths))]
	}
	bogusIno := func() uint64 {
		switch c.rng.Intn(4) {
		case 0:
			return 0
		case 1:
			return uint64(2 + c.rng.Intn(1022))
		case 2:
			return uint64(1024 + 4*(len(files)+1)*8 + c.rng.Intn(1000))
		}
		return c.rng.Uint64() | 1<<40
	}
	nops := 30 + c.rng.Intn(40)
	if c.thorough() {
		nops = 60 + c.rng.Intn(100)
	}
	for k := 0; k < nops && !c17Poisoned; k++ {
		switch c.rng.Intn(12) {
		case 0, 1, 2: // LookUpInode: existing child, missing name, name that exists elsewhere
			par := dirPaths[c.rng.Intn(len(dirPaths))]
			if c.rng.Intn(6) == 0 && len(filePaths) > 0 {
				par = filePaths[c.rng.Intn(len(filePaths))] // a file as parent
			}
			var name string
			switch c.rng.Intn(4) {
			case 0:
				name = c17Name(c, k)
			case 1:
				p := anyPath()
				name = p[strings.LastIndex(p, "/")+1:]
				if name == "" {
					name = "zz"
				}
			default:
				// a real child of par, when there is one
				var kids []string
				for _, p := range append(append([]string{}, filePaths...), dirPaths...) {
					if p != "" && c17Dir(p) == par {
						kids = append(kids, p)
					}
				}
				if len(kids) == 0 {
					name = "nothing"
				} else {
					p := kids[c.rng.Intn(len(kids))]
					name = p[strings.LastIndex(p, "/")+1:]
				}
			}
			pi, ok := m.resolve(par)
			if !ok {
				c.w.Op(fmt.Sprintf("lk p=%s n=%s", tr.Esc(par), tr.Esc(name)), "unresolved")
				continue
			}
			r, op := m.lookup(pi, name)
			if r == "ok" {
				r = c17Attr(op.Entry.Attributes, uint64(op.Entry.Child))
				c.w.Count("lookup=found")
			} else {
				c.w.Count("lookup=" + r)
			}
			c.w.Op(fmt.Sprintf("lk p=%s n=%s", tr.Esc(par), tr.Esc(name)), r)
		case 3, 4: // GetInodeAttributes
			var ino uint64
			var opText string
			if c.rng.Intn(5) == 0 {
				ino = bogusIno()
				opText = fmt.Sprintf("ga x=%d", ino)
			} else {
				p := anyPath()
				i, ok := m.resolve(p)
				if !ok {
					c.w.Op("ga p="+tr.Esc(p), "unresolved")
					continue
				}
				ino, opText = i, "ga p="+tr.Esc(p)
			}
			op := &fuseops.GetInodeAttributesOp{Inode: fuseops.InodeID(ino)}
			r := c17Guard(func() error { return m.fs.GetInodeAttributes(context.Background(), op) })
			if r == "ok" {
				r = c17Attr(op.Attributes, ino)
			}
			c.w.Count("getattr=" + strings.SplitN(r, " ", 2)[0])
			c.w.Op(opText, r)
		case 5: // OpenDir
			p := anyPath()
			i, ok := m.resolve(p)
			if !ok {
				c.w.Op("od p="+tr.Esc(p), "unresolved")
				continue
			}
			op := &fuseops.OpenDirOp{Inode: fuseops.InodeID(i)}
			r := c17Guard(func() error { return m.fs.OpenDir(context.Background(), op) })
			c.w.Op("od p="+tr.Esc(p), r)
		case 6, 7: // a whole listing session, resumed at returned offsets
			d := dirPaths[c.rng.Intn(len(dirPaths))]
			i, ok := m.resolve(d)
			if !ok {
				c.w.Op("ls p="+tr.Esc(d), "unresolved")
				continue
			}
			nb := 1 + c.rng.Intn(3)
			bufs, cuts := make([]int, nb), make([]int, nb)
			for j := range bufs {
				// 128 holds any single dirent of the name pool (24 + padded name <= 24+72)
				bufs[j] = c.rng.Pick(128, 128, 160, 200, 256, 512, 1000, 4096, 65536)
				cuts[j] = c.rng.Pick(1, 2, 3, 1000, 1000)
			}
			var kept, seq []string
			off, pages, res := uint64(0), 0, "ok"
			for {
				r, ds := m.readDir(i, off, bufs[pages%nb])
				if r != "ok" {
					res = r
					break
				}
				pages++
				if len(ds) == 0 {
					break
				}
				if pages > 700 || c17Endless >= 5 {
					// at most 200 children per directory: a listing that needs more pages does not end
					res = "endless"
					c17Endless++
					break
				}
				n := cuts[(pages-1)%nb]
				if n > len(ds) {
					n = len(ds)
				}
				for _, e := range ds[:n] {
					kept = append(kept, e.name)
				}
				off = ds[n-1].off
			}
			seq = append(seq, kept...)
			sort.Strings(kept)
			if res == "ok" {
				res = fmt.Sprintf("ok n=%d names=%s ## seq=%s", len(kept), c17Summ(kept), c17Summ(seq))
			}
			c.w.Count("listing=" + c17Bucket(len(kept)))
			c.w.Op(fmt.Sprintf("ls p=%s bufs=%s cuts=%s", tr.Esc(d), c17IntList(bufs), c17IntList(cuts)), res)
		case 8: // one ReadDir call at an arbitrary offset (also beyond the end, on files, on unknown inodes)
			var ino uint64
			var opText string
			switch c.rng.Intn(6) {
			case 0:
				ino = bogusIno()
				opText = fmt.Sprintf("rd x=%d", ino)
			default:
				p := dirPaths[c.rng.Intn(len(dirPaths))]
				if c.rng.Intn(8) == 0 {
					p = anyPath()
				}
				i, ok := m.resolve(p)
				if !ok {
					c.w.Op("rd p="+tr.Esc(p), "unresolved")
					continue
				}
				ino, opText = i, "rd p="+tr.Esc(p)
			}
			off := c.rng.Pick(0, 0, 1, 2, 3, 5, 50, 199, 200, 201, 1000)
			buf := c.rng.Pick(0, 8, 24, 31, 32, 40, 128, 4096)
			r, ds := m.readDir(ino, uint64(off), buf)
			if r == "ok" {
				names := make([]string, len(ds))
				last := uint64(off)
				for j, e := range ds {
					names[j] = e.name
					last = e.off
				}
				r = fmt.Sprintf("ok ## n=%d last=%d names=%s", len(ds), last, c17Summ(names))
			}
			c.w.Count("readdir=" + strings.SplitN(r, " ", 2)[0])
			c.w.Op(fmt.Sprintf("%s off=%d buf=%d", opText, off, buf), r)
		default: // ReadFile
			var ino uint64
			var opText string
			size := 0
			readsDir := false
			if c.rng.Intn(12) == 0 {
				ino = bogusIno()
				opText = fmt.Sprintf("rf x=%d", ino)
			} else {
				if len(filePaths) == 0 {
					continue
				}
				p := filePaths[c.rng.Intn(len(filePaths))]
				readsDir = c.rng.Intn(20) == 0
				if readsDir {
					p = dirPaths[c.rng.Intn(len(dirPaths))]
				}
				i, ok := m.resolve(p)
				if !ok {
					c.w.Op("rf p="+tr.Esc(p), "unresolved")
					continue
				}
				ino, opText = i, "rf p="+tr.Esc(p)
				size = m.byPath[p].size
			}
			// open first, as the kernel does
			oop := &fuseops.OpenFileOp{Inode: fuseops.InodeID(ino)}
			_ = c17Guard(func() error { return m.fs.OpenFile(context.Background(), oop) })
			var off, n int
			switch c.rng.Intn(8) {
			case 0:
				off, n = 0, size+c.rng.Intn(10)
			case 1: // across a leaf boundary
				off = m.leaf - c.rng.Intn(20)
				if off < 0 {
					off = 0
				}
				n = 1 + c.rng.Intn(40)
			case 2: // at or past the end
				off, n = size+c.rng.Intn(3), 1+c.rng.Intn(10)
			case 3:
				off, n = size+c.rng.Intn(3*m.leaf), 1+c.rng.Intn(100)
			case 4:
				off, n = c.rng.Intn(size+1), 0
			default:
				off = c.rng.Intn(size + 1)
				n = c.rng.Pick(1, 7, 100, 4096, 131072)
				if c.rng.Bool() {
					n = 1 + c.rng.Intn(size+2)
				}
			}
			if readsDir && n == 0 {
				n = 1 // a zero-length read of a directory is not an error on a staged mount
			}
			op := &fuseops.ReadFileOp{Inode: fuseops.InodeID(ino), Offset: int64(off), Dst: make([]byte, n)}
			r := c17Guard(func() error { return m.fs.ReadFile(context.Background(), op) })
			if r == "ok" {
				if op.BytesRead < 0 || op.BytesRead > n {
					r = "badlen"
				} else {
					r = "ok " + c17Bytes(op.Dst[:op.BytesRead])
				}
			}
			switch {
			case off >= size:
				c.w.Count("read=at/after-eof")
			case off/m.leaf != (off+n-1)/m.leaf && off+n <= size:
				c.w.Count("read=across-leaves")
			default:
				c.w.Count("read=inside")
			}
			if r != "ok" && !strings.HasPrefix(r, "ok ") {
				c.w.Count("read-result=" + r)
			}
			c.w.Op(fmt.Sprintf("%s off=%d n=%d", opText, off, n), r)
		}
	}
	if c17Poisoned {
		return
	}
	// full walk: every node reachable from the root, inode numbers pairwise distinct, dirent
	// inode = inode returned by the lookup of that name
	nodes, nfiles, ndirs := 0, 0, 0
	inos := map[uint64]bool{1: true}
	direntOK := "ok"
	var rec func(ino uint64, depth int)
	rec = func(ino uint64, depth int) {
		if depth > 12 {
			return
		}
		var all []c17Dirent
		off := uint64(0)
		seen := map[string]bool{}
	pagesLoop:
		for pages := 0; pages < 300; pages++ {
			r, ds := m.readDir(ino, off, 4096)
			if r != "ok" || len(ds) == 0 {
				break
			}
			for _, e := range ds {
				if seen[e.name] {
					// a resumed listing returned an entry again: do not walk it (and everything below) twice
					direntOK = "repeated"
					break pagesLoop
				}
				seen[e.name] = true
			}
			all = append(all, ds...)
			off = ds[len(ds)-1].off
		}
		for _, e := range all {
			nodes++
			inos[e.ino] = true
			r, op := m.lookup(ino, e.name)
			if r != "ok" || uint64(op.Entry.Child) != e.ino {
				direntOK = "bad"
				continue
			}
			isd := op.Entry.Attributes.Mode.IsDir()
			if isd != (e.typ == uint32(fuseutil.DT_Directory)) || (!isd && e.typ != uint32(fuseutil.DT_File)) {
				direntOK = "bad"
			}
			if isd {
				ndirs++
				rec(e.ino, depth+1)
			} else {
				nfiles++
			}
		}
	}
	rec(fuseops.RootInodeID, 0)
	c.w.Op("walk", fmt.Sprintf("nodes=%d files=%d dirs=%d inodes=%d direntino=%s", nodes, nfiles, ndirs, len(inos)-1, direntOK))
}

func c17Dir(p string) string {
	i := strings.LastIndex(p, "/")
	if i < 0 {
		return ""
	}
	return p[:i]
}
