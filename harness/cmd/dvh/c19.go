package main

// C19 — the write-ahead log returns what was appended, in token order.
//
// The parent process generates the cases (all randomness from c.rng) and writes the trace; the
// real pkg/wal code runs in a WORKER process (this binary re-executed with DVH_C19_WORKER=1),
// because a defect in the reader goroutines of ListEntries panics in a goroutine of its own and
// kills the process (result `fatal`), or blocks forever (result `hang`).
//
// Tokens are random KSUIDs; the trace is canonical: a token is written as (t, n) = (its KSUID
// timestamp, the rank of its 128-bit payload among the payloads of the case) and an entry is
// named by the index of the `add` line that appended it.

import (
	"bufio"
	"bytes"
	"context"
	"encoding/json"
	"errors"
	"fmt"
	"hash/fnv"
	"io"
	"os"
	"os/exec"
	"sort"
	"strconv"
	"strings"
	"sync"
	"time"

	"dvh/internal/c19store"
	"dvh/internal/memstore"
	"dvh/internal/tr"

	"github.com/oneconcern/datamon/pkg/model"
	storagestatus "github.com/oneconcern/datamon/pkg/storage/status"
	"github.com/oneconcern/datamon/pkg/wal"
	"github.com/segmentio/ksuid"
	"go.uber.org/zap"
)

func init() { subs["c19"] = c19 }

const c19EpochMs = int64(1400000000) * 1000 // KSUID epoch

// ---------------------------------------------------------------------------------------
// case specification (parent -> worker)
// ---------------------------------------------------------------------------------------

type c19Payload struct {
	Kind string `json:"k"`
	Data []byte `json:"d,omitempty"`
	Ref  int    `json:"r"` // kind "yamlref": index of an earlier add whose token the payload names
}

type c19Op struct {
	Kind     string       `json:"kind"` // batch | list | step | advance
	Payloads []c19Payload `json:"p,omitempty"`
	Repeat   bool         `json:"rep,omitempty"` // sequential add that draws the previous random payload again
	// list
	Base   int    `json:"base"`  // index of the issued token the from-token is derived from; -1 = generator clock
	Delta  int64  `json:"delta"` // seconds added to its time (0 with FromPay "same" = the issued token itself)
	FromPl string `json:"fpl"`   // same | zero | max | rnd
	Max    int    `json:"max"`
	Fail   int    `json:"fail"`             // index of an add whose blob cannot be fetched; -1 none
	FailRd bool   `json:"failrd,omitempty"` // the fetch fails while reading (not at Get)
	Ms     int64  `json:"ms"`               // step / advance
}

type c19Case struct {
	ID      int     `json:"id"`
	Seed    uint64  `json:"seed"`
	StepMs  int64   `json:"step"`
	MaxConc int     `json:"mc"`
	Ops     []c19Op `json:"ops"`
}

// ---------------------------------------------------------------------------------------
// results (worker -> parent)
// ---------------------------------------------------------------------------------------

type c19Add struct {
	Token   string `json:"t"`
	Err     string `json:"e"` // "" | exists | err | panic
	Payload []byte `json:"p"`
}

type c19Ent struct {
	Token string `json:"t"`
	Len   int    `json:"l"`
	Hash  uint64 `json:"h"`
}

type c19Msg struct {
	Op     int      `json:"op"`
	Start  bool     `json:"start,omitempty"`
	Done   bool     `json:"done,omitempty"`
	FromTs uint32   `json:"ft,omitempty"`
	Adds   []c19Add `json:"adds,omitempty"`
	Lo     int64    `json:"lo,omitempty"`
	Hi     int64    `json:"hi,omitempty"`
	Status string   `json:"st,omitempty"` // list: ok | err | panic
	Ents   []c19Ent `json:"ents,omitempty"`
	Next   string   `json:"next,omitempty"`
	Detail string   `json:"detail,omitempty"`
}

// ---------------------------------------------------------------------------------------
// worker
// ---------------------------------------------------------------------------------------

// c19Rand is the random source given to ksuid: deterministic, and able to repeat its last draw
// (a token collision, which crypto/rand would never produce).
type c19Rand struct {
	mu     sync.Mutex
	rng    *tr.Rng
	last   [16]byte
	repeat bool
}

func (r *c19Rand) Read(p []byte) (int, error) {
	r.mu.Lock()
	defer r.mu.Unlock()
	if r.repeat && len(p) == 16 {
		copy(p, r.last[:])
		return len(p), nil
	}
	for i := range p {
		p[i] = byte(r.rng.Uint64() >> 56)
	}
	if len(p) == 16 {
		copy(r.last[:], p)
	}
	return len(p), nil
}

func c19Hash(b []byte) uint64 {
	h := fnv.New64a()
	_, _ = h.Write(b)
	return h.Sum64()
}

func c19ClockMs(s *memstore.Store) int64 { return s.Now().UnixNano()/1e6 - c19EpochMs }

func c19Worker() error {
	in := bufio.NewReaderSize(os.Stdin, 1<<20)
	out := bufio.NewWriterSize(os.Stdout, 1<<20)
	send := func(m c19Msg) {
		b, _ := json.Marshal(m)
		_, _ = out.Write(b)
		_ = out.WriteByte('\n')
		_ = out.Flush()
	}
	for {
		line, err := in.ReadBytes('\n')
		if len(line) == 0 && err != nil {
			return nil
		}
		var cs c19Case
		if e := json.Unmarshal(line, &cs); e != nil {
			return e
		}
		c19RunCase(&cs, send)
		send(c19Msg{Done: true})
		if err != nil {
			return nil
		}
	}
}

func c19RunCase(cs *c19Case, send func(c19Msg)) {
	ctx := context.Background()
	rnd := &c19Rand{rng: tr.NewRng(cs.Seed)}
	ksuid.SetRand(rnd)
	mut := memstore.New("mutable")
	ws := memstore.New("wal")
	mut.SetStep(time.Duration(cs.StepMs) * time.Millisecond)
	fs := c19store.New(ws)
	opts := []wal.Option{wal.Logger(zap.NewNop())}
	if cs.MaxConc > 0 {
		opts = append(opts, wal.MaxConcurrency(cs.MaxConc))
	}
	w := wal.New(mut, fs, opts...)
	var tokens []string // token of add #i ("" when it failed)
	for k, op := range cs.Ops {
		switch op.Kind {
		case "step":
			mut.SetStep(time.Duration(op.Ms) * time.Millisecond)
		case "advance":
			mut.Advance(time.Duration(op.Ms) * time.Millisecond)
		case "batch":
			send(c19Msg{Op: k, Start: true})
			pls := make([][]byte, len(op.Payloads))
			for i, p := range op.Payloads {
				pls[i] = p.Data
				if p.Kind == "yamlref" {
					tok := ""
					if p.Ref >= 0 && p.Ref < len(tokens) {
						tok = tokens[p.Ref]
					}
					b, _ := model.MarshalWAL(&model.Entry{Token: tok, Payload: string(p.Data)})
					pls[i] = b
				}
			}
			rnd.mu.Lock()
			rnd.repeat = op.Repeat
			rnd.mu.Unlock()
			res := make([]c19Add, len(pls))
			lo := c19ClockMs(mut)
			var wg sync.WaitGroup
			start := make(chan struct{})
			for i := range pls {
				wg.Add(1)
				go func(i int) {
					defer wg.Done()
					defer func() {
						if r := recover(); r != nil {
							res[i] = c19Add{Err: "panic", Payload: pls[i]}
						}
					}()
					<-start
					tok, err := w.Add(ctx, string(pls[i]))
					res[i] = c19Add{Token: tok, Payload: pls[i]}
					if err != nil {
						res[i].Token = ""
						if errors.Is(err, storagestatus.ErrExists) || strings.Contains(err.Error(), storagestatus.ErrExists.Error()) {
							res[i].Err = "exists"
						} else {
							res[i].Err = "err"
						}
					}
				}(i)
			}
			close(start)
			wg.Wait()
			hi := c19ClockMs(mut)
			rnd.mu.Lock()
			rnd.repeat = false
			rnd.mu.Unlock()
			for _, r := range res {
				tokens = append(tokens, r.Token)
			}
			send(c19Msg{Op: k, Adds: res, Lo: lo, Hi: hi})
		case "storm":
			// every blob fetch fails while op.Ms listings run (their errors are what is expected and
			// are not recorded); the store heals afterwards. Nothing of this may outlive the storm.
			fs.SetFailAll(true)
			from, _ := ksuid.FromParts(mut.Now(), make([]byte, 16))
			for i := int64(0); i < op.Ms; i++ {
				func() {
					defer func() { _ = recover() }()
					_, _, _ = w.ListEntries(ctx, from.String(), 1000)
				}()
				// a listing returns at the first error while its other reads are still being issued:
				// the storm lasts until they have all been attempted
				for last, quiet := -1, 0; quiet < 4; {
					time.Sleep(10 * time.Millisecond)
					if g := fs.Gets(); g == last {
						quiet++
					} else {
						last, quiet = g, 0
					}
				}
			}
			fs.SetFailAll(false)
		case "list":
			// the from-token
			var from ksuid.KSUID
			if op.Base >= 0 && op.Base < len(tokens) && tokens[op.Base] != "" {
				from, _ = ksuid.Parse(tokens[op.Base])
			} else {
				from, _ = ksuid.FromParts(mut.Now(), make([]byte, 16))
			}
			if !(op.FromPl == "same" && op.Delta == 0) {
				pl := make([]byte, 16)
				switch op.FromPl {
				case "max":
					for i := range pl {
						pl[i] = 0xff
					}
				case "rnd":
					copy(pl, tr.GenBytes(cs.Seed+uint64(k)*7919, 16))
				case "same":
					copy(pl, from.Payload())
				}
				from, _ = ksuid.FromParts(from.Time().Add(time.Duration(op.Delta)*time.Second), pl)
			}
			send(c19Msg{Op: k, Start: true, FromTs: from.Timestamp()})
			if op.Fail >= 0 && op.Fail < len(tokens) && tokens[op.Fail] != "" {
				fs.SetFailing(op.FailRd, tokens[op.Fail])
			} else {
				fs.SetFailing(false)
			}
			m := c19Msg{Op: k, FromTs: from.Timestamp()}
			func() {
				defer func() {
					if r := recover(); r != nil {
						m.Status, m.Detail = "panic", fmt.Sprint(r)
					}
				}()
				ents, next, err := w.ListEntries(ctx, from.String(), op.Max)
				if err != nil {
					m.Status, m.Detail = "err", err.Error()
					return
				}
				m.Status, m.Next = "ok", next
				for _, e := range ents {
					m.Ents = append(m.Ents, c19Ent{Token: e.Token, Len: len(e.Payload), Hash: c19Hash([]byte(e.Payload))})
				}
			}()
			send(m)
		}
	}
}

// ---------------------------------------------------------------------------------------
// parent: worker management
// ---------------------------------------------------------------------------------------

type c19Proc struct {
	cmd   *exec.Cmd
	stdin io.WriteCloser
	lines chan []byte
}

func c19Spawn() (*c19Proc, error) {
	cmd := exec.Command(os.Args[0], "c19")
	cmd.Env = append(os.Environ(), "DVH_C19_WORKER=1")
	stdin, err := cmd.StdinPipe()
	if err != nil {
		return nil, err
	}
	stdout, err := cmd.StdoutPipe()
	if err != nil {
		return nil, err
	}
	cmd.Stderr = io.Discard
	if err := cmd.Start(); err != nil {
		return nil, err
	}
	p := &c19Proc{cmd: cmd, stdin: stdin, lines: make(chan []byte, 64)}
	go func() {
		r := bufio.NewReaderSize(stdout, 1<<20)
		for {
			b, err := r.ReadBytes('\n')
			if len(b) > 0 {
				p.lines <- b
			}
			if err != nil {
				close(p.lines)
				return
			}
		}
	}()
	return p, nil
}

func (p *c19Proc) kill() {
	_ = p.stdin.Close()
	_ = p.cmd.Process.Kill()
	_, _ = p.cmd.Process.Wait()
}

// c19Exec runs one case in the worker. It returns the messages received and how the run ended:
// "" (complete), "fatal" (worker died) or "hang" (no answer in time).
func c19Exec(pp **c19Proc, cs *c19Case, timeout time.Duration) ([]c19Msg, string, error) {
	if *pp == nil {
		p, err := c19Spawn()
		if err != nil {
			return nil, "", err
		}
		*pp = p
	}
	p := *pp
	b, _ := json.Marshal(cs)
	b = append(b, '\n')
	if _, err := p.stdin.Write(b); err != nil {
		p.kill()
		*pp = nil
		return nil, "fatal", nil
	}
	var msgs []c19Msg
	for {
		select {
		case line, ok := <-p.lines:
			if !ok {
				p.kill()
				*pp = nil
				return msgs, "fatal", nil
			}
			var m c19Msg
			if err := json.Unmarshal(line, &m); err != nil {
				p.kill()
				*pp = nil
				return msgs, "", fmt.Errorf("worker protocol: %v: %.200s", err, line)
			}
			if m.Done {
				return msgs, "", nil
			}
			msgs = append(msgs, m)
		case <-time.After(timeout):
			p.kill()
			*pp = nil
			return msgs, "hang", nil
		}
	}
}

// ---------------------------------------------------------------------------------------
// parent: case generation
// ---------------------------------------------------------------------------------------

func c19GenPayload(r *tr.Rng, nAdds int, big int) c19Payload {
	ascii := func(n int) []byte {
		const al = "abcdefghijklmnopqrstuvwxyz ABCDEFGHIJ0123456789-_:#\n"
		b := make([]byte, n)
		for i := range b {
			b[i] = al[r.Intn(len(al))]
		}
		return b
	}
	switch k := r.Intn(16); {
	case k == 0:
		return c19Payload{Kind: "empty", Data: []byte{}}
	case k <= 3:
		return c19Payload{Kind: "short", Data: ascii(1 + r.Intn(40))}
	case k <= 5:
		n := 2 + r.Intn(6)
		var sb bytes.Buffer
		for i := 0; i < n; i++ {
			sb.Write(ascii(r.Intn(30)))
			sb.WriteString(r.PickS("\n", "\r\n", "\n\n"))
		}
		return c19Payload{Kind: "multiline", Data: sb.Bytes()}
	case k <= 7:
		n := r.Pick(1023, 1024, 1025, 1025+r.Intn(3000), 2048, 4096+r.Intn(big))
		if r.Bool() {
			return c19Payload{Kind: "big", Data: ascii(n)}
		}
		return c19Payload{Kind: "bigbin", Data: tr.GenBytes(r.Uint64(), n)}
	case k <= 9:
		// a payload that is itself a YAML entry descriptor naming another (issued) token
		ref := -1
		if nAdds > 0 {
			ref = r.Intn(nAdds)
		}
		return c19Payload{Kind: "yamlref", Ref: ref, Data: []byte(r.PickS("evil", "", "x\ny", "payload: nested"))}
	case k <= 11:
		ys := []string{
			"token: \npayload: hello\n", "payload: only\n", "token: 123\npayload: 456\n", "token: [1, 2]\n",
			"a: [unclosed", "- a\n- b\n", "{", "---\n...\n", "token: &a x\npayload: *a\n", "key: value\nother: 1\n",
			"token: 000000000000000000000000000\npayload: zero\n", "? complex\n: key\n", "\ttabbed: 1\n", "!!binary aGVsbG8=",
			"token: aWgEPTl1tmebfsQzFP4bxwgy80V\npayload: max\n", "null", "~", "true", "'unterminated", "payload: |\n  block\n  text\n",
		}
		return c19Payload{Kind: "yamlish", Data: []byte(ys[r.Intn(len(ys))])}
	case k == 12:
		return c19Payload{Kind: "binary", Data: tr.GenBytes(r.Uint64(), 1+r.Intn(64))}
	case k == 13:
		return c19Payload{Kind: "nul", Data: []byte{0, 0xff, 0xfe, 0, '\n', 0xc3, 0x28}}
	default:
		return c19Payload{Kind: "short", Data: []byte(strconv.Itoa(r.Intn(1000)))}
	}
}

func c19GenCase(r *tr.Rng, id int, thorough bool) c19Case {
	steps := []int64{0, 0, 1, 250, 1000, 1000, 1500, 60000, 600000}
	advances := []int64{1, 500, 1000, 59000, 600000, 1199000, 1200000, 1201000, 2700000}
	big := 20000
	if thorough {
		big = 100000
	}
	cs := c19Case{ID: id, Seed: r.Uint64() | 1, StepMs: steps[r.Intn(len(steps))]}
	if r.Intn(4) == 0 {
		cs.MaxConc = r.Pick(1, 2, 16)
	}
	nOps := 3 + r.Intn(10)
	nAdds := 0
	step := cs.StepMs
	lastSeqAdd := false
	for len(cs.Ops) < nOps {
		switch k := r.Intn(10); {
		case k <= 3 || nAdds == 0:
			g := 1
			if r.Intn(5) >= 2 {
				g = 2 + r.Intn(15)
			}
			op := c19Op{Kind: "batch"}
			for i := 0; i < g; i++ {
				op.Payloads = append(op.Payloads, c19GenPayload(r, nAdds, big))
			}
			// a collision: same generator second (step 0) and the same random draw as the previous add
			if g == 1 && lastSeqAdd && step == 0 && r.Intn(3) == 0 {
				op.Repeat = true
			}
			lastSeqAdd = g == 1 && !op.Repeat
			if op.Repeat {
				lastSeqAdd = true
			}
			nAdds += g
			cs.Ops = append(cs.Ops, op)
		case k <= 7:
			op := c19Op{Kind: "list", Fail: -1}
			op.Base = r.Intn(nAdds)
			switch r.Intn(5) {
			case 0, 1:
				op.FromPl, op.Delta = "same", 0 // an issued token
			case 2:
				op.FromPl = r.PickS("zero", "max", "rnd")
				op.Delta = int64(r.Pick(0, 0, 1, -1, 2, 30, -30))
			default:
				op.FromPl = r.PickS("zero", "max", "rnd", "same")
				op.Delta = int64(r.Pick(1199, 1200, 1201, -1199, -1200, -1201, 600, -600, 1800, 2700, 59, 61))
			}
			op.Max = r.Pick(1, 1, 2, 3, 5, 10, 100, 999, 1000, 1+r.Intn(nAdds+2), 1+r.Intn(1000))
			if r.Intn(12) == 0 {
				op.Fail = r.Intn(nAdds)
				op.FailRd = r.Bool()
			}
			cs.Ops = append(cs.Ops, op)
			lastSeqAdd = false
		case k == 8:
			step = steps[r.Intn(len(steps))]
			cs.Ops = append(cs.Ops, c19Op{Kind: "step", Ms: step})
			lastSeqAdd = false
		default:
			cs.Ops = append(cs.Ops, c19Op{Kind: "advance", Ms: advances[r.Intn(len(advances))]})
			lastSeqAdd = false
		}
	}
	// always end with a listing of everything recent
	cs.Ops = append(cs.Ops, c19Op{Kind: "list", Fail: -1, Base: -1, FromPl: "zero", Max: 1000})
	return cs
}

// c19BigCase: more entries than one page holds (maxEntriesPerList), listed with the largest max.
func c19BigCase(r *tr.Rng, id int, n int) c19Case {
	cs := c19Case{ID: id, Seed: r.Uint64() | 1, StepMs: int64(r.Pick(0, 1, 1000))}
	nAdds := 0
	for nAdds < n {
		op := c19Op{Kind: "batch"}
		g := 1 + r.Intn(16)
		for i := 0; i < g; i++ {
			op.Payloads = append(op.Payloads, c19Payload{Kind: "short", Data: []byte(strconv.Itoa(nAdds + i))})
		}
		nAdds += g
		cs.Ops = append(cs.Ops, op)
	}
	// a storm of failed blob fetches (two listings of more than a thousand entries each) before the listings
	cs.Ops = append(cs.Ops, c19Op{Kind: "storm", Ms: 2})
	for _, m := range []int{1000, 999, 1 + r.Intn(1000)} {
		cs.Ops = append(cs.Ops, c19Op{Kind: "list", Fail: -1, Base: r.Intn(nAdds), FromPl: "same", Max: m})
	}
	cs.Ops = append(cs.Ops, c19Op{Kind: "list", Fail: -1, Base: -1, FromPl: "zero", Max: 1000})
	return cs
}

// ---------------------------------------------------------------------------------------
// parent: trace emission
// ---------------------------------------------------------------------------------------

func c19Emit(c *ctx, cs *c19Case, msgs []c19Msg, ending string) {
	// results by op
	res := map[int]*c19Msg{}
	started := map[int]*c19Msg{}
	for i := range msgs {
		m := &msgs[i]
		if m.Start {
			started[m.Op] = m
		} else {
			res[m.Op] = m
		}
	}
	// tokens of the case, in add order
	type addInfo struct {
		tok   string
		ts    uint32
		pay   [16]byte
		ok    bool
		known bool // (ts, pay) known although the add failed (expected collision)
	}
	var adds []addInfo
	for k, op := range cs.Ops {
		if op.Kind != "batch" {
			continue
		}
		m := res[k]
		for i := range op.Payloads {
			var a addInfo
			if m != nil && i < len(m.Adds) && m.Adds[i].Token != "" {
				if ks, err := ksuid.Parse(m.Adds[i].Token); err == nil {
					a.tok, a.ts, a.ok = m.Adds[i].Token, ks.Timestamp(), true
					copy(a.pay[:], ks.Payload())
				}
			} else if op.Repeat && len(adds) > 0 && (adds[len(adds)-1].ok || adds[len(adds)-1].known) {
				prev := adds[len(adds)-1]
				a.ts, a.pay, a.known = prev.ts, prev.pay, true
			}
			adds = append(adds, a)
		}
	}
	// ranks of the random payloads
	var pays [][16]byte
	seen := map[[16]byte]bool{}
	for _, a := range adds {
		if (a.ok || a.known) && !seen[a.pay] {
			seen[a.pay] = true
			pays = append(pays, a.pay)
		}
	}
	sort.Slice(pays, func(i, j int) bool { return bytes.Compare(pays[i][:], pays[j][:]) < 0 })
	rank := map[[16]byte]int{}
	for i, p := range pays {
		rank[p] = i
	}
	idxOf := map[string]int{}
	for i, a := range adds {
		if a.ok {
			idxOf[a.tok] = i
		}
	}
	name := func(tok string) string {
		if i, ok := idxOf[tok]; ok {
			return strconv.Itoa(i)
		}
		return "?"
	}

	c.w.Case("ops=%d step=%d mc=%d", len(cs.Ops), cs.StepMs, cs.MaxConc)
	ai := 0
	truncated := false
	for k, op := range cs.Ops {
		if truncated {
			break
		}
		switch op.Kind {
		case "step":
			c.w.Note(fmt.Sprintf("clock step=%d", op.Ms))
		case "advance":
			c.w.Note(fmt.Sprintf("clock advance=%d", op.Ms))
		case "batch":
			m := res[k]
			g := len(op.Payloads)
			c.w.Count(fmt.Sprintf("batch goroutines=%s", c19Bucket(g)))
			if m == nil {
				// the worker died or hung inside this batch
				c.w.Note(fmt.Sprintf("batch g=%d lo=0 hi=0", g))
				for i := range op.Payloads {
					c.w.Op(fmt.Sprintf("add i=%d p=%s t=- n=-", ai+i, tr.Esc(string(op.Payloads[i].Data))), ending)
				}
				c.w.Count("add=" + ending)
				truncated = true
				break
			}
			c.w.Note(fmt.Sprintf("batch g=%d lo=%d hi=%d", g, m.Lo, m.Hi))
			for i := range op.Payloads {
				a := adds[ai+i]
				pl := op.Payloads[i].Data
				st := "err"
				if i < len(m.Adds) {
					pl = m.Adds[i].Payload
					switch m.Adds[i].Err {
					case "":
						st = "ok"
					default:
						st = m.Adds[i].Err
					}
				}
				tn := "t=- n=-"
				if a.ok || a.known {
					tn = fmt.Sprintf("t=%d n=%d", a.ts, rank[a.pay])
				}
				c.w.Op(fmt.Sprintf("add i=%d p=%s %s", ai+i, tr.Esc(string(pl)), tn), st)
				c.w.Count("add=" + st)
				c.w.Count("payload=" + op.Payloads[i].Kind)
				if len(pl) > 1024 {
					c.w.Count("payload>1KiB")
				}
			}
		case "list":
			m := res[k]
			s := started[k]
			ft := uint32(0)
			if m != nil {
				ft = m.FromTs
			} else if s != nil {
				ft = s.FromTs
			}
			opText := fmt.Sprintf("list ft=%d max=%d perm=%d", ft, op.Max, int(cs.Seed%97)+k)
			if op.Fail >= 0 && op.Fail < len(adds) && adds[op.Fail].ok {
				opText += fmt.Sprintf(" fail=%d", op.Fail)
				if op.FailRd {
					c.w.Count("list=with-blob-failing-while-read")
				} else {
					c.w.Count("list=with-blob-failing-at-get")
				}
			}
			c.w.Count("list from=" + c19FromKind(op))
			c.w.Count("list max=" + c19Bucket(op.Max))
			if m == nil {
				c.w.Op(opText, ending)
				c.w.Count("list=" + ending)
				truncated = true
				break
			}
			switch m.Status {
			case "ok":
				parts := make([]string, len(m.Ents))
				for i, e := range m.Ents {
					parts[i] = fmt.Sprintf("%s:%d:%d", name(e.Token), e.Len, e.Hash)
				}
				nx := "-"
				if m.Next != "" {
					nx = name(m.Next)
				}
				c.w.Op(opText, "ok "+strings.Join(parts, ",")+" ## next="+nx)
				c.w.Count("list returned=" + c19Bucket(len(m.Ents)))
			default:
				c.w.Op(opText, m.Status)
			}
			c.w.Count("list=" + m.Status)
		}
		if op.Kind == "batch" {
			ai += len(op.Payloads)
		}
	}
	if !truncated {
		// the stored entries in the order of their token STRINGS
		var toks []string
		for _, a := range adds {
			if a.ok {
				toks = append(toks, a.tok)
			}
		}
		sort.Strings(toks)
		parts := make([]string, len(toks))
		for i, t := range toks {
			parts[i] = name(t)
		}
		c.w.Op("order", strings.Join(parts, ","))
	}
	c.w.End()
}

func c19FromKind(op c19Op) string {
	switch {
	case op.Base < 0:
		return "clock"
	case op.FromPl == "same" && op.Delta == 0:
		return "issued"
	case op.Delta == 0:
		return "synthetic-same-second"
	case op.Delta >= -1201 && op.Delta <= -1199 || op.Delta >= 1199 && op.Delta <= 1201:
		return "synthetic-window-edge"
	default:
		return "synthetic"
	}
}

func c19Bucket(n int) string {
	switch {
	case n <= 1:
		return strconv.Itoa(n)
	case n <= 4:
		return "2-4"
	case n <= 16:
		return "5-16"
	case n <= 100:
		return "17-100"
	case n < 1000:
		return "101-999"
	default:
		return "1000+"
	}
}

func c19(c *ctx) error {
	if os.Getenv("DVH_C19_WORKER") != "" {
		return c19Worker()
	}
	n, nBig := 2000, 1
	if c.thorough() {
		n, nBig = 8000, 4
	}
	timeout := 20 * time.Second // per worker message; a healthy case answers in milliseconds
	if v, err := strconv.Atoi(os.Getenv("DVH_C19_TIMEOUT_S")); err == nil && v > 0 {
		timeout = time.Duration(v) * time.Second
	}
	var proc *c19Proc
	defer func() {
		if proc != nil {
			proc.kill()
		}
	}()
	fatal, hang := 0, 0
	for i := 1; i <= n+nBig; i++ {
		var cs c19Case
		if i <= n {
			cs = c19GenCase(c.rng, i, c.thorough())
		} else {
			cs = c19BigCase(c.rng, i, 1001+c.rng.Intn(200))
		}
		if c.only > 0 && i != c.only {
			continue
		}
		msgs, ending, err := c19Exec(&proc, &cs, timeout)
		if err != nil {
			return err
		}
		switch ending {
		case "fatal":
			fatal++
		case "hang":
			hang++
		}
		c19Emit(c, &cs, msgs, ending)
		if hang >= 3 || fatal+hang >= 30 {
			// enough failing inputs; every further hang would cost a full timeout
			c.extra["stopped_early_after_case"] = i
			break
		}
	}
	c.extra["worker_died"] = fatal
	c.extra["worker_hung"] = hang
	return nil
}
