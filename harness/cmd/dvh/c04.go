package main

import (
	"context"
	"fmt"
	"os"
	"path/filepath"
	"sort"
	"strings"
	"time"

	"github.com/spf13/afero"

	"dvh/internal/corekit"
	"dvh/internal/crashstore"
	"dvh/internal/memstore"
	"dvh/internal/tr"

	"github.com/oneconcern/datamon/pkg/core"
	"github.com/oneconcern/datamon/pkg/storage"
	"github.com/oneconcern/datamon/pkg/storage/localfs"
)

func init() { subs["c04"] = c04 }

var c04Names = []string{"a", "b", "c", "d", "e", "data", "x.txt", "y.bin", "read me.md", "éλ.txt", "日本", "a.b.c", "-dash", "'q'", "k: v", "#h", "tab\tname", "UP", "0"}
var c04Dirs = []string{"", "", "d/", "d/e/", "dir with space/", "a.b/", "ü/", "deep/1/2/3/4/"}
var c04Decoys = []string{".datamon/x", ".datamon/sub/y.yaml", ".conflicts/s/p", ".checkpoints", ".checkpoints/z", "a/.datamon/x", ".datamonx", ".conflictsx", "..conflicts/q", "..checkpoints", "d/.conflicts/p", "./.datamon/q", "/.datamon/r"}

func c04Tree(r *tr.Rng, leaf, maxFiles int, fsSafe bool) map[string][2]uint64 {
	n := r.Intn(maxFiles + 1)
	if r.Intn(12) == 0 {
		n = 0
	}
	tree := map[string][2]uint64{}
	seeds := []uint64{1 + r.Uint64()%5000, 1 + r.Uint64()%5000, 1 + r.Uint64()%5000}
	for len(tree) < n {
		var name string
		if n > len(c04Names)*len(c04Dirs)/2 {
			name = fmt.Sprintf("%sf%05d", c04Dirs[r.Intn(len(c04Dirs))], len(tree))
		} else {
			name = c04Dirs[r.Intn(len(c04Dirs))] + c04Names[r.Intn(len(c04Names))]
		}
		if fsSafe && (strings.ContainsAny(name, "\t:'#") || strings.HasPrefix(name, "-")) {
			continue
		}
		// a name must not be a directory of another one (file-system representable trees)
		bad := false
		for k := range tree {
			if strings.HasPrefix(k, name+"/") || strings.HasPrefix(name, k+"/") {
				bad = true
			}
		}
		if bad {
			continue
		}
		seed := seeds[r.Intn(len(seeds))] // duplicated contents are frequent
		if r.Intn(3) == 0 {
			seed = 1 + r.Uint64()%100000
		}
		ln := uint64(r.Pick(0, 1, leaf-1, leaf, leaf+1, 2*leaf, 3*leaf, r.Intn(3*leaf+1), r.Intn(20)))
		if n > 200 {
			ln = uint64(r.Intn(5))
		}
		tree[name] = [2]uint64{seed, ln}
	}
	if r.Intn(2) == 0 && !fsSafe {
		for i := 0; i < 1+r.Intn(4); i++ {
			d := c04Decoys[r.Intn(len(c04Decoys))]
			tree[d] = [2]uint64{1 + r.Uint64()%1000, uint64(r.Intn(10))}
		}
	}
	return tree
}

func c04SortedKeys(m map[string][2]uint64) []string {
	ks := make([]string, 0, len(m))
	for k := range m {
		ks = append(ks, k)
	}
	sort.Strings(ks)
	return ks
}

func c04ShowFiles(files map[string][]byte) string {
	parts := make([]string, 0, len(files))
	for k, v := range files {
		parts = append(parts, tr.Esc(k)+":"+cafsH256(v))
	}
	sort.Strings(parts)
	return strings.Join(parts, ";")
}

func c04(c *ctx) error {
	n := 120
	if c.thorough() {
		n = 1200
	}
	work := os.Getenv("VERIF_WORK")
	if work == "" {
		work = os.TempDir()
	}
	return c.isolated(n, 120*time.Second, func(i int) {
		r := tr.NewRng(c.seed*1000003 + uint64(i)*2654435761 + 41)
		leaf := r.Pick(64, 64, 100, 4096, 1<<20)
		perFile := r.Pick(1, 2, 3, 7, 1000, 1000)
		maxFiles := 40
		if c.thorough() && i%40 == 0 {
			maxFiles, perFile, leaf = 2500, 1000, 64
		}
		useFS := r.Intn(4) == 0 && maxFiles <= 40
		tree := c04Tree(r, leaf, maxFiles, useFS)
		if leaf >= 1<<20 { // keep big-leaf cases small
			for k, v := range tree {
				if v[1] > 200 {
					tree[k] = [2]uint64{v[0], v[1] % 200}
				}
			}
		}
		c.w.Case("c04 leaf=%d perfile=%d", leaf, perFile)
		c.w.Count(fmt.Sprintf("perfile=%d", perFile))
		c.w.Count(fmt.Sprintf("files<=%d", ((len(tree)+9)/10)*10))
		files := map[string][]byte{}
		for _, k := range c04SortedKeys(tree) {
			v := tree[k]
			files[k] = tr.GenBytes(v[0], int(v[1]))
			c.w.Note(fmt.Sprintf("file name=%s content=gen:%d:%d", tr.Esc(k), v[0], v[1]))
		}
		e := corekit.NewEnv()
		if err := e.CreateRepo("r"); err != nil {
			c.w.Op("createrepo", corekit.ErrClass(err))
			c.w.End()
			return
		}
		ctx := context.Background()
		// ---- upload: everything, or an explicit key list (repeats, missing keys)
		var getKeys func() ([]string, error)
		keysArg := "*"
		skip := false
		if r.Intn(3) == 0 {
			names := c04SortedKeys(tree)
			var ks []string
			for j := 0; j < r.Intn(len(names)+3); j++ {
				switch {
				case len(names) > 0 && r.Intn(5) != 0:
					ks = append(ks, names[r.Intn(len(names))]) // repeats happen
				default:
					ks = append(ks, fmt.Sprintf("missing-%d", r.Intn(3)))
				}
			}
			esc := make([]string, len(ks))
			for j, k := range ks {
				esc[j] = tr.Esc(k)
			}
			keysArg = strings.Join(esc, ",")
			getKeys = func() ([]string, error) { return ks, nil }
			skip = r.Bool()
			c.w.Count("keys=explicit")
		}
		upConc, downConc := 1+r.Intn(20), 1+r.Intn(20)
		b := corekit.NewBundle(e.Stores, "r", corekit.TreeStore(files), uint32(leaf), "",
			core.ConcurrentFileUploads(upConc), core.SkipMissing(skip))
		err := corekit.Recover(func() error { return core.VerifUpload(ctx, b, uint(perFile), getKeys) })
		sk := 0
		if skip {
			sk = 1
		}
		op := fmt.Sprintf("upload keys=%s skip=%d", keysArg, sk)
		if err != nil {
			c.w.Op(op, "err")
			c.w.End()
			return
		}
		mb := corekit.NewBundle(e.Stores, "r", nil, 0, b.BundleID)
		if err := corekit.Recover(func() error { return core.VerifDownloadMetadata(ctx, mb, uint(perFile)) }); err != nil {
			c.w.Op(op, "ok entries=<unreadable:"+corekit.ErrClass(err)+">")
			c.w.End()
			return
		}
		ents := make([]string, 0, len(mb.BundleEntries))
		for _, en := range mb.BundleEntries {
			ents = append(ents, fmt.Sprintf("%s:%s:%d", tr.Esc(en.NameWithPath), en.Hash, en.Size))
		}
		sort.Strings(ents)
		c.w.Op(op, fmt.Sprintf("ok entries=%s ## count=%d", strings.Join(ents, ";"), mb.BundleDescriptor.BundleEntriesFileCount))
		// ---- the same upload again while ONE store call fails transiently (an existence check or a
		// read of the source, a write of a blob or of metadata): the upload fails, or it yields the
		// same entries — never a bundle that silently lacks or alters a file
		for q := 0; q < 3; q++ {
			e2 := corekit.NewEnv()
			if e2.CreateRepo("r") != nil {
				break
			}
			g := &crashstore.Group{}
			kind := "src-has"
			switch {
			case skip && r.Intn(3) == 0:
				kind = "src-get-skip" // with skip-missing a failed read IS a skip, by design: the upload must still end
				g.FailReadOp, g.FailReadAt = "get", 1+r.Intn(len(files)+1)
			case !skip && r.Intn(3) == 0:
				kind = "src-get"
				g.FailReadOp, g.FailReadAt = "get", 1+r.Intn(len(files)+1)
			case r.Intn(3) == 0:
				kind = "store-put"
				g.FailOnceAt = 1 + r.Intn(2*len(files)+3)
			default:
				g.FailReadOp, g.FailReadAt = "has", 1+r.Intn(len(files)+1)
			}
			src := crashstore.Wrap(g, "src", corekit.TreeStore(files))
			st2 := corekit.WithStores(e2.Wal, e2.ReadLog, crashstore.Wrap(g, "blob", e2.Blob), crashstore.Wrap(g, "meta", e2.Meta), e2.VMeta)
			if kind != "store-put" {
				st2 = e2.Stores
			}
			b2 := corekit.NewBundle(st2, "r", src, uint32(leaf), "", core.ConcurrentFileUploads(upConc), core.SkipMissing(skip))
			var err2 error
			done2 := make(chan error, 1)
			go func() {
				done2 <- corekit.Recover(func() error { return core.VerifUpload(ctx, b2, uint(perFile), getKeys) })
			}()
			hung := false
			select {
			case err2 = <-done2:
			case <-time.After(20 * time.Second):
				hung = true
			}
			if hung {
				c.w.Op(fmt.Sprintf("uploadf keys=%s skip=%d fault=%s got=hang", keysArg, sk, kind), "sound")
				continue
			}
			fired := (g.FailReadAt != 0 && g.Reads() >= g.FailReadAt)
			for _, w := range g.Snapshot() {
				if w.Err && !w.Landed && g.FailOnceAt != 0 {
					fired = true
				}
			}
			if !fired {
				continue
			}
			got := "err"
			if err2 == nil {
				got = "diff"
				mb2 := corekit.NewBundle(e2.Stores, "r", nil, 0, b2.BundleID)
				if corekit.Recover(func() error { return core.VerifDownloadMetadata(ctx, mb2, uint(perFile)) }) == nil {
					ents2 := make([]string, 0, len(mb2.BundleEntries))
					for _, en := range mb2.BundleEntries {
						ents2 = append(ents2, fmt.Sprintf("%s:%s:%d", tr.Esc(en.NameWithPath), en.Hash, en.Size))
					}
					sort.Strings(ents2)
					if strings.Join(ents2, ";") == strings.Join(ents, ";") {
						got = "same"
					} else {
						got = fmt.Sprintf("diff:%d-entries-instead-of-%d", len(ents2), len(ents))
					}
				}
			}
			c.w.Op(fmt.Sprintf("uploadf keys=%s skip=%d fault=%s got=%s", keysArg, sk, kind, got), "sound")
			c.w.Count("upload-with-fault=" + kind)
		}
		// ---- downloads: full, filtered, single file
		sels := []string{"all"}
		names := c04SortedKeys(tree)
		if len(names) > 0 {
			nm := []rune(names[r.Intn(len(names))])
			sels = append(sels, "prefix:"+tr.Esc(string(nm[:r.Intn(len(nm)+1)])), "suffix:"+tr.Esc(string(nm[r.Intn(len(nm)+1):])), "name:"+tr.Esc(string(nm)))
		}
		for _, sel := range sels {
			var dst storage.Store
			var mem *memstore.Store
			var dir string
			if useFS {
				dir = filepath.Join(work, fmt.Sprintf("c04-%d-%d-%d", c.seed, i, len(sel)))
				_ = os.MkdirAll(dir, 0o755)
				dst = localfs.New(afero.NewBasePathFs(afero.NewOsFs(), dir))
			} else {
				mem = memstore.New("dest")
				dst = mem
			}
			db := corekit.NewBundle(e.Stores, "r", dst, 0, b.BundleID, core.ConcurrentFileDownloads(downConc))
			pred := func(string) (bool, error) { return true, nil }
			kind, arg := sel, ""
			if j := strings.Index(sel, ":"); j >= 0 {
				kind, arg = sel[:j], sel[j+1:]
			}
			raw := c04Unesc(arg)
			switch kind {
			case "prefix":
				pred = func(s string) (bool, error) { return strings.HasPrefix(s, raw), nil }
			case "suffix":
				pred = func(s string) (bool, error) { return strings.HasSuffix(s, raw), nil }
			case "name":
				pred = func(s string) (bool, error) { return s == raw, nil }
			}
			err := corekit.Recover(func() error { return core.VerifPublish(ctx, db, uint(perFile), pred) })
			inBundle := false
			for _, en := range mb.BundleEntries {
				if en.NameWithPath == raw {
					inBundle = true
				}
			}
			if kind == "name" && perFile == 1000 && err == nil && inBundle {
				// the single-file download entry point (`bundle download file`) on a fresh Bundle object
				// built from repo, id and stores only: same file, same bytes
				var dst2 storage.Store = memstore.New("dest-file")
				fb := corekit.NewBundle(e.Stores, "r", dst2, 0, b.BundleID)
				ferr := corekit.Recover(func() error { return core.PublishFile(ctx, fb, raw) })
				res := "err"
				if ferr == nil {
					got2, _ := corekit.SplitMeta(dst2.(*memstore.Store).Snapshot())
					res = "ok files=" + c04ShowFiles(got2)
				}
				c.w.Op("download sel="+sel+" via=publishfile", res)
				c.w.Count("download=publishfile")
			}
			if err != nil {
				c.w.Op("download sel="+sel, "err")
			} else {
				var got map[string][]byte
				if useFS {
					got = c04ReadDir(dir)
				} else {
					got, _ = corekit.SplitMeta(mem.Snapshot())
				}
				c.w.Op("download sel="+sel, "ok files="+c04ShowFiles(got))
			}
			if dir != "" {
				_ = os.RemoveAll(dir)
			}
		}
		c.w.End()
	})
}

func c04Unesc(s string) string {
	var b []byte
	for i := 0; i < len(s); i++ {
		if s[i] == '%' && i+2 < len(s)+0 && i+2 <= len(s)-1+0 {
			var v byte
			fmt.Sscanf(s[i+1:i+3], "%02x", &v)
			b = append(b, v)
			i += 2
		} else {
			b = append(b, s[i])
		}
	}
	return string(b)
}

func c04ReadDir(dir string) map[string][]byte {
	out := map[string][]byte{}
	_ = filepath.Walk(dir, func(p string, info os.FileInfo, err error) error {
		if err != nil || info.IsDir() {
			return nil
		}
		rel, _ := filepath.Rel(dir, p)
		rel = filepath.ToSlash(rel)
		if strings.HasPrefix(rel, ".datamon/") {
			return nil
		}
		data, _ := os.ReadFile(p)
		out[rel] = data
		return nil
	})
	return out
}
