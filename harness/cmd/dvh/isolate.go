package main

import (
	"bufio"
	"fmt"
	"os"
	"os/exec"
	"runtime"
	"strconv"
	"strings"
	"sync"
	"syscall"
	"time"
)

// Isolation: cases whose implementation can hang or kill the process run in child processes
// (this binary re-executed with DVH_CHILD_RANGE=from:to). A child writes the trace lines of each
// case to stdout followed by a marker; when it dies or stalls inside a case the parent records
// `abort case=<i> => died|hang`, closes the case and restarts a child at the next case.

const childEnv = "DVH_CHILD_RANGE"

// childCases is the number of cases one child process serves before it is replaced.
const childCases = 25

func inChild() (from, to int, ok bool) {
	v := os.Getenv(childEnv)
	if v == "" {
		return 0, 0, false
	}
	p := strings.SplitN(v, ":", 2)
	if len(p) != 2 {
		return 0, 0, false
	}
	from, _ = strconv.Atoi(p[0])
	to, _ = strconv.Atoi(p[1])
	return from, to, true
}

// isolated runs f(i) for every i in [0,n). f must derive everything from (c.seed, i) and write
// exactly one case to c.w. stall is the longest silence tolerated from a child.
func (c *ctx) isolated(n int, stall time.Duration, f func(i int)) error {
	if from, to, ok := inChild(); ok {
		for i := from; i < to; i++ {
			f(i)
			for _, s := range c.w.StatsLines() {
				c.w.Raw("\x01STAT " + s)
			}
			c.w.ResetStats()
			c.w.Raw("\x01DONE " + strconv.Itoa(i))
			c.w.Flush()
		}
		return nil
	}
	workers := runtime.NumCPU()
	if workers > 12 {
		workers = 12
	}
	if workers > n {
		workers = n
	}
	if workers < 1 {
		workers = 1
	}
	outs := make([][]string, workers)
	stats := make([]map[string]int, workers)
	aborted := make([]int, workers)
	var wg sync.WaitGroup
	var abortMu sync.Mutex
	totalAborts := 0
	const abortBudget = 8 // enough failing inputs: stop early instead of running into the global timeout
	for w := 0; w < workers; w++ {
		lo, hi := w*n/workers, (w+1)*n/workers
		wg.Add(1)
		go func(w, lo, hi int) {
			defer wg.Done()
			stats[w] = map[string]int{}
			next := lo
			for next < hi {
				abortMu.Lock()
				stop := totalAborts >= abortBudget
				abortMu.Unlock()
				if stop {
					break
				}
				// a child serves a limited number of cases: what the implementation leaks (goroutines of
				// operations that returned an error, their buffers) goes away with the process
				top := next + childCases
				if top > hi {
					top = hi
				}
				lines, done, reason := runChild(next, top, stall, stats[w])
				if done >= top && top < hi {
					outs[w] = append(outs[w], lines...)
					next = done
					continue
				}
				if done < hi && reason == "hang" {
					// a stall may be the machine, not the code: run the stalled case once more, alone,
					// with six times the patience, and keep that run's verdict
					keep := 0
					for i, l := range lines {
						if strings.HasPrefix(l, "case ") {
							keep = i
						}
					}
					if len(lines) > 0 && !strings.HasPrefix(lines[keep], "case ") {
						keep = len(lines)
					}
					closed := true
					for _, l := range lines[keep:] {
						if strings.HasPrefix(l, "case ") {
							closed = false
						} else if l == "end" {
							closed = true
						}
					}
					if !closed {
						lines = lines[:keep] // the open case is re-run from its start
					}
					l2, d2, r2 := runChild(done, done+1, 6*stall, stats[w])
					lines = append(lines, l2...)
					if d2 > done {
						outs[w] = append(outs[w], lines...)
						next = done + 1
						continue
					}
					reason = r2
				}
				outs[w] = append(outs[w], lines...)
				if done >= hi {
					break
				}
				// the child stopped inside case `done`
				open := false
				for _, l := range lines {
					if strings.HasPrefix(l, "case ") {
						open = true
					} else if l == "end" {
						open = false
					}
				}
				outs[w] = append(outs[w], fmt.Sprintf("abort case=%d => %s", done, reason))
				if open {
					outs[w] = append(outs[w], "end")
				}
				aborted[w]++
				abortMu.Lock()
				totalAborts++
				abortMu.Unlock()
				next = done + 1
			}
		}(w, lo, hi)
	}
	wg.Wait()
	nAbort := 0
	for w := 0; w < workers; w++ {
		for _, l := range outs[w] {
			c.w.Forward(l)
		}
		for k, v := range stats[w] {
			c.w.Stats[k] += v
		}
		nAbort += aborted[w]
	}
	c.extra["aborted_cases"] = nAbort
	return nil
}

// stderrTail keeps the last lines of a child's stderr that are not JSON log records.
type stderrTail struct {
	mu  sync.Mutex
	buf []byte
}

func (t *stderrTail) Write(p []byte) (int, error) {
	t.mu.Lock()
	defer t.mu.Unlock()
	t.buf = append(t.buf, p...)
	if len(t.buf) > 1<<16 {
		t.buf = t.buf[len(t.buf)-1<<15:]
	}
	return len(p), nil
}

func (t *stderrTail) String() string {
	t.mu.Lock()
	defer t.mu.Unlock()
	var keep []string
	for _, l := range strings.Split(string(t.buf), "\n") {
		if l != "" && !strings.HasPrefix(l, "{\"level\"") {
			keep = append(keep, l)
		}
	}
	if len(keep) > 12 {
		keep = keep[len(keep)-12:]
	}
	s := strings.Join(keep, " | ")
	if len(s) > 1500 {
		s = s[:1500]
	}
	return strings.ReplaceAll(s, "\t", " ")
}

// runChild runs cases [from,to) in a child; returns the trace lines received, the index of the
// first case NOT completed, and why the child stopped early.
func runChild(from, to int, stall time.Duration, stats map[string]int) ([]string, int, string) {
	cmd := exec.Command(os.Args[0], os.Args[1:]...)
	cmd.Env = append(os.Environ(), fmt.Sprintf("%s=%d:%d", childEnv, from, to))
	// the child writes its trace to stdout whatever -out says
	cmd.Args = append(cmd.Args, "-out", "-")
	stdout, err := cmd.StdoutPipe()
	if err != nil {
		return nil, from, "died"
	}
	// the tail of the child's stderr (a panic, a fatal error of the runtime) is kept for the abort line
	tail := &stderrTail{}
	cmd.Stderr = tail
	// a child never outlives its parent (the parent may be killed by the check's own timeout)
	cmd.SysProcAttr = &syscall.SysProcAttr{Pdeathsig: syscall.SIGKILL}
	if err := cmd.Start(); err != nil {
		return nil, from, "died"
	}
	lineC := make(chan string, 1024)
	go func() {
		sc := bufio.NewScanner(stdout)
		sc.Buffer(make([]byte, 1<<20), 1<<28)
		for sc.Scan() {
			lineC <- sc.Text()
		}
		close(lineC)
	}()
	var lines, cur []string
	done := from
	timer := time.NewTimer(stall)
	defer timer.Stop()
	for {
		select {
		case l, ok := <-lineC:
			if !ok {
				_ = cmd.Wait()
				if done >= to {
					return lines, done, ""
				}
				return append(lines, cur...), done, "died ## " + tail.String()
			}
			if !timer.Stop() {
				select {
				case <-timer.C:
				default:
				}
			}
			timer.Reset(stall)
			switch {
			case strings.HasPrefix(l, "\x01DONE "):
				lines = append(lines, cur...)
				cur = nil
				done++
			case strings.HasPrefix(l, "\x01STAT "):
				kv := strings.TrimPrefix(l, "\x01STAT ")
				if i := strings.LastIndex(kv, "="); i > 0 {
					v, _ := strconv.Atoi(kv[i+1:])
					stats[kv[:i]] += v
				}
			default:
				cur = append(cur, l)
			}
		case <-timer.C:
			_ = cmd.Process.Kill()
			_ = cmd.Wait()
			return append(lines, cur...), done, "hang"
		}
	}
}
