package main

// C05 — bundle diff and in-place update are exact.
//
// One case = a pair of trees (A, B) with controlled overlap. Both are uploaded as bundles with
// the real core.Upload; A is downloaded (core.Publish) into two destination stores (the memstore
// reference object store and a localfs directory under $VERIF_WORK); then the real core.Diff
// (local copy of A vs. archive bundle B) and the real core.Update (B into the local copy) run.
//
// Trace lines of a case:
//   bundle A e=<path>|<hash>|<size>,…               input: the entries of A as stored in the archive
//   bundle B e=…                                    input
//   content c=<hash>|<len>|<fp>,…                   input: the bytes behind every content key (len + sha256 prefix)
//   meta A id=A desc=<len>|<fp> lists=<len>|<fp>,…  input: the archive metadata objects of A
//   meta B id=B …                                   input
//   diff store=mem|fs nA= nB= in=<fingerprint of the inputs>   => ok d=<sorted diff entries: type|name|existing path|hash|size|additional path|hash|size>
//   update store=mem|fs      => ok files=<path>|<len>|<fp>,… meta=<key>|<len>|<fp>,… fresh=same
// `fresh=same`: the destination is byte-for-byte what a fresh core.Publish of B into an empty store leaves.
// Bundle ids (wall-clock KSUIDs) are replaced by the symbolic names A and B everywhere.

import (
	"bytes"
	"context"
	"crypto/sha256"
	"encoding/hex"
	"fmt"
	"os"
	"path/filepath"
	"sort"
	"strings"
	"time"

	"github.com/spf13/afero"
	"gopkg.in/yaml.v2"

	"dvh/internal/corekit"
	"dvh/internal/crashstore"
	"dvh/internal/memstore"
	"dvh/internal/tr"

	"github.com/oneconcern/datamon/pkg/core"
	"github.com/oneconcern/datamon/pkg/model"
	"github.com/oneconcern/datamon/pkg/storage"
	"github.com/oneconcern/datamon/pkg/storage/localfs"
)

func init() { subs["c05"] = c05 }

type c05Tree map[string][]byte

func c05FP(b []byte) string {
	h := sha256.Sum256(b)
	return hex.EncodeToString(h[:8])
}

// ---------------------------------------------------------------------------------------
// generators
// ---------------------------------------------------------------------------------------

var c05Dirs = []string{"", "", "", "d/", "d/", "d/e/", "data/2021/", "a b/", "目录/", "x/y/z/w/", "D/"}
var c05Stems = []string{"f", "g", "file", "a", "b", "readme", "x y", "día", "文件", "ünï", "data.csv", "model.bin",
	"A", "-", "_", "a=b", "p%q", "c,d", "semi;colon", "q:r", "h#1", "it's", ".hidden", "yaml.yaml", "n.yaml"}

func c05Name(r *tr.Rng, i int) string {
	d := c05Dirs[r.Intn(len(c05Dirs))]
	s := c05Stems[r.Intn(len(c05Stems))]
	if r.Intn(3) > 0 {
		s = fmt.Sprintf("%s%d", s, i)
	}
	return d + s
}

// c05Content draws file contents: empty, tiny, around the leaf size, multi-leaf.
func c05Content(r *tr.Rng, leaf int) []byte {
	var n int
	switch r.Intn(8) {
	case 0:
		n = 0
	case 1:
		n = 1 + r.Intn(4)
	case 2:
		n = leaf - 1 + r.Intn(3)
	case 3:
		n = 2*leaf - 1 + r.Intn(3)
	case 4:
		n = leaf*(1+r.Intn(4)) + r.Intn(leaf)
	default:
		n = 1 + r.Intn(2*leaf)
	}
	if n < 0 {
		n = 0
	}
	return tr.GenBytes(r.Uint64()|1, n)
}

// c05Pair builds the two trees for a scenario kind.
func c05Pair(r *tr.Rng, kind string, maxFiles, leaf int) (a, b c05Tree) {
	a, b = c05Tree{}, c05Tree{}
	fill := func(t c05Tree, n int, tag int) {
		for i := 0; len(t) < n && i < 10*n+10; i++ {
			nm := c05Name(r, tag*1000+i)
			if c05Conflicts(t, nm) {
				continue
			}
			t[nm] = c05Content(r, leaf)
		}
	}
	n := r.Intn(maxFiles + 1)
	switch kind {
	case "identical":
		fill(a, n, 0)
		for k, v := range a {
			b[k] = v
		}
	case "disjoint":
		fill(a, n, 1)
		m := r.Intn(maxFiles + 1)
		for i := 0; len(b) < m && i < 10*m+10; i++ {
			nm := c05Name(r, 2000+i)
			if _, ok := a[nm]; ok || c05Conflicts(b, nm) || c05Conflicts(a, nm) {
				continue
			}
			b[nm] = c05Content(r, leaf)
		}
	case "emptyA":
		fill(b, n, 0)
	case "emptyB":
		fill(a, n, 0)
	case "bothempty":
	case "changed": // same paths, some contents differ
		fill(a, n, 0)
		for _, k := range c05Sorted(a) {
			if r.Intn(2) == 0 {
				b[k] = a[k]
			} else {
				b[k] = c05Mutate(r, a[k], leaf)
			}
		}
	case "renamed": // same contents under other paths
		fill(a, n, 0)
		i := 0
		for _, k := range c05Sorted(a) {
			i++
			switch r.Intn(3) {
			case 0:
				b[k] = a[k]
			default:
				nm := fmt.Sprintf("moved/%d-%s", i, filepath.Base(k))
				if r.Intn(2) == 0 {
					nm = k + ".bak"
				}
				if !c05Conflicts(b, nm) && !c05Conflicts(a, nm) {
					b[nm] = a[k]
				}
			}
		}
	case "swap": // contents exchanged between paths (every path changes, no content is new)
		fill(a, n, 0)
		ks := c05Sorted(a)
		for i, k := range ks {
			b[k] = a[ks[(i+1)%len(ks)]]
		}
	case "dirfile": // a file becomes a directory, a directory becomes a file
		fill(a, n, 0)
		for _, k := range c05Sorted(a) {
			b[k] = a[k]
		}
		for _, k := range c05Sorted(a) {
			switch r.Intn(4) {
			case 0: // file k -> directory k/ holding a file
				delete(b, k)
				b[k+"/inner"] = c05Content(r, leaf)
			case 1: // top directory of k -> a file of that name (everything below it goes away)
				if i := strings.Index(k, "/"); i > 0 {
					top := k[:i]
					for _, q := range c05Sorted(b) {
						if strings.HasPrefix(q, top+"/") {
							delete(b, q)
						}
					}
					if !c05Conflicts(b, top) {
						b[top] = c05Content(r, leaf)
					}
				}
			}
		}
	default: // mixed: keep / change / drop / rename / add
		fill(a, n, 0)
		i := 0
		for _, k := range c05Sorted(a) {
			i++
			switch r.Intn(6) {
			case 0, 1:
				b[k] = a[k]
			case 2:
				b[k] = c05Mutate(r, a[k], leaf)
			case 3: // dropped
			case 4:
				nm := fmt.Sprintf("%s.v%d", k, i)
				if !c05Conflicts(b, nm) && !c05Conflicts(a, nm) {
					b[nm] = a[k]
				}
			case 5: // same content duplicated under a second path
				b[k] = a[k]
				nm := fmt.Sprintf("copy/%d", i)
				if !c05Conflicts(b, nm) && !c05Conflicts(a, nm) {
					b[nm] = a[k]
				}
			}
		}
		m := r.Intn(maxFiles/2 + 1)
		for j := 0; j < m; j++ {
			nm := c05Name(r, 5000+j)
			if _, ok := b[nm]; ok || c05Conflicts(b, nm) || c05Conflicts(a, nm) {
				continue
			}
			b[nm] = c05Content(r, leaf)
		}
	}
	return
}

// c05BigPair: n tiny files; B keeps most, changes, drops and adds a few (two file lists on one
// side at least).
func c05BigPair(r *tr.Rng, n int) (a, b c05Tree) {
	a, b = c05Tree{}, c05Tree{}
	for i := 0; i < n; i++ {
		nm := fmt.Sprintf("p%d/f%04d", i%7, i)
		a[nm] = tr.GenBytes(r.Uint64()|1, r.Intn(24))
		switch r.Intn(20) {
		case 0:
			b[nm] = tr.GenBytes(r.Uint64()|1, 1+r.Intn(24))
		case 1: // dropped
		case 2:
			b[nm+".moved"] = a[nm]
		default:
			b[nm] = a[nm]
		}
	}
	for i := 0; i < r.Intn(80); i++ {
		b[fmt.Sprintf("new/%d", i)] = tr.GenBytes(r.Uint64()|1, r.Intn(24))
	}
	return
}

func c05Mutate(r *tr.Rng, old []byte, leaf int) []byte {
	switch r.Intn(4) {
	case 0: // same length, one byte flipped
		if len(old) > 0 {
			nb := append([]byte{}, old...)
			nb[r.Intn(len(nb))] ^= byte(1 + r.Intn(255))
			return nb
		}
		return []byte{byte(r.Intn(256))}
	case 1: // truncated
		if len(old) > 0 {
			return append([]byte{}, old[:r.Intn(len(old))]...)
		}
		return []byte{1}
	case 2: // extended
		return append(append([]byte{}, old...), tr.GenBytes(r.Uint64()|1, 1+r.Intn(leaf))...)
	default:
		for {
			nb := c05Content(r, leaf)
			if !bytes.Equal(nb, old) {
				return nb
			}
		}
	}
}

// c05Conflicts: would `name` be a directory of, or lie under, an existing file of the tree
// (a tree on a file system cannot hold both "a" and "a/b")?
func c05Conflicts(t c05Tree, name string) bool {
	if _, ok := t[name]; ok {
		return true
	}
	for k := range t {
		if strings.HasPrefix(k, name+"/") || strings.HasPrefix(name, k+"/") {
			return true
		}
	}
	return false
}

func c05Sorted(t c05Tree) []string {
	ks := make([]string, 0, len(t))
	for k := range t {
		ks = append(ks, k)
	}
	sort.Strings(ks)
	return ks
}

// ---------------------------------------------------------------------------------------
// observation helpers
// ---------------------------------------------------------------------------------------

type c05Ids struct{ a, b string }

// sym replaces the two bundle ids by their symbolic names.
func (ids c05Ids) sym(s string) string {
	s = strings.ReplaceAll(s, ids.a, "A")
	if ids.b != ids.a {
		s = strings.ReplaceAll(s, ids.b, "B")
	}
	return s
}

func c05ReadAll(st storage.Store, key string) ([]byte, error) {
	rd, err := st.Get(context.Background(), key)
	if err != nil {
		return nil, err
	}
	defer rd.Close()
	var buf bytes.Buffer
	_, err = buf.ReadFrom(rd)
	return buf.Bytes(), err
}

// c05ArchiveEntries reads the entries of a bundle straight from the archive objects
// (descriptor + file lists), without any of the code under test.
func c05ArchiveEntries(env *corekit.Env, repo, id string) ([]model.BundleEntry, map[string][]byte, error) {
	meta := map[string][]byte{}
	db, err := c05ReadAll(env.Meta, model.GetArchivePathToBundle(repo, id))
	if err != nil {
		return nil, nil, err
	}
	var bd model.BundleDescriptor
	if err = yaml.Unmarshal(db, &bd); err != nil {
		return nil, nil, err
	}
	meta[model.GetConsumablePathToBundle(id)] = db
	var es []model.BundleEntry
	for i := uint64(0); i < bd.BundleEntriesFileCount; i++ {
		fb, err := c05ReadAll(env.Meta, model.GetArchivePathToBundleFileList(repo, id, i))
		if err != nil {
			return nil, nil, err
		}
		var be model.BundleEntries
		if err = yaml.Unmarshal(fb, &be); err != nil {
			return nil, nil, err
		}
		es = append(es, be.BundleEntries...)
		meta[model.GetConsumablePathToBundleFileList(id, i)] = fb
	}
	return es, meta, nil
}

func c05Snapshot(st storage.Store) (map[string][]byte, error) {
	keys, err := st.Keys(context.Background())
	if err != nil {
		return nil, err
	}
	out := map[string][]byte{}
	for _, k := range keys {
		b, err := c05ReadAll(st, k)
		if err != nil {
			return nil, err
		}
		out[k] = b
	}
	return out, nil
}

func c05SettledSnapshot(st storage.Store, wait bool) (map[string][]byte, error) {
	if !wait {
		return c05Snapshot(st)
	}
	var prev map[string][]byte
	var err error
	for i := 0; i < 40; i++ {
		time.Sleep(50 * time.Millisecond)
		var cur map[string][]byte
		if cur, err = c05Snapshot(st); err != nil {
			prev = nil
			continue
		}
		if prev != nil && len(prev) == len(cur) {
			same := true
			for k, v := range cur {
				if w, ok := prev[k]; !ok || !bytes.Equal(v, w) {
					same = false
					break
				}
			}
			if same {
				return cur, nil
			}
		}
		prev = cur
	}
	if prev != nil {
		return prev, nil
	}
	return nil, err
}

func c05ShowMap(ids c05Ids, m map[string][]byte) string {
	parts := make([]string, 0, len(m))
	for k, v := range m {
		parts = append(parts, fmt.Sprintf("%s|%d|%s", tr.Esc(ids.sym(k)), len(v), c05FP(v)))
	}
	sort.Strings(parts)
	return strings.Join(parts, ",")
}

// c05ShowMeta renders the archive metadata objects of a bundle: descriptor and file lists by index.
func c05ShowMeta(ids c05Ids, id string, meta map[string][]byte) string {
	d := meta[model.GetConsumablePathToBundle(id)]
	var ls []string
	for i := uint64(0); ; i++ {
		b, ok := meta[model.GetConsumablePathToBundleFileList(id, i)]
		if !ok {
			break
		}
		ls = append(ls, fmt.Sprintf("%d|%s", len(b), c05FP(b)))
	}
	return fmt.Sprintf("id=%s desc=%d|%s lists=%s", ids.sym(id), len(d), c05FP(d), strings.Join(ls, ","))
}

func c05ShowEntries(es []model.BundleEntry) string {
	parts := make([]string, len(es))
	for i, e := range es {
		parts[i] = fmt.Sprintf("%s|%s|%d", tr.Esc(e.NameWithPath), e.Hash, e.Size)
	}
	return strings.Join(parts, ",")
}

func c05ShowDiff(d core.BundleDiff) string {
	parts := make([]string, len(d.Entries))
	for i, e := range d.Entries {
		parts[i] = fmt.Sprintf("%s|%s|%s|%s|%d|%s|%s|%d", e.Type.String(), tr.Esc(e.Name),
			tr.Esc(e.Existing.NameWithPath), c05Dash(e.Existing.Hash), e.Existing.Size,
			tr.Esc(e.Additional.NameWithPath), c05Dash(e.Additional.Hash), e.Additional.Size)
	}
	sort.Strings(parts)
	return strings.Join(parts, ",")
}

func c05Dash(s string) string {
	if s == "" {
		return "-"
	}
	return s
}

// emptyDirs lists directories without any file below them (localfs only; auxiliary).
func c05EmptyDirs(root string) []string {
	var out []string
	_ = filepath.Walk(root, func(p string, info os.FileInfo, err error) error {
		if err != nil || !info.IsDir() || p == root {
			return nil
		}
		ents, _ := os.ReadDir(p)
		if len(ents) == 0 {
			rel, _ := filepath.Rel(root, p)
			out = append(out, rel)
		}
		return nil
	})
	sort.Strings(out)
	return out
}

// ---------------------------------------------------------------------------------------
// one case
// ---------------------------------------------------------------------------------------

func c05Case(c *ctx, caseNo int, kind string, a, b c05Tree, leafA, leafB uint32, work string, stores []string) error {
	env := corekit.NewEnv()
	const repo = "r"
	if err := env.CreateRepo(repo); err != nil {
		return fmt.Errorf("create repo: %v", err)
	}
	idA, err := env.UploadTree(repo, a, leafA)
	if err != nil {
		return fmt.Errorf("upload A: %v", err)
	}
	idB := idA
	sameBundle := kind == "samebundle"
	if !sameBundle {
		if idB, err = env.UploadTree(repo, b, leafB); err != nil {
			return fmt.Errorf("upload B: %v", err)
		}
	}
	ids := c05Ids{idA, idB}
	esA, metaA, err := c05ArchiveEntries(env, repo, idA)
	if err != nil {
		return fmt.Errorf("entries A: %v", err)
	}
	esB, metaB, err := c05ArchiveEntries(env, repo, idB)
	if err != nil {
		return fmt.Errorf("entries B: %v", err)
	}
	// content table: content key -> bytes, from the INPUT trees (fails on a key collision)
	content := map[string][]byte{}
	addContent := func(es []model.BundleEntry, t c05Tree) error {
		for _, e := range es {
			bs, ok := t[e.NameWithPath]
			if !ok {
				return fmt.Errorf("entry %q not in the uploaded tree", e.NameWithPath)
			}
			if old, ok := content[e.Hash]; ok && !bytes.Equal(old, bs) {
				return fmt.Errorf("content key %s stands for two different byte strings", e.Hash)
			}
			content[e.Hash] = bs
		}
		if len(es) != len(t) {
			return fmt.Errorf("bundle has %d entries, tree %d files", len(es), len(t))
		}
		return nil
	}
	if err := addContent(esA, a); err != nil {
		return err
	}
	if !sameBundle {
		if err := addContent(esB, b); err != nil {
			return err
		}
	} else {
		b = a
	}

	c.w.Case("kind=%s nA=%d nB=%d leafA=%d leafB=%d", kind, len(esA), len(esB), leafA, leafB)
	c.w.Note("bundle A e=" + c05ShowEntries(esA))
	c.w.Note("bundle B e=" + c05ShowEntries(esB))
	cparts := make([]string, 0, len(content))
	for h, bs := range content {
		cparts = append(cparts, fmt.Sprintf("%s|%d|%s", h, len(bs), c05FP(bs)))
	}
	sort.Strings(cparts)
	c.w.Note("content c=" + strings.Join(cparts, ","))
	c.w.Note("meta A " + c05ShowMeta(ids, idA, metaA))
	c.w.Note("meta B " + c05ShowMeta(ids, idB, metaB))
	// sizes and a fingerprint of the inputs in every operation line (evidence: trivial / distinct inputs)
	opTail := fmt.Sprintf(" nA=%d nB=%d in=%s", len(esA), len(esB), c05FP([]byte(c05ShowEntries(esA)+"\n"+c05ShowEntries(esB))))
	c.w.Count("kind=" + kind)
	c.w.Count(fmt.Sprintf("stores=%s", strings.Join(stores, "+")))
	c.w.Count(fmt.Sprintf("nA=%d0s", len(esA)/10))
	c.w.Count(fmt.Sprintf("nB=%d0s", len(esB)/10))

	// reference: a fresh download of B into a new memstore
	freshFiles, freshMeta, err := corekit.Download(env.Stores, repo, idB)
	if err != nil {
		return fmt.Errorf("fresh download of B: %v", err)
	}
	fresh := map[string][]byte{}
	for k, v := range freshFiles {
		fresh[k] = v
	}
	for k, v := range freshMeta {
		fresh[k] = v
	}

	for _, kindStore := range stores {
		var dest storage.Store
		var dir string
		if kindStore == "mem" {
			dest = memstore.New("dest")
		} else {
			dir = filepath.Join(work, fmt.Sprintf("c05-%d-%d", c.seed, caseNo))
			_ = os.RemoveAll(dir)
			if err := os.MkdirAll(dir, 0o755); err != nil {
				return err
			}
			dest = localfs.New(afero.NewBasePathFs(afero.NewOsFs(), dir), localfs.WithRetry(false))
		}
		// the previous download of A
		if err := corekit.Recover(func() error {
			return core.Publish(context.Background(), corekit.NewBundle(env.Stores, repo, dest, 0, idA))
		}); err != nil {
			return fmt.Errorf("download of A into %s: %v", kindStore, err)
		}
		// ---- diff: local copy (consumable store only, as the CLI does) vs. archive bundle B
		var d core.BundleDiff
		local := core.NewBundle(core.ConsumableStore(dest), core.Logger(corekit.Nop))
		remote := corekit.NewBundle(env.Stores, repo, nil, 0, idB)
		err := corekit.Recover(func() error {
			var e error
			d, e = core.Diff(context.Background(), local, remote)
			return e
		})
		res := corekit.ErrClass(err)
		if err == nil {
			res += " d=" + c05ShowDiff(d)
			for _, e := range d.Entries {
				c.w.Count("diffentry=" + e.Type.String())
			}
		} else {
			res += " ## " + tr.Esc(err.Error())
		}
		c.w.Op("diff store="+kindStore+opTail, res)

		// ---- update
		local = core.NewBundle(core.ConsumableStore(dest), core.Logger(corekit.Nop))
		remote = corekit.NewBundle(env.Stores, repo, nil, 0, idB)
		err = corekit.Recover(func() error { return core.Update(context.Background(), remote, local) })
		res = corekit.ErrClass(err)
		c.w.Count("update=" + res)
		aux := ""
		if err != nil {
			aux = " err=" + tr.Esc(err.Error())
		}
		// a failed Update returns at the first error while its other workers are still running:
		// wait until the destination stops changing before looking at it
		snap, serr := c05SettledSnapshot(dest, err != nil)
		if serr != nil {
			return fmt.Errorf("snapshot of %s: %v", kindStore, serr)
		}
		files, meta := corekit.SplitMeta(snap)
		same := "same"
		if len(snap) != len(fresh) {
			same = "differ"
		}
		for k, v := range fresh {
			if w, ok := snap[k]; !ok || !bytes.Equal(v, w) {
				same = "differ"
			}
		}
		res += fmt.Sprintf(" files=%s meta=%s fresh=%s", c05ShowMap(ids, files), c05ShowMap(ids, meta), same)
		if dir != "" {
			if ed := c05EmptyDirs(dir); len(ed) > 0 {
				aux += fmt.Sprintf(" emptydirs=%d", len(ed))
				c.w.Count("fs-leftover-empty-dirs")
			}
			_ = os.RemoveAll(dir)
		}
		if aux != "" {
			res += " ##" + aux
		}
		c.w.Op("update store="+kindStore+opTail, res)
	}
	// ---- the same update under an unfriendly destination: ONE of its calls fails transiently, or it
	// is slow and the configured concurrency is 0/negative (the CLI computes factor/10). Either Update
	// reports an error, or — the moment it returns nil — the copy is what a fresh download leaves.
	if !sameBundle {
		fr := tr.NewRng(c.seed*977 + uint64(caseNo)*7919 + 5)
		for _, variant := range []string{"fault", "fault", "slow"} {
			dest2 := memstore.New("dest")
			if corekit.Recover(func() error {
				return core.Publish(context.Background(), corekit.NewBundle(env.Stores, repo, dest2, 0, idA))
			}) != nil {
				break
			}
			g := &crashstore.Group{}
			conc := 10
			detail := ""
			if variant == "fault" {
				g.FailOnceAt = 1 + fr.Intn(len(esA)+len(esB)+2)
				detail = fmt.Sprintf("at=%d", g.FailOnceAt)
			} else {
				conc = fr.Pick(0, 0, -1, 1, 2)
				g.Hook = func(_, op, key string) {
					if (op == "put" || op == "delete") && !strings.HasPrefix(key, ".datamon") {
						time.Sleep(15 * time.Millisecond)
					}
				}
				detail = fmt.Sprintf("conc=%d", conc)
			}
			wd := crashstore.Wrap(g, "dest", dest2)
			local := core.NewBundle(core.ConsumableStore(wd), core.Logger(corekit.Nop), core.ConcurrentFileDownloads(conc))
			remote := corekit.NewBundle(env.Stores, repo, nil, 0, idB, core.ConcurrentFileDownloads(conc))
			uerr := corekit.Recover(func() error { return core.Update(context.Background(), remote, local) })
			snap := dest2.Snapshot() // at once: nothing may still be in flight after a nil return
			if variant == "fault" {
				fired := false
				for _, w := range g.Snapshot() {
					if w.Err && !w.Landed {
						fired = true
					}
				}
				if !fired {
					continue
				}
			}
			got := "err"
			if uerr == nil {
				got = "same"
				if len(snap) != len(fresh) {
					got = fmt.Sprintf("differ:%d-objects-instead-of-%d", len(snap), len(fresh))
				}
				for k, v := range fresh {
					if w, ok := snap[k]; !ok || !bytes.Equal(v, w) {
						got = "differ:" + tr.Esc(k)
					}
				}
			}
			time.Sleep(20 * time.Millisecond)
			c.w.Op(fmt.Sprintf("updatef variant=%s %s got=%s%s", variant, detail, got, opTail), "sound")
			c.w.Count("update-unfriendly=" + variant)
		}
	}
	c.w.End()
	return nil
}

func c05(c *ctx) error {
	work := os.Getenv("VERIF_WORK")
	if work == "" {
		d, err := os.MkdirTemp("", "c05-")
		if err != nil {
			return err
		}
		defer os.RemoveAll(d)
		work = d
	}
	n, nBig := 120, 1
	if c.thorough() {
		n, nBig = 2500, 6
	}
	kinds := []string{"identical", "disjoint", "emptyA", "emptyB", "bothempty", "changed", "renamed", "swap", "samebundle", "dirfile",
		"mixed", "mixed", "mixed", "mixed"}
	r := c.rng
	for i := 1; i <= n+nBig; i++ {
		kind := kinds[r.Intn(len(kinds))]
		if i <= len(kinds) {
			kind = kinds[i-1]
		}
		// (cafs.New allocates a free list of lruSize/leafSize slots: tiny leaves are slow, not wrong)
		leafA := uint32(r.Pick(1024, 1024, 2048, 4096, 1000))
		leafB := leafA
		if r.Intn(4) == 0 {
			leafB = uint32(r.Pick(1024, 2048, 4096, 1000))
		}
		// 0..40 files; half of the cases are small so that every overlap pattern is hit often
		mf := r.Pick(3, 6, 10, 10, 20, 20, 40, 40)
		var a, b c05Tree
		if i > n {
			// more than 1000 entries: the bundle metadata has several file lists
			kind = "big"
			a, b = c05BigPair(r, 1001+r.Intn(60))
		} else {
			a, b = c05Pair(r, kind, mf, int(leafA))
		}
		if c.only > 0 && c.only != i {
			c.w.Cases++
			continue
		}
		// destination stores: the reference object store (memstore) and a localfs directory
		// (what the CLI uses)
		stores := []string{"mem", "fs"}
		if err := c05Case(c, i, kind, a, b, leafA, leafB, work, stores); err != nil {
			return fmt.Errorf("case %d (%s): %v", i, kind, err)
		}
	}
	return nil
}
