package main

// C11 — diamond commit merges splits by latest write, keeping every losing version.
//
// Hook level: the REAL Diamond.mergeSplits is fed, through core.VerifMerge, with batches of split
// file entries in an arrival order chosen here (times, contents and splits are inputs).
// End to end: real splits are uploaded with core.NewSplit(...).Upload() and committed with
// Diamond.Commit() in each conflict mode; what the splits recorded (hashes, upload times) is read
// back from the vmetadata store and given to the model as its input.

import (
	"errors"
	"fmt"
	"sort"
	"strings"
	"time"

	"gopkg.in/yaml.v2"

	"dvh/internal/corekit"
	"dvh/internal/crashstore"
	"dvh/internal/memstore"

	"github.com/oneconcern/datamon/pkg/core"
	"github.com/oneconcern/datamon/pkg/model"
)

func init() { subs["c11"] = c11 }

// the listing page size used by a commit is not part of the contract: what is merged does not depend on it
var c11Pages = []int{1024, 1, 2, 4, 5, 8, 3}
var c11Page int

type c11Up struct {
	path, hash string
	size       uint64
	t          int // upload time (rank)
}

type c11Batch struct {
	split string
	ents  []c11Up
}

var c11Modes = []struct {
	name string
	mode model.ConflictMode
}{
	{"ignore", model.IgnoreConflicts},
	{"forbid", model.ForbidConflicts},
	{"conflicts", model.EnableConflicts},
	{"checkpoints", model.EnableCheckpoints},
}

func c11ShowBatches(bs []c11Batch) string {
	parts := make([]string, len(bs))
	for i, b := range bs {
		es := make([]string, len(b.ents))
		for j, e := range b.ents {
			es[j] = fmt.Sprintf("%s@%s@%d@%d", e.path, e.hash, e.size, e.t)
		}
		parts[i] = b.split + ":" + strings.Join(es, ",")
	}
	return strings.Join(parts, ";")
}

type c11File struct {
	name, hash string
	size       uint64
}

func c11ShowFiles(fs []c11File) string {
	sort.Slice(fs, func(i, j int) bool { return fs[i].name < fs[j].name })
	parts := make([]string, len(fs))
	for i, f := range fs {
		parts[i] = fmt.Sprintf("%s=%s:%d", f.name, f.hash, f.size)
	}
	return strings.Join(parts, ",")
}

func c11Bit(b bool) int {
	if b {
		return 1
	}
	return 0
}

// c11Tie: two different uploads of one path carry the same time (the property does not say
// which one is "the latest" then).
func c11Tie(bs []c11Batch) bool {
	seen := map[string]bool{}
	for _, b := range bs {
		for _, e := range b.ents {
			k := fmt.Sprintf("%s@%d", e.path, e.t)
			if seen[k] {
				return true
			}
			seen[k] = true
		}
	}
	return false
}

// c11Trigger (statistics only): some path has two identical uploads, the older of which is not
// more recent than a different version.
func c11Trigger(bs []c11Batch) bool {
	type v struct {
		hash string
		t    int
	}
	by := map[string][]v{}
	for _, b := range bs {
		for _, e := range b.ents {
			by[e.path] = append(by[e.path], v{e.hash, e.t})
		}
	}
	for _, vs := range by {
		for i, x := range vs {
			for j, x2 := range vs {
				if i == j || x.hash != x2.hash {
					continue
				}
				for _, y := range vs {
					if y.hash != x.hash && x.t <= y.t {
						return true
					}
				}
			}
		}
	}
	return false
}

// one diamond per mode, built by the real NewDiamond, reused for every merge (building one costs
// about a millisecond); every 64th merge is repeated on a freshly built diamond and must agree.
var (
	c11Mergers = map[model.ConflictMode]*core.VerifMerger{}
	c11Calls   int
)

// c11Hook runs the real merger on the batches, in this order.
func c11Hook(env *corekit.Env, mode model.ConflictMode, bs []c11Batch) (string, string) {
	full, reduced := c11HookOn(env, mode, bs, false)
	c11Calls++
	if c11Calls%64 == 0 {
		if f2, _ := c11HookOn(env, mode, bs, true); f2 != full {
			return "reused-diamond-differs:" + full + "|" + f2, ""
		}
	}
	return full, reduced
}

func c11HookOn(env *corekit.Env, mode model.ConflictMode, bs []c11Batch, fresh bool) (string, string) {
	vb := make([]core.VerifBatch, len(bs))
	for i, b := range bs {
		es := make([]model.BundleEntry, len(b.ents))
		for j, e := range b.ents {
			es[j] = model.BundleEntry{
				Hash: e.hash, NameWithPath: e.path, FileMode: 0o644, Size: e.size,
				Timestamp: time.Unix(1600000000, int64(e.t)), // nanosecond steps: After() must see them
			}
		}
		vb[i] = core.VerifBatch{SplitID: b.split, Entries: es}
	}
	var (
		merged   []core.VerifMerged
		hc, hk   bool
		mergeErr error
	)
	perr := corekit.Recover(func() error {
		if fresh {
			merged, hc, hk, mergeErr = core.VerifMerge(env.Stores, mode, vb)
			return nil
		}
		m := c11Mergers[mode]
		if m == nil {
			m = core.NewVerifMerger(env.Stores, mode)
			c11Mergers[mode] = m
		}
		merged, hc, hk, mergeErr = m.Merge(vb)
		return nil
	})
	if perr != nil {
		return "panic", ""
	}
	if mergeErr != nil {
		return "err", ""
	}
	fs := make([]c11File, len(merged))
	mainPaths := []string{}
	for i, m := range merged {
		fs[i] = c11File{m.Name, m.Hash, m.Size}
		if !strings.HasPrefix(m.Name, ".conflicts/") && !strings.HasPrefix(m.Name, ".checkpoints/") {
			mainPaths = append(mainPaths, m.Name)
		}
	}
	sort.Strings(mainPaths)
	flags := fmt.Sprintf("c=%d k=%d", c11Bit(hc), c11Bit(hk))
	return "ok " + flags + " f=" + c11ShowFiles(fs), "ok " + flags + " main=" + strings.Join(mainPaths, ",")
}

// c11Line runs one (mode, arrival order) and writes the trace line.
func c11Line(c *ctx, env *corekit.Env, mi int, bs []c11Batch) {
	full, reduced := c11Hook(env, c11Modes[mi].mode, bs)
	c.w.Cases++
	if c11Tie(bs) {
		res := reduced
		if full == "err" || full == "panic" {
			res = full
		}
		c.w.Op(fmt.Sprintf("mergetie mode=%s arr=%s", c11Modes[mi].name, c11ShowBatches(bs)), res+" ## code="+full)
		c.w.Count("op=mergetie")
	} else {
		trig := c11Trigger(bs)
		// after `##`: the same result again, to be compared (not alarmed) with the CODE model's result —
		// the compared part of the model is the specification, which differs inside the trigger region
		c.w.Op(fmt.Sprintf("merge mode=%s arr=%s", c11Modes[mi].name, c11ShowBatches(bs)),
			fmt.Sprintf("%s ## code=%s trig=%d", full, full, c11Bit(trig)))
		c.w.Count("op=merge")
		if trig {
			c.w.Count("merge:trigger-region=yes")
		} else {
			c.w.Count("merge:trigger-region=no")
		}
	}
	c.w.Count("mode=" + c11Modes[mi].name)
	if full == "err" {
		c.w.Count("outcome=err")
	} else {
		c.w.Count("outcome=ok")
	}
}

func c11Permute(n int, f func(p []int)) {
	p := make([]int, n)
	for i := range p {
		p[i] = i
	}
	var rec func(k int)
	rec = func(k int) {
		if k == n {
			f(p)
			return
		}
		for i := k; i < n; i++ {
			p[k], p[i] = p[i], p[k]
			rec(k + 1)
			p[k], p[i] = p[i], p[k]
		}
	}
	rec(0)
}

func c11Reorder(bs []c11Batch, p []int) []c11Batch {
	out := make([]c11Batch, len(p))
	for i, j := range p {
		out[i] = bs[j]
	}
	return out
}

// c11AllOrders runs the input in every mode, in all arrival orders (up to maxAll batches) or in
// `samples` random ones.
func c11AllOrders(c *ctx, env *corekit.Env, bs []c11Batch, maxAll, samples int) {
	c.w.Count(fmt.Sprintf("batches=%d", len(bs)))
	for mi := range c11Modes {
		if len(bs) <= maxAll {
			c11Permute(len(bs), func(p []int) { c11Line(c, env, mi, c11Reorder(bs, p)) })
		} else {
			for k := 0; k < samples; k++ {
				c11Line(c, env, mi, c11Reorder(bs, c.rng.Perm(len(bs))))
			}
		}
	}
}

// c11Exhaustive: k splits each uploading the one path "p": every content vector over a pool of 3,
// every time vector over 1..k (a share tiePct of those with ties, distinctPct of the others), every
// arrival order, every mode.
func c11Exhaustive(c *ctx, env *corekit.Env, k int, tiePct, distinctPct int) {
	hashes := []string{"h1", "h2", "h3"}
	hv := make([]int, k)
	tv := make([]int, k)
	var recT func(i int)
	emit := func() {
		bs := make([]c11Batch, k)
		for i := 0; i < k; i++ {
			bs[i] = c11Batch{fmt.Sprintf("s%d", i+1), []c11Up{{"p", hashes[hv[i]], uint64(10 + hv[i]), tv[i]}}}
		}
		c11AllOrders(c, env, bs, 8, 0)
	}
	recT = func(i int) {
		if i == k {
			tie := false
			seen := map[int]bool{}
			for _, t := range tv {
				if seen[t] {
					tie = true
				}
				seen[t] = true
			}
			pct := distinctPct
			if tie {
				pct = tiePct
			}
			if pct >= 100 || c.rng.Intn(100) < pct {
				emit()
			}
			return
		}
		for t := 1; t <= k; t++ {
			tv[i] = t
			recT(i + 1)
		}
	}
	var recH func(i int)
	recH = func(i int) {
		if i == k {
			recT(0)
			return
		}
		for h := 0; h < 3; h++ {
			hv[i] = h
			recH(i + 1)
		}
	}
	recH(0)
}

var c11Paths = []string{"a", "b", "d/c", "d/e", "f.txt", "g"}

// c11Random: 1..8 splits over up to 6 paths, contents from a pool, batches = index files.
func c11Random(c *ctx, env *corekit.Env, maxAll, samples int) {
	ns := 1 + c.rng.Intn(8)
	np := 1 + c.rng.Intn(len(c11Paths))
	pool := c.rng.Pick(1, 2, 3, 3, 8)
	ties := c.rng.Intn(100) < 12
	// newestCopies: identical copies are made only of the most recent version (outside the trigger region)
	type u struct {
		split int
		up    c11Up
	}
	var ups []u
	for s := 0; s < ns; s++ {
		any := false
		for p := 0; p < np; p++ {
			if c.rng.Intn(100) < 60 || (!any && p == np-1) {
				h := c.rng.Intn(pool)
				ups = append(ups, u{s, c11Up{c11Paths[p], fmt.Sprintf("h%d", h+1), uint64(10 + h), 0}})
				any = true
			}
		}
	}
	// times: a random permutation (distinct), or a small range (ties)
	perm := c.rng.Perm(len(ups))
	for i := range ups {
		if ties {
			ups[i].up.t = 1 + c.rng.Intn(3)
		} else {
			ups[i].up.t = 1 + perm[i]
		}
	}
	if !ties && c.rng.Intn(100) < 35 {
		// push the input out of the trigger region: per path, make every group of identical copies
		// either unique or the most recent ones, by giving older copies a fresh content
		fresh := 100
		byPath := map[string][]int{}
		for i, x := range ups {
			byPath[x.up.path] = append(byPath[x.up.path], i)
		}
		for _, idx := range byPath {
			sort.Slice(idx, func(a, b int) bool { return ups[idx[a]].up.t > ups[idx[b]].up.t })
			top := ups[idx[0]].up.hash
			run := true // still inside the most recent block of copies of the winner
			seen := map[string]bool{}
			for _, i := range idx {
				h := ups[i].up.hash
				if run && h == top {
					continue
				}
				run = false
				if h == top || seen[h] {
					fresh++
					ups[i].up.hash = fmt.Sprintf("h%d", fresh)
					ups[i].up.size = uint64(10 + fresh)
				}
				seen[ups[i].up.hash] = true
			}
		}
	}
	// batches: the file list of a split comes in one or two index files
	var bs []c11Batch
	for s := 0; s < ns; s++ {
		var es []c11Up
		for _, x := range ups {
			if x.split == s {
				es = append(es, x.up)
			}
		}
		if len(es) == 0 {
			continue
		}
		id := fmt.Sprintf("s%d", s+1)
		if len(es) >= 2 && c.rng.Intn(100) < 30 {
			cut := 1 + c.rng.Intn(len(es)-1)
			bs = append(bs, c11Batch{id, es[:cut]}, c11Batch{id, es[cut:]})
		} else {
			bs = append(bs, c11Batch{id, es})
		}
	}
	c.w.Count(fmt.Sprintf("splits=%d", ns))
	c.w.Count(fmt.Sprintf("paths=%d", np))
	c.w.Count(fmt.Sprintf("pool=%d", pool))
	c11AllOrders(c, env, bs, maxAll, samples)
}

// ---------------------------------------------------------------------------------------
// end to end
// ---------------------------------------------------------------------------------------

func c11ReadIndex(st *memstore.Store, pather func(i uint64) string) ([]model.BundleEntry, error) {
	var out []model.BundleEntry
	for i := uint64(0); ; i++ {
		raw, ok := st.Raw(pather(i))
		if !ok {
			return out, nil
		}
		var es model.BundleEntries
		if err := yaml.Unmarshal(raw, &es); err != nil {
			return nil, err
		}
		out = append(out, es.BundleEntries...)
	}
}

// c11Short abbreviates a content hash (128 hex digits) for the trace.
func c11Short(h string) string {
	if len(h) > 16 {
		return h[:16]
	}
	return h
}

func c11Content(id int) []byte {
	n := 20 + 37*id
	return append([]byte(fmt.Sprintf("content-%d:", id)), make([]byte, n)...)
}

func c11CloneEnv(e *corekit.Env) *corekit.Env {
	n := &corekit.Env{Blob: e.Blob.Clone(), Meta: e.Meta.Clone(), VMeta: e.VMeta.Clone(), Wal: e.Wal.Clone(), ReadLog: e.ReadLog.Clone()}
	n.Stores = corekit.WithStores(n.Wal, n.ReadLog, n.Blob, n.Meta, n.VMeta)
	return n
}

// c11Commit commits the diamond in the given mode and reads back the bundle's file list.
//
// The bundle is then downloaded: every entry must come with the bytes that were uploaded under its hash.
func c11Commit(env *corekit.Env, repo, diamondID string, mode model.ConflictMode, byHash map[string][]byte) string {
	return c11CommitOpt(env, repo, diamondID, mode, byHash, false)
}

var errHang = errors.New("hang: Commit did not return within 30 s")

// c11CommitOpt: with retry, the first Commit of the Diamond object fails on a transient read fault
// (a split index file cannot be fetched) and Commit is called again on the SAME object.
func c11CommitOpt(env *corekit.Env, repo, diamondID string, mode model.ConflictMode, byHash map[string][]byte, retry bool) string {
	stores := env.Stores
	g := &crashstore.Group{}
	if retry && c11Page%2 == 0 {
		// the first index file of the bundle cannot be written: the first Commit fails half-way
		g.FailOnceOp, g.FailOnceAt = "put", 1
		stores = corekit.WithStores(env.Wal, env.ReadLog, env.Blob, crashstore.Wrap(g, "meta", env.Meta), crashstore.Wrap(g, "vmeta", env.VMeta))
	} else if retry {
		g.FailReadOp, g.FailReadKey, g.FailReadAt = "get", "/bundle-files-", 1
		stores = corekit.WithStores(env.Wal, env.ReadLog, env.Blob, crashstore.Wrap(g, "meta", env.Meta), crashstore.Wrap(g, "vmeta", env.VMeta))
	}
	d := core.NewDiamond(repo, stores,
		core.DiamondDescriptor(model.NewDiamondDescriptor(model.DiamondID(diamondID), model.DiamondMode(mode))),
		core.DiamondMessage("verif"), core.DiamondLogger(corekit.Nop))
	c11Page++
	commit := func() error {
		done := make(chan error, 1)
		go func() {
			done <- corekit.Recover(func() error { return d.Commit(core.BatchSize(c11Pages[c11Page%len(c11Pages)])) })
		}()
		select {
		case e := <-done:
			return e
		case <-time.After(30 * time.Second):
			return errHang
		}
	}
	err := commit()
	if retry && err != nil && err != errHang {
		err = commit()
	}
	if err == errHang {
		return "hang"
	}
	if err != nil {
		if corekit.ErrClass(err) == "panic" {
			return "panic"
		}
		return "err"
	}
	desc, err := core.GetDiamond(repo, diamondID, env.Stores)
	if err != nil {
		return "err-getdiamond"
	}
	entries, err := c11ReadIndex(env.Meta, func(i uint64) string {
		return model.GetArchivePathToBundleFileList(repo, desc.BundleID, i)
	})
	if err != nil {
		return "err-index"
	}
	fs := make([]c11File, len(entries))
	for i, e := range entries {
		fs[i] = c11File{e.NameWithPath, c11Short(e.Hash), e.Size}
	}
	files, _, derr := corekit.Download(env.Stores, repo, desc.BundleID)
	dl := corekit.ErrClass(derr)
	if derr == nil {
		for _, e := range entries {
			if got, ok := files[e.NameWithPath]; !ok || string(got) != string(byHash[e.Hash]) {
				dl = "badcontent:" + e.NameWithPath
				break
			}
		}
	}
	return fmt.Sprintf("ok c=%d k=%d f=%s dl=%s/%d state=%s", c11Bit(desc.HasConflicts), c11Bit(desc.HasCheckpoints),
		c11ShowFiles(fs), dl, len(files), desc.State)
}

// c11UploadSplit uploads one real split holding the files.
func c11UploadSplit(env *corekit.Env, repo, diamondID, splitID string, files map[string][]byte) error {
	return corekit.Recover(func() error {
		sd, err := core.CreateSplit(repo, diamondID, env.Stores,
			core.SplitDescriptor(model.NewSplitDescriptor(model.SplitID(splitID))), core.SplitLogger(corekit.Nop))
		if err != nil {
			return err
		}
		return core.NewSplit(repo, diamondID, env.Stores,
			core.SplitDescriptor(&sd), core.SplitConsumableStore(corekit.TreeStore(files)), core.SplitLogger(corekit.Nop),
		).Upload()
	})
}

// c11ReadSplits reads what the done splits recorded: entries with hashes and upload times (as ranks).
func c11ReadSplits(env *corekit.Env, repo, diamondID string) ([]c11Batch, map[string]map[string]string, error) {
	full := map[string]map[string]string{} // split → path → full hash
	splits, err := core.ListSplits(repo, diamondID, env.Stores)
	if err != nil {
		return nil, nil, err
	}
	type raw struct {
		split string
		e     model.BundleEntry
	}
	var all []raw
	for _, sd := range splits {
		if sd.State != model.SplitDone {
			continue
		}
		sd := sd
		es, err := c11ReadIndex(env.VMeta, func(i uint64) string {
			return model.GetArchivePathToSplitFileList(repo, diamondID, sd.SplitID, sd.GenerationID, i)
		})
		if err != nil {
			return nil, nil, err
		}
		full[sd.SplitID] = map[string]string{}
		for _, e := range es {
			all = append(all, raw{sd.SplitID, e})
			full[sd.SplitID][e.NameWithPath] = e.Hash
		}
	}
	var ts []int64
	for _, r := range all {
		ts = append(ts, r.e.Timestamp.UnixNano())
	}
	sort.Slice(ts, func(i, j int) bool { return ts[i] < ts[j] })
	rank := map[int64]int{}
	for _, t := range ts {
		if _, ok := rank[t]; !ok {
			rank[t] = len(rank) + 1
		}
	}
	var bs []c11Batch
	for _, r := range all {
		if len(bs) == 0 || bs[len(bs)-1].split != r.split {
			bs = append(bs, c11Batch{split: r.split})
		}
		b := &bs[len(bs)-1]
		b.ents = append(b.ents, c11Up{r.e.NameWithPath, c11Short(r.e.Hash), r.e.Size, rank[r.e.Timestamp.UnixNano()]})
	}
	return bs, full, nil
}

func c11E2E(c *ctx) error {
	env := corekit.NewEnv()
	repo := "r"
	if err := env.CreateRepo(repo); err != nil {
		return err
	}
	dd, err := core.CreateDiamond(repo, env.Stores, core.DiamondLogger(corekit.Nop))
	if err != nil {
		return err
	}
	ns := 1 + c.rng.Intn(5)
	np := 1 + c.rng.Intn(4)
	pool := c.rng.Pick(2, 3, 6)
	uploaded := map[string]map[string][]byte{}
	for s := 0; s < ns; s++ {
		files := map[string][]byte{}
		for p := 0; p < np; p++ {
			if c.rng.Intn(100) < 65 || (len(files) == 0 && p == np-1) {
				files[c11Paths[p]] = c11Content(c.rng.Intn(pool))
			}
		}
		if s < ns-1 && c.rng.Intn(5) == 0 {
			// a split that completes with nothing in it (an empty directory, a filter matching nothing)
			files = map[string][]byte{}
			c.w.Count("e2e:empty-split")
		}
		id := fmt.Sprintf("s%d", s+1)
		uploaded[id] = files
		if err := c11UploadSplit(env, repo, dd.DiamondID, id, files); err != nil {
			return fmt.Errorf("split upload: %v", err)
		}
	}
	bs, full, err := c11ReadSplits(env, repo, dd.DiamondID)
	if err != nil {
		return err
	}
	byHash := map[string][]byte{}
	for sid, m := range full {
		for p, h := range m {
			byHash[h] = uploaded[sid][p]
		}
	}
	if c11Tie(bs) {
		// two uploads within the same nanosecond: nothing to compare (never observed)
		c.w.Count("e2e:tie-skipped")
		return nil
	}
	for _, m := range c11Modes {
		res := c11Commit(c11CloneEnv(env), repo, dd.DiamondID, m.mode, byHash)
		c.w.Cases++
		if strings.HasPrefix(res, "ok ") {
			res += fmt.Sprintf(" ## trig=%d", c11Bit(c11Trigger(bs)))
		}
		c.w.Op(fmt.Sprintf("e2e mode=%s splits=%s", m.name, c11ShowBatches(bs)), res)
		// the same commit, retried on the same Diamond object after a transient read fault
		res2 := c11CommitOpt(c11CloneEnv(env), repo, dd.DiamondID, m.mode, byHash, true)
		if strings.HasPrefix(res2, "ok ") {
			res2 += fmt.Sprintf(" ## trig=%d", c11Bit(c11Trigger(bs)))
		}
		c.w.Op(fmt.Sprintf("e2e mode=%s splits=%s retried=1", m.name, c11ShowBatches(bs)), res2)
		c.w.Count("op=e2e")
		c.w.Count(fmt.Sprintf("e2e:splits=%d", ns))
	}
	return nil
}

// c11Single: the same tree uploaded plainly (core.Upload) and through a diamond with one split.
func c11Single(c *ctx) error { return c11SingleN(c, false) }

// c11SingleN: with big, the split holds a little more than one full index file (1000 entries) and the
// metadata store acknowledges index files slowly: the split's index writer is busy when the last
// uploads report in.
func c11SingleN(c *ctx, big bool) error {
	env := corekit.NewEnv()
	repo := "r"
	if err := env.CreateRepo(repo); err != nil {
		return err
	}
	files := map[string][]byte{}
	n := 1 + c.rng.Intn(6)
	for i := 0; i < n; i++ {
		files[c11Paths[c.rng.Intn(len(c11Paths))]] = c11Content(c.rng.Intn(4))
	}
	if c.rng.Intn(4) == 0 {
		files["deep/er/file"] = c11Bytes(c, 5000) // larger than nothing special; several KiB
	}
	if big {
		for i := 0; i < 1005+c.rng.Intn(12); i++ {
			files[fmt.Sprintf("big/f%04d", i)] = []byte(fmt.Sprintf("%d", i%7))
		}
	}
	if c.rng.Intn(3) == 0 {
		// many small files: their upload results reach the split's index writer in a burst
		for i := 0; i < 40+c.rng.Intn(40); i++ {
			files[fmt.Sprintf("many/f%03d", i)] = c11Content(c.rng.Intn(4))
		}
	}
	bid, err := env.UploadTree(repo, files, 0)
	if err != nil {
		return fmt.Errorf("plain upload: %v", err)
	}
	up, err := c11ReadIndex(env.Meta, func(i uint64) string { return model.GetArchivePathToBundleFileList(repo, bid, i) })
	if err != nil {
		return err
	}
	ufs := make([]c11File, len(up))
	byHash := map[string][]byte{}
	for i, e := range up {
		ufs[i] = c11File{e.NameWithPath, c11Short(e.Hash), e.Size}
		byHash[e.Hash] = files[e.NameWithPath]
	}
	dd, err := core.CreateDiamond(repo, env.Stores, core.DiamondLogger(corekit.Nop))
	if err != nil {
		return err
	}
	upEnv := env
	if big {
		g := &crashstore.Group{}
		g.Hook = func(_, op, key string) {
			if op == "put" && strings.Contains(key, "/splits/") && strings.Contains(key, "bundle-files-") {
				time.Sleep(150 * time.Millisecond)
			}
		}
		upEnv = &corekit.Env{Blob: env.Blob, Meta: env.Meta, VMeta: env.VMeta, Wal: env.Wal, ReadLog: env.ReadLog}
		upEnv.Stores = corekit.WithStores(env.Wal, env.ReadLog, env.Blob, crashstore.Wrap(g, "meta", env.Meta), crashstore.Wrap(g, "vmeta", env.VMeta))
	}
	if err := c11UploadSplit(upEnv, repo, dd.DiamondID, "only", files); err != nil {
		return fmt.Errorf("split upload: %v", err)
	}
	modes := c11Modes
	if big {
		modes = c11Modes[:1]
	}
	for _, m := range modes {
		res := c11Commit(c11CloneEnv(env), repo, dd.DiamondID, m.mode, byHash)
		c.w.Cases++
		c.w.Op(fmt.Sprintf("single mode=%s up=%s", m.name, c11ShowFiles(ufs)), res)
		c.w.Count("op=single")
		c.w.Count(fmt.Sprintf("single:files=%d", len(files)))
	}
	return nil
}

func c11Bytes(c *ctx, n int) []byte {
	b := make([]byte, n)
	for i := range b {
		b[i] = byte(c.rng.Intn(256))
	}
	return b
}

func c11(c *ctx) error {
	env := corekit.NewEnv()
	// the observations recorded in the design (the first four fixed since): replayed on every run
	for mi := range c11Modes {
		c11Line(c, env, mi, []c11Batch{{"s1", []c11Up{{"p", "hA", 1, 1}}}, {"s2", []c11Up{{"p", "hB", 1, 2}}}})
		c11Line(c, env, mi, []c11Batch{{"s2", []c11Up{{"p", "hB", 1, 2}}}, {"s1", []c11Up{{"p", "hA", 1, 1}}}})
		c11Line(c, env, mi, []c11Batch{{"s1", []c11Up{{"p", "hA", 1, 1}}}, {"s3", []c11Up{{"p", "hA", 1, 3}}}, {"s2", []c11Up{{"p", "hB", 1, 2}}}})
		c11Line(c, env, mi, []c11Batch{{"s3", []c11Up{{"p", "hA", 1, 3}}}, {"s2", []c11Up{{"p", "hB", 1, 2}}}, {"s1", []c11Up{{"p", "hA", 1, 1}}}})
		c11Line(c, env, mi, []c11Batch{{"s1", []c11Up{{"p", "hA", 1, 1}}}, {"s2", []c11Up{{"p", "hB", 1, 2}}}, {"s3", []c11Up{{"p", "hC", 1, 3}}}})
		c11Line(c, env, mi, []c11Batch{{"s3", []c11Up{{"p", "hC", 1, 3}}}, {"s1", []c11Up{{"p", "hA", 1, 1}}}, {"s2", []c11Up{{"p", "hB", 1, 2}}}})
		// the witnesses of the known finding merge-identical-copies (known_findings.json)
		c11Line(c, env, mi, []c11Batch{{"s1", []c11Up{{"p", "hA", 1, 1}}}, {"s2", []c11Up{{"p", "hA", 1, 2}}}, {"s3", []c11Up{{"p", "hB", 1, 3}}}})
		c11Line(c, env, mi, []c11Batch{{"s2", []c11Up{{"p", "hB", 1, 2}}}, {"s1", []c11Up{{"p", "hA", 1, 1}}}, {"s3", []c11Up{{"p", "hA", 1, 3}}}})
	}
	t0 := time.Now()
	lap := func(name string) {
		c.extra["wall_s_"+name] = fmt.Sprintf("%.1f", time.Since(t0).Seconds())
		t0 = time.Now()
	}
	// exhaustive small scope on one path
	c11Exhaustive(c, env, 1, 100, 100)
	c11Exhaustive(c, env, 2, 100, 100)
	if c.thorough() {
		c11Exhaustive(c, env, 3, 100, 100)
		c11Exhaustive(c, env, 4, 2, 100)
	} else {
		c11Exhaustive(c, env, 3, 15, 100)
		c11Exhaustive(c, env, 4, 0, 4)
	}
	c.extra["exhaustive"] = "one path, k splits, contents over a pool of 3, all time vectors, all arrival orders, all modes: " +
		"k<=3 with distinct times complete in both tiers (ties: complete for k<=2, sampled for k=3 in quick); k=4 distinct times complete in thorough, 4% sample in quick"
	lap("exhaustive")
	// random multi-path inputs
	n, maxAll, samples := 220, 4, 16
	if c.thorough() {
		n, maxAll, samples = 1500, 5, 40
	}
	for i := 0; i < n; i++ {
		c11Random(c, env, maxAll, samples)
	}
	lap("random")
	// end to end
	ne, nsg := 10, 5
	if c.thorough() {
		ne, nsg = 60, 25
	}
	for i := 0; i < ne; i++ {
		if err := c11E2E(c); err != nil {
			return err
		}
	}
	lap("e2e")
	for i := 0; i < 2; i++ {
		if err := c11Overlap(c); err != nil {
			return err
		}
	}
	lap("e2e-overlap")
	for i := 0; i < nsg; i++ {
		if i == 0 {
			if err := c11SingleN(c, true); err != nil {
				return err
			}
		}
		if err := c11Single(c); err != nil {
			return err
		}
	}
	lap("single")
	return nil
}
