package main

// C13 / C14 — purge (pkg/core/purge.go) against the Lean model `Model/Purge.lean`.
//
// A case is a history on 1..2 contexts sharing one blob store: uploads (contents drawn from a
// small pool, so that bundles share root and leaf blobs), bundle / repo deletions and squashes,
// then `core.PurgeBuildReverseIndex` (crashed after the k-th chunk write and resumed, with
// transient chunk Put failures, with the chunk ticker sped up), more uploads (re-using orphaned,
// indexed and fresh contents), `core.PurgeDeleteUnused` (with transient / permanent GetAttr
// failures, Delete failures, failing list pages), and finally the download of every committed
// bundle. The real pebble KV is used, in a scratch directory under $VERIF_WORK.
//
// Compared (C13): ok/err of each command, download=same|differs|fails of each bundle.
// Compared (C14): the exact index (keys of all chunk files), the chunk sequence, the exact set
// of deleted blobs, the number of successful concurrent lock acquisitions.

import (
	"bytes"
	"context"
	"fmt"
	"io"
	"os"
	"path/filepath"
	"sort"
	"strconv"
	"strings"
	"sync"
	"time"

	"dvh/internal/c13store"
	"dvh/internal/corekit"
	"dvh/internal/memstore"

	"dvh/internal/tr"
	"github.com/oneconcern/datamon/pkg/storage"

	"github.com/oneconcern/datamon/pkg/cafs"
	context2 "github.com/oneconcern/datamon/pkg/context"
	"github.com/oneconcern/datamon/pkg/core"
	"github.com/oneconcern/datamon/pkg/model"
)

func init() { subs["c13"] = c13; subs["c14"] = c14 }

const c13Leaf = 4096

type c13Bundle struct {
	ctx, repo, rank int
	id              string
	files           map[string][]byte
	live            bool
}

type c13Hist struct {
	c       *ctx
	kind    string
	envs    []*corekit.Env // envs[0] is the context purge runs in; all share envs[0].Blob
	blob    *memstore.Store
	repos   [][]bool // repos[ctx][repo] exists
	bundles []*c13Bundle
	pool    [][]byte
	work    string
	kvn     int
	faults  int // injected failures so far (each costs a backoff delay)
}

// c13Timing accumulates wall time per kind of operation (reported in the evidence).
var c13Timing = map[string]time.Duration{}

func c13Timed(kind string) func() {
	t0 := time.Now()
	return func() { c13Timing[kind] += time.Since(t0) }
}

func c13ReportTiming(c *ctx) {
	out := map[string]string{}
	for k, v := range c13Timing {
		out[k] = v.Round(time.Millisecond).String()
	}
	c.extra["wall_time_by_operation"] = out
}

func c13Key(k string) string {
	if len(k) > 10 {
		return k[:10]
	}
	return k
}

func c13RepoName(r int) string { return fmt.Sprintf("repo-%d", r) }

func c13NewHist(c *ctx, kind string, nctx, nrepo int) (*c13Hist, error) {
	h := &c13Hist{c: c, kind: kind}
	base := os.Getenv("VERIF_WORK")
	if base == "" {
		base = os.TempDir()
	}
	h.work = filepath.Join(base, fmt.Sprintf("%s-%d-%d", kind, c.seed, c.w.Cases))
	if err := os.MkdirAll(h.work, 0o755); err != nil {
		return nil, err
	}
	for i := 0; i < nctx; i++ {
		e := corekit.NewEnv()
		if i == 0 {
			e.Blob.UseWallClock()
			h.blob = e.Blob
		} else {
			e.Blob = h.blob
			e.Stores = corekit.WithStores(e.Wal, e.ReadLog, h.blob, e.Meta, e.VMeta)
		}
		h.envs = append(h.envs, e)
		ex := make([]bool, nrepo)
		for r := 0; r < nrepo; r++ {
			if err := e.CreateRepo(c13RepoName(r)); err != nil {
				return nil, fmt.Errorf("create repo: %w", err)
			}
			ex[r] = true
		}
		h.repos = append(h.repos, ex)
	}
	// content pool: files made of 64-byte blocks from a tiny block pool, so that different files
	// share leaf blobs; plus an empty file and short files
	nblocks := 4
	blocks := make([][]byte, nblocks)
	for i := range blocks {
		blocks[i] = tr.GenBytes(c.rng.Uint64()|1, c13Leaf)
	}
	npool := 6 + c.rng.Intn(4)
	for i := 0; i < npool; i++ {
		var b []byte
		nb := c.rng.Intn(4)
		for j := 0; j < nb; j++ {
			b = append(b, blocks[c.rng.Intn(nblocks)]...)
		}
		if tail := c.rng.Pick(0, 0, 1, 7, 33); tail > 0 || nb == 0 {
			b = append(b, tr.GenBytes(c.rng.Uint64()|1, tail)...)
		}
		h.pool = append(h.pool, b)
	}
	return h, nil
}

func (h *c13Hist) close() { _ = os.RemoveAll(h.work) }

func (h *c13Hist) kvDir() string {
	h.kvn++
	return filepath.Join(h.work, fmt.Sprintf("kv-%d", h.kvn))
}

func (h *c13Hist) pause() { time.Sleep(3 * time.Millisecond) }

// entries reads back the root and leaf keys of a committed bundle.
func (h *c13Hist) entries(b *c13Bundle) (string, error) {
	e := h.envs[b.ctx]
	bd := corekit.NewBundle(e.Stores, c13RepoName(b.repo), nil, 0, b.id)
	if err := corekit.Recover(func() error { return core.DownloadMetadata(context.Background(), bd) }); err != nil {
		return "", err
	}
	ents := append([]model.BundleEntry(nil), bd.BundleEntries...)
	sort.Slice(ents, func(i, j int) bool { return ents[i].NameWithPath < ents[j].NameWithPath })
	parts := make([]string, 0, len(ents))
	for _, en := range ents {
		root, err := cafs.KeyFromString(en.Hash)
		if err != nil {
			return "", err
		}
		lv, err := cafs.LeavesForHash(h.blob, root, bd.BundleDescriptor.LeafSize, "")
		if err != nil {
			return "", err
		}
		ls := make([]string, len(lv))
		for i, l := range lv {
			ls[i] = c13Key(l.String())
		}
		parts = append(parts, c13Key(root.String())+":"+strings.Join(ls, "."))
	}
	return strings.Join(parts, ";"), nil
}

// up uploads a bundle with the given pool contents.
func (h *c13Hist) up(cx, repo int, picks []int) error {
	defer c13Timed("upload")()
	files := map[string][]byte{}
	for i, p := range picks {
		name := fmt.Sprintf("f%d", i)
		if i == 1 {
			name = "d/" + name
		}
		files[name] = h.pool[p]
	}
	id, err := h.envs[cx].UploadTree(c13RepoName(repo), files, c13Leaf)
	if err != nil {
		return fmt.Errorf("upload failed: %w", err)
	}
	b := &c13Bundle{ctx: cx, repo: repo, rank: len(h.bundles), id: id, files: files, live: true}
	h.bundles = append(h.bundles, b)
	es, err := h.entries(b)
	if err != nil {
		return fmt.Errorf("reading back entries: %w", err)
	}
	h.c.w.Op(fmt.Sprintf("up c=%d r=%d b=%d e=%s", cx, repo, b.rank, es), "ok")
	h.c.w.Count("op=up")
	h.c.w.Count(fmt.Sprintf("files=%d", len(picks)))
	return nil
}

// keep lists what is left in a repo after a metadata deletion and tells the model.
func (h *c13Hist) keep(cx, repo int, via string, gone bool) error {
	left := map[string]bool{}
	if !gone {
		bds, err := core.ListBundles(c13RepoName(repo), h.envs[cx].Stores)
		if err != nil {
			return fmt.Errorf("list bundles: %w", err)
		}
		for _, bd := range bds {
			left[bd.ID] = true
		}
	}
	var ranks []string
	for _, b := range h.bundles {
		if b.ctx == cx && b.repo == repo {
			b.live = b.live && left[b.id]
			if b.live {
				ranks = append(ranks, strconv.Itoa(b.rank))
			}
		}
	}
	h.c.w.Note(fmt.Sprintf("keep c=%d r=%d b=%s via=%s", cx, repo, strings.Join(ranks, ","), via))
	h.c.w.Count("op=" + via)
	return nil
}

func (h *c13Hist) liveIn(cx, repo int) []*c13Bundle {
	var out []*c13Bundle
	for _, b := range h.bundles {
		if b.live && b.ctx == cx && b.repo == repo {
			out = append(out, b)
		}
	}
	return out
}

// histOp performs one random history operation. `reuse` biases uploads towards contents that
// were uploaded before (deduplication), including contents whose bundles are all gone.
func (h *c13Hist) histOp() error {
	rng := h.c.rng
	cx := rng.Intn(len(h.envs))
	var rs []int
	for r, ok := range h.repos[cx] {
		if ok {
			rs = append(rs, r)
		}
	}
	if len(rs) == 0 {
		return nil
	}
	repo := rs[rng.Intn(len(rs))]
	live := h.liveIn(cx, repo)
	switch k := rng.Intn(100); {
	case k < 62 || len(live) == 0:
		n := 1 + rng.Intn(3)
		picks := make([]int, n)
		for i := range picks {
			picks[i] = rng.Intn(len(h.pool))
		}
		return h.up(cx, repo, picks)
	case k < 82:
		b := live[rng.Intn(len(live))]
		if err := corekit.Recover(func() error { return core.DeleteBundle(c13RepoName(repo), h.envs[cx].Stores, b.id) }); err != nil {
			return fmt.Errorf("delete bundle: %w", err)
		}
		return h.keep(cx, repo, "delb", false)
	case k < 94:
		n := 1 + rng.Intn(2)
		if err := corekit.Recover(func() error {
			return core.RepoSquash(h.envs[cx].Stores, c13RepoName(repo), core.WithRetainNLatest(n))
		}); err != nil {
			return fmt.Errorf("squash: %w", err)
		}
		return h.keep(cx, repo, "squash", false)
	default:
		if len(rs) < 2 {
			return nil
		}
		if err := corekit.Recover(func() error { return core.DeleteRepo(c13RepoName(repo), h.envs[cx].Stores) }); err != nil {
			return fmt.Errorf("delete repo: %w", err)
		}
		h.repos[cx][repo] = false
		return h.keep(cx, repo, "delrepo", true)
	}
}

// ---- index ------------------------------------------------------------------------------

type c13Chunk struct {
	num  int
	keys []string
}

// chunks parses the index chunk files of the purge context's metadata store.
func (h *c13Hist) chunks() []c13Chunk {
	var out []c13Chunk
	for _, k := range h.envs[0].Meta.SortedKeys() {
		if !strings.HasPrefix(k, model.ReverseIndexPrefix()) {
			continue
		}
		n, err := model.ReverseIndexChunk(k)
		if err != nil {
			continue
		}
		raw, _ := h.envs[0].Meta.Raw(k)
		lines := strings.Split(string(raw), "\n")
		ch := c13Chunk{num: int(n)}
		for i, l := range lines {
			if i == 0 || l == "" {
				continue
			}
			ch.keys = append(ch.keys, c13Key(l))
		}
		out = append(out, ch)
	}
	sort.Slice(out, func(i, j int) bool { return out[i].num < out[j].num })
	return out
}

func c13ShowChunks(cs []c13Chunk) string {
	var b strings.Builder
	for _, c := range cs {
		b.WriteString(strings.Join(c.keys, "."))
		b.WriteString("|")
	}
	return b.String()
}

type c13IndexSpec struct {
	n      int
	ctxs   []int
	resume bool
	tick   bool
	crash  int   // -1: none; k: the store dies after the k-th successful chunk Put
	fput   []int // transient Put failures before the i-th chunk call succeeds
	fcdel  []int // indexes of chunk Delete calls failing once
	flist  int   // > 0: the flist-th listing call (1-based) on the metadata store fails once
	// straddle: (with tick) the bundle listing of the LAST repository is held until the first
	// ticker-driven chunk has been read from the local key-value store, and that chunk's write is
	// acknowledged late: the scan inserts keys while a chunk upload is in flight
	straddle bool
	parallel int // > 0: WithPurgeParallel (fewer scanning workers than repositories)
}

func c13Ints(xs []int) string {
	s := make([]string, len(xs))
	for i, x := range xs {
		s[i] = strconv.Itoa(x)
	}
	return strings.Join(s, ",")
}

// index runs PurgeBuildReverseIndex and records the line; returns whether it reported success.
func (h *c13Hist) index(sp c13IndexSpec) bool {
	defer c13Timed("index")()
	h.pause()
	before := map[int]bool{}
	for _, ch := range h.chunks() {
		before[ch.num] = true
	}
	meta := c13store.New(h.envs[0].Meta)
	meta.PutPrefix = model.ReverseIndexPrefix()
	meta.CrashAfterPuts = sp.crash
	call := 0
	for _, f := range sp.fput {
		for j := 0; j < f; j++ {
			meta.FailCalls(c13store.Put, call)
			call++
			h.faults++
		}
		call++
	}
	for _, i := range sp.fcdel {
		meta.FailCalls(c13store.Delete, i)
		h.faults++
	}
	if sp.flist > 0 {
		meta.FailCalls(c13store.List, sp.flist-1)
		h.faults++
	}
	blob := c13store.New(h.blob)
	opts := []core.PurgeOption{
		core.WithPurgeLogger(corekit.Nop), core.WithPurgeLocalStore(h.kvDir()),
		core.WithPurgeIndexChunkSize(uint64(sp.n)), core.WithPurgeResumeIndex(sp.resume),
	}
	if sp.tick {
		blob.GetDelay = 300 * time.Microsecond
		opts = append(opts, core.VerifPurgeUploaderInterval(time.Millisecond))
	}
	if sp.parallel > 0 {
		blob.GetDelay = 300 * time.Microsecond // scans last long enough to overlap
		opts = append(opts, core.WithPurgeParallel(sp.parallel))
	}
	if sp.tick && sp.straddle {
		chunkRead := make(chan struct{})
		var once sync.Once
		lastRepo := "bundles/" + c13RepoName(len(h.repos[0])-1) + "/"
		meta.ListHook = func(prefix string) {
			if strings.HasPrefix(prefix, lastRepo) {
				select {
				case <-chunkRead:
				case <-time.After(400 * time.Millisecond):
				}
			}
		}
		meta.PutHook = func(key string) {
			if strings.HasPrefix(key, model.ReverseIndexPrefix()) {
				first := false
				once.Do(func() { first = true; close(chunkRead) })
				if first {
					time.Sleep(120 * time.Millisecond)
				}
			}
		}
	}
	var extra []context2.Stores
	for _, cx := range sp.ctxs {
		if cx != 0 {
			e := h.envs[cx]
			extra = append(extra, corekit.WithStores(e.Wal, e.ReadLog, blob, e.Meta, e.VMeta))
		}
	}
	if len(extra) > 0 {
		opts = append(opts, core.WithPurgeExtraContexts(extra))
	}
	e0 := h.envs[0]
	stores := corekit.WithStores(e0.Wal, e0.ReadLog, blob, meta, e0.VMeta)
	err := corekit.Recover(func() error {
		_, err := core.PurgeBuildReverseIndex(stores, opts...)
		return err
	})
	h.pause()
	all := h.chunks()
	var fresh []c13Chunk
	var idx []string
	fit := "1"
	for _, ch := range all {
		idx = append(idx, ch.keys...)
		if !before[ch.num] || !sp.resume {
			fresh = append(fresh, ch)
			if len(ch.keys) > sp.n {
				fit = "0"
			}
		}
	}
	sort.Strings(idx)
	op := fmt.Sprintf("index n=%d ctxs=%s resume=%d tick=%d crash=%d fput=%s fcdel=%s", sp.n, c13Ints(sp.ctxs),
		c13b(sp.resume), c13b(sp.tick), sp.crash, c13Ints(sp.fput), c13Ints(sp.fcdel))
	if sp.tick && sp.crash >= 0 {
		op += fmt.Sprintf(" died=%d", c13b(meta.Dead() && err != nil))
		if meta.Dead() && err != nil {
			op += " obs=" + c13ShowChunks(fresh)
		}
	}
	seq := c13ShowChunks(fresh)
	if sp.tick {
		seq = "*"
	}
	res := "err"
	if err == nil {
		res = "ok"
	}
	detail := fmt.Sprintf("idx=%s fit=%s seq=%s", strings.Join(idx, ","), fit, seq)
	if sp.flist > 0 {
		// the command's own verdict is an input of the judge (see the driver)
		h.c.w.Op(fmt.Sprintf("%s flist=%d hit=%d res=%s", op, sp.flist, meta.Hits[c13store.List], res), "any ## "+detail)
		return err == nil
	}
	switch {
	case err != nil:
		h.c.w.Op(op, fmt.Sprintf("err ## left=%s cls=%s", c13ShowChunks(fresh), corekit.ErrClass(err)))
	case h.kind == "c14":
		h.c.w.Op(op, res+" "+detail)
	default:
		h.c.w.Op(op, res+" ## "+detail)
	}
	h.c.w.Count(fmt.Sprintf("index:resume=%d,tick=%d,crash=%v,faults=%v,%s", c13b(sp.resume), c13b(sp.tick), sp.crash >= 0,
		len(sp.fput)+len(sp.fcdel) > 0, res))
	h.c.w.Count(fmt.Sprintf("index:chunksize=%d", sp.n))
	h.c.w.Count(fmt.Sprintf("index:chunks=%d", len(fresh)))
	return err == nil
}

func c13b(b bool) int {
	if b {
		return 1
	}
	return 0
}

func (h *c13Hist) drop() {
	err := corekit.Recover(func() error { return core.PurgeDropReverseIndex(h.envs[0].Stores, core.WithPurgeLogger(corekit.Nop)) })
	h.c.w.Op("drop", corekit.ErrClass(err))
}

// ---- delete-unused ------------------------------------------------------------------------

type c13PurgeSpec struct {
	page  int
	fattr []string // full blob keys whose first GetAttr fails
	pattr []string // full blob keys whose GetAttr always fails (permanent error)
	fdel  []string // full blob keys whose first Delete fails
	flist int      // -1, or index of the failing blob list page
	fmeta bool     // the listing of the index chunks fails
}

func c13Short(ks []string) string {
	s := make([]string, len(ks))
	for i, k := range ks {
		s[i] = c13Key(k)
	}
	return strings.Join(s, ",")
}

func (h *c13Hist) purge(sp c13PurgeSpec) bool {
	defer c13Timed("delete-unused")()
	h.pause()
	blob := c13store.New(h.blob)
	blob.PageCap = sp.page
	for _, k := range sp.fattr {
		blob.FailKey(c13store.GetAttr, k, 1)
	}
	for _, k := range sp.pattr {
		blob.FailKey(c13store.GetAttr, k, -1)
	}
	for _, k := range sp.fdel {
		blob.FailKey(c13store.Delete, k, 1)
	}
	if sp.flist >= 0 {
		blob.FailCalls(c13store.List, sp.flist)
	}
	meta := c13store.New(h.envs[0].Meta)
	if sp.fmeta {
		meta.FailCalls(c13store.List, 0)
	}
	e0 := h.envs[0]
	stores := corekit.WithStores(e0.Wal, e0.ReadLog, blob, meta, e0.VMeta)
	before := h.blob.SortedKeys()
	err := corekit.Recover(func() error {
		_, err := core.PurgeDeleteUnused(stores, core.WithPurgeLogger(corekit.Nop), core.WithPurgeLocalStore(h.kvDir()))
		return err
	})
	h.faults += blob.Hits[c13store.GetAttr] + blob.Hits[c13store.Delete]
	after := map[string]bool{}
	for _, k := range h.blob.SortedKeys() {
		after[k] = true
	}
	var del []string
	for _, k := range before {
		if !after[k] {
			del = append(del, c13Key(k))
		}
	}
	sort.Strings(del)
	fl := ""
	if sp.flist >= 0 {
		fl = strconv.Itoa(sp.flist)
	}
	op := fmt.Sprintf("purge page=%d nblob=%d fattr=%s pattr=%s fdel=%s flist=%s fmeta=%d", sp.page, len(before),
		c13Short(sp.fattr), c13Short(sp.pattr), c13Short(sp.fdel), fl, c13b(sp.fmeta))
	switch {
	case err != nil:
		h.c.w.Op(op, fmt.Sprintf("err ## del=%s cls=%s", strings.Join(del, ","), corekit.ErrClass(err)))
	case h.kind == "c14":
		h.c.w.Op(op, "ok del="+strings.Join(del, ","))
	default:
		h.c.w.Op(op, "ok ## del="+strings.Join(del, ","))
	}
	h.c.w.Count(fmt.Sprintf("purge:faults=%v,ok=%v", len(sp.fattr)+len(sp.pattr)+len(sp.fdel) > 0 || sp.flist >= 0 || sp.fmeta, err == nil))
	h.c.w.Count(fmt.Sprintf("purge:deleted=%d", c13Bucket(len(del))))
	return err == nil
}

func c13Bucket(n int) int {
	switch {
	case n <= 3:
		return n
	case n <= 8:
		return 8
	default:
		return 99
	}
}

// downloads every committed bundle and compares it with what was uploaded.
func (h *c13Hist) downloads() {
	defer c13Timed("download")()
	for _, b := range h.bundles {
		if !b.live {
			continue
		}
		files, _, err := corekit.Download(h.envs[b.ctx].Stores, c13RepoName(b.repo), b.id)
		res := "same"
		switch {
		case err != nil:
			res = "fails ## " + corekit.ErrClass(err)
		case len(files) != len(b.files):
			res = "differs"
		default:
			for k, v := range b.files {
				if got, ok := files[k]; !ok || !bytes.Equal(got, v) {
					res = "differs"
				}
			}
		}
		h.c.w.Op(fmt.Sprintf("dl c=%d r=%d b=%d", b.ctx, b.repo, b.rank), res)
		h.c.w.Count("dl=" + strings.SplitN(res, " ", 2)[0])
	}
}

func (h *c13Hist) allCtxs() []int {
	out := make([]int, len(h.envs))
	for i := range out {
		out[i] = i
	}
	return out
}

// unindexedKeys returns blob keys currently not in the index (candidates for GetAttr faults).
func (h *c13Hist) pickKeys(n int) []string {
	ks := h.blob.SortedKeys()
	if len(ks) == 0 {
		return nil
	}
	var out []string
	for i := 0; i < n; i++ {
		out = append(out, ks[h.c.rng.Intn(len(ks))])
	}
	return out
}

// ---- C13 --------------------------------------------------------------------------------

func c13Case(c *ctx, faultBudget *int, forceTick bool) error {
	rng := c.rng
	nctx := 1 + rng.Intn(2)
	nrepo := 1 + rng.Intn(3)
	if forceTick {
		// several repositories scanned while ticker-driven chunk uploads are in flight
		nctx, nrepo = 2, 2+rng.Intn(2)
	}
	c.w.Case("kind=c13 nctx=%d nrepo=%d", nctx, nrepo)
	defer c.w.End()
	h, err := c13NewHist(c, "c13", nctx, nrepo)
	if err != nil {
		return err
	}
	defer h.close()
	c.w.Count(fmt.Sprintf("contexts=%d", nctx))
	c.w.Count(fmt.Sprintf("repos=%d", nrepo))
	rounds := 1
	if rng.Intn(5) == 0 {
		rounds = 2
	}
	withFaults := *faultBudget > 0 && rng.Intn(3) == 0
	for round := 0; round < rounds; round++ {
		// history before the index
		for i, n := 0, 2+rng.Intn(5); i < n; i++ {
			if err := h.histOp(); err != nil {
				return err
			}
		}
		// index build: possibly crashed and resumed several times
		sp := c13IndexSpec{n: rng.Pick(1, 2, 2, 3, 3, 4, 5, 1000), ctxs: h.allCtxs(), crash: -1}
		sp.tick = rng.Intn(5) == 0 || forceTick
		if forceTick {
			sp.n = rng.Pick(2, 3, 3, 4)
		}
		if withFaults && !forceTick && rng.Intn(2) == 0 {
			sp.fput = make([]int, 1+rng.Intn(3))
			sp.fput[rng.Intn(len(sp.fput))] = 1
			if rng.Intn(4) == 0 && len(h.chunks()) == 0 {
				// (with a previous index in place the first Delete calls are those of the initial
				// drop, which is not retried: the build then fails and must be run again)
				sp.fcdel = []int{rng.Intn(3)}
			}
			*faultBudget--
		}
		if rng.Intn(100) < 45 && !forceTick {
			sp.crash = rng.Intn(5)
		}
		ok := h.index(sp)
		for tries := 0; !ok; tries++ {
			if tries > 6 {
				return fmt.Errorf("index build never succeeded")
			}
			// the job was killed: maybe more history, then resume (or rebuild from scratch)
			for i, n := 0, rng.Intn(3); i < n; i++ {
				if err := h.histOp(); err != nil {
					return err
				}
			}
			nx := c13IndexSpec{n: rng.Pick(1, 2, 3, 4, 1000), ctxs: h.allCtxs(), crash: -1, tick: rng.Intn(6) == 0}
			nx.resume = rng.Intn(4) != 0
			if tries < 2 && rng.Intn(3) == 0 {
				nx.crash = rng.Intn(4)
			}
			if len(h.chunks()) == 0 && nx.resume && tries > 0 {
				nx.resume = false // a resume without any chunk fails for ever
			}
			ok = h.index(nx)
		}
		// history between index and delete-unused: re-use orphaned, indexed and fresh contents
		for i, n := 0, rng.Intn(4); i < n; i++ {
			if err := h.histOp(); err != nil {
				return err
			}
		}
		// delete-unused, with faults; retried until it reports success
		ps := c13PurgeSpec{page: rng.Pick(1, 2, 3, 5, 1024), flist: -1}
		if withFaults && *faultBudget > 0 {
			*faultBudget--
			switch rng.Intn(6) {
			case 0, 1:
				ps.fattr = h.pickKeys(1 + rng.Intn(2))
			case 2:
				ps.fdel = h.pickKeys(1)
				ps.fattr = h.pickKeys(1)
			case 3:
				ps.pattr = h.pickKeys(1)
			case 4:
				ps.flist = rng.Intn(3)
			case 5:
				ps.fmeta = true
			}
		}
		for tries := 0; !h.purge(ps); tries++ {
			if tries > 3 {
				return fmt.Errorf("delete-unused never succeeded")
			}
			ps = c13PurgeSpec{page: rng.Pick(1, 2, 1024), flist: -1}
		}
		if rng.Intn(4) == 0 {
			// running it again changes nothing
			h.purge(c13PurgeSpec{page: 1024, flist: -1})
		}
		h.downloads()
	}
	return nil
}

// c13FewWorkers: more repositories than scanning workers — every repository is scanned all the same.
func c13FewWorkers(c *ctx, kind string, parallel int) error {
	c.w.Case("kind=%s nctx=1 nrepo=3 directed=few-workers-%d", kind, parallel)
	defer c.w.End()
	h, err := c13NewHist(c, kind, 1, 3)
	if err != nil {
		return err
	}
	defer h.close()
	h.pool = [][]byte{
		tr.GenBytes(401, 2*c13Leaf+17), tr.GenBytes(402, 40), tr.GenBytes(403, c13Leaf+5), tr.GenBytes(405, 3*c13Leaf), tr.GenBytes(404, 9),
	}
	c.w.Count("directed=few-workers")
	for r := 0; r < 3; r++ {
		if err := h.up(0, r, []int{r, 4 - r}); err != nil {
			return err
		}
	}
	h.index(c13IndexSpec{n: 3, ctxs: []int{0}, crash: -1, parallel: parallel})
	h.purge(c13PurgeSpec{page: 1024, flist: -1})
	h.downloads()
	return nil
}

// c13Directed builds a one-context, one-repo history with a fixed content pool: pool[0] has 3
// leaves, pool[1] one leaf, pool[2] two leaves, pool[3] is empty, pool[4] one short leaf.
// c13Straddle: two (or three) repositories; a ticker-driven chunk is being written while the scan of
// the last repository inserts its keys (the schedule is forced through the metadata store).
func c13Straddle(c *ctx, kind string, variant int) error {
	nrepo := 2 + variant%2
	c.w.Case("kind=%s nctx=1 nrepo=%d directed=ticker-straddles-scan", kind, nrepo)
	defer c.w.End()
	h, err := c13NewHist(c, kind, 1, nrepo)
	if err != nil {
		return err
	}
	defer h.close()
	h.pool = [][]byte{
		tr.GenBytes(201, 2*c13Leaf+17), tr.GenBytes(202, 40), tr.GenBytes(203, c13Leaf+5), tr.GenBytes(205, 3*c13Leaf), tr.GenBytes(204, 9),
	}
	c.w.Count("directed=ticker-straddles-scan")
	// the first repositories hold enough keys for a ticker chunk; the last one's keys sort among them
	if err := h.up(0, 0, []int{0, 1}); err != nil {
		return err
	}
	if err := h.up(0, 0, []int{3}); err != nil {
		return err
	}
	for r := 1; r < nrepo; r++ {
		if err := h.up(0, r, []int{2, 4}); err != nil {
			return err
		}
	}
	h.index(c13IndexSpec{n: 2 + variant%3, ctxs: []int{0}, crash: -1, tick: true, straddle: true})
	h.purge(c13PurgeSpec{page: 3, flist: -1})
	h.downloads()
	return nil
}

func c13Directed(c *ctx, kind, name string, f func(h *c13Hist) error) error {
	c.w.Case("kind=%s nctx=1 nrepo=1 directed=%s", kind, name)
	defer c.w.End()
	h, err := c13NewHist(c, kind, 1, 1)
	if err != nil {
		return err
	}
	defer h.close()
	h.pool = [][]byte{
		tr.GenBytes(101, 2*c13Leaf+17), tr.GenBytes(102, 40), tr.GenBytes(103, c13Leaf+5), {}, tr.GenBytes(104, 9),
	}
	c.w.Count("directed=" + name)
	return f(h)
}

func (h *c13Hist) delBundle(rank int) error {
	b := h.bundles[rank]
	if err := corekit.Recover(func() error { return core.DeleteBundle(c13RepoName(b.repo), h.envs[b.ctx].Stores, b.id) }); err != nil {
		return err
	}
	return h.keep(b.ctx, b.repo, "delb", false)
}

// blobKeysOf returns the full blob keys (root and leaves) of the given pool contents, read from the store listing.
func (h *c13Hist) keysSince(before []string) []string {
	seen := map[string]bool{}
	for _, k := range before {
		seen[k] = true
	}
	var out []string
	for _, k := range h.blob.SortedKeys() {
		if !seen[k] {
			out = append(out, k)
		}
	}
	return out
}

// c13DirectedCases: the minimal histories of the defects found in purge.go (each fails on the
// unrepaired code) and the exhaustive "killed after every chunk write, then resumed" sweep.
func c13DirectedCases(c *ctx) error {
	none := c13PurgeSpec{page: 2, flist: -1}
	all := []int{0}
	// (1) a transient GetAttr failure on blobs newer than the index
	if err := c13Directed(c, "c13", "attr-transient", func(h *c13Hist) error {
		if err := h.up(0, 0, []int{0}); err != nil {
			return err
		}
		h.index(c13IndexSpec{n: 2, ctxs: all, crash: -1})
		before := h.blob.SortedKeys()
		if err := h.up(0, 0, []int{2, 1}); err != nil {
			return err
		}
		h.purge(c13PurgeSpec{page: 1024, flist: -1, fattr: h.keysSince(before)})
		h.downloads()
		return nil
	}); err != nil {
		return err
	}
	// (1b) a GetAttr failure no retry gets over: the command must fail, not delete
	if err := c13Directed(c, "c13", "attr-permanent", func(h *c13Hist) error {
		if err := h.up(0, 0, []int{0}); err != nil {
			return err
		}
		h.index(c13IndexSpec{n: 1000, ctxs: all, crash: -1})
		before := h.blob.SortedKeys()
		if err := h.up(0, 0, []int{1}); err != nil {
			return err
		}
		h.purge(c13PurgeSpec{page: 1024, flist: -1, pattr: h.keysSince(before)[:1]})
		h.downloads()
		h.purge(none)
		h.downloads()
		return nil
	}); err != nil {
		return err
	}
	// (2) a chunk Put that fails once and is retried
	for _, at := range []int{0, 1} {
		at := at
		if err := c13Directed(c, "c13", fmt.Sprintf("chunk-put-retry-%d", at), func(h *c13Hist) error {
			if err := h.up(0, 0, []int{0, 1}); err != nil {
				return err
			}
			fp := make([]int, at+1)
			fp[at] = 1
			h.index(c13IndexSpec{n: 2, ctxs: all, crash: -1, fput: fp})
			h.purge(none)
			h.downloads()
			return nil
		}); err != nil {
			return err
		}
	}
	// (3) the build is killed after its k-th chunk write, for every k, then resumed
	for _, n := range []int{1, 2} {
		for k := 0; k <= 7/n+1; k++ {
			n, k := n, k
			if err := c13Directed(c, "c13", fmt.Sprintf("kill-after-chunk-%d-of-size-%d", k, n), func(h *c13Hist) error {
				if err := h.up(0, 0, []int{0, 1}); err != nil {
					return err
				}
				if !h.index(c13IndexSpec{n: n, ctxs: all, crash: k}) {
					if k == 2 {
						// an upload between the kill and the resume, sharing blobs with the first bundle
						if err := h.up(0, 0, []int{0, 4}); err != nil {
							return err
						}
					}
					if !h.index(c13IndexSpec{n: n, ctxs: all, crash: -1, resume: true}) {
						h.index(c13IndexSpec{n: n, ctxs: all, crash: -1})
					}
				}
				h.purge(none)
				h.downloads()
				return nil
			}); err != nil {
				return err
			}
		}
	}
	// (3b) a resumed build hit by one transient listing fault (every listing call in turn): if the
	// command reports success the index must be complete; else the operator retries until it does
	for fl := 1; fl <= 6; fl++ {
		fl := fl
		if err := c13Directed(c, "c13", fmt.Sprintf("resume-listing-fault-%d", fl), func(h *c13Hist) error {
			if err := h.up(0, 0, []int{0, 1}); err != nil {
				return err
			}
			if err := h.up(0, 0, []int{2, 4}); err != nil {
				return err
			}
			if h.index(c13IndexSpec{n: 2, ctxs: all, crash: 1}) {
				return nil
			}
			if !h.index(c13IndexSpec{n: 2, ctxs: all, crash: -1, resume: true, flist: fl}) {
				for try := 0; try < 3; try++ {
					if h.index(c13IndexSpec{n: 2, ctxs: all, crash: -1, resume: true}) {
						break
					}
				}
			}
			h.purge(none)
			h.downloads()
			return nil
		}); err != nil {
			return err
		}
	}
	// (3b') an upload straddles the resume: its blobs are written after the interrupted build started
	// and before the resume, its descriptor lands only after the resumed scan. The blobs are newer than
	// the index (whose time is that of the FIRST run): delete-unused must leave them alone.
	for _, crashAt := range []int{1, 2} {
		crashAt := crashAt
		if err := c13Directed(c, "c13", fmt.Sprintf("upload-straddles-resume-%d", crashAt), func(h *c13Hist) error {
			if err := h.up(0, 0, []int{0, 1}); err != nil {
				return err
			}
			if err := h.up(0, 0, []int{2}); err != nil {
				return err
			}
			if h.index(c13IndexSpec{n: 1, ctxs: all, crash: crashAt}) {
				return nil
			}
			time.Sleep(3 * time.Millisecond)
			h.pool = append(h.pool, tr.GenBytes(uint64(300+crashAt), c13Leaf+33))
			if err := h.up(0, 0, []int{len(h.pool) - 1}); err != nil {
				return err
			}
			last := h.bundles[len(h.bundles)-1]
			dkey := model.GetArchivePathToBundle(c13RepoName(0), last.id)
			saved, ok := h.envs[0].Meta.Raw(dkey)
			if !ok {
				return fmt.Errorf("descriptor %s not found", dkey)
			}
			h.envs[0].Meta.RemoveRaw(dkey) // not committed yet, as far as the resumed scan can see
			time.Sleep(3 * time.Millisecond)
			resumed := h.index(c13IndexSpec{n: 1, ctxs: all, crash: -1, resume: true})
			h.envs[0].Meta.SetRaw(dkey, saved) // the upload commits now
			if !resumed {
				return nil
			}
			h.purge(c13PurgeSpec{page: 1024, flist: -1})
			h.downloads()
			return nil
		}); err != nil {
			return err
		}
	}
	// (3c) ten chunks and more (chunk names are not zero padded: chunk-10 lists before chunk-2),
	// killed late, then resumed
	for _, k := range []int{10, 11} {
		k := k
		if err := c13Directed(c, "c13", fmt.Sprintf("kill-after-chunk-%d-of-size-1-many", k), func(h *c13Hist) error {
			if err := h.up(0, 0, []int{0, 1, 2}); err != nil {
				return err
			}
			if err := h.up(0, 0, []int{3, 4}); err != nil {
				return err
			}
			if !h.index(c13IndexSpec{n: 1, ctxs: all, crash: k}) {
				if !h.index(c13IndexSpec{n: 1, ctxs: all, crash: -1, resume: true}) {
					h.index(c13IndexSpec{n: 1, ctxs: all, crash: -1})
				}
			}
			h.purge(none)
			h.downloads()
			return nil
		}); err != nil {
			return err
		}
	}
	for v := 0; v < 4; v++ {
		kind := "c13"
		if c.sub == "c14" {
			kind = "c14"
		}
		if err := c13Straddle(c, kind, v); err != nil {
			return err
		}
		if v < 2 {
			if err := c13FewWorkers(c, kind, v+1); err != nil {
				return err
			}
		}
	}
	// (4) known finding: re-upload of content whose blobs were orphaned before the index
	if c.sub == "c14" {
		return nil // the finding belongs to C13 and is recorded there
	}
	return c13Directed(c, "c13", "dedup-after-index", func(h *c13Hist) error {
		if err := h.up(0, 0, []int{1}); err != nil {
			return err
		}
		if err := h.delBundle(0); err != nil {
			return err
		}
		h.index(c13IndexSpec{n: 2, ctxs: all, crash: -1})
		if err := h.up(0, 0, []int{1}); err != nil {
			return err
		}
		h.purge(none)
		h.downloads()
		return nil
	})
}

func c13(c *ctx) error {
	if err := c13DirectedCases(c); err != nil {
		return err
	}
	// the index-exactness histories of C14 (ticker-driven chunks, chunk sizes 1..9) feed delete-unused
	// as well: an inexact index deletes data a committed bundle needs
	if err := c14DirectedCases(c); err != nil {
		return err
	}
	n, budget := 39, 8
	if c.thorough() {
		n, budget = 1300, 300
	}
	for i := 0; i < n; i++ {
		if err := c13Case(c, &budget, i%3 == 2); err != nil {
			return err
		}
	}
	c13ReportTiming(c)
	return nil
}

// ---- C14 --------------------------------------------------------------------------------

func c14Case(c *ctx) error {
	rng := c.rng
	nctx := 1 + rng.Intn(2)
	nrepo := 1 + rng.Intn(3)
	c.w.Case("kind=c14 nctx=%d nrepo=%d", nctx, nrepo)
	defer c.w.End()
	h, err := c13NewHist(c, "c14", nctx, nrepo)
	if err != nil {
		return err
	}
	defer h.close()
	c.w.Count(fmt.Sprintf("contexts=%d", nctx))
	rounds := 1 + rng.Intn(2)
	for round := 0; round < rounds; round++ {
		for i, n := 0, 2+rng.Intn(6); i < n; i++ {
			if err := h.histOp(); err != nil {
				return err
			}
		}
		maxN := 6
		if c.thorough() {
			maxN = 12
		}
		sp := c13IndexSpec{n: 1 + rng.Intn(maxN), ctxs: h.allCtxs(), crash: -1, tick: rng.Intn(5) == 0}
		if nctx > 1 && rng.Intn(4) == 0 {
			sp.ctxs = []int{0} // single-context index: the other context's bundles are not scanned
			c.w.Count("index:single-context")
		}
		if round > 0 && rng.Intn(3) == 0 {
			h.drop()
		}
		h.index(sp)
		for i, n := 0, rng.Intn(3); i < n; i++ {
			if err := h.histOp(); err != nil {
				return err
			}
		}
		h.purge(c13PurgeSpec{page: rng.Pick(1, 2, 3, 7, 1024), flist: -1})
	}
	return nil
}

// c14Rendezvous makes the first `want` calls to the store wait for each other (at most 200 ms).
type c14Rendezvous struct {
	*memstore.Store
	mu      sync.Mutex
	arrived int
	want    int
	release chan struct{}
}

func (r *c14Rendezvous) meet() {
	r.mu.Lock()
	r.arrived++
	n := r.arrived
	if n == r.want {
		close(r.release)
	}
	r.mu.Unlock()
	if n > r.want {
		return
	}
	select {
	case <-r.release:
	case <-time.After(200 * time.Millisecond):
	}
}

// every contender's first call is ANSWERED before any contender goes on
func (r *c14Rendezvous) Has(ctx context.Context, k string) (bool, error) {
	ok, err := r.Store.Has(ctx, k)
	r.meet()
	return ok, err
}

func (r *c14Rendezvous) GetAttr(ctx context.Context, k string) (storage.Attributes, error) {
	a, err := r.Store.GetAttr(ctx, k)
	r.meet()
	return a, err
}

func (r *c14Rendezvous) Get(ctx context.Context, k string) (io.ReadCloser, error) {
	rc, err := r.Store.Get(ctx, k)
	r.meet()
	return rc, err
}

func (r *c14Rendezvous) Put(ctx context.Context, k string, rd io.Reader, noOverwrite bool) error {
	err := r.Store.Put(ctx, k, rd, noOverwrite)
	r.meet()
	return err
}

func (r *c14Rendezvous) PutCRC(ctx context.Context, k string, rd io.Reader, noOverwrite bool, crc uint32) error {
	err := r.Store.PutCRC(ctx, k, rd, noOverwrite, crc)
	r.meet()
	return err
}

// c14Locks: concurrent and sequential acquisitions of the purge lock.
func c14Locks(c *ctx, n int, force bool, held bool) {
	c.w.Case("kind=c14 lock n=%d force=%d held=%d", n, c13b(force), c13b(held))
	defer c.w.End()
	e := corekit.NewEnv()
	lg := core.WithPurgeLogger(corekit.Nop)
	if held {
		err := core.PurgeLock(e.Stores, lg)
		c.w.Op("lockseq f=0", "r="+strconv.Itoa(c13b(err == nil)))
	}
	flags := make([]string, n)
	for i := range flags {
		flags[i] = strconv.Itoa(c13b(force))
	}
	var wg sync.WaitGroup
	start := make(chan struct{})
	oks := make([]bool, n)
	// the contenders' FIRST calls to the metadata store meet (whatever those calls are): every
	// check-then-act sequence is driven into its worst interleaving, an atomic create-if-absent is not affected
	rv := &c14Rendezvous{Store: e.Meta, want: n, release: make(chan struct{})}
	raceStores := corekit.WithStores(e.Wal, e.ReadLog, e.Blob, rv, e.VMeta)
	for i := 0; i < n; i++ {
		wg.Add(1)
		go func(i int) {
			defer wg.Done()
			<-start
			oks[i] = corekit.Recover(func() error { return core.PurgeLock(raceStores, lg, core.WithPurgeForce(force)) }) == nil
		}(i)
	}
	close(start)
	wg.Wait()
	cnt := 0
	for _, ok := range oks {
		if ok {
			cnt++
		}
	}
	c.w.Op("lock f="+strings.Join(flags, ","), fmt.Sprintf("ok=%d", cnt))
	c.w.Op("unlock", corekit.ErrClass(core.PurgeUnlock(e.Stores, lg)))
	// after the unlock: a sequential mix of plain and forced attempts
	m := 2 + c.rng.Intn(4)
	fl := make([]string, m)
	rs := make([]string, m)
	for i := 0; i < m; i++ {
		f := c.rng.Intn(3) == 0
		fl[i] = strconv.Itoa(c13b(f))
		rs[i] = strconv.Itoa(c13b(core.PurgeLock(e.Stores, lg, core.WithPurgeForce(f)) == nil))
	}
	c.w.Op("lockseq f="+strings.Join(fl, ","), "r="+strings.Join(rs, ","))
	c.w.Op("unlock", corekit.ErrClass(core.PurgeUnlock(e.Stores, lg)))
	c.w.Op("unlock", corekit.ErrClass(core.PurgeUnlock(e.Stores, lg)))
	c.w.Count(fmt.Sprintf("lock:n=%d,force=%v,held=%v", n, force, held))
}

// c14DirectedCases: a rebuild after the index got shorter (stale trailing chunks), and every
// chunk size from 1 to one more than the number of keys on one fixed history.
func c14DirectedCases(c *ctx) error {
	all := []int{0}
	if err := c13Directed(c, "c14", "rebuild-shorter-index", func(h *c13Hist) error {
		if err := h.up(0, 0, []int{0, 2}); err != nil {
			return err
		}
		h.index(c13IndexSpec{n: 1, ctxs: all, crash: -1})
		if err := h.delBundle(0); err != nil {
			return err
		}
		if err := h.up(0, 0, []int{1}); err != nil {
			return err
		}
		h.index(c13IndexSpec{n: 1000, ctxs: all, crash: -1})
		h.purge(c13PurgeSpec{page: 3, flist: -1})
		return nil
	}); err != nil {
		return err
	}
	for n := 1; n <= 9; n++ {
		n := n
		if err := c13Directed(c, "c14", fmt.Sprintf("chunk-size-%d", n), func(h *c13Hist) error {
			if err := h.up(0, 0, []int{0, 1, 3}); err != nil {
				return err
			}
			if err := h.up(0, 0, []int{2, 1}); err != nil {
				return err
			}
			h.index(c13IndexSpec{n: n, ctxs: all, crash: -1, tick: n%4 == 0})
			h.purge(c13PurgeSpec{page: n, flist: -1})
			return nil
		}); err != nil {
			return err
		}
	}
	return nil
}

func c14(c *ctx) error {
	if err := c14DirectedCases(c); err != nil {
		return err
	}
	// the resumed / retried / many-chunk index builds of C13 must be exact indexes too
	if err := c13DirectedCases(c); err != nil {
		return err
	}
	n, reps := 30, 1
	if c.thorough() {
		n, reps = 1500, 30
	}
	for i := 0; i < n; i++ {
		if err := c14Case(c); err != nil {
			return err
		}
	}
	for r := 0; r < reps; r++ {
		for _, k := range []int{2, 3, 4, 8, 16} {
			c14Locks(c, k, false, false)
			c14Locks(c, k, false, true)
			c14Locks(c, k, true, c.rng.Bool())
		}
	}
	c13ReportTiming(c)
	return nil
}
