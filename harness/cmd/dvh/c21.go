package main

import (
	"fmt"
	"sort"
	"strconv"
	"strings"

	"dvh/internal/tr"

	"github.com/oneconcern/datamon/pkg/sidecar/param"
)

func init() { subs["c21"] = c21 }

// c21Value draws a parameter value: plain names, hostile punctuation, unicode, and "dense"
// values that use up a whole run of characters from '0' upwards (these push the separators
// chosen by the encoder into the letters).
func c21Value(r *tr.Rng, allowEmpty bool) string {
	switch k := r.Intn(12); {
	case k == 0 && allowEmpty:
		return ""
	case k <= 4:
		n := 1 + r.Intn(12)
		const al = "abcdefghijklmnopqrstuvwxyzABCDEFGHIJKLMNOPQRSTUVWXYZ0123456789-_/."
		b := make([]byte, n)
		for i := range b {
			b[i] = al[r.Intn(len(al))]
		}
		return string(b)
	case k <= 6:
		n := 1 + r.Intn(10)
		const al = ";:=,| \t'\"$`\\!#%&()*+<>?@[]^{}~0123;:"
		b := make([]byte, n)
		for i := range b {
			b[i] = al[r.Intn(len(al))]
		}
		return string(b)
	case k == 7:
		rs := []rune("éλ日本語😀ßøñ·–„")
		n := 1 + r.Intn(6)
		var sb strings.Builder
		for i := 0; i < n; i++ {
			sb.WriteRune(rs[r.Intn(len(rs))])
		}
		return sb.String()
	case k <= 9:
		// dense run '0'..upper
		upper := r.Pick('9', ':', ';', 'A', 'R', 'S', 'T', 'Z', 'a', 'b', 'c', 'd', 'k', 'l', 'm', 'q', 'r', 's', 'z', '~')
		var sb strings.Builder
		for c := '0'; c <= rune(upper); c++ {
			sb.WriteRune(c)
		}
		return sb.String()
	default:
		return strconv.Itoa(r.Intn(100000))
	}
}

type kv struct{ k, v string }

func c21Expected(flag bool, ps []kv) string {
	var parts []string
	if flag {
		parts = append(parts, "S")
	}
	for _, p := range ps {
		if p.v != "" {
			parts = append(parts, tr.Esc(p.k)+"="+tr.Esc(p.v))
		}
	}
	sort.Strings(parts)
	return strings.Join(parts, ";")
}

func c21Emit(c *ctx, all []string, flag bool, ps []kv, got string, ok bool) {
	ea := make([]string, len(all))
	for i, a := range all {
		ea[i] = tr.Esc(a)
	}
	ep := make([]string, len(ps))
	for i, p := range ps {
		ep[i] = tr.Esc(p.k) + ":" + tr.Esc(p.v)
	}
	f := 0
	if flag {
		f = 1
	}
	if !ok {
		c.w.Op(fmt.Sprintf("enc all=%s flag=%d ps=%s", strings.Join(ea, ","), f, strings.Join(ep, ",")), "err")
		c.w.Count("enc=err")
		return
	}
	c.w.Op(fmt.Sprintf("enc all=%s flag=%d ps=%s", strings.Join(ea, ","), f, strings.Join(ep, ",")), "ok ## "+tr.Esc(got))
	// the judge line: the Lean reference decoder applied to the IMPLEMENTATION's string must give
	// back exactly the non-empty parameters (computed here from the inputs alone)
	c.w.Op("dec s="+tr.Esc(got), c21Expected(flag, ps))
	if len(got) >= 1 {
		c.w.Count(fmt.Sprintf("itemsep=%q", got[:1]))
	}
}

func b2s(b bool) string {
	if b {
		return "true"
	}
	return "false"
}

func c21(c *ctx) error {
	n := 3000
	if c.thorough() {
		n = 60000
	}
	r := c.rng
	for i := 0; i < n; i++ {
		if r.Intn(3) > 0 {
			// ---- FUSE
			coord, bucket, cname := c21Value(r, false), c21Value(r, false), c21Value(r, false)
			fp, err := param.NewFUSEParams(param.FUSECoordPoint(coord), param.FUSEConfigBucketName(bucket), param.FUSEContextName(cname))
			if err != nil {
				return err
			}
			fp.Globals.SleepInsteadOfExit = r.Bool()
			all := []string{b2s(fp.Globals.SleepInsteadOfExit), coord, bucket, cname}
			type bd struct {
				name string
				ps   []kv
			}
			var bds []bd
			nb := r.Intn(4)
			for j := 0; j < nb; j++ {
				name := fmt.Sprintf("b%d%s", j, strings.Map(func(x rune) rune {
					if x == '=' || x == 0 {
						return -1
					}
					return x
				}, c21Value(r, true)))
				var opts []param.FUSEParamsBDOption
				opts = append(opts, param.BDName(name))
				var sp, sr, sl, sb, dp, dr, dm, dl, dif string
				if r.Bool() {
					sp, sr = c21Value(r, true), c21Value(r, true)
					if r.Bool() {
						sl = c21Value(r, true)
						opts = append(opts, param.BDSrcByLabel(sp, sr, sl))
					} else {
						sb = c21Value(r, true)
						opts = append(opts, param.BDSrcByBundleID(sp, sr, sb))
					}
				}
				if r.Bool() {
					dr, dm, dp = c21Value(r, false), c21Value(r, false), c21Value(r, true)
					opts = append(opts, param.BDDest(dr, dm, dp))
					if r.Bool() {
						dl = c21Value(r, true)
						opts = append(opts, param.BDDestLabel(dl))
					}
					if r.Bool() {
						dif = c21Value(r, true)
						opts = append(opts, param.BDDestBundleIDFile(dif))
					}
				}
				if err := fp.AddBundle(opts...); err != nil {
					return fmt.Errorf("AddBundle: %v", err)
				}
				all = append(all, name, sp, sr, sl, sb, dp, dr, dm, dl, dif)
				bds = append(bds, bd{name, []kv{{"sp", sp}, {"sr", sr}, {"sl", sl}, {"sb", sb}, {"dp", dp}, {"dr", dr}, {"dm", dm}, {"dl", dl}, {"dif", dif}}})
			}
			env, err := param.FUSEParamsToEnvVars(fp)
			c.w.Case("fuse bundles=%d", nb)
			g, okg := env["dm_fuse_opts"]
			c21Emit(c, all, fp.Globals.SleepInsteadOfExit, []kv{{"c", coord}, {"b", bucket}, {"a", cname}}, g, err == nil && okg)
			for _, b := range bds {
				s, ok := env["dm_fuse_bd_"+b.name]
				c21Emit(c, all, false, b.ps, s, err == nil && ok)
			}
			if err == nil && len(env) != nb+1 {
				c.w.Op("envcount", fmt.Sprintf("%d", len(env)))
			}
			c.w.End()
		} else {
			// ---- PG
			coord := c21Value(r, false)
			pp, err := param.NewPGParams(param.PGCoordPoint(coord))
			if err != nil {
				return err
			}
			pp.Globals.SleepInsteadOfExit = r.Bool()
			pp.Globals.IgnorePGVersionMismatch = r.Bool()
			all := []string{b2s(pp.Globals.SleepInsteadOfExit), b2s(pp.Globals.IgnorePGVersionMismatch), coord, "", ""}
			type db struct {
				name string
				ps   []kv
			}
			var dbs []db
			nd := r.Intn(4)
			for j := 0; j < nd; j++ {
				name := fmt.Sprintf("d%d", j)
				port := 1 + r.Intn(65535)
				dr, dm := c21Value(r, false), c21Value(r, false)
				opts := []param.PGParamsDBOption{param.DBNameAndPort(name, port), param.DBDest(dr, dm)}
				var dl, sr, sl, sb string
				if r.Bool() {
					dl = c21Value(r, true)
					opts = append(opts, param.DBDestLabel(dl))
				}
				if r.Bool() {
					sr = c21Value(r, true)
					if r.Bool() {
						sl = c21Value(r, true)
						opts = append(opts, param.DBSrcByLabel(sr, sl))
					} else {
						sb = c21Value(r, true)
						opts = append(opts, param.DBSrcByBundle(sr, sb))
					}
				}
				if err := pp.AddDatabase(opts...); err != nil {
					return fmt.Errorf("AddDatabase: %v", err)
				}
				// field order of pgParamsDBParams: Name, Port, DestRepo, DestMessage, DestLabel, DestBundleID, SrcRepo, SrcLabel, SrcBundle
				all = append(all, name, strconv.Itoa(port), dr, dm, dl, "", sr, sl, sb)
				dbs = append(dbs, db{name, []kv{{"p", strconv.Itoa(port)}, {"m", dm}, {"l", dl}, {"r", dr}, {"sl", sl}, {"sr", sr}, {"sb", sb}}})
			}
			env, err := param.PGParamsToEnvVars(pp)
			c.w.Case("pg dbs=%d", nd)
			g, okg := env["dm_pg_opts"]
			c21Emit(c, all, pp.Globals.SleepInsteadOfExit, []kv{{"c", coord}, {"V", b2s(pp.Globals.IgnorePGVersionMismatch)}}, g, err == nil && okg)
			for _, d := range dbs {
				s, ok := env["dm_pg_db_"+d.name]
				c21Emit(c, all, false, d.ps, s, err == nil && ok)
			}
			c.w.End()
		}
	}
	return nil
}
