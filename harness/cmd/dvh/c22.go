package main

import (
	"fmt"
	"strings"
	"sync"

	"github.com/oneconcern/datamon/pkg/filetracker"
)

func init() { subs["c22"] = c22 }

type wr struct{ off, n int64 }

// c22Case runs one write history on the real tracker and records the markers and, for every
// offset below q, what getRangeToRead answers.
func c22Case(c *ctx, ws []wr, q int64, ln int64) {
	t := filetracker.VerifNew()
	parts := make([]string, len(ws))
	for i, w := range ws {
		t.VerifTrackWrite(w.off, w.n)
		parts[i] = fmt.Sprintf("%d:%d", w.off, w.n)
	}
	ms := t.VerifMarkers()
	mp := make([]string, len(ms))
	for i, m := range ms {
		b := 0
		if m.IsStart {
			b = 1
		}
		mp[i] = fmt.Sprintf("%d:%d", m.Offset, b)
	}
	rs := make([]string, q)
	for x := int64(0); x < q; x++ {
		n, mut := t.VerifGetRangeToRead(x, ln)
		b := 0
		if mut {
			b = 1
		}
		rs[x] = fmt.Sprintf("%d/%d", n, b)
	}
	c.w.Cases++
	c.w.Op(fmt.Sprintf("t w=%s q=%d len=%d", strings.Join(parts, ","), q, ln),
		fmt.Sprintf("r=%s ## m=%s", strings.Join(rs, ","), strings.Join(mp, ",")))
	c.w.Count(fmt.Sprintf("writes=%d", len(ws)))
}

// c22Conc: the writes are issued concurrently (the tracker serialises them under its lock); what is
// tracked afterwards is the union of the written ranges whatever order they took effect in, so the
// sequential model of the same writes is the expected answer to every query.
func c22Conc(c *ctx, ws []wr, q int64, ln int64) {
	t := filetracker.VerifNew()
	parts := make([]string, len(ws))
	var wg sync.WaitGroup
	start := make(chan struct{})
	for i, w := range ws {
		parts[i] = fmt.Sprintf("%d:%d", w.off, w.n)
		wg.Add(1)
		go func(w wr) {
			defer wg.Done()
			<-start
			t.VerifTrackWrite(w.off, w.n)
		}(w)
	}
	close(start)
	wg.Wait()
	rs := make([]string, q)
	for x := int64(0); x < q; x++ {
		n, mut := t.VerifGetRangeToRead(x, ln)
		b := 0
		if mut {
			b = 1
		}
		rs[x] = fmt.Sprintf("%d/%d", n, b)
	}
	c.w.Cases++
	c.w.Op(fmt.Sprintf("t w=%s q=%d len=%d conc=1", strings.Join(parts, ","), q, ln), fmt.Sprintf("r=%s", strings.Join(rs, ",")))
	c.w.Count(fmt.Sprintf("concurrent-writes=%d", len(ws)))
}

func c22(c *ctx) error {
	// exhaustive part: all sequences of up to k writes, offsets 0..maxOff, lengths 0..maxLen
	k, maxOff, maxLen := 3, int64(5), int64(4)
	if c.thorough() {
		k, maxOff, maxLen = 4, 5, 5
	}
	var rec func(ws []wr)
	rec = func(ws []wr) {
		c22Case(c, ws, maxOff+maxLen+2, 3)
		if len(ws) == k {
			return
		}
		for o := int64(0); o <= maxOff; o++ {
			for l := int64(0); l <= maxLen; l++ {
				rec(append(ws[:len(ws):len(ws)], wr{o, l}))
			}
		}
	}
	rec(nil)
	c.extra["exhaustive_upto_writes"] = k
	// random part: longer histories over a wider range
	n := 20000
	if c.thorough() {
		n = 300000
	}
	for i := 0; i < n; i++ {
		cnt := 1 + c.rng.Intn(8)
		span := int64(c.rng.Pick(8, 16, 40, 1000))
		ws := make([]wr, cnt)
		for j := range ws {
			ws[j] = wr{int64(c.rng.Intn(int(span))), int64(c.rng.Intn(int(span/2) + 1))}
		}
		q := span + span/2 + 2
		if q > 70 {
			q = 70
		}
		c22Case(c, ws, q, int64(1+c.rng.Intn(int(span))))
	}
	// concurrent writers (mostly disjoint, non-touching ranges: a lost update cannot hide behind a merge)
	nc := 1500
	if c.thorough() {
		nc = 30000
	}
	for i := 0; i < nc; i++ {
		cnt := 2 + c.rng.Intn(15)
		ws := make([]wr, cnt)
		for j := range ws {
			ws[j] = wr{int64(j*4 + c.rng.Intn(2)), int64(1 + c.rng.Intn(2))}
			if c.rng.Intn(6) == 0 {
				ws[j] = wr{int64(c.rng.Intn(cnt * 4)), int64(c.rng.Intn(6))}
			}
		}
		q := int64(cnt*4 + 4)
		if q > 70 {
			q = 70
		}
		c22Conc(c, ws, q, int64(1+c.rng.Intn(8)))
	}
	return nil
}
