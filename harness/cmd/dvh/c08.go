package main

// C08 — labels resolve to the bundle most recently assigned to them.
//
// One case = one history of label operations on a fresh context (five memstores): a few
// repositories whose names share prefixes, 1..3 tiny bundles each, then random
// set / get / del / list operations with label names from the documented alphabet and a hostile
// stream. Every line carries the result of the REAL pkg/core call:
//
//	mkrepo r=<repo>                      => ok|exists|err
//	bundle r=<repo> b=<rank>                (input-only: bundle <rank> was uploaded to <repo>)
//	set r= n=<name> b=<rank>             => <class> frame=ok|changed:<key>
//	del r= n=<name>                      => <class> frame=…
//	get r= n=<name>                      => ok b=<rank> | <class>
//	list r= p=<prefix> bs=<batch>        => ok [<name>=<rank>,…] (sorted by name) | <class>
//
// <class> = ok|notfound|err|panic (corekit.ErrClass). `frame` is computed here from snapshots of
// the metadata and vmetadata stores taken before and after the call: every key other than the
// label's own must keep its bytes (and the blob store its size).

import (
	"bytes"
	"context"
	"fmt"
	"sort"
	"strings"
	"sync"
	"time"

	"dvh/internal/corekit"
	"dvh/internal/crashstore"
	"dvh/internal/memstore"
	"dvh/internal/tr"

	context2 "github.com/oneconcern/datamon/pkg/context"
	"github.com/oneconcern/datamon/pkg/core"
	"github.com/oneconcern/datamon/pkg/model"
)

func init() { subs["c08"] = c08 }

var c08RepoPool = []string{"a", "ab", "a-b", "abc", "a-", "b", "r", "r1", "r-1", "labels", "repos", "é"}

// names inside the documented alphabet (letters, digits, hyphens, connector punctuation),
// including a few that YAML could mistake for something else
var c08GoodNames = []string{
	"latest", "prod", "v1", "v10", "v1-rc", "a", "ab", "a-b", "a_b", "abc", "L", "é", "日本", "٣", "x‿y",
	"soft\u00adhyphen", "-", "_", "--", "null", "true", "no", "123", "1_000", "0x1f", "1e3", "label", "b",
	"\u2010", "Ωmega",
}

// names outside it
var c08BadNames = []string{
	"a/b", "/", "a/", "/a", "..", ".", "a.b", "v1.0", "a b", " ", "", "x#y", "a/label.yaml", "latest/label.yaml",
	"a/b/c/d/e/f/g/h", "label.yaml", "é/", "日本/x", "a\nb", "a:b", "a%2f", "*", "a\\b", "😀", "a\tb", "a\x00b",
	"../b", "a//b", "#", "a#1", "~", "a+b", "a@b", "a,b", "a=b", "é é", "$x", "a'b", "\"q\"", "{}", "[a]",
	"- a", "a: b", "!!str", "&a", "|", "ⅷ-x", "a\u0301",
}

var c08Prefixes = []string{"", "a", "l", "la", "lat", "v1", "v", "é", "日", "-", "_", "x", "b", "1", "n"}
var c08BadPrefixes = []string{"a/", "/", "a/label.yaml", "latest/label.yaml", "a/b", " ", "a.", "#", "a/label", "latest/", "v1/label.yaml", "\x00"}

// c08RandName draws a random name over a small alphabet (so that collisions and overwrites
// happen), possibly with one hostile character spliced in.
func c08RandName(r *tr.Rng, hostile bool) string {
	good := []rune("abAB01-_éλ")
	bad := []rune("/. #:%\\~😀\n")
	n := 1 + r.Intn(3)
	rs := make([]rune, 0, n+1)
	for i := 0; i < n; i++ {
		rs = append(rs, good[r.Intn(len(good))])
	}
	if hostile {
		k := r.Intn(len(rs) + 1)
		rs = append(rs[:k], append([]rune{bad[r.Intn(len(bad))]}, rs[k:]...)...)
	}
	return string(rs)
}

type c08Env struct {
	// Label objects kept from earlier operations: an API client may well reuse one (set after get,
	// set after set); the result must not depend on that
	labelObjs map[string]*core.Label
	c         *ctx
	env       *corekit.Env
	bundles   []string                   // rank -> bundle id
	rank      map[string]int             // bundle id -> rank
	ofRepo    map[string][]int           // repo -> ranks
	used      map[string]map[string]bool // repo -> label names ever mentioned
	bcache    map[string]*core.Bundle    // bundle handles (core.NewBundle builds a logger each time)
}

// handle returns the bundle handle the cmd layer would build for (repo, bundle id).
func (e *c08Env) handle(repo, id string) *core.Bundle {
	k := repo + "\x00" + id
	if b, ok := e.bcache[k]; ok {
		return b
	}
	b := corekit.NewBundle(e.env.Stores, repo, nil, 0, id)
	e.bcache[k] = b
	return b
}

func (e *c08Env) rankOf(id string) string {
	if k, ok := e.rank[id]; ok {
		return fmt.Sprint(k)
	}
	return "?" + tr.Esc(id)
}

// c08Frame compares two snapshots of a store, ignoring `own`.
func c08Frame(store string, before, after map[string][]byte, own string) string {
	keys := map[string]bool{}
	for k := range before {
		keys[k] = true
	}
	for k := range after {
		keys[k] = true
	}
	var changed []string
	for k := range keys {
		if k == own {
			continue
		}
		b, okb := before[k]
		a, oka := after[k]
		if okb != oka || !bytes.Equal(a, b) {
			changed = append(changed, store+":"+k)
		}
	}
	if len(changed) == 0 {
		return ""
	}
	sort.Strings(changed)
	return changed[0]
}

// mutate runs f between two snapshots and renders the frame verdict.
func (e *c08Env) mutate(repo, name string, f func() error) string {
	own := model.GetArchivePathToLabel(repo, name)
	m0, v0, b0 := e.env.Meta.Snapshot(), e.env.VMeta.Snapshot(), e.env.Blob.Len()
	err := corekit.Recover(f)
	m1, v1, b1 := e.env.Meta.Snapshot(), e.env.VMeta.Snapshot(), e.env.Blob.Len()
	frame := "ok"
	if ch := c08Frame("meta", m0, m1, ""); ch != "" {
		frame = "changed:" + tr.Esc(ch)
	} else if ch := c08Frame("vmeta", v0, v1, own); ch != "" {
		frame = "changed:" + tr.Esc(ch)
	} else if b0 != b1 {
		frame = "changed:blob"
	}
	cl := corekit.ErrClass(err)
	aux := ""
	if err != nil {
		aux = " ## " + tr.Esc(c08Short(err.Error()))
	}
	return cl + " frame=" + frame + aux
}

func c08Short(s string) string {
	if len(s) > 120 {
		return s[:120]
	}
	return s
}

func (e *c08Env) set(repo, name string, rank int) {
	e.note(repo, name)
	switch {
	case name == "":
		e.c.w.Count("set.name=empty")
	case strings.ContainsAny(name, "/#"):
		e.c.w.Count("set.name=slash-or-hash")
	case strings.IndexFunc(name, func(c rune) bool { return c > 127 }) >= 0:
		e.c.w.Count("set.name=unicode")
	case strings.IndexFunc(name, func(c rune) bool {
		return !(c >= 'a' && c <= 'z' || c >= 'A' && c <= 'Z' || c >= '0' && c <= '9' || c == '-' || c == '_')
	}) >= 0:
		e.c.w.Count("set.name=ascii-punct")
	default:
		e.c.w.Count("set.name=plain")
	}
	id := e.bundles[rank]
	res := e.mutate(repo, name, func() error {
		b := e.handle(repo, id)
		key := repo + "\x00" + name
		l, reuse := e.labelObjs[key]
		if !reuse || e.c.rng.Intn(2) == 0 {
			l = core.NewLabel(core.LabelDescriptor(model.NewLabelDescriptor(
				model.LabelName(name),
				model.LabelContributor(model.Contributor{Name: "verif", Email: "verif@example.com"}),
			)))
		} else {
			e.c.w.Count("set.label-object=reused")
		}
		if e.labelObjs == nil {
			e.labelObjs = map[string]*core.Label{}
		}
		e.labelObjs[key] = l
		return l.UploadDescriptor(context.Background(), b)
	})
	e.c.w.Op(fmt.Sprintf("set r=%s n=%s b=%d", tr.Esc(repo), tr.Esc(name), rank), res)
	e.c.w.Count("set=" + strings.Fields(res)[0])
}

func (e *c08Env) del(repo, name string) {
	e.note(repo, name)
	res := e.mutate(repo, name, func() error { return core.DeleteLabel(repo, e.env.Stores, name) })
	e.c.w.Op(fmt.Sprintf("del r=%s n=%s", tr.Esc(repo), tr.Esc(name)), res)
	e.c.w.Count("del=" + strings.Fields(res)[0])
}

// delBundle is core.DeleteBundle with its default options: the labels of the bundle go with it.
func (e *c08Env) delBundle(repo string, rank int) {
	id := e.bundles[rank]
	err := corekit.Recover(func() error { return core.DeleteBundle(repo, e.env.Stores, id) })
	res := "ok"
	if err != nil {
		res = "err ## " + tr.Esc(c08Short(err.Error()))
	}
	e.c.w.Op(fmt.Sprintf("delb r=%s b=%d", tr.Esc(repo), rank), res)
	e.c.w.Count("delb=" + strings.Fields(res)[0])
}

// c08ManyLabels: a repository with `n` labels spread over three bundles (more than one listing
// batch of 1024 when n is large), then two of the three bundles are deleted one after the other:
// the labels last set to a deleted bundle are gone, every other label is what it was.
func c08ManyLabels(c *ctx, n int) error {
	e := &c08Env{c: c, env: corekit.NewEnv(), rank: map[string]int{}, ofRepo: map[string][]int{}, used: map[string]map[string]bool{}, bcache: map[string]*core.Bundle{}}
	repo, other := "many", "other"
	c.w.Case("many-labels n=%d", n)
	c.w.Count(fmt.Sprintf("many-labels=%d", c08Bucket(n)))
	for _, rp := range []string{repo, other} {
		err := e.env.CreateRepo(rp)
		c.w.Op("mkrepo r="+tr.Esc(rp), corekit.ErrClass(err))
		if err != nil {
			return fmt.Errorf("CreateRepo %q: %v", rp, err)
		}
		for j := 0; j < 3; j++ {
			id, err := e.env.UploadTree(rp, map[string][]byte{"f": []byte(fmt.Sprintf("%s-%d", rp, j))}, 256)
			if err != nil {
				return fmt.Errorf("UploadTree %q: %v", rp, err)
			}
			k := len(e.bundles)
			e.bundles = append(e.bundles, id)
			e.rank[id] = k
			e.ofRepo[rp] = append(e.ofRepo[rp], k)
			c.w.Note(fmt.Sprintf("bundle r=%s b=%d", tr.Esc(rp), k))
		}
	}
	r := c.rng
	names := make([]string, 0, n)
	for i := 0; i < n; i++ {
		nm := fmt.Sprintf("m-%04d", i)
		names = append(names, nm)
		e.set(repo, nm, e.ofRepo[repo][r.Intn(3)])
	}
	e.set(other, "m-0000", e.ofRepo[other][0])
	e.set(other, "keep", e.ofRepo[other][1])
	probe := func() {
		e.list(repo, "", 0)
		e.list(other, "", 0)
		for j := 0; j < 12 && len(names) > 0; j++ {
			e.get(repo, names[r.Intn(len(names))])
		}
		if len(names) > 0 {
			e.get(repo, names[0])
			e.get(repo, names[len(names)-1])
		}
	}
	probe()
	// the oldest bundle first (by ID), then the next: every deletion leaves labels of more recent
	// bundles behind, spread over all the listing batches
	perm := []int{0, 1, 2}
	sort.Slice(perm, func(i, j int) bool {
		return e.bundles[e.ofRepo[repo][perm[i]]] < e.bundles[e.ofRepo[repo][perm[j]]]
	})
	if n%2 == 1 { // odd sizes: the middle one first
		perm[0], perm[1] = perm[1], perm[0]
	}
	e.delBundle(repo, e.ofRepo[other][0]) // not a bundle of this repository: refused, nothing changes
	e.delBundle(repo, e.ofRepo[repo][perm[0]])
	probe()
	e.delBundle(repo, e.ofRepo[repo][perm[0]]) // again: the bundle is gone
	e.delBundle(repo, e.ofRepo[repo][perm[1]])
	probe()
	e.delBundle(other, e.ofRepo[other][0])
	probe()
	c.w.End()
	return nil
}

func (e *c08Env) get(repo, name string) {
	var got string
	err := corekit.Recover(func() error {
		b := e.handle(repo, "")
		l := core.NewLabel(core.LabelDescriptor(model.NewLabelDescriptor(model.LabelName(name))))
		if err := l.DownloadDescriptor(context.Background(), b, true); err != nil {
			return err
		}
		got = l.Descriptor.BundleID
		if e.labelObjs == nil {
			e.labelObjs = map[string]*core.Label{}
		}
		e.labelObjs[repo+"\x00"+name] = l // a later set may reuse the object that was read
		return nil
	})
	res := corekit.ErrClass(err)
	if err == nil {
		res = "ok b=" + e.rankOf(got)
	} else {
		res += " ## " + tr.Esc(c08Short(err.Error()))
	}
	e.c.w.Op(fmt.Sprintf("get r=%s n=%s", tr.Esc(repo), tr.Esc(name)), res)
	e.c.w.Count("get=" + strings.Fields(res)[0])
}

func (e *c08Env) list(repo, prefix string, batch int) {
	var lds []model.LabelDescriptor
	err := corekit.Recover(func() error {
		var err error
		opts := []core.Option{core.WithLabelPrefix(prefix)}
		if batch > 0 {
			opts = append(opts, core.BatchSize(batch))
		}
		lds, err = core.ListLabels(repo, e.env.Stores, opts...)
		return err
	})
	res := corekit.ErrClass(err)
	if err == nil {
		type it struct {
			n string
			b string
		}
		items := make([]it, len(lds))
		for i, ld := range lds {
			items[i] = it{ld.Name, e.rankOf(ld.BundleID)}
		}
		sort.Slice(items, func(i, j int) bool {
			if items[i].n != items[j].n {
				return items[i].n < items[j].n
			}
			return items[i].b < items[j].b
		})
		parts := make([]string, len(items))
		for i, x := range items {
			parts[i] = tr.Esc(x.n) + "=" + x.b
		}
		res = "ok [" + strings.Join(parts, ",") + "]"
		e.c.w.Count(fmt.Sprintf("list.len=%d", c08Bucket(len(items))))
	} else {
		res += " ## " + tr.Esc(c08Short(err.Error()))
	}
	e.c.w.Op(fmt.Sprintf("list r=%s p=%s bs=%d", tr.Esc(repo), tr.Esc(prefix), batch), res)
	e.c.w.Count("list=" + strings.Fields(res)[0])
}

func c08Bucket(n int) int {
	switch {
	case n <= 3:
		return n
	case n <= 7:
		return 4
	default:
		return 8
	}
}

func (e *c08Env) note(repo, name string) {
	if e.used[repo] == nil {
		e.used[repo] = map[string]bool{}
	}
	e.used[repo][name] = true
}

func (e *c08Env) pickName(r *tr.Rng) string {
	switch k := r.Intn(20); {
	case k < 9:
		return c08GoodNames[r.Intn(len(c08GoodNames))]
	case k < 13:
		return c08RandName(r, false)
	case k < 17:
		return c08BadNames[r.Intn(len(c08BadNames))]
	default:
		return c08RandName(r, true)
	}
}

// listUnfriendly lists all labels of repo (1) while one descriptor read fails transiently and the
// consumer is slow, (2) while one label is deleted between the key scan and its descriptor read.
// The reference is the plain listing; the verdict (`got`) is judged by the driver.
func (e *c08Env) listUnfriendly(repo string, r *tr.Rng) {
	ref, err := core.ListLabels(repo, e.env.Stores)
	if err != nil || len(ref) < 4 {
		return
	}
	want := map[string]string{}
	for _, ld := range ref {
		want[ld.Name] = ld.BundleID
	}
	run := func(stores context2.Stores, apply bool, batch int) (map[string]string, error) {
		got := map[string]string{}
		var mu sync.Mutex
		err := corekit.Recover(func() error {
			opts := []core.Option{core.BatchSize(batch), core.ConcurrentList(1 + r.Intn(4))}
			if apply {
				return core.ListLabelsApply(repo, stores, func(ld model.LabelDescriptor) error {
					time.Sleep(3 * time.Millisecond) // a slow consumer (a pipe, a copy to another repo)
					mu.Lock()
					got[ld.Name] = ld.BundleID
					mu.Unlock()
					return nil
				}, opts...)
			}
			lds, err := core.ListLabels(repo, stores, opts...)
			for _, ld := range lds {
				got[ld.Name] = ld.BundleID
			}
			return err
		})
		return got, err
	}
	classify := func(got map[string]string, err error, victim string) string {
		if err != nil {
			return "err"
		}
		for n, b := range want {
			if n == victim {
				continue
			}
			if got[n] != b {
				return "missing:" + tr.Esc(n)
			}
		}
		for n := range got {
			if _, ok := want[n]; !ok {
				return "extra:" + tr.Esc(n)
			}
		}
		return "same"
	}
	for q := 0; q < 3; q++ {
		g := &crashstore.Group{FailReadOp: "get", FailReadKey: "labels/", FailReadAt: 1 + r.Intn(len(ref))}
		st := corekit.WithStores(e.env.Wal, e.env.ReadLog, e.env.Blob, crashstore.Wrap(g, "meta", e.env.Meta), crashstore.Wrap(g, "vmeta", e.env.VMeta))
		batch := r.Pick(1, 1, 2)
		got, err := run(st, q != 2, batch)
		if g.Reads() < g.FailReadAt {
			continue
		}
		e.c.w.Op(fmt.Sprintf("listf r=%s kind=read-fault at=%d bs=%d apply=%v got=%s", tr.Esc(repo), g.FailReadAt, batch, q != 2, classify(got, err, "")), "sound")
		e.c.w.Count("list-unfriendly=read-fault")
	}
	// an overwrite whose store write fails: the label still resolves to the bundle it had (a label set
	// is one atomic store write: nothing in between)
	if ranks := e.ofRepo[repo]; len(ranks) > 1 {
		name := ref[r.Intn(len(ref))].Name
		prev := want[name]
		target := e.bundles[ranks[r.Intn(len(ranks))]]
		for _, rk := range ranks {
			if target == prev && e.bundles[rk] != prev {
				target = e.bundles[rk]
			}
		}
		g := &crashstore.Group{FailOnceOp: "put", FailOnceAt: 1}
		st := corekit.WithStores(e.env.Wal, e.env.ReadLog, e.env.Blob, crashstore.Wrap(g, "meta", e.env.Meta), crashstore.Wrap(g, "vmeta", e.env.VMeta))
		serr := corekit.Recover(func() error {
			b := core.NewBundle(core.Repo(repo), core.ContextStores(st), core.BundleID(target), core.Logger(corekit.Nop))
			l := core.NewLabel(core.LabelDescriptor(model.NewLabelDescriptor(
				model.LabelName(name), model.LabelContributor(model.Contributor{Name: "verif", Email: "verif@example.com"}))))
			return l.UploadDescriptor(context.Background(), b)
		})
		now := "lost"
		gerr := corekit.Recover(func() error {
			b := core.NewBundle(core.Repo(repo), core.ContextStores(e.env.Stores), core.Logger(corekit.Nop))
			l := core.NewLabel(core.LabelDescriptor(model.NewLabelDescriptor(model.LabelName(name))))
			if err := l.DownloadDescriptor(context.Background(), b, true); err != nil {
				return err
			}
			switch l.Descriptor.BundleID {
			case prev:
				now = "kept"
			case target:
				now = "new"
			default:
				now = "other"
			}
			return nil
		})
		if gerr != nil {
			now = "lost"
		}
		res := "ok"
		if serr != nil {
			res = "err"
		}
		// put things back as the model knows them
		if serr == nil && prev != target {
			_ = corekit.Recover(func() error {
				b := core.NewBundle(core.Repo(repo), core.ContextStores(e.env.Stores), core.BundleID(prev), core.Logger(corekit.Nop))
				l := core.NewLabel(core.LabelDescriptor(model.NewLabelDescriptor(
					model.LabelName(name), model.LabelContributor(model.Contributor{Name: "verif", Email: "verif@example.com"}))))
				return l.UploadDescriptor(context.Background(), b)
			})
		}
		fired := false
		for _, w := range g.Snapshot() {
			if w.Err && !w.Landed {
				fired = true
			}
		}
		if fired && prev != target {
			e.c.w.Op(fmt.Sprintf("setf r=%s n=%s res=%s now=%s", tr.Esc(repo), tr.Esc(name), res, now), "sound")
			e.c.w.Count("set-with-failing-write")
		}
	}
	for q := 0; q < 2; q++ {
		victim := ref[r.Intn(len(ref))].Name
		var vkey string
		var vstore *memstore.Store
		for _, ms := range []*memstore.Store{e.env.VMeta, e.env.Meta} {
			for _, k := range ms.SortedKeys() {
				if strings.Contains(k, "/"+repo+"/"+victim+"/") && strings.HasPrefix(k, "labels/") {
					vkey, vstore = k, ms
				}
			}
		}
		if vkey == "" {
			continue
		}
		saved, _ := vstore.Raw(vkey)
		var once sync.Once
		g := &crashstore.Group{}
		g.Hook = func(_, op, key string) {
			if (op == "has" || op == "get" || op == "getattr") && key == vkey {
				once.Do(func() { vstore.RemoveRaw(vkey) }) // another client deletes the label right now
			}
		}
		st := corekit.WithStores(e.env.Wal, e.env.ReadLog, e.env.Blob, crashstore.Wrap(g, "meta", e.env.Meta), crashstore.Wrap(g, "vmeta", e.env.VMeta))
		batch := r.Pick(0, 7, 3)
		conc := 1 + r.Intn(2)
		got := map[string]string{}
		err := corekit.Recover(func() error {
			lds, err := core.ListLabels(repo, st, core.BatchSize(batch), core.ConcurrentList(conc))
			for _, ld := range lds {
				got[ld.Name] = ld.BundleID
			}
			return err
		})
		vstore.SetRaw(vkey, saved) // the model never saw the deletion: put the label back
		e.c.w.Op(fmt.Sprintf("listf r=%s kind=concurrent-delete victim=%s bs=%d got=%s", tr.Esc(repo), tr.Esc(victim), batch, classify(got, err, victim)), "sound")
		e.c.w.Count("list-unfriendly=concurrent-delete")
	}
}

func c08(c *ctx) error {
	nCases, maxOps := 40, 60
	if c.thorough() {
		nCases, maxOps = 400, 90
	}
	r := c.rng
	for ci := 0; ci < nCases; ci++ {
		e := &c08Env{c: c, env: corekit.NewEnv(), rank: map[string]int{}, ofRepo: map[string][]int{}, used: map[string]map[string]bool{}, bcache: map[string]*core.Bundle{}}
		nRepos := 1 + r.Intn(4)
		perm := r.Perm(len(c08RepoPool))
		repos := make([]string, 0, nRepos)
		for i := 0; i < nRepos; i++ {
			repos = append(repos, c08RepoPool[perm[i]])
		}
		sort.Strings(repos)
		ghost := c08RepoPool[perm[nRepos]] // never created
		nOps := 10 + r.Intn(maxOps)
		c.w.Case("repos=%d ops=%d", nRepos, nOps)
		c.w.Count(fmt.Sprintf("repos=%d", nRepos))
		for _, repo := range repos {
			err := e.env.CreateRepo(repo)
			c.w.Op("mkrepo r="+tr.Esc(repo), corekit.ErrClass(err))
			if err != nil {
				return fmt.Errorf("CreateRepo %q: %v", repo, err)
			}
			nb := 1 + r.Intn(3)
			for j := 0; j < nb; j++ {
				id, err := e.env.UploadTree(repo, map[string][]byte{"f": []byte(fmt.Sprintf("%s-%d", repo, j))}, 256)
				if err != nil {
					return fmt.Errorf("UploadTree %q: %v", repo, err)
				}
				k := len(e.bundles)
				e.bundles = append(e.bundles, id)
				e.rank[id] = k
				e.ofRepo[repo] = append(e.ofRepo[repo], k)
				c.w.Note(fmt.Sprintf("bundle r=%s b=%d", tr.Esc(repo), k))
			}
		}
		// a small per-case working set of names so that overwrites, deletions of live labels and
		// prefix-related names are frequent
		work := make([]string, 0, 6)
		for i := 0; i < 3+r.Intn(4); i++ {
			work = append(work, e.pickName(r))
		}
		name := func() string {
			if r.Intn(4) > 0 {
				return work[r.Intn(len(work))]
			}
			return e.pickName(r)
		}
		// a name some earlier operation of this case mentioned for the repo (so that deletions and
		// lookups mostly hit labels that were assigned at some point)
		usedName := func(repo string) string {
			if len(e.used[repo]) == 0 || r.Intn(4) == 0 {
				return name()
			}
			names := make([]string, 0, len(e.used[repo]))
			for n := range e.used[repo] {
				names = append(names, n)
			}
			sort.Strings(names)
			return names[r.Intn(len(names))]
		}
		repoOf := func() string {
			if r.Intn(25) == 0 {
				return ghost
			}
			return repos[r.Intn(len(repos))]
		}
		for i := 0; i < nOps; i++ {
			repo := repoOf()
			switch k := r.Intn(20); {
			case k == 19 && r.Intn(3) == 0: // a bundle goes, with its labels (mostly one of this repository)
				ranks := e.ofRepo[repo]
				if len(ranks) == 0 || r.Intn(6) == 0 {
					ranks = nil
					for j := range e.bundles {
						ranks = append(ranks, j)
					}
				}
				e.delBundle(repo, ranks[r.Intn(len(ranks))])
			case k < 8:
				ranks := e.ofRepo[repo]
				if len(ranks) == 0 || r.Intn(12) == 0 { // a bundle of another repo: the core API does not look
					ranks = nil
					for j := range e.bundles {
						ranks = append(ranks, j)
					}
				}
				e.set(repo, name(), ranks[r.Intn(len(ranks))])
			case k < 11:
				e.del(repo, usedName(repo))
			case k < 15:
				e.get(repo, usedName(repo))
			default:
				var p string
				switch q := r.Intn(10); {
				case q < 3:
					p = ""
					c.w.Count("prefix=empty")
				case q < 5:
					p = c08Prefixes[r.Intn(len(c08Prefixes))]
					c.w.Count("prefix=pool")
				case q < 8: // a real prefix of a name in use
					n := usedName(repo)
					rs := []rune(n)
					p = string(rs[:r.Intn(len(rs)+1)])
					c.w.Count("prefix=of-name")
				case q < 9: // <name>/<prefix of label.yaml>: the key prefix reaches past the name
					p = usedName(repo) + r.PickS("/", "/l", "/label", "/label.yaml", "/label.yaml/", "/x")
					c.w.Count("prefix=name-slash")
				default:
					p = c08BadPrefixes[r.Intn(len(c08BadPrefixes))]
					c.w.Count("prefix=hostile")
				}
				e.list(repo, p, r.Pick(0, 0, 1, 2, 3, 7))
			}
		}
		// final audit: every repo listed in full, every name ever mentioned resolved
		for _, repo := range repos {
			e.list(repo, "", 0)
			names := make([]string, 0, len(e.used[repo]))
			for n := range e.used[repo] {
				names = append(names, n)
			}
			sort.Strings(names)
			for _, n := range names {
				e.get(repo, n)
			}
		}
		// a repository with enough labels for several listing pages, listed under unfriendly
		// conditions: the listing fails, or it is exactly the live labels (every label nobody touched)
		if ci%2 == 0 {
			repo := repos[0]
			for j := 0; j < 7; j++ {
				e.set(repo, fmt.Sprintf("bulk-%d", j), e.ofRepo[repo][r.Intn(len(e.ofRepo[repo]))])
			}
			e.list(repo, "", 0)
			e.listUnfriendly(repo, r)
		}
		c.w.End()
	}
	// DeleteBundle takes the labels of the bundle with it: small repositories, and one with more
	// labels than a listing batch
	sizes := []int{0, 1, 5, 40, 1100}
	if c.thorough() {
		sizes = []int{0, 1, 2, 5, 40, 300, 1024, 1025, 1100, 2100}
	}
	for _, n := range sizes {
		if err := c08ManyLabels(c, n); err != nil {
			return err
		}
	}
	return nil
}
