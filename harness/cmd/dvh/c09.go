package main

// C09 — repository operations affect exactly their own repository.
//
// Histories over 2..4 repositories with prefix-related names and overlapping content are built
// with the real pkg/core (CreateRepo, Upload, labels), then DeleteRepo / RenameRepo /
// DeleteEntriesFromRepo run on a copy of the stores. Before each operation the whole metadata
// state is dumped (`s <key> <value>` lines, bundle ids replaced by ranks) so that the Lean model
// starts from exactly that state; after it, both sides print the DIFF of meta + vmeta, grouped by
// the repository that owns each key, and the bundles each repository lists.
// Concurrent creators: store calls released in a chosen order (`sched`) and truly parallel (`par`).

import (
	"context"
	"fmt"
	"hash/fnv"
	"os"
	"os/exec"
	"sort"
	"strings"
	"sync"
	"time"

	"gopkg.in/yaml.v2"

	"dvh/internal/c09store"
	"dvh/internal/corekit"
	"dvh/internal/crashstore"
	"dvh/internal/memstore"
	"dvh/internal/tr"

	"github.com/oneconcern/datamon/pkg/core"
	"github.com/oneconcern/datamon/pkg/model"
)

func init() { subs["c09"] = c09 }

var (
	c09ValidNames   = []string{"a", "a-b", "ab", "a-b-c", "b", "aa", "a0", "A", "a-", "é", "a-é"}
	c09InvalidNames = []string{"a.b", "a/b", "", "a_b", "é!", "a b", "éé/", "a/"}
	c09Paths        = []string{"x", "y", "d/x", "d/y", "d/e/z", "x y", "ü", "a", "a-b/x"}
	c09LabelNames   = []string{"v1", "latest", "rc-1", "v1_0", "a"}
	c09Contributor  = model.Contributor{Name: "verif", Email: "verif@example.com"}
)

func c09Hash(parts ...interface{}) uint64 {
	h := fnv.New64a()
	fmt.Fprintf(h, "%v", parts)
	return h.Sum64() % 1000000000
}

// c09World is one datamon context plus the bookkeeping of the harness.
type c09World struct {
	env   *corekit.Env
	ranks map[string]string // real bundle id -> rank token
	next  int
	last  string // result class of the last operation
}

func c09NewWorld() *c09World {
	return &c09World{env: corekit.NewEnv(), ranks: map[string]string{}}
}

func (w *c09World) clone() *c09World {
	e := &corekit.Env{Blob: w.env.Blob.Clone(), Meta: w.env.Meta.Clone(), VMeta: w.env.VMeta.Clone(),
		Wal: memstore.New("wal"), ReadLog: memstore.New("readlog")}
	e.Stores = corekit.WithStores(e.Wal, e.ReadLog, e.Blob, e.Meta, e.VMeta)
	return &c09World{env: e, ranks: w.ranks, next: w.next}
}

func (w *c09World) rank(id string) string {
	if r, ok := w.ranks[id]; ok {
		return r
	}
	return id
}

// absKey replaces the bundle id of a bundles/… key by its rank.
func (w *c09World) absKey(k string) string {
	cs := strings.SplitN(k, "/", 4)
	if len(cs) == 4 && cs[0] == "bundles" {
		cs[2] = w.rank(cs[2])
		return strings.Join(cs, "/")
	}
	return k
}

// c09Val renders the abstract value of an object (what the model keeps of it).
func (w *c09World) c09Val(key string, data []byte) string {
	junk := func() string { return fmt.Sprintf("X^%d", c09Hash(string(data))) }
	apc, err := model.GetArchivePathComponents(key)
	if err != nil {
		return junk()
	}
	switch {
	case strings.HasPrefix(key, "repos/"):
		var rd model.RepoDescriptor
		if yaml.UnmarshalStrict(data, &rd) != nil {
			return junk()
		}
		return fmt.Sprintf("R^%s^%d", tr.Esc(rd.Description), c09Hash(rd.Name == apc.Repo, rd.Timestamp.UTC(), rd.Contributor.Name, rd.Contributor.Email))
	case strings.HasPrefix(key, "bundles/") && apc.ArchiveFileName == "bundle.yaml":
		var bd model.BundleDescriptor
		if yaml.UnmarshalStrict(data, &bd) != nil {
			return junk()
		}
		cnt := bd.BundleEntriesFileCount
		return fmt.Sprintf("B^%d^%d", cnt, c09Hash(bd.ID == apc.BundleID, bd.LeafSize, bd.Message, bd.Parents, bd.Timestamp.UTC(),
			fmt.Sprint(bd.Contributors), bd.Version, bd.Deduplication, bd.RunStage))
	case strings.HasPrefix(key, "bundles/") && apc.ArchiveFileName != "":
		var be model.BundleEntries
		if yaml.UnmarshalStrict(data, &be) != nil {
			return junk()
		}
		if len(be.BundleEntries) == 0 {
			return "F^-"
		}
		parts := make([]string, len(be.BundleEntries))
		for i, e := range be.BundleEntries {
			parts[i] = fmt.Sprintf("%s|%d", tr.Esc(e.NameWithPath), c09Hash(e.Hash, uint32(e.FileMode), e.Size, e.Timestamp.UTC()))
		}
		return "F^" + strings.Join(parts, ",")
	case strings.HasPrefix(key, "labels/"):
		var ld model.LabelDescriptor
		if yaml.UnmarshalStrict(data, &ld) != nil {
			return junk()
		}
		return fmt.Sprintf("L^%s^%d", tr.Esc(w.rank(ld.BundleID)), c09Hash(ld.Name == apc.LabelName, ld.Timestamp.UTC(), fmt.Sprint(ld.Contributors)))
	}
	return junk()
}

// snapshot: abstract key -> abstract value over meta and vmeta.
func (w *c09World) snapshot() map[string]string {
	out := map[string]string{}
	for k, v := range w.env.Meta.Snapshot() {
		out[w.absKey(k)] = w.c09Val(k, v)
	}
	for k, v := range w.env.VMeta.Snapshot() {
		out[w.absKey(k)] = w.c09Val(k, v)
	}
	return out
}

func c09SortedRaw(m map[string][]byte) []string {
	ks := make([]string, 0, len(m))
	for k := range m {
		ks = append(ks, k)
	}
	sort.Strings(ks)
	return ks
}

func c09SortedKeys(m map[string]string) []string {
	ks := make([]string, 0, len(m))
	for k := range m {
		ks = append(ks, k)
	}
	sort.Strings(ks)
	return ks
}

func (w *c09World) dump(c *ctx) map[string]string {
	snap := w.snapshot()
	c.w.Note("reset")
	for _, k := range c09SortedKeys(snap) {
		c.w.Note("s " + tr.Esc(k) + " " + snap[k])
	}
	return snap
}

func c09Owner(absKey string) string {
	apc, err := model.GetArchivePathComponents(absKey)
	if err != nil {
		return "?"
	}
	return tr.Esc(apc.Repo)
}

// c09Leftover: a key of a bundle without descriptor before and after (never committed).
func c09Leftover(pre, post map[string]string, absKey string) bool {
	if !strings.HasPrefix(absKey, "bundles/") {
		return false
	}
	apc, err := model.GetArchivePathComponents(absKey)
	if err != nil {
		return false
	}
	d := model.GetArchivePathToBundle(apc.Repo, apc.BundleID)
	_, a := pre[d]
	_, b := post[d]
	return !a && !b
}

type c09Item struct{ owner, text string }

func c09Groups(items []c09Item) string {
	if len(items) == 0 {
		return "same"
	}
	sort.Slice(items, func(i, j int) bool {
		if items[i].owner != items[j].owner {
			return items[i].owner < items[j].owner
		}
		return items[i].text < items[j].text
	})
	var out []string
	cur, first := "", true
	for _, it := range items {
		if first || it.owner != cur {
			out = append(out, "@"+it.owner)
			cur, first = it.owner, false
		}
		out = append(out, it.text)
	}
	return strings.Join(out, " ")
}

// c09Diff returns the compared and the auxiliary part of the state difference.
func c09Diff(pre, post map[string]string) (string, string) {
	var mainItems, auxItems []c09Item
	add := func(k, text string) {
		it := c09Item{c09Owner(k), text}
		if c09Leftover(pre, post, k) {
			auxItems = append(auxItems, it)
		} else {
			mainItems = append(mainItems, it)
		}
	}
	for k, v := range pre {
		nv, ok := post[k]
		switch {
		case !ok:
			add(k, "-"+tr.Esc(k))
		case nv != v:
			add(k, "*"+tr.Esc(k)+"^"+nv)
		}
	}
	for k, v := range post {
		if _, ok := pre[k]; !ok {
			add(k, "+"+tr.Esc(k)+"^"+v)
		}
	}
	return c09Groups(mainItems), c09Groups(auxItems)
}

// c09Listing: what ListBundles reports for every repository that has a descriptor.
func (w *c09World) listing(post map[string]string) string {
	var parts []string
	for _, k := range c09SortedKeys(post) {
		if !strings.HasPrefix(k, "repos/") {
			continue
		}
		apc, err := model.GetArchivePathComponents(k)
		if err != nil {
			continue
		}
		var ids []string
		var bds model.BundleDescriptors
		err = corekit.Recover(func() (e error) {
			bds, e = core.ListBundles(apc.Repo, w.env.Stores)
			return
		})
		if err != nil {
			parts = append(parts, tr.Esc(apc.Repo)+":!")
			continue
		}
		for _, b := range bds {
			ids = append(ids, w.rank(b.ID))
		}
		sort.Strings(ids)
		if len(ids) == 0 {
			ids = []string{"-"}
		}
		parts = append(parts, tr.Esc(apc.Repo)+":"+strings.Join(ids, "+"))
	}
	if len(parts) == 0 {
		return "-"
	}
	return strings.Join(parts, ";")
}

func c09Class(err error) string {
	switch corekit.ErrClass(err) {
	case "ok":
		return "ok"
	case "panic":
		return "panic"
	default:
		return "err"
	}
}

// opResult runs f on the world and renders the result (compared part ## auxiliary part).
func (w *c09World) opResult(pre map[string]string, f func() error) (string, map[string]string, string) {
	blobsBefore := w.env.Blob.SortedKeys()
	err := corekit.Recover(f)
	post := w.snapshot()
	blobsAfter := w.env.Blob.SortedKeys()
	changed := 0
	if strings.Join(blobsBefore, "\n") != strings.Join(blobsAfter, "\n") {
		changed = 1
	}
	m, a := c09Diff(pre, post)
	cl := c09Class(err)
	var res string
	if cl == "ok" {
		res = fmt.Sprintf("ok %s blobs=%d ls=%s", m, changed, w.listing(post))
		if a != "same" {
			res += " ## left: " + a
		}
	} else {
		res = cl + " ## " + m
		if a != "same" {
			res += " left: " + a
		}
	}
	return res, post, cl
}

// runOp runs f on the world and writes the compared line.
func (w *c09World) runOp(c *ctx, op string, pre map[string]string, f func() error) map[string]string {
	res, post, cl := w.opResult(pre, f)
	c.w.Op(op, res)
	c.w.Count("result=" + cl)
	w.last = cl
	return post
}

func c09RepoDesc(name, desc string) model.RepoDescriptor {
	return model.RepoDescriptor{Name: name, Description: desc, Contributor: c09Contributor}
}

func c09RepoAux(name string) uint64 {
	rd := c09RepoDesc(name, "")
	return c09Hash(true, rd.Timestamp.UTC(), rd.Contributor.Name, rd.Contributor.Email)
}

func (w *c09World) opCreate(c *ctx, pre map[string]string, name, desc string) map[string]string {
	op := fmt.Sprintf("op create repo=%s desc=%s aux=%d", tr.Esc(name), tr.Esc(desc), c09RepoAux(name))
	c.w.Count("op=create")
	return w.runOp(c, op, pre, func() error { return core.CreateRepo(c09RepoDesc(name, desc), w.env.Stores) })
}

// upload one bundle through the real code; returns its id.
func (w *c09World) upload(c *ctx, repo string, files map[string][]byte, perList uint) (string, error) {
	b := corekit.NewBundle(w.env.Stores, repo, corekit.TreeStore(files), 4096, "")
	err := corekit.Recover(func() error { return core.VerifUpload(context.Background(), b, perList, nil) })
	if err == nil {
		w.next++
		w.ranks[b.BundleID] = fmt.Sprintf("B%d", w.next)
	}
	return b.BundleID, err
}

func (w *c09World) label(repo, name, bundleID string) error {
	b := corekit.NewBundle(w.env.Stores, repo, nil, 0, bundleID)
	l := core.NewLabel(core.LabelDescriptor(model.NewLabelDescriptor(model.LabelName(name), model.LabelContributor(c09Contributor))))
	return corekit.Recover(func() error { return l.UploadDescriptor(context.Background(), b) })
}

func c09Pick(c *ctx, xs []string) string { return xs[c.rng.Intn(len(xs))] }

// c09History builds one history and runs several operation scenarios on copies of it.
func c09History(c *ctx) error {
	w := c09NewWorld()
	nRepos := 2 + c.rng.Intn(3)
	perm := c.rng.Perm(len(c09ValidNames))
	// prefix-related names first, most of the time
	var names []string
	if c.rng.Intn(4) != 0 {
		names = append(names, "a", "a-b", "ab", "a-b-c")
		perm2 := c.rng.Perm(4)
		tmp := make([]string, 4)
		for i, p := range perm2 {
			tmp[i] = names[p]
		}
		names = tmp[:nRepos]
	} else {
		for i := 0; i < nRepos; i++ {
			names = append(names, c09ValidNames[perm[i]])
		}
	}
	c.w.Case("repos=%s", tr.Esc(strings.Join(names, ",")))
	c.w.Count(fmt.Sprintf("repos=%d", nRepos))
	pre := w.dump(c)
	// creation goes through compared lines too (cumulative on the empty state)
	for _, n := range names {
		pre = w.opCreate(c, pre, n, "desc of "+n)
	}
	if c.rng.Intn(3) == 0 {
		pre = w.opCreate(c, pre, c09Pick(c, c09InvalidNames), "x")
	}
	if c.rng.Intn(4) == 0 {
		pre = w.opCreate(c, pre, c09Pick(c, names), c.rng.PickS("again", ""))
	}
	// content pool shared by all repositories (overlapping blobs)
	contents := [][]byte{[]byte("1"), tr.GenBytes(c.seed+7, 100), tr.GenBytes(c.seed+8, 200), {}, []byte("22")}
	visible := map[string][]string{}
	leftover := map[string]bool{}
	for _, n := range names {
		nb := c.rng.Intn(5)
		c.w.Count(fmt.Sprintf("bundles_per_repo=%d", nb))
		for j := 0; j < nb; j++ {
			files := map[string][]byte{}
			nf := c.rng.Intn(6)
			for f := 0; f < nf; f++ {
				files[c09Pick(c, c09Paths)] = contents[c.rng.Intn(len(contents))]
			}
			per := uint(c.rng.Pick(1, 2, 3, 1000))
			id, err := w.upload(c, n, files, per)
			if err != nil {
				return fmt.Errorf("upload failed: %v", err)
			}
			if c.rng.Intn(7) == 0 {
				// an interrupted upload: the file lists exist, the descriptor was never written
				w.env.Meta.RemoveRaw(model.GetArchivePathToBundle(n, id))
				leftover[n] = true
				c.w.Count("leftover_bundle")
			} else {
				visible[n] = append(visible[n], id)
			}
		}
		nl := c.rng.Intn(4)
		c.w.Count(fmt.Sprintf("labels_per_repo=%d", nl))
		for j := 0; j < nl && len(visible[n]) > 0; j++ {
			if err := w.label(n, c09Pick(c, c09LabelNames), c09Pick(c, visible[n])); err != nil {
				return fmt.Errorf("label failed: %v", err)
			}
		}
	}
	// crash and re-run: DeleteRepo dies at its k-th store write (landed or not), the command is run
	// again on healthy stores: nothing of the repository remains, the other repositories are untouched
	// (repositories holding leftovers of interrupted uploads are left out: those stay, by construction)
	for _, n := range names {
		if leftover[n] || c.rng.Intn(2) == 0 {
			continue
		}
		probe := w.clone()
		pg := &crashstore.Group{}
		pst := corekit.WithStores(probe.env.Wal, probe.env.ReadLog, crashstore.Wrap(pg, "blob", probe.env.Blob), crashstore.Wrap(pg, "meta", probe.env.Meta), crashstore.Wrap(pg, "vmeta", probe.env.VMeta))
		if corekit.Recover(func() error { return core.DeleteRepo(n, pst) }) != nil {
			continue
		}
		total := pg.Count()
		before := w.env.Meta.Snapshot()
		for k, v := range w.env.VMeta.Snapshot() {
			before[k] = v
		}
		for k := 1; k <= total; k++ {
			if total > 10 && c.rng.Intn(total) >= 10 {
				continue
			}
			y := w.clone()
			landed := c.rng.Bool()
			g := &crashstore.Group{CrashAt: k, Landed: landed}
			yst := corekit.WithStores(y.env.Wal, y.env.ReadLog, crashstore.Wrap(g, "blob", y.env.Blob), crashstore.Wrap(g, "meta", y.env.Meta), crashstore.Wrap(g, "vmeta", y.env.VMeta))
			_ = corekit.Recover(func() error { return core.DeleteRepo(n, yst) })
			_ = corekit.Recover(func() error { return core.DeleteRepo(n, y.env.Stores) })
			after := y.env.Meta.Snapshot()
			for kk, v := range y.env.VMeta.Snapshot() {
				after[kk] = v
			}
			got := "clean"
			for _, kk := range c09SortedRaw(after) {
				if apc, err := model.GetArchivePathComponents(kk); err == nil && apc.Repo == n {
					got = "leftover:" + tr.Esc(y.absKey(kk))
					break
				}
			}
			for kk, v := range before {
				apc, err := model.GetArchivePathComponents(kk)
				if err == nil && apc.Repo == n {
					continue
				}
				if string(after[kk]) != string(v) {
					got = "other-changed:" + tr.Esc(y.absKey(kk))
				}
			}
			ld := 0
			if landed {
				ld = 1
			}
			c.w.Op(fmt.Sprintf("deletecr repo=%s at=%d of=%d landed=%d got=%s", tr.Esc(n), k, total, ld, got), "sound")
			c.w.Count("delete-crash-rerun")
		}
	}
	// rename while ONE store call fails transiently (a read of a descriptor or a file list, a write of
	// a copy): RenameRepo reports an error, or the result is exactly that of the fault-free rename
	for _, n := range names {
		if c.rng.Intn(2) == 0 {
			continue
		}
		const to = "zz-renamed"
		ref := w.clone()
		if corekit.Recover(func() error { return core.RenameRepo(n, to, ref.env.Stores) }) != nil {
			continue
		}
		refSnap := ref.snapshot()
		for q := 0; q < 4; q++ {
			y := w.clone()
			g := &crashstore.Group{}
			kind := "write"
			if q%2 == 0 {
				kind = "read"
				g.FailReadOp, g.FailReadKey, g.FailReadAt = "get", "bundles/", 1+c.rng.Intn(12)
			} else {
				// (a failed DELETE of the source's file lists is ignored by design — WithDeleteIgnoreBundleError —
				// so only the writes of the copies are failed here)
				g.FailOnceOp, g.FailOnceAt = "put", 1+c.rng.Intn(10)
			}
			yst := corekit.WithStores(y.env.Wal, y.env.ReadLog, crashstore.Wrap(g, "blob", y.env.Blob), crashstore.Wrap(g, "meta", y.env.Meta), crashstore.Wrap(g, "vmeta", y.env.VMeta))
			err := corekit.Recover(func() error { return core.RenameRepo(n, to, yst) })
			fired := g.FailReadAt != 0 && g.Reads() >= g.FailReadAt
			for _, wr := range g.Snapshot() {
				if wr.Err && !wr.Landed && g.FailOnceAt != 0 {
					fired = true
				}
			}
			if !fired {
				continue
			}
			got := "err"
			if err == nil {
				got = "same"
				ys := y.snapshot()
				if len(ys) != len(refSnap) {
					got = fmt.Sprintf("differ:%d-keys-instead-of-%d", len(ys), len(refSnap))
				}
				for kk, v := range refSnap {
					if ys[kk] != v {
						got = "differ:" + tr.Esc(kk)
					}
				}
			}
			c.w.Op(fmt.Sprintf("renamef repo=%s fault=%s at=%d got=%s", tr.Esc(n), kind, g.FailReadAt+g.FailOnceAt, got), "sound")
			c.w.Count("rename-with-fault=" + kind)
		}
	}
	nScen := 3 + c.rng.Intn(3)
	for sIdx := 0; sIdx < nScen; sIdx++ {
		x := w.clone()
		if c.rng.Intn(8) == 0 {
			// inconsistent metadata: a file list of a committed bundle is missing
			var cands []string
			for _, k := range x.env.Meta.SortedKeys() {
				if strings.Contains(k, "/bundle-files-") {
					cands = append(cands, k)
				}
			}
			if len(cands) > 0 {
				x.env.Meta.RemoveRaw(c09Pick(c, cands))
				c.w.Count("scenario=missing_filelist")
			}
		}
		cur := x.dump(c)
		nOps := 1 + c.rng.Intn(2)
		for o := 0; o < nOps; o++ {
			if o > 0 && x.last != "ok" {
				// a failed operation may stop half-way (not determined by the property, auxiliary
				// in the trace): hand the model the state the implementation is really in
				cur = x.dump(c)
			}
			cur = x.randomOp(c, cur, names)
		}
	}
	c.w.End()
	return nil
}

func (w *c09World) randomOp(c *ctx, pre map[string]string, names []string) map[string]string {
	other := func() string { // a name that is (probably) not a repository
		for i := 0; i < 20; i++ {
			n := c09Pick(c, c09ValidNames)
			if _, ok := pre[model.GetArchivePathToRepoDescriptor(n)]; !ok {
				return n
			}
		}
		return "zz"
	}
	existing := func() string {
		var ex []string
		for _, n := range names {
			if _, ok := pre[model.GetArchivePathToRepoDescriptor(n)]; ok {
				ex = append(ex, n)
			}
		}
		if len(ex) == 0 || c.rng.Intn(10) == 0 {
			if c.rng.Bool() {
				return other()
			}
			return c09Pick(c, c09InvalidNames)
		}
		return c09Pick(c, ex)
	}
	switch c.rng.Intn(10) {
	case 0, 1, 2:
		r := existing()
		c.w.Count("op=delete")
		return w.runOp(c, "op delete repo="+tr.Esc(r), pre, func() error { return core.DeleteRepo(r, w.env.Stores) })
	case 3, 4, 5, 6:
		r := existing()
		var to string
		switch c.rng.Intn(8) {
		case 0:
			to = c09Pick(c, names) // usually exists (or is r itself)
		case 1:
			to = c09Pick(c, c09InvalidNames)
		default:
			to = other()
		}
		c.w.Count("op=rename")
		return w.runOp(c, "op rename repo="+tr.Esc(r)+" to="+tr.Esc(to), pre, func() error { return core.RenameRepo(r, to, w.env.Stores) })
	case 7, 8:
		r := existing()
		var paths []string
		np := c.rng.Intn(4)
		for i := 0; i < np; i++ {
			paths = append(paths, c09Pick(c, append(c09Paths, "nosuch", "/x", "d")))
		}
		esc := make([]string, len(paths))
		for i, p := range paths {
			esc[i] = tr.Esc(p)
		}
		ps := strings.Join(esc, ",")
		if ps == "" {
			ps = "-"
		}
		c.w.Count(fmt.Sprintf("op=delfiles paths=%d", len(paths)))
		return w.runOp(c, "op delfiles repo="+tr.Esc(r)+" paths="+ps, pre, func() error { return core.DeleteEntriesFromRepo(r, w.env.Stores, paths) })
	default:
		n := other()
		if c.rng.Intn(3) == 0 {
			n = c09Pick(c, append(append([]string{}, names...), c09InvalidNames...))
		}
		return w.opCreate(c, pre, n, "late "+n)
	}
}

// ---- concurrent creators ----

func c09Descs(k int) ([]string, string) {
	ds := make([]string, k)
	es := make([]string, k)
	for i := range ds {
		ds[i] = fmt.Sprintf("creator-%d", i)
		es[i] = tr.Esc(ds[i])
	}
	return ds, strings.Join(es, ",")
}

func (w *c09World) stored(name string) string {
	data, ok := w.env.Meta.Raw(model.GetArchivePathToRepoDescriptor(name))
	if !ok {
		return "none"
	}
	var rd model.RepoDescriptor
	if yaml.Unmarshal(data, &rd) != nil {
		return "?"
	}
	return tr.Esc(rd.Description)
}

func c09Nats(xs []int) string {
	if len(xs) == 0 {
		return "-"
	}
	sort.Ints(xs)
	p := make([]string, len(xs))
	for i, x := range xs {
		p[i] = fmt.Sprint(x)
	}
	return strings.Join(p, ",")
}

func c09PickName(c *ctx) string {
	if c.rng.Intn(8) == 0 {
		return c09Pick(c, c09InvalidNames)
	}
	return c09Pick(c, c09ValidNames)
}

// c09Sched: every creator's Put waits at its own gate; the gates are opened in a chosen order.
func c09Sched(c *ctx) {
	k := 1 + c.rng.Intn(6)
	// order: a permutation of the creators with some repetitions and out-of-range indices
	var order []int
	for _, p := range c.rng.Perm(k) {
		order = append(order, p)
		if c.rng.Intn(3) == 0 {
			order = append(order, c.rng.Intn(k+2))
		}
	}
	c09SchedRun(c, c09PickName(c), k, order, c.rng.Intn(5) == 0)
}

// c09SchedAll: every order of the store calls of 1..4 creators.
func c09SchedAll(c *ctx) {
	var rec func(k int, cur []int, used []bool)
	rec = func(k int, cur []int, used []bool) {
		if len(cur) == k {
			c09SchedRun(c, "a-b", k, append([]int{}, cur...), false)
			c.w.Count("sched_exhaustive")
			return
		}
		for i := 0; i < k; i++ {
			if !used[i] {
				used[i] = true
				rec(k, append(cur, i), used)
				used[i] = false
			}
		}
	}
	for k := 1; k <= 4; k++ {
		rec(k, nil, make([]bool, k))
	}
}

func c09SchedRun(c *ctx, name string, k int, order []int, preExisting bool) {
	w := c09NewWorld()
	c.w.Case("sched k=%d", k)
	if preExisting {
		_ = corekit.Recover(func() error { return core.CreateRepo(c09RepoDesc(name, "pre-existing"), w.env.Stores) })
		c.w.Count("sched_pre_existing")
	}
	pre := w.dump(c)
	descs, escDescs := c09Descs(k)
	// repetitions must come after the first occurrence of every creator to keep the effective
	// order equal to the released order: they are no-ops on both sides anyway
	gates := make([]*c09store.Gate, k)
	results := make([]error, k)
	fin := make([]chan struct{}, k)
	for i := 0; i < k; i++ {
		gates[i] = c09store.New(w.env.Meta)
		fin[i] = make(chan struct{})
		st := corekit.WithStores(w.env.Wal, w.env.ReadLog, w.env.Blob, gates[i], w.env.VMeta)
		go func(i int) {
			defer close(fin[i])
			results[i] = corekit.Recover(func() error { return core.CreateRepo(c09RepoDesc(name, descs[i]), st) })
		}(i)
	}
	released := make([]bool, k)
	for _, i := range order {
		if i >= k || released[i] {
			continue
		}
		released[i] = true
		close(gates[i].Open)
		select { // the creator either performed its store call or returned without one
		case <-gates[i].Done:
			<-fin[i]
		case <-fin[i]:
		}
	}
	var oks []int
	for i := 0; i < k; i++ {
		<-fin[i]
		if results[i] == nil {
			oks = append(oks, i)
		}
	}
	post := w.snapshot()
	m, _ := c09Diff(pre, post)
	os := make([]string, len(order))
	for i, o := range order {
		os[i] = fmt.Sprint(o)
	}
	c.w.Op(fmt.Sprintf("sched name=%s k=%d aux=%d descs=%s order=%s", tr.Esc(name), k, c09RepoAux(name), escDescs, strings.Join(os, ",")),
		fmt.Sprintf("oks=%s stored=%s %s", c09Nats(oks), w.stored(name), m))
	c.w.Count(fmt.Sprintf("sched_creators=%d", k))
	c.w.End()
}

// c09Par: k goroutines call CreateRepo on the same name at the same time.
func c09Par(c *ctx) {
	w := c09NewWorld()
	k := 2 + c.rng.Intn(15)
	name := c09PickName(c)
	c.w.Case("par k=%d", k)
	if c.rng.Intn(6) == 0 {
		_ = corekit.Recover(func() error { return core.CreateRepo(c09RepoDesc(name, "pre-existing"), w.env.Stores) })
		c.w.Count("par_pre_existing")
	}
	w.dump(c)
	descs, escDescs := c09Descs(k)
	results := make([]error, k)
	start := make(chan struct{})
	var wg sync.WaitGroup
	for i := 0; i < k; i++ {
		wg.Add(1)
		go func(i int) {
			defer wg.Done()
			<-start
			results[i] = corekit.Recover(func() error { return core.CreateRepo(c09RepoDesc(name, descs[i]), w.env.Stores) })
		}(i)
	}
	close(start)
	wg.Wait()
	var oks []int
	for i, e := range results {
		if e == nil {
			oks = append(oks, i)
		}
	}
	c.w.Op(fmt.Sprintf("par name=%s k=%d aux=%d descs=%s oks=%s stored=%s", tr.Esc(name), k, c09RepoAux(name), escDescs, c09Nats(oks), w.stored(name)),
		"consistent")
	c.w.Count(fmt.Sprintf("par_creators=%d", k))
	c.w.Count(fmt.Sprintf("par_winners=%d", len(oks)))
	c.w.End()
}

// ---- demonstrations recorded in the evidence (not compared) ----

// c09SilentWorld: repository `a` with one committed EMPTY bundle (no file list, count = 0), one
// ordinary bundle and a label, on a metadata store whose Delete of a missing key succeeds
// (the behaviour of pkg/storage/localfs).
func c09SilentWorld() (*c09World, error) {
	w := c09NewWorld()
	if err := core.CreateRepo(c09RepoDesc("a", "d"), w.env.Stores); err != nil {
		return nil, err
	}
	if _, err := w.upload(nil, "a", map[string][]byte{}, 1000); err != nil {
		return nil, err
	}
	id, err := w.upload(nil, "a", map[string][]byte{"x": []byte("1")}, 1000)
	if err != nil {
		return nil, err
	}
	if err := w.label("a", "v1", id); err != nil {
		return nil, err
	}
	w.env.Meta.DeleteMissingOK = true
	return w, nil
}

// c09SilentChild runs DeleteRepo in a child process (it may never return) and prints the result.
func c09SilentChild() {
	w, err := c09SilentWorld()
	if err != nil {
		fmt.Println("setup-failed")
		return
	}
	res, _, _ := w.opResult(w.snapshot(), func() error { return core.DeleteRepo("a", w.env.Stores) })
	fmt.Println(res)
}

// c09SilentCase: the one case on a store with silent deletes (known finding: the
// delete-until-error loop of DeleteBundle never sees its error).
func c09SilentCase(c *ctx) error {
	w, err := c09SilentWorld()
	if err != nil {
		return err
	}
	c.w.Case("silent-delete store")
	w.dump(c)
	cmd := exec.Command(os.Args[0], "c09")
	cmd.Env = append(os.Environ(), "C09_SILENT_CHILD=1")
	done := make(chan string, 1)
	go func() {
		out, _ := cmd.Output()
		done <- strings.TrimSpace(string(out))
	}()
	var res string
	select {
	case res = <-done:
		if res == "" {
			res = "fatal"
		}
	case <-time.After(4 * time.Second):
		if cmd.Process != nil {
			_ = cmd.Process.Kill()
		}
		res = "hang"
	}
	c.w.Op("op delete repo=a store=silent", res)
	c.w.Count("silent_delete_store_case=" + strings.SplitN(res, " ", 2)[0])
	c.w.End()
	return nil
}

// c09LeftoverDemo: what DeleteRepo leaves behind of a never-committed bundle.
func c09LeftoverDemo() string {
	w := c09NewWorld()
	_ = core.CreateRepo(c09RepoDesc("a", "d"), w.env.Stores)
	id, err := w.upload(nil, "a", map[string][]byte{"x": []byte("1")}, 1000)
	if err != nil {
		return "setup failed"
	}
	w.env.Meta.RemoveRaw(model.GetArchivePathToBundle("a", id))
	err = corekit.Recover(func() error { return core.DeleteRepo("a", w.env.Stores) })
	var left []string
	for _, k := range w.env.Meta.SortedKeys() {
		left = append(left, w.absKey(k))
	}
	return fmt.Sprintf("DeleteRepo=%s remaining meta keys=%v", c09Class(err), left)
}

func c09(c *ctx) error {
	if os.Getenv("C09_SILENT_CHILD") != "" {
		c09SilentChild()
		return nil
	}
	nHist, nSched, nPar := 70, 250, 120
	if c.thorough() {
		nHist, nSched, nPar = 1500, 4000, 2000
	}
	for i := 0; i < nHist; i++ {
		if err := c09History(c); err != nil {
			return err
		}
	}
	c09SchedAll(c)
	c.extra["schedules_of_up_to_4_creators"] = "all 33 orders enumerated"
	for i := 0; i < nSched; i++ {
		c09Sched(c)
	}
	for i := 0; i < nPar; i++ {
		c09Par(c)
	}
	if err := c09SilentCase(c); err != nil {
		return err
	}
	c.extra["observation_delete_leaves_uncommitted_bundle_lists"] = c09LeftoverDemo()
	return nil
}
