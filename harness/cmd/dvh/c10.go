package main

// C10 — squash keeps exactly the requested bundles, intact.
//
// Every case builds a repository history with the REAL code on the reference store: committed
// uploads, uploads killed at a chosen mutating store call (c10store), labels. The metadata that
// is then really in the stores (descriptors with their file-list count, index files, labels with
// the semver verdict of github.com/blang/semver) is dumped as the input line `st …`; ids are
// replaced by their rank in KSUID order. `core.RepoSquash` runs in a goroutine (a call that does
// not return within the timeout is `hang`); afterwards the committed bundles (ListBundles), the
// labels (ListLabels) and a download of every kept bundle (compared with a download from a copy
// of the stores taken before the squash) are recorded.

import (
	"context"
	"fmt"
	"hash/crc32"
	"os"
	"sort"
	"strconv"
	"strings"
	"time"

	"github.com/blang/semver"
	"github.com/segmentio/ksuid"
	"gopkg.in/yaml.v2"

	"dvh/internal/c10store"
	"dvh/internal/corekit"
	"dvh/internal/memstore"
	"dvh/internal/tr"

	context2 "github.com/oneconcern/datamon/pkg/context"
	"github.com/oneconcern/datamon/pkg/core"
	"github.com/oneconcern/datamon/pkg/model"
)

func init() { subs["c10"] = c10 }

const c10Repo = "r10"

var c10Base = time.Date(2021, 3, 1, 0, 0, 0, 0, time.UTC)

// c10Up is one upload of the history.
type c10Up struct {
	id     string
	files  map[string][]byte
	epf    uint   // entries per index file; 0 = core.Upload (1000)
	leaf   uint32 // 0 = default
	crash  int    // 0 = runs to completion, k = killed at the k-th mutating store call
	landed bool   // descriptor present afterwards
}

type c10Hist struct {
	env      *corekit.Env
	ups      []*c10Up
	labels   map[string]string // name -> bundle id
	sec      int64
	events   []string
	rejected int
}

func c10NewHist() (*c10Hist, error) {
	h := &c10Hist{env: corekit.NewEnv(), labels: map[string]string{}}
	if err := h.env.CreateRepo(c10Repo); err != nil {
		return nil, fmt.Errorf("create repo: %v", err)
	}
	return h, nil
}

func c10CloneEnv(e *corekit.Env) *corekit.Env {
	c := &corekit.Env{Blob: e.Blob.Clone(), Meta: e.Meta.Clone(), VMeta: e.VMeta.Clone(), Wal: e.Wal.Clone(), ReadLog: e.ReadLog.Clone()}
	c.Stores = context2.NewStores(c.Wal, c.ReadLog, c.Blob, c.Meta, c.VMeta)
	return c
}

func (h *c10Hist) clone() *c10Hist {
	c := &c10Hist{env: c10CloneEnv(h.env), labels: map[string]string{}, sec: h.sec}
	c.ups = append(c.ups, h.ups...)
	for k, v := range h.labels {
		c.labels[k] = v
	}
	c.events = append(c.events, h.events...)
	return c
}

// c10NextID returns a fresh bundle id: the clock advances by gap seconds (0 = same second as the
// previous id: then the random payload decides the order).
func (h *c10Hist) nextID(rng *tr.Rng, gap int64) string {
	h.sec += gap
	var payload [16]byte
	for i := range payload {
		payload[i] = byte(rng.Intn(256))
	}
	id, err := ksuid.FromParts(c10Base.Add(time.Duration(h.sec)*time.Second), payload[:])
	if err != nil {
		panic(err)
	}
	return id.String()
}

func c10Files(rng *tr.Rng, n int) map[string][]byte {
	files := map[string][]byte{}
	for i := 0; i < n; i++ {
		sz := rng.Pick(0, 1, 7, 60, 64, 65, 200)
		files[fmt.Sprintf("d%d/f%03d", i%3, i)] = tr.GenBytes(rng.Uint64()|1, sz)
	}
	return files
}

func c10ProcStores(p *c10store.Process, e *corekit.Env) context2.Stores {
	return corekit.WithStores(p.Wrap(e.Wal), p.Wrap(e.ReadLog), p.Wrap(e.Blob), p.Wrap(e.Meta), p.Wrap(e.VMeta))
}

// c10RunUpload runs one upload through a process that dies at its crash-th mutating call and
// returns the number of mutating calls issued.
func c10RunUpload(e *corekit.Env, u *c10Up) (int, error) {
	p := c10store.NewProcess(u.crash)
	stores := c10ProcStores(p, e)
	b := corekit.NewBundle(stores, c10Repo, corekit.TreeStore(u.files), u.leaf, u.id, core.ConcurrentFileUploads(4))
	err := corekit.Recover(func() error {
		if u.epf == 0 {
			return core.Upload(context.Background(), b)
		}
		return core.VerifC10Upload(context.Background(), b, u.epf)
	})
	p.Kill() // nothing written by goroutines the upload left behind may land later
	return p.Calls(), err
}

func (h *c10Hist) upload(u *c10Up) error {
	_, err := c10RunUpload(h.env, u)
	has, _ := h.env.Meta.Has(context.Background(), model.GetArchivePathToBundle(c10Repo, u.id))
	u.landed = has
	if u.crash == 0 && (err != nil || !has) {
		return fmt.Errorf("upload of %s failed: %v", u.id, err)
	}
	if u.crash > 0 && err == nil && !has {
		return fmt.Errorf("upload of %s: no error and no descriptor", u.id)
	}
	h.ups = append(h.ups, u)
	h.events = append(h.events, fmt.Sprintf("up:f%d:e%d:k%d", len(u.files), u.epf, u.crash))
	return nil
}

func (h *c10Hist) label(name, id string) error {
	b := corekit.NewBundle(h.env.Stores, c10Repo, nil, 0, id)
	l := core.NewLabel(core.LabelDescriptor(model.NewLabelDescriptor(model.LabelName(name))))
	if err := corekit.Recover(func() error { return l.UploadDescriptor(context.Background(), b) }); err != nil {
		if corekit.ErrClass(err) == "panic" {
			return fmt.Errorf("label %s: %v", name, err)
		}
		h.rejected++ // a name the code refuses (name validation is C08): the label simply does not exist
		return nil
	}
	h.labels[name] = id
	return nil
}

func c10IsSemver(name string) bool {
	_, err := semver.ParseTolerant(name)
	return err == nil
}

// c10State is the metadata really present in the stores, ids replaced by ranks.
type c10State struct {
	rank   map[string]int
	ids    []string
	descs  map[string]uint64 // id -> BundleEntriesFileCount
	idx    map[string][]int
	labels map[string]string
}

func c10ReadState(e *corekit.Env, extraIDs []string) (*c10State, error) {
	st := &c10State{rank: map[string]int{}, descs: map[string]uint64{}, idx: map[string][]int{}, labels: map[string]string{}}
	seen := map[string]bool{}
	prefix := model.GetArchivePathPrefixToBundles(c10Repo)
	for _, k := range e.Meta.SortedKeys() {
		if !strings.HasPrefix(k, prefix) {
			continue
		}
		parts := strings.Split(k[len(prefix):], "/")
		if len(parts) != 2 {
			return nil, fmt.Errorf("unexpected key %q", k)
		}
		id, file := parts[0], parts[1]
		seen[id] = true
		switch {
		case file == "bundle.yaml":
			bd, err := c10Descriptor(e, id)
			if err != nil {
				return nil, err
			}
			st.descs[id] = bd.BundleEntriesFileCount
		case strings.HasPrefix(file, "bundle-files-") && strings.HasSuffix(file, ".yaml"):
			i, err := strconv.Atoi(file[len("bundle-files-") : len(file)-len(".yaml")])
			if err != nil {
				return nil, fmt.Errorf("unexpected key %q", k)
			}
			st.idx[id] = append(st.idx[id], i)
		default:
			return nil, fmt.Errorf("unexpected key %q", k)
		}
	}
	lprefix := model.GetArchivePathPrefixToLabels(c10Repo)
	for _, k := range e.VMeta.SortedKeys() {
		if !strings.HasPrefix(k, lprefix) {
			continue
		}
		name := strings.TrimSuffix(k[len(lprefix):], "/label.yaml")
		raw, _ := e.VMeta.Raw(k)
		var ld model.LabelDescriptor
		if err := yaml.Unmarshal(raw, &ld); err != nil {
			return nil, fmt.Errorf("label %q: %v", k, err)
		}
		st.labels[name] = ld.BundleID
		seen[ld.BundleID] = true
	}
	for _, id := range extraIDs {
		seen[id] = true
	}
	for id := range seen {
		st.ids = append(st.ids, id)
	}
	sort.Strings(st.ids)
	for i, id := range st.ids {
		st.rank[id] = i
	}
	for _, l := range st.idx {
		sort.Ints(l)
	}
	return st, nil
}

func c10Descriptor(e *corekit.Env, id string) (*model.BundleDescriptor, error) {
	raw, ok := e.Meta.Raw(model.GetArchivePathToBundle(c10Repo, id))
	if !ok {
		return nil, fmt.Errorf("no descriptor for %s", id)
	}
	var bd model.BundleDescriptor
	if err := yaml.Unmarshal(raw, &bd); err != nil {
		return nil, err
	}
	return &bd, nil
}

func (st *c10State) line() string {
	var ds, is, ls []string
	for _, id := range st.ids {
		if c, ok := st.descs[id]; ok {
			ds = append(ds, fmt.Sprintf("%d:%d", st.rank[id], c))
		}
		for _, i := range st.idx[id] {
			is = append(is, fmt.Sprintf("%d:%d", st.rank[id], i))
		}
	}
	names := make([]string, 0, len(st.labels))
	for n := range st.labels {
		names = append(names, n)
	}
	sort.Strings(names)
	for _, n := range names {
		sv := 0
		if c10IsSemver(n) {
			sv = 1
		}
		ls = append(ls, fmt.Sprintf("%s:%d:%d", tr.Esc(n), st.rank[st.labels[n]], sv))
	}
	return fmt.Sprintf("st descs=%s idx=%s labels=%s", strings.Join(ds, ","), strings.Join(is, ","), strings.Join(ls, ","))
}

// c10Download publishes one bundle from the given stores.
func c10Download(stores context2.Stores, id string, epf uint) (map[string][]byte, error) {
	dst := memstore.New("dest")
	b := corekit.NewBundle(stores, c10Repo, dst, 0, id)
	err := corekit.Recover(func() error {
		if epf == 0 {
			return core.Publish(context.Background(), b)
		}
		return core.VerifC10Publish(context.Background(), b, epf)
	})
	return dst.Snapshot(), err
}

func c10SameFiles(a, b map[string][]byte) bool {
	if len(a) != len(b) {
		return false
	}
	for k, v := range a {
		w, ok := b[k]
		if !ok || string(v) != string(w) {
			return false
		}
	}
	return true
}

var c10Page int

type c10Opts struct {
	n      int
	tags   bool
	semver bool
	silent bool
	repo   bool
}

// c10Timeout: a squash that has not returned by then is recorded as `hang` (VERIF_C10_TIMEOUT_MS overrides).
var c10Timeout = func() time.Duration {
	if ms, err := strconv.Atoi(os.Getenv("VERIF_C10_TIMEOUT_MS")); err == nil && ms > 0 {
		return time.Duration(ms) * time.Millisecond
	}
	return 20 * time.Second
}()

// c10Squash dumps the state, squashes and records the observables. It consumes the history.
func c10Squash(c *ctx, h *c10Hist, o c10Opts, danglingIDs []string) error {
	st, err := c10ReadState(h.env, danglingIDs)
	if err != nil {
		return err
	}
	// what the harness did must be what is in the stores
	for n, id := range h.labels {
		if st.labels[n] != id {
			return fmt.Errorf("label %q: store has %q, history has %q", n, st.labels[n], id)
		}
	}
	if len(st.labels) != len(h.labels) {
		return fmt.Errorf("labels in store %d, in history %d", len(st.labels), len(h.labels))
	}
	epf := map[string]uint{}
	for _, u := range h.ups {
		epf[u.id] = u.epf
		if _, ok := st.descs[u.id]; ok != u.landed {
			return fmt.Errorf("bundle %s: descriptor present=%v, upload landed=%v", u.id, ok, u.landed)
		}
	}
	stLine := st.line()
	c.w.Note(stLine)
	before := c10CloneEnv(h.env)
	h.env.Meta.DeleteMissingOK = o.silent
	h.env.VMeta.DeleteMissingOK = o.silent

	repo := c10Repo
	if !o.repo {
		repo = "missing"
	}
	proc := c10store.NewProcess(0)
	stores := c10ProcStores(proc, h.env)
	done := make(chan error, 1)
	go func() {
		done <- corekit.Recover(func() error {
			// the listing page size is not part of the contract: 1, 2, 3 or the default give the same squash
			c10Page++
			return core.RepoSquash(stores, repo, core.WithRetainNLatest(o.n), core.WithRetainTags(o.tags), core.WithRetainSemverTags(o.semver),
				core.BatchSize([]int{1024, 1, 2, 3}[c10Page%4]))
		})
	}()
	var res string
	select {
	case err := <-done:
		switch corekit.ErrClass(err) {
		case "ok":
			res = "ok"
		case "panic":
			res = "panic"
		default:
			res = "err"
		}
	case <-time.After(c10Timeout):
		res = "hang"
		proc.Kill() // the abandoned goroutine now gets an error from every store call and winds down
	}
	c.w.Count("squash=" + res)

	// observables
	after, err := c10ReadState(h.env, nil)
	if err != nil {
		return err
	}
	bundles, lerr := core.ListBundles(c10Repo, h.env.Stores)
	if lerr != nil {
		return fmt.Errorf("ListBundles after squash: %v", lerr)
	}
	var kept, dl, rawKept, left []string
	for _, b := range bundles {
		r, ok := st.rank[b.ID]
		if !ok {
			return fmt.Errorf("bundle %s listed after squash is unknown", b.ID)
		}
		kept = append(kept, strconv.Itoa(r))
		want, e1 := c10Download(before.Stores, b.ID, epf[b.ID])
		got, e2 := c10Download(h.env.Stores, b.ID, epf[b.ID])
		v := "same"
		switch {
		case e1 != nil:
			v = "unreadable-before"
		case e2 != nil:
			v = "fails"
		case !c10SameFiles(want, got):
			v = "differs"
		}
		dl = append(dl, fmt.Sprintf("%d:%s", r, v))
		c.w.Count("download=" + v)
	}
	for _, id := range st.ids {
		_, hasDesc := after.descs[id]
		if hasDesc {
			rawKept = append(rawKept, strconv.Itoa(st.rank[id]))
		} else if len(after.idx[id]) > 0 {
			left = append(left, strconv.Itoa(st.rank[id]))
		}
	}
	labels, lerr := core.ListLabels(c10Repo, h.env.Stores)
	if lerr != nil {
		return fmt.Errorf("ListLabels after squash: %v", lerr)
	}
	sort.Slice(labels, func(i, j int) bool { return labels[i].Name < labels[j].Name })
	var ls, xls []string
	for _, l := range labels {
		r, ok := st.rank[l.BundleID]
		if !ok {
			return fmt.Errorf("label %s after squash points at unknown %s", l.Name, l.BundleID)
		}
		item := fmt.Sprintf("%s:%d", tr.Esc(l.Name), r)
		if _, committed := st.descs[l.BundleID]; committed {
			ls = append(ls, item)
		} else {
			xls = append(xls, item)
		}
	}
	tags, sv, silent, rp := 0, 0, 0, 0
	if o.tags {
		tags = 1
	}
	if o.semver {
		sv = 1
	}
	if o.silent {
		silent = 1
	}
	if o.repo {
		rp = 1
	}
	// st=<digest of the state line>: makes the operation text identify the whole input (ignored by the model)
	op := fmt.Sprintf("squash n=%d tags=%d semver=%d silent=%d repo=%d st=%08x", o.n, tags, sv, silent, rp, crc32.ChecksumIEEE([]byte(stLine)))
	result := res
	if res == "ok" {
		result = fmt.Sprintf("ok kept=%s labels=%s dl=%s ## raw=%s left=%s xlabels=%s svdiff=0", strings.Join(kept, ","), strings.Join(ls, ","),
			strings.Join(dl, ","), strings.Join(rawKept, ","), strings.Join(left, ","), strings.Join(xls, ","))
	}
	c.w.Op(op, result)
	c.w.Count(fmt.Sprintf("retainN=%d", o.n))
	c.w.Count(fmt.Sprintf("retain tags=%d semver=%d", tags, sv))
	c.w.Count(fmt.Sprintf("store silent-delete=%d", silent))
	nc, nl := len(st.descs), 0
	for id := range st.idx {
		if _, ok := st.descs[id]; !ok {
			nl++
		}
	}
	c.w.Count("committed=" + c10Bucket(nc))
	c.w.Count("leftovers=" + c10Bucket(nl))
	c.w.Count("labels=" + c10Bucket(len(st.labels)))
	if h.rejected > 0 {
		c.w.Count("label-names-rejected-by-the-code")
	}
	if nl > 0 && nc > 0 {
		// is the greatest id a leftover?
		top := st.ids[len(st.ids)-1]
		for i := len(st.ids) - 1; i >= 0; i-- {
			id := st.ids[i]
			if _, ok := st.descs[id]; ok || len(st.idx[id]) > 0 {
				top = id
				break
			}
		}
		if _, ok := st.descs[top]; !ok {
			c.w.Count("leftover-is-most-recent-id")
		}
	}
	return nil
}

func c10Bucket(n int) string {
	switch {
	case n == 0:
		return "0"
	case n <= 2:
		return "1-2"
	case n <= 5:
		return "3-5"
	case n <= 10:
		return "6-10"
	case n <= 20:
		return "11-20"
	default:
		return "21-40"
	}
}

var c10SemverNames = []string{"v1.2.3", "1.0", "1", "1.2.3-rc1", "2.0.0+build5", "v0.0.1", "01.2", "10.20.30", "1.2.3-alpha.1", "v2"}
var c10PlainNames = []string{"latest", "prod-3", "1.2.3.4", "v", "1.x", "-1", "1.2.3-", "release", "vv1.0", "1..2", "1.2.3-01", "a.b.c", "1.2.3+"}

func c10LabelName(rng *tr.Rng) string {
	switch rng.Intn(5) {
	case 0, 1:
		return rng.PickS(c10SemverNames...)
	case 2, 3:
		return rng.PickS(c10PlainNames...)
	default:
		// random shape around the grammar
		pre := rng.PickS("", "v", "V", "r")
		n := 1 + rng.Intn(4)
		parts := make([]string, n)
		for i := range parts {
			parts[i] = rng.PickS("0", "1", "2", "10", "03", "x", "")
		}
		name := pre + strings.Join(parts, ".") + rng.PickS("", "", "-rc1", "+b", "-", "-0a", "-01")
		// keep to names the label listing accepts (C08): first character alphanumeric or '-'
		if name == "" || name[0] == '.' || name[0] == '+' {
			name = "x" + name
		}
		return name
	}
}

func c10Retain(i int) (bool, bool) { return i&1 == 1, i&2 == 2 }

// c10Random builds one random history and squashes it.
func c10Random(c *ctx, maxUps int) error {
	rng := c.rng
	h, err := c10NewHist()
	if err != nil {
		return err
	}
	nUps := rng.Intn(maxUps + 1)
	if rng.Intn(4) == 0 {
		nUps = rng.Intn(5)
	}
	pLeft := rng.Pick(0, 10, 25, 50)
	for i := 0; i < nUps; i++ {
		gap := int64(1 + rng.Intn(3))
		if rng.Intn(8) == 0 {
			gap = 0
		}
		u := &c10Up{id: h.nextID(rng, gap), files: c10Files(rng, rng.Pick(0, 1, 1, 2, 3, 5, 7)), epf: uint(rng.Pick(1, 2, 3, 0)), leaf: uint32(rng.Pick(1<<16, 1<<16, 1<<17, 1<<15))}
		if rng.Intn(100) < pLeft {
			u.crash = 1 + rng.Intn(2*len(u.files)+3)
		}
		if err := h.upload(u); err != nil {
			return err
		}
	}
	// labels
	var dangling []string
	if len(h.ups) > 0 {
		nLab := rng.Intn(len(h.ups) + 2)
		for i := 0; i < nLab; i++ {
			target := h.ups[rng.Intn(len(h.ups))]
			if !target.landed && rng.Intn(3) != 0 {
				continue // labels on leftovers are rare
			}
			if err := h.label(c10LabelName(rng), target.id); err != nil {
				return err
			}
		}
	}
	if rng.Intn(12) == 0 {
		id := h.nextID(rng, 1)
		dangling = append(dangling, id)
		if err := h.label("dangling", id); err != nil {
			return err
		}
	}
	tags, sv := c10Retain(rng.Intn(4))
	o := c10Opts{n: 1 + rng.Intn(5), tags: tags, semver: sv, silent: rng.Intn(3) == 0, repo: true}
	if rng.Intn(40) == 0 {
		o.n = 0 // ignored by WithRetainNLatest: the default applies
	}
	c.w.Case("random ups=%d hist=%s", len(h.ups), strings.Join(h.events, ","))
	err = c10Squash(c, h, o, dangling)
	c.w.End()
	return err
}

// c10CrashPoints: a base history, then one upload killed at EVERY mutating call, placed as the most
// recent / a middle / the oldest id, squashed with every retain option.
func c10CrashPoints(c *ctx, nBase int, nFiles int, epf uint, silent bool, allOptions bool, sparse bool) error {
	rng := c.rng
	base, err := c10NewHist()
	if err != nil {
		return err
	}
	base.sec = 100
	pos := rng.Intn(3) // 0: leftover is the most recent id, 1: in the middle, 2: the oldest
	var leftID string
	if pos == 2 {
		leftID = base.nextID(rng, 1)
	}
	for i := 0; i < nBase; i++ {
		if pos == 1 && i == nBase/2 {
			leftID = base.nextID(rng, 2)
		}
		u := &c10Up{id: base.nextID(rng, 2), files: c10Files(rng, 1+rng.Intn(3)), epf: uint(rng.Pick(1, 2, 0)), leaf: 1 << 16}
		if err := base.upload(u); err != nil {
			return err
		}
		if rng.Intn(2) == 0 {
			if err := base.label(c10LabelName(rng), u.id); err != nil {
				return err
			}
		}
	}
	if leftID == "" {
		leftID = base.nextID(rng, 2)
	}
	files := c10Files(rng, nFiles)
	// how many mutating calls does the complete upload issue?
	probe := base.clone()
	total, err := c10RunUpload(probe.env, &c10Up{id: leftID, files: files, epf: epf, leaf: 1 << 16})
	if err != nil {
		return fmt.Errorf("probe upload: %v", err)
	}
	c.w.Count(fmt.Sprintf("crash-points-per-upload=%d", total))
	for k := 1; k <= total+1; k++ {
		if sparse && k != 1 && k != total/2 && k < total-12 {
			continue // a large upload: only the crash points around the index-file and descriptor writes
		}
		for ret := 0; ret < 4; ret++ {
			if !allOptions && ret != (k+nBase)%4 {
				continue
			}
			h := base.clone()
			if err := h.upload(&c10Up{id: leftID, files: files, epf: epf, leaf: 1 << 16, crash: k}); err != nil {
				return err
			}
			if rng.Intn(3) == 0 {
				// a label on the interrupted upload's id (datamon does not check the target of a label)
				if err := h.label("onleft", leftID); err != nil {
					return err
				}
			}
			tags, sv := c10Retain(ret)
			o := c10Opts{n: 1 + rng.Intn(3), tags: tags, semver: sv, silent: silent, repo: true}
			c.w.Case("crash base=%d files=%d epf=%d pos=%d k=%d/%d", nBase, nFiles, epf, pos, k, total)
			err := c10Squash(c, h, o, nil)
			c.w.End()
			if err != nil {
				return err
			}
		}
	}
	return nil
}

func c10(c *ctx) error {
	// 1. the history of §5.0: two committed uploads, a third killed at its second metadata write
	for _, silent := range []bool{false, true} {
		h, err := c10NewHist()
		if err != nil {
			return err
		}
		for i := 0; i < 2; i++ {
			if err := h.upload(&c10Up{id: h.nextID(c.rng, 2), files: c10Files(c.rng, 2), epf: 1, leaf: 1 << 16}); err != nil {
				return err
			}
		}
		u := &c10Up{id: h.nextID(c.rng, 2), files: c10Files(c.rng, 2), epf: 1, leaf: 1 << 16}
		// find the crash point that leaves exactly one index file
		for k := 1; k < 20; k++ {
			t := h.clone()
			u.crash = k
			if err := t.upload(u); err != nil {
				return err
			}
			st, err := c10ReadState(t.env, nil)
			if err != nil {
				return err
			}
			if len(st.idx[u.id]) == 1 && !u.landed {
				c.w.Case("witness two committed, one killed at its second metadata write")
				err = c10Squash(c, t, c10Opts{n: 1, silent: silent, repo: true}, nil)
				c.w.End()
				if err != nil {
					return err
				}
				break
			}
		}
	}
	// 2. trivial: empty repository, missing repository, an empty committed bundle (count = 0)
	for _, silent := range []bool{false, true} {
		h, err := c10NewHist()
		if err != nil {
			return err
		}
		c.w.Case("empty repository")
		err = c10Squash(c, h, c10Opts{n: 1, silent: silent, repo: true}, nil)
		c.w.End()
		if err != nil {
			return err
		}
		h, _ = c10NewHist()
		c.w.Case("missing repository")
		err = c10Squash(c, h, c10Opts{n: 1, silent: silent, repo: false}, nil)
		c.w.End()
		if err != nil {
			return err
		}
		h, _ = c10NewHist()
		for i := 0; i < 3; i++ {
			if err := h.upload(&c10Up{id: h.nextID(c.rng, 2), files: c10Files(c.rng, i%2), epf: 1, leaf: 1 << 16}); err != nil {
				return err
			}
		}
		c.w.Case("empty bundles (no index file, count 0)")
		err = c10Squash(c, h, c10Opts{n: 1, silent: silent, repo: true}, nil)
		c.w.End()
		if err != nil {
			return err
		}
	}
	// 3. every crash point
	rounds := 5
	if c.thorough() {
		rounds = 12
	}
	for r := 0; r < rounds; r++ {
		nBase := r % 4
		nFiles := c.rng.Pick(1, 2, 3, 4, 6)
		epf := uint(c.rng.Pick(1, 2, 3))
		if err := c10CrashPoints(c, nBase, nFiles, epf, r%3 == 2, c.thorough(), false); err != nil {
			return err
		}
	}
	if c.thorough() {
		// the shipped entry point (1000 entries per index file) with > 1000 files: two index files
		if err := c10CrashPoints(c, 2, 1003, 0, false, false, true); err != nil {
			return err
		}
	}
	// 4. random histories of 0..40 uploads
	n := 250
	if c.thorough() {
		n = 4000
	}
	for i := 0; i < n; i++ {
		maxUps := 40
		if i%3 != 0 {
			maxUps = 10
		}
		if err := c10Random(c, maxUps); err != nil {
			return err
		}
	}
	// 5. the semver recogniser of the Lean driver against the library, on every name the generator can emit
	names := append(append([]string{}, c10SemverNames...), c10PlainNames...)
	for i := 0; i < 400; i++ {
		names = append(names, c10LabelName(c.rng))
	}
	sort.Strings(names)
	for i, nm := range names {
		if i > 0 && names[i-1] == nm {
			continue
		}
		v := 0
		if c10IsSemver(nm) {
			v = 1
		}
		c.w.Cases++
		c.w.Op("sv name="+tr.Esc(nm), fmt.Sprintf("ok ## semver=%d", v))
	}
	c.extra["timeout_s"] = c10Timeout.Seconds()
	return nil
}
