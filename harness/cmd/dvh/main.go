// dvh: the correspondence harness. One sub-command per property; each writes a trace
// (`<op> => <implementation result>` lines) that the Lean model driver replays.
package main

import (
	"encoding/json"
	"flag"
	"fmt"
	"os"
	"sort"

	"dvh/internal/tr"
)

type ctx struct {
	seed  uint64
	tier  string
	w     *tr.W
	rng   *tr.Rng
	only  int    // when > 0 run only this case number (replay)
	sub   string // the sub-command (property) being run
	extra map[string]interface{}
}

func (c *ctx) thorough() bool { return c.tier == "thorough" }

type sub func(c *ctx) error

var subs = map[string]sub{}

func main() {
	if len(os.Args) < 2 {
		names := []string{}
		for k := range subs {
			names = append(names, k)
		}
		sort.Strings(names)
		fmt.Fprintln(os.Stderr, "usage: dvh <sub> [-seed n] [-tier quick|thorough] [-out file] [-stats file]; subs:", names)
		os.Exit(2)
	}
	name := os.Args[1]
	fs := flag.NewFlagSet(name, flag.ExitOnError)
	seed := fs.Uint64("seed", 1, "PRNG seed")
	tier := fs.String("tier", "quick", "quick|thorough")
	out := fs.String("out", "-", "trace file")
	stats := fs.String("stats", "", "stats json file")
	only := fs.Int("only", 0, "run only this case")
	_ = fs.Parse(os.Args[2:])
	f, ok := subs[name]
	if !ok {
		fmt.Fprintln(os.Stderr, "unknown sub-command", name)
		os.Exit(2)
	}
	w, err := tr.NewW(*out)
	if err != nil {
		fmt.Fprintln(os.Stderr, err)
		os.Exit(2)
	}
	c := &ctx{sub: name, seed: *seed, tier: *tier, w: w, rng: tr.NewRng(*seed*0x9E3779B97F4A7C15 + 12345), only: *only, extra: map[string]interface{}{}}
	if err := f(c); err != nil {
		fmt.Fprintln(os.Stderr, "harness error:", err)
		_ = w.Close()
		os.Exit(3)
	}
	if err := w.Close(); err != nil {
		fmt.Fprintln(os.Stderr, err)
		os.Exit(3)
	}
	if _, _, child := inChild(); *stats != "" && !child {
		st := map[string]interface{}{"cases": w.Cases, "ops": w.Ops, "distribution": w.StatsLines(), "extra": c.extra}
		b, _ := json.MarshalIndent(st, "", " ")
		_ = os.WriteFile(*stats, b, 0o644)
	}
}
