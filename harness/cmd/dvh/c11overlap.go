package main

import (
	"context"
	"fmt"
	"io"
	"strings"
	"time"

	"dvh/internal/corekit"
	"dvh/internal/memstore"

	"github.com/oneconcern/datamon/pkg/core"
	"github.com/oneconcern/datamon/pkg/model"
)

// c11GateStore is a consumable store whose Get of one key waits for a signal: the upload of that
// file happens when the harness says so.
type c11GateStore struct {
	*memstore.Store
	key  string
	gate chan struct{}
}

func (g *c11GateStore) Get(ctx context.Context, key string) (io.ReadCloser, error) {
	if key == g.key {
		<-g.gate
	}
	return g.Store.Get(ctx, key)
}

// c11Overlap: two split uploads that OVERLAP in time. Split "long" starts first and uploads the
// contested path last (gated); split "quick" starts later, uploads its own version of that path and
// completes in between. The latest upload of the path is therefore long's, whatever the order in
// which the splits started or finished: the upload times given to the model are the TRUE order of
// the uploads (known to the harness), not the times the implementation recorded.
func c11Overlap(c *ctx) error {
	env := corekit.NewEnv()
	repo := "r"
	if err := env.CreateRepo(repo); err != nil {
		return err
	}
	dd, err := core.CreateDiamond(repo, env.Stores, core.DiamondLogger(corekit.Nop))
	if err != nil {
		return err
	}
	longFiles := map[string][]byte{"a": c11Content(1), "p": c11Content(2)}
	quickFiles := map[string][]byte{"p": c11Content(3), "q": c11Content(4)}
	gs := &c11GateStore{Store: corekit.TreeStore(longFiles), key: "p", gate: make(chan struct{})}
	longDone := make(chan error, 1)
	go func() {
		longDone <- corekit.Recover(func() error {
			sd, err := core.CreateSplit(repo, dd.DiamondID, env.Stores,
				core.SplitDescriptor(model.NewSplitDescriptor(model.SplitID("long"))), core.SplitLogger(corekit.Nop))
			if err != nil {
				return err
			}
			return core.NewSplit(repo, dd.DiamondID, env.Stores,
				core.SplitDescriptor(&sd), core.SplitConsumableStore(gs), core.SplitLogger(corekit.Nop)).Upload()
		})
	}()
	time.Sleep(150 * time.Millisecond) // long has started (its uncontested file goes up now)
	if err := c11UploadSplit(env, repo, dd.DiamondID, "quick", quickFiles); err != nil {
		close(gs.gate)
		<-longDone
		return fmt.Errorf("quick split: %v", err)
	}
	time.Sleep(20 * time.Millisecond)
	close(gs.gate) // only now does long upload the contested path
	select {
	case err := <-longDone:
		if err != nil {
			return fmt.Errorf("long split: %v", err)
		}
	case <-time.After(60 * time.Second):
		return fmt.Errorf("long split: hang")
	}
	bs, full, err := c11ReadSplits(env, repo, dd.DiamondID)
	if err != nil {
		return err
	}
	// true upload order: long/a first, then quick's files, then long/p
	for i := range bs {
		for j := range bs[i].ents {
			e := &bs[i].ents[j]
			switch {
			case bs[i].split == "long" && e.path == "a":
				e.t = 1
			case bs[i].split == "quick" && e.path == "p":
				e.t = 2
			case bs[i].split == "quick":
				e.t = 3
			default:
				e.t = 4
			}
		}
	}
	byHash := map[string][]byte{}
	for sid, m := range full {
		for p, h := range m {
			if sid == "long" {
				byHash[h] = longFiles[p]
			} else {
				byHash[h] = quickFiles[p]
			}
		}
	}
	for _, m := range c11Modes {
		res := c11Commit(c11CloneEnv(env), repo, dd.DiamondID, m.mode, byHash)
		c.w.Cases++
		if strings.HasPrefix(res, "ok ") {
			res += " ## trig=0"
		}
		c.w.Op(fmt.Sprintf("e2e mode=%s splits=%s", m.name, c11ShowBatches(bs)), res)
		c.w.Count("op=e2e-overlap")
	}
	return nil
}
