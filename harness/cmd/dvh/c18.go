package main

// C18 — a mutable mount behaves like a file system and commits what it shows.
//
// The harness plays the kernel: it drives the fuseutil.FileSystem operation object of a real
// fuse.MutableFS (no kernel mount) with random programs that follow the FUSE protocol — every inode it
// passes is one it holds a lookup reference for, forgets never exceed lookups, the checks the VFS makes
// before calling a file system (kinds of rename/unlink/rmdir targets, no directory moved below itself,
// no removed directory as parent) are made here. Inodes appear in the trace as RANKS (order in which the
// kernel first received them). Each program ends with an audit of the tables, a commit and a download.
//
// The mutable mount can end the process (fatal runtime errors cannot be recovered), so every program
// runs in a worker subprocess (this binary re-executed with DVH_C18_WORKER=1) that reports each
// operation before running it; a worker that dies gives `fatal`, one that stalls `hang`.
//
// `gen` lines are raw alloc/free histories of the inode generator (exhaustive up to a small length, then
// random), compared number by number with the Lean generator model; `store` lines are create / lookup /
// unlink / forget histories on a flat directory, compared in raw inode numbers, reference counts and link
// counts with the Lean model of the inode store.
//
// One program in five ends with one operation the VFS would never send (see offProtocol): those lines carry
// a known-finding trigger in the model's output.

import (
	"bufio"
	"context"
	"encoding/binary"
	"errors"
	"fmt"
	"hash/fnv"
	"os"
	"os/exec"
	"path/filepath"
	"runtime"
	"sort"
	"strconv"
	"strings"
	"sync"
	"syscall"
	"time"

	"dvh/internal/memstore"
	"dvh/internal/tr"

	"github.com/jacobsa/fuse/fuseops"
	"github.com/jacobsa/fuse/fuseutil"
	"github.com/spf13/afero"
	"go.uber.org/zap"

	context2 "github.com/oneconcern/datamon/pkg/context"
	"github.com/oneconcern/datamon/pkg/core"
	dfuse "github.com/oneconcern/datamon/pkg/fuse"
	"github.com/oneconcern/datamon/pkg/model"
	"github.com/oneconcern/datamon/pkg/storage/localfs"
)

func init() { subs["c18"] = c18 }

const c18WorkerEnv = "DVH_C18_WORKER"

func c18(c *ctx) error {
	if os.Getenv(c18WorkerEnv) != "" {
		return c18Worker(c)
	}
	t0 := time.Now()
	c18GenHistories(c)
	t1 := time.Now()
	if err := c18StoreHistories(c); err != nil {
		return err
	}
	t2 := time.Now()
	err := c18Programs(c)
	if err == nil {
		err = c18Races(c)
	}
	c.extra["phase_seconds"] = map[string]float64{"gen": t1.Sub(t0).Seconds(), "store": t2.Sub(t1).Seconds(), "programs": time.Since(t2).Seconds()}
	return err
}

// ---------------------------------------------------------------------------------------
// inode generator histories (in process: the generator cannot crash)
// ---------------------------------------------------------------------------------------

func c18GenCase(c *ctx, ops []int) { // op: -1 = alloc, k>=0 = free k-th live
	g := dfuse.VerifNewInodeGen()
	var live []uint64
	txt := make([]string, len(ops))
	res := make([]string, len(ops))
	for i, o := range ops {
		if o < 0 {
			n := g.Alloc()
			live = append(live, n)
			txt[i], res[i] = "a", strconv.FormatUint(n, 10)
		} else {
			g.Free(live[o])
			live = append(live[:o:o], live[o+1:]...)
			txt[i], res[i] = "f"+strconv.Itoa(o), "-"
		}
	}
	hi, free := g.State()
	fs := make([]string, len(free))
	for i, f := range free {
		fs[i] = strconv.FormatUint(f, 10)
	}
	c.w.Cases++
	c.w.Op("gen ops="+strings.Join(txt, ","), fmt.Sprintf("%s ## hi=%d free=%s", strings.Join(res, ","), hi, strings.Join(fs, ",")))
	c.w.Count(fmt.Sprintf("gen:len=%02d", (len(ops)+4)/5*5))
}

func c18GenHistories(c *ctx) {
	depth, random, maxLen := 7, 3000, 40
	if c.thorough() {
		depth, random, maxLen = 9, 40000, 120
	}
	var rec func(ops []int, live int)
	rec = func(ops []int, live int) {
		if len(ops) == depth {
			c18GenCase(c, ops)
			return
		}
		rec(append(ops[:len(ops):len(ops)], -1), live+1)
		for k := 0; k < live; k++ {
			rec(append(ops[:len(ops):len(ops)], k), live-1)
		}
	}
	rec(nil, 0)
	c.extra["gen_exhaustive_length"] = depth
	for i := 0; i < random; i++ {
		n := 1 + c.rng.Intn(maxLen)
		ops := make([]int, 0, n)
		live := 0
		pfree := c.rng.Pick(20, 40, 50, 60)
		for j := 0; j < n; j++ {
			if live > 0 && c.rng.Intn(100) < pfree {
				ops = append(ops, c.rng.Intn(live))
				live--
			} else {
				ops = append(ops, -1)
				live++
			}
		}
		c18GenCase(c, ops)
	}
}

// ---------------------------------------------------------------------------------------
// inode store histories: create / lookup / unlink / forget on a flat directory, compared in RAW inode
// numbers, reference counts and link counts with the Lean model of the store (Inode.Store)
// ---------------------------------------------------------------------------------------

type c18Env struct {
	m   *dfuse.MutableFS
	fs  fuseutil.FileSystem
	b   *core.Bundle
	st  context2.Stores
	dir string
}

func c18NewEnv(dir string) (*c18Env, error) {
	_ = os.RemoveAll(dir)
	staging := filepath.Join(dir, "staging")
	if err := os.MkdirAll(staging, 0o755); err != nil {
		return nil, err
	}
	st := context2.NewStores(memstore.New("wal"), memstore.New("readlog"), memstore.New("blob"), memstore.New("meta"), memstore.New("vmeta"))
	if err := core.CreateRepo(model.RepoDescriptor{Name: "r", Description: "c18"}, st); err != nil {
		return nil, err
	}
	b := core.NewBundle(core.Repo("r"), core.ContextStores(st),
		core.ConsumableStore(localfs.New(afero.NewBasePathFs(afero.NewOsFs(), staging))),
		core.BundleDescriptor(model.NewBundleDescriptor(model.Message("c18"))),
		core.Logger(zap.NewNop()))
	m, err := dfuse.NewMutableFS(b, dfuse.Logger(zap.NewNop()))
	if err != nil {
		return nil, err
	}
	return &c18Env{m: m, fs: m.VerifFS(), b: b, st: st, dir: dir}, nil
}

type c18Node struct {
	ino  uint64
	name string
	dir  bool
}

func c18StoreCase(c *ctx, dir string, n int) error {
	e, err := c18NewEnv(dir)
	if err != nil {
		return err
	}
	defer os.RemoveAll(dir)
	var nodes []c18Node // nodes of the inode store in creation order (root excluded)
	var ops []string
	counter := 0
	result := func() (res string) {
		defer func() {
			if r := recover(); r != nil {
				res = "panic ## " + tr.Esc(fmt.Sprint(r))
			}
		}()
		for i := 0; i < n; i++ {
			a := e.m.VerifAudit()
			// drop the nodes the store reclaimed
			kept := nodes[:0]
			for _, nd := range nodes {
				if _, ok := a.RefByIno[nd.ino]; ok {
					kept = append(kept, nd)
				}
			}
			nodes = kept
			r := c.rng.Intn(100)
			switch {
			case len(nodes) == 0 || r < 30:
				d := c.rng.Intn(3) == 0
				name := fmt.Sprintf("n%d", counter)
				counter++
				var child fuseops.InodeID
				if d {
					op := &fuseops.MkDirOp{Parent: fuseops.RootInodeID, Name: name}
					err = e.fs.MkDir(c18ctx, op)
					child = op.Entry.Child
				} else {
					op := &fuseops.CreateFileOp{Parent: fuseops.RootInodeID, Name: name}
					err = e.fs.CreateFile(c18ctx, op)
					child = op.Entry.Child
				}
				if err != nil {
					return "create-" + c18Errno(err)
				}
				nodes = append(nodes, c18Node{uint64(child), name, d})
				if d {
					ops = append(ops, "cd")
				} else {
					ops = append(ops, "cf")
				}
			case r < 50:
				k := c.rng.Intn(len(nodes))
				ops = append(ops, fmt.Sprintf("l%d", k))
				_ = e.fs.LookUpInode(c18ctx, &fuseops.LookUpInodeOp{Parent: fuseops.RootInodeID, Name: nodes[k].name})
			case r < 68:
				k := c.rng.Intn(len(nodes))
				ops = append(ops, fmt.Sprintf("u%d", k))
				if nodes[k].dir {
					_ = e.fs.RmDir(c18ctx, &fuseops.RmDirOp{Parent: fuseops.RootInodeID, Name: nodes[k].name})
				} else {
					_ = e.fs.Unlink(c18ctx, &fuseops.UnlinkOp{Parent: fuseops.RootInodeID, Name: nodes[k].name})
				}
			default:
				k := c.rng.Intn(len(nodes))
				ref := a.RefByIno[nodes[k].ino]
				if ref <= 0 {
					continue
				}
				cnt := ref
				if c.rng.Intn(3) == 0 {
					cnt = 1 + c.rng.Intn(ref)
				}
				ops = append(ops, fmt.Sprintf("f%d:%d", k, cnt))
				_ = e.fs.ForgetInode(c18ctx, &fuseops.ForgetInodeOp{Inode: fuseops.InodeID(nodes[k].ino), N: uint64(cnt)})
			}
		}
		a := e.m.VerifAudit()
		var parts []string
		for _, nd := range nodes {
			if ref, ok := a.RefByIno[nd.ino]; ok {
				parts = append(parts, fmt.Sprintf("%d:%d:%d", nd.ino, ref, a.NlinkByIno[nd.ino]))
			}
		}
		return strings.Join(parts, ",") + fmt.Sprintf(" ## nodes=%d", a.Nodes-1)
	}()
	c.w.Cases++
	c.w.Op("store ops="+strings.Join(ops, ","), result)
	c.w.Count(fmt.Sprintf("store:len=%02d", (len(ops)+4)/5*5))
	return nil
}

func c18StoreHistories(c *ctx) error {
	if c.only > 0 {
		return nil
	}
	n, maxLen := 250, 30
	if c.thorough() {
		n, maxLen = 2500, 80
	}
	work := os.Getenv("VERIF_WORK")
	if work == "" {
		work = os.TempDir()
	}
	for i := 0; i < n; i++ {
		if err := c18StoreCase(c, filepath.Join(work, fmt.Sprintf("c18-store-%d", i)), 1+c.rng.Intn(maxLen)); err != nil {
			return err
		}
	}
	return nil
}

// ---------------------------------------------------------------------------------------
// parent: run every program in a worker
// ---------------------------------------------------------------------------------------

type c18Line struct {
	kind byte // 'C' case header, 'O' op+result, 'N' note
	a, b string
}

// c18RunWorker runs programs first..last in one worker process and returns the lines of every program the
// worker started, in order. A worker that dies ends its current program with `fatal` (or `hang`); the
// caller starts a new worker for the programs that were not reached.
func c18RunWorker(c *ctx, first, last int) [][]c18Line {
	cmd := exec.Command(os.Args[0], "c18", "-seed", strconv.FormatUint(c.seed, 10), "-tier", c.tier, "-out", os.DevNull)
	cmd.Env = append(os.Environ(), fmt.Sprintf("%s=%d:%d", c18WorkerEnv, first, last))
	stdout, err := cmd.StdoutPipe()
	if err != nil {
		return nil
	}
	var stderr strings.Builder
	cmd.Stderr = &stderr
	if err := cmd.Start(); err != nil {
		return nil
	}
	timedOut := false
	timer := time.AfterFunc(300*time.Second, func() { timedOut = true; _ = cmd.Process.Kill() })
	var progs [][]c18Line
	var cur []c18Line
	open := false
	pending := ""
	sc := bufio.NewScanner(stdout)
	sc.Buffer(make([]byte, 1<<20), 1<<24)
	for sc.Scan() {
		l := sc.Text()
		if len(l) < 1 {
			continue
		}
		switch l[0] {
		case 'C':
			cur, open = []c18Line{{'C', l[2:], ""}}, true
		case '>':
			pending = l[2:]
		case '<':
			cur = append(cur, c18Line{'O', pending, l[2:]})
			pending = ""
		case 'N':
			cur = append(cur, c18Line{'N', l[2:], ""})
		case 'E':
			progs = append(progs, cur)
			cur, open = nil, false
		}
	}
	werr := cmd.Wait()
	timer.Stop()
	if open {
		if pending != "" {
			res := "fatal"
			if timedOut {
				res = "hang"
			}
			cur = append(cur, c18Line{'O', pending, res + " ## " + tr.Esc(c18FirstLine(stderr.String()))})
		} else {
			// died between two operations: report it on a compared line of its own
			msg := "exit"
			if werr != nil {
				msg = werr.Error()
			}
			cur = append(cur, c18Line{'O', "audit", "worker-died ## " + tr.Esc(msg+" "+c18FirstLine(stderr.String()))})
		}
		progs = append(progs, cur)
	}
	return progs
}

// c18RunBatch runs programs first..last, restarting a worker after each death.
func c18RunBatch(c *ctx, first, last int) [][]c18Line {
	var out [][]c18Line
	next := first
	for next <= last {
		progs := c18RunWorker(c, next, last)
		if len(progs) == 0 { // the worker did not reach its first program
			progs = [][]c18Line{{{'C', fmt.Sprintf("prog id=%d worker-failed", next), ""}, {'O', "audit", "worker-died"}}}
		}
		out = append(out, progs...)
		next += len(progs)
	}
	return out
}

func c18FirstLine(s string) string {
	if i := strings.Index(s, "\n"); i >= 0 {
		return s[:i]
	}
	return s
}

func c18Programs(c *ctx) error {
	n, batch := 120, 8
	if c.thorough() {
		n, batch = 480, 8
	}
	first, last := 1, n
	if c.only > 0 {
		first, last = c.only, c.only
	}
	par := runtime.NumCPU() / 2
	if par < 1 {
		par = 1
	}
	if par > 8 {
		par = 8
	}
	nb := (last - first + batch) / batch
	results := make([][][]c18Line, nb)
	var wg sync.WaitGroup
	sem := make(chan struct{}, par)
	for bi := 0; bi < nb; bi++ {
		lo := first + bi*batch
		hi := lo + batch - 1
		if hi > last {
			hi = last
		}
		wg.Add(1)
		sem <- struct{}{}
		go func(bi, lo, hi int) {
			defer wg.Done()
			defer func() { <-sem }()
			results[bi] = c18RunBatch(c, lo, hi)
		}(bi, lo, hi)
	}
	wg.Wait()
	for _, progs := range results {
		for _, lines := range progs {
			for _, l := range lines {
				switch l.kind {
				case 'C':
					c.w.Case("%s", l.a)
				case 'N':
					c.w.Note(l.a)
				case 'O':
					c.w.Op(l.a, l.b)
					name := l.a
					if i := strings.IndexByte(name, ' '); i >= 0 {
						name = name[:i]
					}
					r := l.b
					if i := strings.IndexByte(r, ' '); i >= 0 {
						r = r[:i]
					}
					c.w.Count("op:" + name)
					c.w.Count("result:" + name + ":" + r)
				}
			}
			c.w.End()
		}
	}
	return nil
}

// ---------------------------------------------------------------------------------------
// worker: one program on a fresh mutable file system
// ---------------------------------------------------------------------------------------

type c18Key struct {
	parent uint64
	name   string
}

type c18W struct {
	out *bufio.Writer
	rng *tr.Rng
	fs  fuseutil.FileSystem
	m   *dfuse.MutableFS
	b   *core.Bundle
	st  context2.Stores
	dir string

	// the kernel's view
	held     map[uint64]int  // lookup references per inode
	rank     map[uint64]int  // rank of every held inode
	hkind    map[uint64]byte // 'd' / 'f' of every held inode
	order    []uint64        // held inodes in rank order (for deterministic choices)
	nextRank int
	// what the file system said about the name space (successful creates, removes, renames)
	links map[c18Key]uint64
	where map[uint64]c18Key
	lkind map[uint64]byte

	burstDone bool
}

var c18Names = []string{"a", "b", "c", "d"}

func c18Errno(err error) string {
	if err == nil {
		return "ok"
	}
	var en syscall.Errno
	if errors.As(err, &en) {
		switch en {
		case syscall.ENOENT:
			return "noent"
		case syscall.EEXIST:
			return "exists"
		case syscall.ENOTDIR:
			return "notdir"
		case syscall.EISDIR:
			return "isdir"
		case syscall.ENOTEMPTY:
			return "notempty"
		case syscall.EINVAL:
			return "inval"
		case syscall.EIO:
			return "eio"
		case syscall.ENOSYS:
			return "nosys"
		}
		return fmt.Sprintf("errno%d", int(en))
	}
	return "err ## " + tr.Esc(err.Error())
}

// do announces the operation, runs it (panics are results) and reports the answer.
func (w *c18W) do(op string, f func() string) string {
	fmt.Fprintf(w.out, "> %s\n", op)
	_ = w.out.Flush()
	res := func() (res string) {
		defer func() {
			if r := recover(); r != nil {
				res = "panic ## " + tr.Esc(fmt.Sprint(r))
			}
		}()
		return f()
	}()
	fmt.Fprintf(w.out, "< %s\n", res)
	_ = w.out.Flush()
	return res
}

var c18ctx = context.Background()

func (w *c18W) take(ino uint64, kind byte) int {
	if w.held[ino] == 0 {
		w.rank[ino] = w.nextRank
		w.nextRank++
		w.hkind[ino] = kind
		w.order = append(w.order, ino)
	}
	w.held[ino]++
	return w.rank[ino]
}

func (w *c18W) drop(ino uint64, k int) {
	w.held[ino] -= k
	if w.held[ino] <= 0 {
		delete(w.held, ino)
		delete(w.rank, ino)
		delete(w.hkind, ino)
		for i, x := range w.order {
			if x == ino {
				w.order = append(w.order[:i:i], w.order[i+1:]...)
				break
			}
		}
	}
}

func c18KindOfMode(m os.FileMode) byte {
	if m.IsDir() {
		return 'd'
	}
	return 'f'
}

func (w *c18W) entryText(e *fuseops.ChildInodeEntry) string {
	k := c18KindOfMode(e.Attributes.Mode)
	r := w.take(uint64(e.Child), k)
	if k == 'f' {
		return fmt.Sprintf("ok f i=%d s=%d", r, e.Attributes.Size)
	}
	return fmt.Sprintf("ok d i=%d", r)
}

func (w *c18W) link(p uint64, n string, child uint64, k byte) {
	key := c18Key{p, n}
	w.links[key] = child
	w.where[child] = key
	w.lkind[child] = k
}

func (w *c18W) unlinkShadow(p uint64, n string) {
	key := c18Key{p, n}
	if ch, ok := w.links[key]; ok {
		delete(w.links, key)
		delete(w.where, ch)
		delete(w.lkind, ch)
	}
}

func (w *c18W) liveDir(ino uint64) bool {
	if ino == fuseops.RootInodeID {
		return true
	}
	_, linked := w.where[ino]
	return linked && w.lkind[ino] == 'd'
}

// --- operations -------------------------------------------------------------------------

func (w *c18W) opCreate(p uint64, n string, dir bool) {
	name := "create"
	if dir {
		name = "mkdir"
	}
	w.do(fmt.Sprintf("%s p=%d n=%s", name, w.rank[p], tr.Esc(n)), func() string {
		var entry *fuseops.ChildInodeEntry
		var err error
		if dir {
			op := &fuseops.MkDirOp{Parent: fuseops.InodeID(p), Name: n, Mode: os.ModeDir | 0o755}
			err, entry = w.fs.MkDir(c18ctx, op), &op.Entry
		} else {
			op := &fuseops.CreateFileOp{Parent: fuseops.InodeID(p), Name: n, Mode: 0o644}
			err, entry = w.fs.CreateFile(c18ctx, op), &op.Entry
		}
		if err != nil {
			return c18Errno(err)
		}
		txt := w.entryText(entry)
		w.link(p, n, uint64(entry.Child), c18KindOfMode(entry.Attributes.Mode))
		return txt
	})
}

func (w *c18W) opLookup(p uint64, n string) (uint64, bool) {
	var child uint64
	found := false
	w.do(fmt.Sprintf("lookup p=%d n=%s", w.rank[p], tr.Esc(n)), func() string {
		op := &fuseops.LookUpInodeOp{Parent: fuseops.InodeID(p), Name: n}
		if err := w.fs.LookUpInode(c18ctx, op); err != nil {
			return c18Errno(err)
		}
		txt := w.entryText(&op.Entry)
		child, found = uint64(op.Entry.Child), true
		w.link(p, n, child, c18KindOfMode(op.Entry.Attributes.Mode))
		return txt
	})
	return child, found
}

func c18AttrText(a fuseops.InodeAttributes) string {
	if a.Mode.IsDir() {
		return "ok d"
	}
	return fmt.Sprintf("ok f s=%d", a.Size)
}

func (w *c18W) getattr(i uint64) string {
	op := &fuseops.GetInodeAttributesOp{Inode: fuseops.InodeID(i)}
	if err := w.fs.GetInodeAttributes(c18ctx, op); err != nil {
		return c18Errno(err)
	}
	return c18AttrText(op.Attributes)
}

func (w *c18W) opGetattr(i uint64) {
	w.do(fmt.Sprintf("getattr i=%d", w.rank[i]), func() string { return w.getattr(i) })
}

func (w *c18W) opWrite(i uint64, off int64, seed uint64, n int) {
	w.do(fmt.Sprintf("write i=%d off=%d data=gen:%d:%d", w.rank[i], off, seed, n), func() string {
		op := &fuseops.WriteFileOp{Inode: fuseops.InodeID(i), Offset: off, Data: tr.GenBytes(seed, n)}
		if err := w.fs.WriteFile(c18ctx, op); err != nil {
			return c18Errno(err)
		}
		return w.getattr(i)
	})
}

// opBurst: n one-byte writes in a row with only `slack` spare file descriptors: the mount must not need one
// descriptor per operation. The budget is set relative to the descriptors open right now and lifted afterwards,
// so nothing else in the process (earlier programs of this worker, the garbage collector) influences it.
func (w *c18W) opBurst(i uint64, n int) {
	const slack = 16
	w.do(fmt.Sprintf("burst i=%d n=%d", w.rank[i], n), func() string {
		var old syscall.Rlimit
		limited := false
		if ents, err := os.ReadDir("/proc/self/fd"); err == nil && syscall.Getrlimit(syscall.RLIMIT_NOFILE, &old) == nil {
			lim := old
			lim.Cur = uint64(len(ents) + slack)
			if lim.Cur < old.Cur && syscall.Setrlimit(syscall.RLIMIT_NOFILE, &lim) == nil {
				limited = true
			}
		}
		defer func() {
			if limited {
				_ = syscall.Setrlimit(syscall.RLIMIT_NOFILE, &old)
			}
		}()
		for k := 0; k < n; k++ {
			op := &fuseops.WriteFileOp{Inode: fuseops.InodeID(i), Offset: int64(k), Data: []byte{0x78}}
			if err := w.fs.WriteFile(c18ctx, op); err != nil {
				return c18Errno(err) + fmt.Sprintf(" ## at write %d", k)
			}
		}
		return w.getattr(i)
	})
}

func (w *c18W) opSync(i uint64) {
	w.do(fmt.Sprintf("sync i=%d", w.rank[i]), func() string {
		if err := w.fs.FlushFile(c18ctx, &fuseops.FlushFileOp{Inode: fuseops.InodeID(i)}); err != nil {
			return "flush-" + c18Errno(err)
		}
		if err := w.fs.SyncFile(c18ctx, &fuseops.SyncFileOp{Inode: fuseops.InodeID(i)}); err != nil {
			return "sync-" + c18Errno(err)
		}
		return w.getattr(i)
	})
}

func (w *c18W) opTrunc(i uint64, size uint64) {
	w.do(fmt.Sprintf("trunc i=%d size=%d", w.rank[i], size), func() string {
		op := &fuseops.SetInodeAttributesOp{Inode: fuseops.InodeID(i), Size: &size}
		if err := w.fs.SetInodeAttributes(c18ctx, op); err != nil {
			return c18Errno(err)
		}
		return c18AttrText(op.Attributes)
	})
}

func (w *c18W) opRead(i uint64, off int64, n int) {
	w.do(fmt.Sprintf("read i=%d off=%d len=%d", w.rank[i], off, n), func() string {
		op := &fuseops.ReadFileOp{Inode: fuseops.InodeID(i), Offset: off, Dst: make([]byte, n)}
		if err := w.fs.ReadFile(c18ctx, op); err != nil {
			return c18Errno(err)
		}
		return "ok x=" + tr.Hex(op.Dst[:op.BytesRead])
	})
}

// opReaddir lists a directory the way the kernel does: repeated ReadDir calls with a buffer of `buf`
// bytes, each resuming at the offset of the last entry received, until a call returns nothing.
func (w *c18W) opReaddir(i uint64, buf int) {
	w.do(fmt.Sprintf("readdir i=%d buf=%d", w.rank[i], buf), func() string {
		var items []string
		off := fuseops.DirOffset(0)
		calls := 0
		for ; calls < 200; calls++ {
			op := &fuseops.ReadDirOp{Inode: fuseops.InodeID(i), Offset: off, Dst: make([]byte, buf)}
			if err := w.fs.ReadDir(c18ctx, op); err != nil {
				if calls == 0 {
					return c18Errno(err)
				}
				return c18Errno(err) + " ## after " + strconv.Itoa(calls) + " calls"
			}
			if op.BytesRead == 0 {
				break
			}
			b := op.Dst[:op.BytesRead]
			for len(b) >= 24 {
				ino := binary.LittleEndian.Uint64(b[0:])
				o := binary.LittleEndian.Uint64(b[8:])
				nl := int(binary.LittleEndian.Uint32(b[16:]))
				ty := binary.LittleEndian.Uint32(b[20:])
				if 24+nl > len(b) {
					return "baddirent"
				}
				name := string(b[24 : 24+nl])
				k := "?"
				switch fuseutil.DirentType(ty) {
				case fuseutil.DT_Directory:
					k = "d"
				case fuseutil.DT_File:
					k = "f"
				}
				r := "-"
				if w.held[ino] > 0 {
					r = strconv.Itoa(w.rank[ino])
				}
				items = append(items, tr.Esc(name)+":"+k+":"+r)
				off = fuseops.DirOffset(o)
				adv := 24 + nl
				if adv%8 != 0 {
					adv += 8 - adv%8
				}
				if adv > len(b) {
					adv = len(b)
				}
				b = b[adv:]
			}
		}
		if calls == 200 {
			return "endless"
		}
		sort.Strings(items)
		return fmt.Sprintf("ok n=%d %s ## calls=%d", len(items), strings.Join(items, ","), calls+1)
	})
}

func (w *c18W) opRename(p uint64, n string, q uint64, m string) {
	w.do(fmt.Sprintf("rename p=%d n=%s q=%d m=%s", w.rank[p], tr.Esc(n), w.rank[q], tr.Esc(m)), func() string {
		op := &fuseops.RenameOp{OldParent: fuseops.InodeID(p), OldName: n, NewParent: fuseops.InodeID(q), NewName: m}
		if err := w.fs.Rename(c18ctx, op); err != nil {
			return c18Errno(err)
		}
		if src, ok := w.links[c18Key{p, n}]; ok {
			k := w.lkind[src]
			w.unlinkShadow(q, m)
			w.unlinkShadow(p, n)
			w.link(q, m, src, k)
		}
		return "ok"
	})
}

func (w *c18W) opRemove(p uint64, n string, dir bool) {
	name := "unlink"
	if dir {
		name = "rmdir"
	}
	w.do(fmt.Sprintf("%s p=%d n=%s", name, w.rank[p], tr.Esc(n)), func() string {
		var err error
		if dir {
			err = w.fs.RmDir(c18ctx, &fuseops.RmDirOp{Parent: fuseops.InodeID(p), Name: n})
		} else {
			err = w.fs.Unlink(c18ctx, &fuseops.UnlinkOp{Parent: fuseops.InodeID(p), Name: n})
		}
		if err != nil {
			return c18Errno(err)
		}
		w.unlinkShadow(p, n)
		return "ok"
	})
}

func (w *c18W) opForget(i uint64, k int) {
	w.do(fmt.Sprintf("forget i=%d k=%d", w.rank[i], k), func() string {
		err := w.fs.ForgetInode(c18ctx, &fuseops.ForgetInodeOp{Inode: fuseops.InodeID(i), N: uint64(k)})
		if err != nil {
			return c18Errno(err)
		}
		return "ok"
	})
	w.drop(i, k)
}

func (w *c18W) opAudit() {
	w.do("audit", func() string {
		a := w.m.VerifAudit()
		aux := fmt.Sprintf(" ## links=%d nodes=%d", a.Links, a.Nodes)
		if len(a.DupInodes) > 0 {
			return fmt.Sprintf("dup-inode%s dups=%v", aux, a.DupInodes)
		}
		if len(a.Problems) > 0 {
			return "inconsistent" + aux + " " + tr.Esc(strings.Join(a.Problems, "; "))
		}
		return "ok" + aux
	})
}

func c18Fnv(b []byte) uint64 {
	h := fnv.New64a()
	_, _ = h.Write(b)
	return h.Sum64()
}

func (w *c18W) opCommit() bool {
	ok := false
	w.do("commit", func() string {
		if err := w.m.Commit(); err != nil {
			return "err ## " + tr.Esc(err.Error())
		}
		ents := w.b.GetBundleEntries()
		items := make([]string, len(ents))
		raw := make([]string, len(ents))
		for i, e := range ents {
			items[i] = fmt.Sprintf("%s:%d", tr.Esc(strings.TrimPrefix(e.NameWithPath, "/")), e.Size)
			raw[i] = tr.Esc(e.NameWithPath)
		}
		sort.Strings(items)
		sort.Strings(raw)
		bs, err := core.ListBundles("r", w.st)
		lb := fmt.Sprintf("bundles=%d", len(bs))
		if err != nil {
			lb = "bundles=err"
		}
		ok = true
		return fmt.Sprintf("ok n=%d %s ## %s names=%s", len(items), strings.Join(items, ","), lb, strings.Join(raw, ","))
	})
	return ok
}

func (w *c18W) opDownload() {
	w.do("download", func() string {
		dst := filepath.Join(w.dir, "dl")
		if err := os.MkdirAll(dst, 0o755); err != nil {
			return "err ## " + tr.Esc(err.Error())
		}
		b2 := core.NewBundle(core.Repo("r"), core.ContextStores(w.st), core.BundleID(w.b.BundleID),
			core.ConsumableStore(localfs.New(afero.NewBasePathFs(afero.NewOsFs(), dst))), core.Logger(zap.NewNop()))
		if err := core.Publish(c18ctx, b2); err != nil {
			return "err ## " + tr.Esc(err.Error())
		}
		var items []string
		err := filepath.Walk(dst, func(p string, info os.FileInfo, err error) error {
			if err != nil {
				return err
			}
			rel, _ := filepath.Rel(dst, p)
			if info.IsDir() {
				if rel == ".datamon" {
					return filepath.SkipDir
				}
				return nil
			}
			data, err := os.ReadFile(p)
			if err != nil {
				return err
			}
			items = append(items, fmt.Sprintf("%s:%d:%d", tr.Esc(filepath.ToSlash(rel)), len(data), c18Fnv(data)))
			return nil
		})
		if err != nil {
			return "err ## " + tr.Esc(err.Error())
		}
		sort.Strings(items)
		return fmt.Sprintf("ok n=%d %s", len(items), strings.Join(items, ","))
	})
}

// --- program generation -----------------------------------------------------------------

func (w *c18W) heldWhere(pred func(ino uint64) bool) []uint64 {
	var xs []uint64
	for _, ino := range w.order {
		if pred(ino) {
			xs = append(xs, ino)
		}
	}
	return xs
}

func (w *c18W) pick(xs []uint64) uint64 { return xs[w.rng.Intn(len(xs))] }

func (w *c18W) heldLiveDirs() []uint64 { return w.heldWhere(w.liveDir) }
func (w *c18W) heldFiles() []uint64 {
	return w.heldWhere(func(i uint64) bool { return w.hkind[i] == 'f' })
}

// namesIn lists the names the file system reported under p, of the given kind (0 = any), sorted.
func (w *c18W) namesIn(p uint64, kind byte) []string {
	var ns []string
	for _, n := range c18Names {
		if ch, ok := w.links[c18Key{p, n}]; ok && (kind == 0 || w.lkind[ch] == kind) {
			ns = append(ns, n)
		}
	}
	return ns
}

// parentFor prefers (4 times in 5) a held linked directory that has an entry of the given kind (0 = any).
func (w *c18W) parentFor(dirs []uint64, kind byte) uint64 {
	if w.rng.Intn(5) != 0 {
		var with []uint64
		for _, d := range dirs {
			if len(w.namesIn(d, kind)) > 0 {
				with = append(with, d)
			}
		}
		if len(with) > 0 {
			return w.pick(with)
		}
	}
	return w.pick(dirs)
}

func (w *c18W) randName() string { return c18Names[w.rng.Intn(len(c18Names))] }

// below reports whether directory q is x or lies below x (according to the file system's answers).
func (w *c18W) below(q, x uint64) bool {
	for steps := 0; steps < 10000; steps++ {
		if q == x {
			return true
		}
		k, ok := w.where[q]
		if !ok {
			return false
		}
		q = k.parent
	}
	return true
}

// kernelLookup: the VFS resolves a name before it removes or renames it; unless the dentry is cached
// (the inode is held) this is a LookUpInode.
func (w *c18W) kernelLookup(p uint64, n string) {
	if ch, ok := w.links[c18Key{p, n}]; ok && w.held[ch] > 0 {
		return
	}
	if w.rng.Intn(100) < 85 {
		w.opLookup(p, n)
	}
}

func (w *c18W) stepOnce() {
	dirs := w.heldLiveDirs() // never empty: the root is always held
	files := w.heldFiles()
	switch r := w.rng.Intn(120); {
	case r < 14: // create
		p := w.pick(dirs)
		if len(files) > 0 && w.rng.Intn(12) == 0 {
			p = w.pick(files) // a file as parent: ENOTDIR
		}
		w.opCreate(p, w.randName(), false)
	case r < 24: // mkdir
		p := w.pick(dirs)
		if len(files) > 0 && w.rng.Intn(12) == 0 {
			p = w.pick(files)
		}
		w.opCreate(p, w.randName(), true)
	case r < 36: // lookup
		ps := dirs
		if w.rng.Intn(8) == 0 { // also removed directories the kernel still holds: ENOENT
			ps = w.heldWhere(func(i uint64) bool { return w.hkind[i] == 'd' })
		}
		w.opLookup(w.pick(ps), w.randName())
	case r < 40: // getattr
		w.opGetattr(w.pick(w.order))
	case r < 52: // write
		if len(files) == 0 {
			w.opCreate(w.pick(dirs), w.randName(), false)
			return
		}
		w.opWrite(w.pick(files), int64(w.rng.Intn(300)), w.rng.Uint64()%1000000, 1+w.rng.Intn(200))
	case r < 57: // truncate
		if len(files) == 0 {
			return
		}
		w.opTrunc(w.pick(files), uint64(w.rng.Intn(400)))
	case r < 65: // read
		if len(files) == 0 {
			return
		}
		w.opRead(w.pick(files), int64(w.rng.Intn(600)), w.rng.Pick(1, 7, 64, 512, 4096))
	case r < 73: // readdir
		ds := w.heldWhere(func(i uint64) bool { return w.hkind[i] == 'd' })
		w.opReaddir(w.pick(ds), w.rng.Pick(4096, 4096, 32, 40, 64, 72, 96, 200))
	case r < 87: // rename
		p, q := w.parentFor(dirs, 0), w.pick(dirs)
		n, m := w.randName(), w.randName()
		if ns := w.namesIn(p, 0); len(ns) > 0 && w.rng.Intn(100) < 85 {
			n = ns[w.rng.Intn(len(ns))]
		}
		if ns := w.namesIn(q, 0); len(ns) > 0 && w.rng.Intn(100) < 40 {
			m = ns[w.rng.Intn(len(ns))]
		}
		src, hasSrc := w.links[c18Key{p, n}]
		if hasSrc {
			// what the VFS checks before it calls the file system
			if tgt, hasTgt := w.links[c18Key{q, m}]; hasTgt {
				if tgt == src || w.lkind[tgt] != w.lkind[src] {
					return
				}
			}
			if w.lkind[src] == 'd' && w.below(q, src) {
				return
			}
			w.kernelLookup(p, n)
			w.kernelLookup(q, m)
		}
		w.opRename(p, n, q, m)
	case r < 94: // unlink
		p := w.parentFor(dirs, 'f')
		n := w.randName()
		if ns := w.namesIn(p, 'f'); len(ns) > 0 && w.rng.Intn(100) < 80 {
			n = ns[w.rng.Intn(len(ns))]
		}
		if ch, ok := w.links[c18Key{p, n}]; ok {
			if w.lkind[ch] != 'f' {
				return // the VFS answers EISDIR itself
			}
			w.kernelLookup(p, n)
		}
		w.opRemove(p, n, false)
	case r < 100: // rmdir
		p := w.parentFor(dirs, 'd')
		n := w.randName()
		if ns := w.namesIn(p, 'd'); len(ns) > 0 && w.rng.Intn(100) < 80 {
			n = ns[w.rng.Intn(len(ns))]
		}
		if ch, ok := w.links[c18Key{p, n}]; ok {
			if w.lkind[ch] != 'd' {
				return // ENOTDIR from the VFS
			}
			w.kernelLookup(p, n)
		}
		w.opRemove(p, n, true)
	case r < 112: // forget
		xs := w.heldWhere(func(i uint64) bool { return i != fuseops.RootInodeID })
		if len(xs) == 0 {
			return
		}
		i := w.pick(xs)
		k := w.held[i]
		if k > 1 && w.rng.Intn(100) < 30 {
			k = 1 + w.rng.Intn(k)
		}
		w.opForget(i, k)
	case r < 115:
		w.opAudit()
	case r < 117:
		if len(files) > 0 && !w.burstDone {
			w.burstDone = true
			w.opBurst(w.pick(files), 40+w.rng.Intn(25))
		}
	default: // close(2) / fsync(2) on a file: FlushFile, SyncFile
		if len(files) == 0 {
			w.opGetattr(w.pick(w.order))
			return
		}
		w.opSync(w.pick(files))
	}
}

// offProtocol issues ONE operation the Linux VFS never sends (it answers these itself) and reports whether it
// did. The mount does not repeat the kernel's checks, so its answers differ from POSIX here: the model marks
// these operations with a known-finding trigger, and the program ends (the states may have diverged).
func (w *c18W) offProtocol() bool {
	dirs := w.heldLiveDirs()
	hdirs := w.heldWhere(func(i uint64) bool { return w.hkind[i] == 'd' })
	files := w.heldFiles()
	var cands []func()
	for _, p := range dirs {
		p := p
		for _, n := range w.namesIn(p, 'd') {
			n := n
			cands = append(cands, func() { w.opRemove(p, n, false) }) // unlink(2) of a directory
		}
		for _, n := range w.namesIn(p, 'f') {
			n := n
			cands = append(cands, func() { w.opRemove(p, n, true) }) // rmdir(2) of a file
		}
		for _, n := range w.namesIn(p, 0) {
			src := w.links[c18Key{p, n}]
			n := n
			for _, q := range dirs {
				q := q
				for _, m := range w.namesIn(q, 0) {
					if tgt := w.links[c18Key{q, m}]; w.lkind[tgt] != w.lkind[src] {
						m := m
						cands = append(cands, func() { w.opRename(p, n, q, m) }) // file over directory / directory over file
					}
				}
				if w.lkind[src] == 'd' && w.below(q, src) {
					cands = append(cands, func() { w.opRename(p, n, q, "d") }) // a directory below itself
				}
			}
		}
	}
	for _, d := range hdirs {
		d := d
		if !w.liveDir(d) {
			cands = append(cands, func() { w.opCreate(d, w.randName(), w.rng.Bool()) }) // create in a removed directory
		}
		cands = append(cands, func() { w.opRead(d, 0, 16) }, func() { w.opWrite(d, 0, 7, 3) }, func() { w.opTrunc(d, 0) })
	}
	for _, f := range files {
		f := f
		cands = append(cands, func() { w.opLookup(f, w.randName()) }, func() { w.opRemove(f, w.randName(), false) })
	}
	if len(cands) == 0 {
		return false
	}
	cands[w.rng.Intn(len(cands))]()
	return true
}

func c18Worker(c *ctx) error {
	var first, last int
	if _, err := fmt.Sscanf(os.Getenv(c18WorkerEnv), "%d:%d", &first, &last); err != nil {
		return fmt.Errorf("bad %s: %v", c18WorkerEnv, err)
	}
	out := bufio.NewWriter(os.Stdout)
	for n := first; n <= last; n++ {
		if err := c18Program(c, out, n); err != nil {
			return err
		}
		fmt.Fprintln(out, "E")
		if err := out.Flush(); err != nil {
			return err
		}
	}
	return nil
}

// buildWide creates /x/y/f for x, y in the four names (some y left out), every file written.
func (w *c18W) buildWide() {
	root := uint64(fuseops.RootInodeID)
	for _, x := range c18Names {
		w.opCreate(root, x, true)
		dx, ok := w.links[c18Key{root, x}]
		if !ok {
			continue
		}
		for j, y := range c18Names {
			if j >= 2+w.rng.Intn(3) {
				break
			}
			w.opCreate(dx, y, true)
			dy, ok := w.links[c18Key{dx, y}]
			if !ok {
				continue
			}
			w.opCreate(dy, "a", false)
			if f, ok := w.links[c18Key{dy, "a"}]; ok {
				w.opWrite(f, 0, uint64(1+w.rng.Intn(50)), 1+w.rng.Intn(40))
			}
		}
	}
}

// ---- a write and a truncate of one file in flight together --------------------------------------
// jacobsa/fuse serves every kernel request in its own goroutine. The staging file system is wrapped
// (verif hook) so that the write is held right after its data reached the backing file; the truncate
// runs; the write finishes. Whatever the serialisation, the size the mount shows is the number of
// bytes it serves and the size it commits.

type c18PauseFs struct {
	afero.Fs
	mu      sync.Mutex
	armed   bool
	written chan struct{}
	resume  chan struct{}
}

type c18PauseFile struct {
	afero.File
	fs *c18PauseFs
}

func (f *c18PauseFs) OpenFile(name string, flag int, perm os.FileMode) (afero.File, error) {
	file, err := f.Fs.OpenFile(name, flag, perm)
	if err != nil {
		return nil, err
	}
	return &c18PauseFile{File: file, fs: f}, nil
}

func (f *c18PauseFile) WriteAt(p []byte, off int64) (int, error) {
	n, err := f.File.WriteAt(p, off)
	f.fs.mu.Lock()
	armed := f.fs.armed
	f.fs.armed = false
	f.fs.mu.Unlock()
	if armed {
		close(f.fs.written)
		select {
		case <-f.fs.resume:
		case <-time.After(5 * time.Second):
		}
	}
	return n, err
}

func c18Races(c *ctx) error {
	n := 12
	if c.thorough() {
		n = 120
	}
	work := os.Getenv("VERIF_WORK")
	if work == "" {
		work = os.TempDir()
	}
	rng := tr.NewRng(c.seed*77 + 18)
	for i := 0; i < n; i++ {
		dir := filepath.Join(work, fmt.Sprintf("c18race-%d-%d", c.seed, i))
		e, err := c18NewEnv(dir)
		if err != nil {
			return err
		}
		pf := &c18PauseFs{written: make(chan struct{}), resume: make(chan struct{})}
		e.m.VerifWrapStaging(func(inner afero.Fs) afero.Fs { pf.Fs = inner; return pf })
		mk := &fuseops.CreateFileOp{Parent: fuseops.RootInodeID, Name: "f", Mode: 0o644}
		if err := e.fs.CreateFile(c18ctx, mk); err != nil {
			_ = os.RemoveAll(dir)
			continue
		}
		ino := mk.Entry.Child
		initial := rng.Pick(0, 10, 100, 300)
		if initial > 0 {
			_ = e.fs.WriteFile(c18ctx, &fuseops.WriteFileOp{Inode: ino, Offset: 0, Data: tr.GenBytes(uint64(i+1), initial)})
		}
		woff, wlen := int64(rng.Pick(0, 0, 5, 50)), rng.Pick(1, 40, 100, 200)
		tsize := uint64(rng.Pick(0, 3, 10, 60, 500))
		pf.mu.Lock()
		pf.armed = true
		pf.mu.Unlock()
		wdone := make(chan error, 1)
		go func() {
			wdone <- e.fs.WriteFile(c18ctx, &fuseops.WriteFileOp{Inode: ino, Offset: woff, Data: tr.GenBytes(uint64(1000+i), wlen)})
		}()
		select {
		case <-pf.written:
		case <-time.After(5 * time.Second):
		}
		tdone := make(chan error, 1)
		go func() {
			tdone <- e.fs.SetInodeAttributes(c18ctx, &fuseops.SetInodeAttributesOp{Inode: ino, Size: &tsize})
		}()
		// the truncate completes while the write is held — or it waits for the write (a mount that
		// serialises the two): both are fine
		var terr error
		tfin := false
		select {
		case terr = <-tdone:
			tfin = true
		case <-time.After(300 * time.Millisecond):
		}
		close(pf.resume)
		werr := <-wdone
		if !tfin {
			terr = <-tdone
		}
		got := "consistent"
		if werr != nil || terr != nil {
			got = fmt.Sprintf("err:write=%s,trunc=%s", c18Errno(werr), c18Errno(terr))
		} else {
			ga := &fuseops.GetInodeAttributesOp{Inode: ino}
			_ = e.fs.GetInodeAttributes(c18ctx, ga)
			rd := &fuseops.ReadFileOp{Inode: ino, Offset: 0, Dst: make([]byte, 4096)}
			_ = e.fs.ReadFile(c18ctx, rd)
			committed := int64(-1)
			if cerr := e.m.Commit(); cerr == nil {
				for _, en := range e.b.GetBundleEntries() {
					if strings.TrimPrefix(en.NameWithPath, "/") == "f" {
						committed = int64(en.Size)
					}
				}
			}
			if int64(ga.Attributes.Size) != int64(rd.BytesRead) || committed != int64(rd.BytesRead) {
				got = fmt.Sprintf("shows:%d-serves:%d-commits:%d", ga.Attributes.Size, rd.BytesRead, committed)
			}
		}
		c.w.Case("race write-vs-truncate")
		c.w.Op(fmt.Sprintf("race init=%d woff=%d wlen=%d tsize=%d overlapped=%v got=%s", initial, woff, wlen, tsize, tfin, got), "sound")
		c.w.End()
		c.w.Count(fmt.Sprintf("race:write-vs-truncate,overlapped=%v", tfin))
		_ = os.RemoveAll(dir)
	}
	return nil
}

// c18Program generates and runs program number n (a function of the seed and n only).
func c18Program(c *ctx, out *bufio.Writer, n int) error {
	work := os.Getenv("VERIF_WORK")
	if work == "" {
		work = os.TempDir()
	}
	dir := filepath.Join(work, fmt.Sprintf("c18-%d-%d", c.seed, n))
	e, err := c18NewEnv(dir)
	if err != nil {
		return err
	}
	defer os.RemoveAll(dir)
	w := &c18W{
		out: out,
		rng: tr.NewRng((c.seed+1)*0x9E3779B97F4A7C15 ^ uint64(n)*0xD1B54A32D192ED03),
		fs:  e.fs, m: e.m, b: e.b, st: e.st, dir: dir,
		held: map[uint64]int{}, rank: map[uint64]int{}, hkind: map[uint64]byte{},
		links: map[c18Key]uint64{}, where: map[uint64]c18Key{}, lkind: map[uint64]byte{},
	}
	w.take(fuseops.RootInodeID, 'd') // rank 0
	maxOps := 60
	if c.thorough() {
		maxOps = 300
	}
	nops := 5 + w.rng.Intn(maxOps-4)
	fmt.Fprintf(w.out, "C prog id=%d ops=%d\n", n, nops)
	if n%15 == 1 {
		// a wide and nested tree first: four directories under the root, each with sub-directories that
		// hold files (the commit uploads directories concurrently, four at a time)
		w.buildWide()
	}
	for i := 0; i < nops; i++ {
		w.stepOnce()
	}
	if w.rng.Intn(5) == 0 && w.offProtocol() {
		return w.out.Flush()
	}
	w.opAudit()
	if w.opCommit() {
		w.opDownload()
	}
	return w.out.Flush()
}
