package main

import (
	"context"
	"fmt"
	"sort"
	"strings"
	"time"

	"github.com/segmentio/ksuid"

	"dvh/internal/corekit"
	"dvh/internal/crashstore"
	"dvh/internal/tr"

	"github.com/oneconcern/datamon/pkg/core"
	"github.com/oneconcern/datamon/pkg/model"
)

func init() { subs["c06"] = c06 }

var c06Base = time.Date(2022, 3, 1, 0, 0, 0, 0, time.UTC)

func c06ID(sec int, tag byte) string {
	var payload [16]byte
	payload[15] = tag
	id, _ := ksuid.FromParts(c06Base.Add(time.Duration(sec)*time.Second), payload[:])
	return id.String()
}

type c06World struct {
	env    *corekit.Env
	ids    []string                     // prior bundle ids, in id order (rank = index)
	trees  map[string]map[string][]byte // bundle id -> content
	labels map[string]int               // label -> rank
	commit bool
}

// per: bundles committed from a diamond use the production number of entries per index file
func (w *c06World) per(id string, perFile uint) uint {
	if _, prior := w.trees[id]; !prior && w.commit {
		return core.VerifDefaultEntriesPerFile
	}
	return perFile
}

func c06Clone(e *corekit.Env) *corekit.Env {
	n := &corekit.Env{Blob: e.Blob.Clone(), Meta: e.Meta.Clone(), VMeta: e.VMeta.Clone(), Wal: e.Wal.Clone(), ReadLog: e.ReadLog.Clone()}
	n.Stores = corekit.WithStores(n.Wal, n.ReadLog, n.Blob, n.Meta, n.VMeta)
	return n
}

func c06TreeOf(r *tr.Rng, tag int) map[string][]byte {
	t := map[string][]byte{}
	n := 1 + r.Intn(4)
	for j := 0; j < n; j++ {
		name := fmt.Sprintf("%s%c", r.PickS("", "d/", "d/e/"), 'a'+byte(r.Intn(5)))
		if _, bad := t["d"]; bad && strings.HasPrefix(name, "d/") {
			continue
		}
		// contents are shared between bundles now and then (deduplicated blobs)
		seed := uint64(1 + r.Intn(6))
		if r.Intn(3) == 0 {
			seed = uint64(1000 + tag*10 + j)
		}
		t[name] = tr.GenBytes(seed, r.Pick(0, 1, 63, 64, 65, 130, 200))
	}
	return t
}

var c06Obs int

// c06Observe reads what list / latest / labels / download report, in rank form.
func c06Observe(w *c06World, env *corekit.Env, newTree map[string][]byte, perFile uint) string {
	rank := map[string]int{}
	for i, id := range w.ids {
		rank[id] = i
	}
	next := len(w.ids)
	rk := func(id string) int {
		if r, ok := rank[id]; ok {
			return r
		}
		rank[id] = next
		next++
		return rank[id]
	}
	var bs model.BundleDescriptors
	err := corekit.Recover(func() error {
		var e error
		// the listing page size varies from one observation to the next (1, 2, 3, default): what is
		// listed does not depend on it, whatever leftovers of interrupted uploads the pages hold
		c06Obs++
		bs, e = core.ListBundles("r", env.Stores, core.BatchSize([]int{1024, 1, 2, 3}[c06Obs%4]))
		return e
	})
	if err != nil {
		return "list=" + corekit.ErrClass(err)
	}
	ids := make([]string, 0, len(bs))
	for _, b := range bs {
		ids = append(ids, b.ID)
	}
	sort.Strings(ids)
	var ranks, dls []string
	for _, id := range ids {
		ranks = append(ranks, fmt.Sprint(rk(id)))
	}
	latest := "none"
	var lid string
	err = corekit.Recover(func() error {
		var e error
		lid, e = core.GetLatestBundle("r", env.Stores)
		return e
	})
	if err == nil {
		if _, known := rank[lid]; known {
			latest = fmt.Sprint(rank[lid])
		} else {
			latest = "unlisted"
		}
	} else if len(ids) > 0 {
		latest = corekit.ErrClass(err)
	}
	for _, id := range ids {
		want, ok := w.trees[id]
		if !ok {
			want = newTree
		}
		got, _, derr := corekit.DownloadPer(env.Stores, "r", id, w.per(id, perFile))
		st := "ok"
		if derr != nil {
			st = "fails"
		} else if len(got) != len(want) {
			st = "differs"
		} else {
			for k, v := range want {
				if string(got[k]) != string(v) {
					st = "differs"
				}
			}
		}
		dls = append(dls, fmt.Sprintf("%d:%s", rank[id], st))
	}
	var lds []model.LabelDescriptor
	err = corekit.Recover(func() error {
		var e error
		lds, e = core.ListLabels("r", env.Stores)
		return e
	})
	var ls []string
	if err != nil {
		ls = []string{"err"}
	} else {
		for _, l := range lds {
			r := "?"
			if x, ok := rank[l.BundleID]; ok {
				r = fmt.Sprint(x)
			}
			ls = append(ls, l.Name+":"+r)
		}
		sort.Strings(ls)
	}
	return fmt.Sprintf("bundles=%s latest=%s labels=%s dl=%s", strings.Join(ranks, ","), latest, strings.Join(ls, ","), strings.Join(dls, ","))
}

func c06SetLabel(env *corekit.Env, name, bundleID string) error {
	return corekit.Recover(func() error {
		b := corekit.NewBundle(env.Stores, "r", nil, 0, bundleID)
		l := core.NewLabel(core.LabelDescriptor(model.NewLabelDescriptor(model.LabelName(name))))
		return l.UploadDescriptor(context.Background(), b)
	})
}

// c06Kind classifies one recorded write for the model.
func c06Kind(w crashstore.Write, newID string) string {
	switch w.Store {
	case "blob":
		return "b"
	case "vmeta":
		if strings.HasPrefix(w.Key, "labels/") {
			return "l"
		}
		return "v"
	case "meta":
		if apc, err := model.GetArchivePathComponents(w.Key); err == nil && apc.BundleID != "" {
			if w.Key == model.GetArchivePathToBundle("r", apc.BundleID) {
				if newID == "" || apc.BundleID == newID {
					return "d"
				}
				return "d?"
			}
			return "i"
		}
	}
	return "x"
}

func c06(c *ctx) error {
	n := 36
	if c.thorough() {
		n = 400
	}
	return c.isolated(n, 120*time.Second, func(i int) {
		r := tr.NewRng(c.seed*1000003 + uint64(i)*6700417 + 61)
		w := &c06World{env: corekit.NewEnv(), trees: map[string]map[string][]byte{}, labels: map[string]int{}}
		if err := w.env.CreateRepo("r"); err != nil {
			return
		}
		ctx := context.Background()
		prior := r.Intn(4)
		perFile := uint(r.Pick(1, 2, 1000))
		for j := 0; j < prior; j++ {
			id := c06ID(10*j, byte(j))
			tree := c06TreeOf(r, j)
			b := corekit.NewBundle(w.env.Stores, "r", corekit.TreeStore(tree), 64, id)
			if err := corekit.Recover(func() error { return core.VerifUpload(ctx, b, perFile, nil) }); err != nil {
				return
			}
			w.ids = append(w.ids, id)
			w.trees[id] = tree
		}
		for j := 0; j < r.Intn(3) && prior > 0; j++ {
			name := fmt.Sprintf("l%d", j)
			t := r.Intn(prior)
			if c06SetLabel(w.env, name, w.ids[t]) == nil {
				w.labels[name] = t
			}
		}
		ops := []string{"upload", "upload", "label", "commit"}
		op := ops[r.Intn(len(ops))]
		if op == "label" && prior == 0 {
			op = "upload"
		}
		newTree := c06TreeOf(r, 9)
		newID := c06ID(10*prior+5, 99)
		lname := fmt.Sprintf("l%d", r.Intn(3))
		target := 0
		if prior > 0 {
			target = r.Intn(prior)
		}
		var diamondID string
		w.commit = op == "commit"
		if op == "commit" {
			// a diamond with one or two completed splits, built before the operation under test
			dd, err := core.CreateDiamond("r", w.env.Stores, core.DiamondLogger(corekit.Nop))
			if err != nil {
				op = "upload"
			} else {
				diamondID = dd.DiamondID
				names := corekit.SortedNames(newTree)
				half := map[string][]byte{}
				rest := map[string][]byte{}
				for k, nm := range names {
					if k%2 == 0 {
						half[nm] = newTree[nm]
					} else {
						rest[nm] = newTree[nm]
					}
				}
				if c11UploadSplit(w.env, "r", diamondID, "s1", half) != nil {
					op = "upload"
				} else if len(rest) > 0 && c11UploadSplit(w.env, "r", diamondID, "s2", rest) != nil {
					op = "upload"
				}
			}
		}
		run := func(env *corekit.Env, id string) error {
			switch op {
			case "label":
				return c06SetLabel(env, lname, w.ids[target])
			case "commit":
				return corekit.Recover(func() error {
					d := core.NewDiamond("r", env.Stores,
						core.DiamondDescriptor(model.NewDiamondDescriptor(model.DiamondID(diamondID))),
						core.DiamondMessage("verif"), core.DiamondLogger(corekit.Nop))
					return d.Commit()
				})
			default:
				b := corekit.NewBundle(env.Stores, "r", corekit.TreeStore(newTree), 64, id)
				return corekit.Recover(func() error { return core.VerifUpload(ctx, b, perFile, nil) })
			}
		}
		wrap := func(base *corekit.Env, g *crashstore.Group) *corekit.Env {
			e := &corekit.Env{Blob: base.Blob, Meta: base.Meta, VMeta: base.VMeta, Wal: base.Wal, ReadLog: base.ReadLog}
			e.Stores = corekit.WithStores(base.Wal, base.ReadLog,
				crashstore.Wrap(g, "blob", base.Blob), crashstore.Wrap(g, "meta", base.Meta), crashstore.Wrap(g, "vmeta", base.VMeta))
			return e
		}
		// dry run: how many store writes does the operation make?
		dry := c06Clone(w.env)
		g0 := &crashstore.Group{}
		if err := run(wrap(dry, g0), newID); err != nil {
			return
		}
		total := g0.Count()
		var lbl []string
		for k, v := range w.labels {
			lbl = append(lbl, fmt.Sprintf("%s:%d", k, v))
		}
		sort.Strings(lbl)
		c.w.Case("c06 op=%s prior=%d labels=%s lname=%s target=%d perfile=%d writes=%d", op, prior, strings.Join(lbl, ","), lname, target, perFile, total)
		c.w.Count("op=" + op)
		for k := 1; k <= total; k++ {
			for landed := 0; landed <= 1; landed++ {
				base := c06Clone(w.env)
				g := &crashstore.Group{CrashAt: k, Landed: landed == 1}
				id := newID
				_ = run(wrap(base, g), id)
				writes := g.Snapshot()
				kinds := make([]string, len(writes))
				known := newID
				if op == "commit" {
					known = ""
				}
				for j, wr := range writes {
					kinds[j] = c06Kind(wr, known)
				}
				c.w.Op(fmt.Sprintf("crash seq=%s k=%d landed=%d", strings.Join(kinds, ","), k, landed), c06Observe(w, base, newTree, perFile))
				// the operation is retried (a fresh bundle id for an upload) on what the crash left
				visible := false
				for j, kd := range kinds {
					if kd == "d" && (j < len(kinds)-1 || landed == 1) {
						visible = true
					}
				}
				if op == "commit" && visible {
					continue // a second commit after bundle.yaml landed is C12's known finding
				}
				if k%3 == 0 || k == total {
					rerr := run(base, c06ID(10*prior+7, 100))
					res := corekit.ErrClass(rerr)
					if rerr == nil {
						res = "ok " + c06Observe(w, base, newTree, perFile)
					}
					c.w.Op("retry", res)
				}
			}
		}
		// one store write fails once (no crash): the operation must either report the failure and
		// leave no visible bundle, or succeed with a complete bundle
		if op == "upload" {
			for k := 1; k <= total; k++ {
				base := c06Clone(w.env)
				g := &crashstore.Group{FailOnceAt: k}
				rerr := run(wrap(base, g), newID)
				writes := g.Snapshot()
				kinds := make([]string, len(writes))
				for j, wr := range writes {
					kinds[j] = c06Kind(wr, newID)
				}
				res := "ok"
				if rerr != nil {
					res = "err"
				}
				c.w.Op(fmt.Sprintf("failonce seq=%s k=%d res=%s", strings.Join(kinds, ","), k, res), c06Observe(w, base, newTree, perFile))
			}
		}
		c.w.End()
	})
}
