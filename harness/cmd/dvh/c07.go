package main

// C07 — listings are complete, exact and ordered.
//
// One case = one datamon context on in-memory stores, filled through the real API (CreateRepo,
// label upload, CreateDiamond, CreateSplit, a few real uploads) and by writing real marshalled
// descriptors / index files at the real archive paths (chosen ids and start times, so that time
// order is an input). The whole content of the metadata stores is dumped as `k` lines (the model's
// input), then every kind is listed with many page sizes / concurrencies through ListX and
// ListXApply. Results are printed as indices into the key table:
//   w=set : the sorted set of returned objects            (complete, exact, exactly once)
//   w=seq : the objects in returned order, ties of the sort field canonicalised
import (
	"bytes"
	"context"
	"fmt"
	"sort"
	"strconv"
	"strings"
	"time"

	"dvh/internal/corekit"
	"dvh/internal/crashstore"
	"dvh/internal/memstore"
	"dvh/internal/tr"

	context2 "github.com/oneconcern/datamon/pkg/context"
	"github.com/oneconcern/datamon/pkg/core"
	"github.com/oneconcern/datamon/pkg/model"
	"github.com/segmentio/ksuid"
	"gopkg.in/yaml.v2"
)

func init() { subs["c07"] = c07 }

var c07Tm = map[string]time.Duration{}

var c07Base = time.Date(2021, 1, 1, 0, 0, 0, 0, time.UTC)

// c07Tick is the unit of the start times of diamonds and splits: a quarter of a second, so that objects
// started within one second are ordered by their start time all the same
const c07Tick = 250 * time.Millisecond

// c07Ret is one returned object: its descriptor key (store letter + key) and its sort field.
type c07Ret struct {
	key string
	sk  string
}

type c07Scn struct {
	env   *corekit.Env
	rng   *tr.Rng
	idx   map[string]int // "m"/"v" + key -> index in the key table
	nkeys int
	repos []string
	// focus objects for the list operations
	dias map[string][]string // repo -> diamond ids
	// alt, when set, replaces the stores of the next listings (fault injection)
	alt *context2.Stores
}

func c07Name(r *tr.Rng, alphabet string, maxLen int) string {
	n := 1 + r.Intn(maxLen)
	b := make([]byte, n)
	for i := range b {
		b[i] = alphabet[r.Intn(len(alphabet))]
	}
	return string(b)
}

func c07Ksuid(r *tr.Rng, sec int) string {
	p := make([]byte, 16)
	for i := range p {
		p[i] = byte(r.Intn(256))
	}
	id, err := ksuid.FromParts(c07Base.Add(time.Duration(sec)*time.Second), p)
	if err != nil {
		panic(err)
	}
	return id.String()
}

func c07Must(err error) {
	if err != nil {
		panic(fmt.Sprintf("c07 setup: %v", err))
	}
}

func c07Put(s *memstore.Store, key string, v interface{}) {
	b, err := yaml.Marshal(v)
	c07Must(err)
	c07Must(s.Put(context.Background(), key, bytes.NewReader(b), true))
}

// c07Times returns n start times (seconds after the base), in an order unrelated to the ids,
// with occasional ties.
func c07Times(r *tr.Rng, n int) []int {
	p := r.Perm(n)
	for i := range p {
		p[i] = p[i] + 1
		if n > 1 && r.Intn(10) == 0 {
			p[i] = p[r.Intn(n)]%n + 1
		}
	}
	return p
}

type c07Sizes struct {
	repos, bundles, labels, diamonds, splits, index int
}

// c07Build fills the stores.
func c07Build(c *ctx, z c07Sizes, realAPI bool) *c07Scn {
	r := c.rng
	e := corekit.NewEnv()
	s := &c07Scn{env: e, rng: r, idx: map[string]int{}, dias: map[string][]string{}}
	ctxb := context.Background()

	// --- repositories: names over a hyphen-heavy alphabet, plus extensions / prefixes of the first one
	seen := map[string]bool{}
	add := func(n string) {
		if n != "" && !seen[n] {
			seen[n] = true
			s.repos = append(s.repos, n)
		}
	}
	first := c07Name(r, "ab-0", 3)
	add(first)
	for _, n := range []string{first + "-b", first + "b", first + "-", first + "0", first[:len(first)-1]} {
		if len(s.repos) < z.repos && r.Intn(3) > 0 {
			add(n)
		}
	}
	for tries := 0; len(s.repos) < z.repos && tries < 20*z.repos+20; tries++ {
		add(c07Name(r, "ab-0A", 2+z.repos/8))
	}
	for _, i := range r.Perm(len(s.repos)) {
		c07Must(e.CreateRepo(s.repos[i]))
	}
	nfocus := 1
	if len(s.repos) > 1 && r.Bool() {
		nfocus = 2
	}

	for ri, repo := range s.repos {
		focus := ri < nfocus
		// --- bundles
		nb := r.Intn(3)
		if focus {
			nb = z.bundles
			if nb > 0 && r.Intn(4) == 0 {
				nb = r.Intn(nb + 1)
			}
		}
		var bids []string
		for i, sec := range r.Perm(nb) {
			id := c07Ksuid(r, sec)
			bids = append(bids, id)
			if realAPI && i < 1 && ri == 0 {
				b := corekit.NewBundle(e.Stores, repo, corekit.TreeStore(map[string][]byte{"f": []byte("x"), "d/g": []byte("yy")}), 64, id)
				c07Must(corekit.Recover(func() error { return core.Upload(ctxb, b) }))
				c.w.Count("create=upload")
				continue
			}
			nf := r.Pick(0, 1, 1, 3)
			for j := 0; j < nf; j++ {
				c07Must(e.Meta.Put(ctxb, model.GetArchivePathToBundleFileList(repo, id, uint64(j)), strings.NewReader("x"), true))
			}
			if r.Intn(12) == 0 && nf > 0 {
				c.w.Count("bundle=partial") // a crashed upload: file lists without descriptor
				continue
			}
			bd := model.NewBundleDescriptor(model.Message("verif"))
			bd.ID, bd.Timestamp, bd.BundleEntriesFileCount = id, c07Base, uint64(nf)
			c07Put(e.Meta, model.GetArchivePathToBundle(repo, id), bd)
		}
		// --- labels (real API)
		nl := r.Intn(3)
		if focus {
			nl = z.labels
		}
		pool := append([]string{}, bids...)
		for len(pool) < 3 {
			pool = append(pool, c07Ksuid(r, 5000+len(pool)))
		}
		lseen := map[string]bool{}
		lb := corekit.NewBundle(e.Stores, repo, nil, 0, "") // NewBundle is slow (~10 ms): one per repository
		for tries := 0; len(lseen) < nl && tries < 30*nl+30; tries++ {
			ln := c07Name(r, "ab-_0L", 2+nl/10)
			if lseen[ln] {
				continue
			}
			lseen[ln] = true
			target := pool[r.Intn(len(pool))]
			if r.Intn(3) == 0 {
				target = pool[r.Intn(3)] // many labels on few bundles: ties of the sort field
			}
			lb.BundleID = target
			ld := model.NewLabelDescriptor(model.LabelName(ln))
			ld.Timestamp = c07Base
			c07Must(core.NewLabel(core.LabelDescriptor(ld)).UploadDescriptor(ctxb, lb))
		}
		// --- diamonds and splits
		nd := r.Intn(2)
		if focus {
			nd = z.diamonds
		}
		dtimes := c07Times(r, nd)
		for di, sec := range r.Perm(nd) {
			did := c07Ksuid(r, sec)
			s.dias[repo] = append(s.dias[repo], did)
			dd := model.NewDiamondDescriptor(model.DiamondID(did))
			dd.StartTime = c07Base.Add(time.Duration(dtimes[di]) * c07Tick)
			if realAPI || r.Intn(4) == 0 {
				_, err := core.CreateDiamond(repo, e.Stores, core.DiamondDescriptor(dd))
				c07Must(err)
				c.w.Count("create=CreateDiamond")
			} else {
				c07Put(e.VMeta, model.GetArchivePathToInitialDiamond(repo, did), dd)
			}
			ns := r.Intn(3)
			if focus && (di == 0 || r.Intn(3) == 0) {
				ns = z.splits
			}
			stimes := c07Times(r, ns)
			for si := 0; si < ns; si++ {
				sid := c07Ksuid(r, 9000+r.Intn(1000))
				switch r.Intn(4) {
				case 0:
					sid = "s-" + strconv.Itoa(si) // "the splitID may not be a KSUID"
				case 1:
					sid = "split-" + c07Name(r, "ab-", 2) + strconv.Itoa(si)
				}
				sd := model.NewSplitDescriptor(model.SplitID(sid))
				sd.StartTime = c07Base.Add(time.Duration(stimes[si]) * c07Tick)
				if realAPI && si < 3 {
					_, err := core.CreateSplit(repo, did, e.Stores, core.SplitDescriptor(sd))
					c07Must(err)
					c.w.Count("create=CreateSplit")
				} else {
					c07Put(e.VMeta, model.GetArchivePathToInitialSplit(repo, did, sid), sd)
				}
				// index files, in one or two generations
				ngen := r.Pick(0, 1, 1, 2)
				var gen string
				for g := 0; g < ngen; g++ {
					gen = c07Ksuid(r, 20000+r.Intn(1000))
					ni := r.Intn(z.index + 1)
					if r.Intn(3) == 0 {
						ni = z.index
					}
					for j := 0; j < ni; j++ {
						c07Must(e.VMeta.Put(ctxb, model.GetArchivePathToSplitFileList(repo, did, sid, gen, uint64(j)), strings.NewReader("x"), true))
					}
				}
				if r.Intn(3) == 0 {
					done := *sd
					done.State, done.EndTime, done.GenerationID = model.SplitDone, sd.StartTime.Add(time.Second), gen
					c07Put(e.VMeta, model.GetArchivePathToFinalSplit(repo, did, sid), &done)
				}
			}
			if r.Intn(3) == 0 {
				done := *dd
				done.State, done.EndTime = model.DiamondDone, dd.StartTime.Add(time.Hour)
				if r.Bool() {
					done.State = model.DiamondCanceled
				}
				c07Put(e.VMeta, model.GetArchivePathToFinalDiamond(repo, did), &done)
			}
		}
	}
	return s
}

// c07Dump writes the key table.
func c07Dump(c *ctx, s *c07Scn) {
	n := 0
	for _, st := range []struct {
		tag   string
		store *memstore.Store
	}{{"m", s.env.Meta}, {"v", s.env.VMeta}} {
		for _, k := range st.store.SortedKeys() {
			raw, _ := st.store.Raw(k)
			name, t, sf := "", 0, ""
			has := false
			if apc, err := model.GetArchivePathComponents(k); err == nil {
				switch {
				case strings.HasPrefix(k, "repos/"):
					var d model.RepoDescriptor
					c07Must(yaml.Unmarshal(raw, &d))
					name, sf, has = d.Name, d.Name, true
				case strings.HasPrefix(k, "bundles/") && apc.ArchiveFileName == "bundle.yaml":
					var d model.BundleDescriptor
					c07Must(yaml.Unmarshal(raw, &d))
					name, sf, has = d.ID, d.ID, true
				case strings.HasPrefix(k, "labels/"):
					var d model.LabelDescriptor
					c07Must(yaml.Unmarshal(raw, &d))
					name, sf, has = d.Name, d.BundleID, true
				case strings.HasPrefix(k, "diamonds/") && apc.SplitID == "" && strings.HasPrefix(apc.ArchiveFileName, "diamond-"):
					var d model.DiamondDescriptor
					c07Must(yaml.Unmarshal(raw, &d))
					name, t, has = d.DiamondID, int(d.StartTime.Sub(c07Base)/c07Tick), true
				case strings.HasPrefix(k, "diamonds/") && strings.HasPrefix(apc.ArchiveFileName, "split-"):
					var d model.SplitDescriptor
					c07Must(yaml.Unmarshal(raw, &d))
					name, t, has = d.SplitID, int(d.StartTime.Sub(c07Base)/c07Tick), true
				}
			}
			s.idx[st.tag+k] = n
			n++
			if has {
				c.w.Note(fmt.Sprintf("k st=%s key=%s d=1 name=%s t=%d s=%s", st.tag, tr.Esc(k), tr.Esc(name), t, tr.Esc(sf)))
			} else {
				c.w.Note(fmt.Sprintf("k st=%s key=%s d=0", st.tag, tr.Esc(k)))
			}
		}
	}
	s.nkeys = n
}

// c07Call runs one listing with a watchdog; panics and hangs are results.
var c07Hangs int
var c07Watchdog = 25 * time.Second

func c07Call(f func() ([]c07Ret, error)) (out []c07Ret, class string) {
	if c07Hangs >= 3 {
		// a listing that does not return keeps its goroutine (and its memory) busy: after three of
		// them there are failing inputs enough; do not start more
		return nil, "hang"
	}
	type res struct {
		out []c07Ret
		err error
	}
	ch := make(chan res, 1)
	go func() {
		var rr res
		rr.err = corekit.Recover(func() error {
			o, err := f()
			rr.out = o
			return err
		})
		ch <- rr
	}()
	select {
	case rr := <-ch:
		return rr.out, corekit.ErrClass(rr.err)
	case <-time.After(c07Watchdog):
		c07Hangs++
		return nil, "hang"
	}
}

func c07List(s *c07Scn, kind, variant, repo, did string, ps, cl int) ([]c07Ret, string) {
	st := s.env.Stores
	if s.alt != nil {
		st = *s.alt
	}
	opts := []core.Option{core.BatchSize(ps), core.ConcurrentList(cl)}
	tsec := func(t time.Time) string { return strconv.FormatInt(int64(t.Sub(c07Base)), 10) }
	return c07Call(func() ([]c07Ret, error) {
		var out []c07Ret
		var err error
		switch kind {
		case "repos":
			conv := func(d model.RepoDescriptor) {
				out = append(out, c07Ret{"m" + model.GetArchivePathToRepoDescriptor(d.Name), d.Name})
			}
			if variant == "list" {
				var ds []model.RepoDescriptor
				ds, err = core.ListRepos(st, opts...)
				for _, d := range ds {
					conv(d)
				}
			} else {
				err = core.ListReposApply(st, func(d model.RepoDescriptor) error { conv(d); return nil }, opts...)
			}
		case "bundles":
			conv := func(d model.BundleDescriptor) {
				out = append(out, c07Ret{"m" + model.GetArchivePathToBundle(repo, d.ID), d.ID})
			}
			if variant == "list" {
				var ds model.BundleDescriptors
				ds, err = core.ListBundles(repo, st, opts...)
				for _, d := range ds {
					conv(d)
				}
			} else {
				err = core.ListBundlesApply(repo, st, func(d model.BundleDescriptor) error { conv(d); return nil }, opts...)
			}
		case "labels":
			conv := func(d model.LabelDescriptor) {
				out = append(out, c07Ret{"v" + model.GetArchivePathToLabel(repo, d.Name), d.BundleID})
			}
			if variant == "list" {
				var ds []model.LabelDescriptor
				ds, err = core.ListLabels(repo, st, opts...)
				for _, d := range ds {
					conv(d)
				}
			} else {
				err = core.ListLabelsApply(repo, st, func(d model.LabelDescriptor) error { conv(d); return nil }, opts...)
			}
		case "diamonds":
			conv := func(d model.DiamondDescriptor) {
				out = append(out, c07Ret{"v" + model.GetArchivePathToDiamond(repo, d.DiamondID, d.State), tsec(d.StartTime)})
			}
			if variant == "list" {
				var ds model.DiamondDescriptors
				ds, err = core.ListDiamonds(repo, st, opts...)
				for _, d := range ds {
					conv(d)
				}
			} else {
				err = core.ListDiamondsApply(repo, st, func(d model.DiamondDescriptor) error { conv(d); return nil }, opts...)
			}
		case "splits":
			conv := func(d model.SplitDescriptor) {
				out = append(out, c07Ret{"v" + model.GetArchivePathToSplit(repo, did, d.SplitID, d.State), tsec(d.StartTime)})
			}
			if variant == "list" {
				var ds model.SplitDescriptors
				ds, err = core.ListSplits(repo, did, st, opts...)
				for _, d := range ds {
					conv(d)
				}
			} else {
				err = core.ListSplitsApply(repo, did, st, func(d model.SplitDescriptor) error { conv(d); return nil }, opts...)
			}
		}
		return out, err
	})
}

func c07Join(xs []int) string {
	p := make([]string, len(xs))
	for i, x := range xs {
		if x < 0 {
			p[i] = "?"
		} else {
			p[i] = strconv.Itoa(x)
		}
	}
	return strings.Join(p, ",")
}

// c07Op lists once and writes the two compared lines.
func c07Op(c *ctx, s *c07Scn, kind, variant, repo, did string, ps, cl int) {
	out, class := c07List(s, kind, variant, repo, did, ps, cl)
	op := fmt.Sprintf("ls kind=%s v=%s repo=%s dia=%s ps=%d cl=%d", kind, variant, tr.Esc(repo), tr.Esc(did), ps, cl)
	c.w.Count("kind=" + kind)
	c.w.Count("variant=" + variant)
	c.w.Count("result=" + class)
	switch {
	case ps == 1:
		c.w.Count("ps=1")
	case ps <= 8:
		c.w.Count("ps=2..8")
	case ps <= 64:
		c.w.Count("ps=9..64")
	default:
		c.w.Count("ps>64")
	}
	if class != "ok" {
		c.w.Op(op+" w=set", class)
		c.w.Op(op+" w=seq", class)
		return
	}
	switch n := len(out); {
	case n == 0:
		c.w.Count("returned=0")
	case n <= 8:
		c.w.Count("returned=1..8")
	case n <= 64:
		c.w.Count("returned=9..64")
	default:
		c.w.Count("returned>64")
	}
	ids := make([]int, len(out))
	for i, o := range out {
		if x, ok := s.idx[o.key]; ok {
			ids[i] = x
		} else {
			ids[i] = -1
		}
	}
	set := append([]int{}, ids...)
	sort.Ints(set)
	// canonicalise runs of equal sort fields (sort.Sort is not stable, arrival order is random)
	seq := append([]int{}, ids...)
	for i := 0; i < len(seq); {
		j := i
		for j < len(seq) && out[j].sk == out[i].sk {
			j++
		}
		sort.Ints(seq[i:j])
		i = j
	}
	c.w.Op(op+" w=set", "ok "+c07Join(set))
	c.w.Op(op+" w=seq", "ok "+c07Join(seq))
}

func c07PageSizes(c *ctx, nkeys int, full bool) []int {
	r := c.rng
	m := map[int]bool{}
	lo := 1
	if nkeys > 300 {
		lo = nkeys / 40 // a page costs one scan of the store: keep the number of pages bounded
	}
	add := func(p int) {
		if p >= lo && p >= 1 && p <= 2048 {
			m[p] = true
		}
	}
	if full {
		for p := 1; p <= 8; p++ {
			add(p)
		}
		for _, p := range []int{16, 64, 2048} {
			add(p)
		}
	} else if nkeys <= 3000 {
		add(1 + r.Intn(8))
		add(1 + r.Intn(3))
		add(1 << uint(3+r.Intn(9)))
	}
	if nkeys > 300 {
		add(lo)
		add(2048)
		if nkeys <= 3000 { // the model replays a listing of n objects in O(n^2): fewer page sizes on the largest stores
			add(2 * lo)
			add(1024)
			add(lo + r.Intn(2048-lo+1))
		}
	}
	add(nkeys - 1)
	add(nkeys)
	add(nkeys + 1)
	add(lo + r.Intn(2048-lo+1))
	if nkeys <= 3000 {
		add(lo + r.Intn(nkeys+2))
	}
	if len(m) == 0 {
		m[2048] = true
	}
	out := make([]int, 0, len(m))
	for p := range m {
		out = append(out, p)
	}
	sort.Ints(out)
	return out
}

func c07Case(c *ctx, descr string, z c07Sizes, realAPI, full bool) {
	c.w.Case("%s repos=%d bundles=%d labels=%d diamonds=%d splits=%d index=%d", descr, z.repos, z.bundles, z.labels, z.diamonds, z.splits, z.index)
	if c.only > 0 && c.w.Cases != c.only {
		// keep the generator in step: build (consumes randomness) but do not list
		_ = c07Build(c, z, realAPI)
		c.w.End()
		return
	}
	t0 := time.Now()
	s := c07Build(c, z, realAPI)
	c07Dump(c, s)
	c07Tm["build/"+descr] += time.Since(t0)
	defer func(t time.Time) { c07Tm["list/"+descr] += time.Since(t) }(time.Now())
	r := c.rng
	pss := c07PageSizes(c, s.nkeys, full)
	repo := s.repos[0]
	repo2 := s.repos[r.Intn(len(s.repos))]
	cls := []int{1, 2, 3, 4, 8, 16, 32, 1 + r.Intn(32)}
	for _, ps := range pss {
		for _, variant := range []string{"list", "apply"} {
			cl := cls[r.Intn(len(cls))]
			c07Op(c, s, "repos", variant, "", "", ps, cl)
			for ri, rp := range []string{repo, repo2} {
				if ri == 1 && (repo2 == repo || r.Intn(3) > 0) {
					continue
				}
				c07Op(c, s, "bundles", variant, rp, "", ps, cl)
				c07Op(c, s, "labels", variant, rp, "", ps, cl)
				c07Op(c, s, "diamonds", variant, rp, "", ps, cl)
				ds := s.dias[rp]
				for i, did := range ds {
					if i == 0 || r.Intn(len(ds)) == 0 {
						c07Op(c, s, "splits", variant, rp, did, ps, cl)
					}
				}
			}
		}
	}
	// the same listings while ONE descriptor read fails transiently, with small pages: the listing
	// ends (error, or exactly the fault-free result) — it never hangs, never returns a part
	if s.nkeys <= 300 {
		for _, kind := range []string{"diamonds", "splits", "bundles", "labels"} {
			did := ""
			if kind == "splits" {
				if len(s.dias[repo]) == 0 {
					continue
				}
				did = s.dias[repo][0]
			}
			for _, variant := range []string{"list", "apply"} {
				ps := 1 + r.Intn(2)
				ref, rclass := c07List(s, kind, variant, repo, did, ps, 2)
				if rclass != "ok" || len(ref) < 2 {
					continue
				}
				g := &crashstore.Group{FailReadOp: "get", FailReadAt: 1 + r.Intn(len(ref))}
				switch kind {
				case "diamonds":
					g.FailReadKey = "/diamond-"
				case "splits":
					g.FailReadKey = "/split-"
				case "bundles":
					g.FailReadKey = "/bundle.yaml"
				default:
					g.FailReadKey = "/label.yaml"
				}
				e := s.env
				alt := corekit.WithStores(e.Wal, e.ReadLog, e.Blob, crashstore.Wrap(g, "meta", e.Meta), crashstore.Wrap(g, "vmeta", e.VMeta))
				s.alt = &alt
				out, class := c07List(s, kind, variant, repo, did, ps, 2)
				s.alt = nil
				if g.Reads() < g.FailReadAt {
					continue
				}
				got := class
				if class == "ok" {
					got = "same"
					if len(out) != len(ref) {
						got = fmt.Sprintf("differ:%d-instead-of-%d", len(out), len(ref))
					} else {
						for i := range out {
							if out[i].key != ref[i].key {
								got = "differ:order-or-content"
							}
						}
					}
				} else if class != "hang" {
					got = "err"
				}
				c.w.Op(fmt.Sprintf("lsf kind=%s v=%s ps=%d at=%d got=%s", kind, variant, ps, g.FailReadAt, got), "sound")
				c.w.Count("listing-with-read-fault=" + kind)
			}
		}
	}
	// unknown repository / diamond
	missing := repo + "zz"
	c07Op(c, s, "bundles", "list", missing, "", 3, 2)
	c07Op(c, s, "labels", "apply", missing, "", 3, 2)
	c07Op(c, s, "diamonds", "list", missing, "", 3, 2)
	c07Op(c, s, "splits", "list", repo, c07Ksuid(r, 77), 3, 2)
	c.w.End()
}

func c07(c *ctx) error {
	if c.thorough() {
		c07Watchdog = 120 * time.Second
	}
	r := c.rng
	// the two observations of DESIGN §5.0, as fixed cases
	c07Case(c, "three-diamonds", c07Sizes{repos: 3, diamonds: 3, splits: 1, index: 2}, true, true)
	// small scopes: every page size 1..8 and the powers of two
	nsmall, nmed, nbig, big := 36, 42, 2, 300
	if c.thorough() {
		nsmall, nmed, nbig, big = 200, 240, 7, 3000
	}
	for i := 0; i < nsmall; i++ {
		z := c07Sizes{repos: 1 + r.Intn(6), bundles: r.Intn(5), labels: r.Intn(5), diamonds: r.Intn(4), splits: r.Intn(4), index: r.Intn(4)}
		c07Case(c, "small", z, i%4 == 0, true)
	}
	// medium: one kind dominates (N = 40)
	for i := 0; i < nmed; i++ {
		z := c07Sizes{repos: 1 + r.Intn(4), bundles: r.Intn(4), labels: r.Intn(4), diamonds: r.Intn(3), splits: r.Intn(3), index: r.Intn(3)}
		n := 5 + r.Intn(36)
		switch i % 6 {
		case 0:
			z.repos = n
		case 1:
			z.bundles = n
		case 2:
			z.labels = n
		case 3:
			z.diamonds = n
		case 4:
			z.diamonds, z.splits = 2, n
		case 5:
			z.diamonds, z.splits, z.index = 3, 2, n // splits with many index files
		}
		c07Case(c, "medium", z, i%5 == 0, i%3 == 0)
	}
	// big: N up to 400 (quick) / 3000 (thorough), large pages only
	for i := 0; i < nbig; i++ {
		z := c07Sizes{repos: 2, bundles: 2, labels: 2, diamonds: 1, splits: 1, index: 1}
		n := big/2 + r.Intn(big/2+1)
		switch (i + int(c.seed)) % 7 {
		case 0:
			z.repos = n
		case 1:
			z.bundles = n
		case 2:
			z.labels = n/8 + 20 // every label fetched costs one core.NewBundle (~10 ms) in the listing itself
		case 3:
			z.diamonds = n
		case 4:
			z.diamonds, z.splits = 2, n
		case 5:
			z.diamonds, z.splits, z.index = 2, 2, n
		case 6:
			z.diamonds, z.splits, z.index = n/20+1, 3, 12 // diamonds with many splits and index files
		}
		c07Case(c, "big", z, false, false)
	}
	for k, v := range c07Tm {
		c.extra["wall_"+k] = v.String()
	}
	c.extra["max_objects_of_one_kind"] = big
	c.extra["page_sizes"] = "1..8, 16, 64, 2048, around the number of keys, random in 1..2048 (small cases: all of them)"
	c.extra["concurrency"] = "1..32"
	return nil
}
