package main

import (
	"context"
	"dvh/internal/crashstore"
	"fmt"
	"github.com/oneconcern/datamon/pkg/storage"
	"github.com/oneconcern/datamon/pkg/storage/localfs"
	"github.com/spf13/afero"
	"io"
	"os"
	"path/filepath"
	"sort"
	"strings"
	"sync"
	"time"

	"dvh/internal/corekit"
	"dvh/internal/memstore"
	"dvh/internal/tr"

	"github.com/oneconcern/datamon/pkg/core"
	"github.com/oneconcern/datamon/pkg/model"
)

func init() { subs["c15"] = c15 }

type c15Actor struct {
	kind     string // upload | download | label | commit
	tree     map[string][2]uint64
	bundleID string
	err      error
	files    map[string][]byte // download result
	label    string
	target   int
	diamond  string
	mu       sync.Mutex
	finished bool
	full     map[string][2]uint64 // upload: the tree the source holds (tree = what the bundle must hold)
	victim   string               // upload: the listed file the source cannot open ("" = none)
}

// c15Pool: a few contents shared by everybody, so that concurrent operations write the same blobs
func c15Tree(r *tr.Rng, leaf int) map[string][2]uint64 {
	t := map[string][2]uint64{}
	n := 1 + r.Intn(6)
	for len(t) < n {
		name := fmt.Sprintf("%s%c", r.PickS("", "d/", "d/e/"), 'a'+byte(r.Intn(8)))
		t[name] = [2]uint64{uint64(1 + r.Intn(4)), uint64(r.Pick(0, 1, leaf, 2*leaf+3, 3*leaf, 40))}
		if r.Intn(12) == 0 {
			// longer than one 32 KiB write of io.Copy
			t[name] = [2]uint64{uint64(1 + r.Intn(4)), uint64(40000 + r.Intn(30000))}
		}
	}
	return t
}

func c15Files(t map[string][2]uint64) map[string][]byte {
	f := map[string][]byte{}
	for k, v := range t {
		f[k] = tr.GenBytes(v[0], int(v[1]))
	}
	return f
}

// c15Emit writes one operation's result as a C04-format case: the sequential model of that
// operation alone is the expected outcome.
func c15Emit(c *ctx, env *corekit.Env, leaf int, per uint, a *c15Actor, what string) {
	c.w.Case("c04 leaf=%d perfile=%d c15=%s", leaf, per, what)
	for _, k := range c04SortedKeys(a.tree) {
		v := a.tree[k]
		c.w.Note(fmt.Sprintf("file name=%s content=gen:%d:%d", tr.Esc(k), v[0], v[1]))
	}
	if a.err != nil {
		c.w.Op("upload keys=* skip=0", corekit.ErrClass(a.err))
		c.w.End()
		return
	}
	mb := corekit.NewBundle(env.Stores, "r", nil, 0, a.bundleID)
	if err := corekit.Recover(func() error { return core.VerifDownloadMetadata(context.Background(), mb, per) }); err != nil {
		c.w.Op("upload keys=* skip=0", "ok entries=<unreadable>")
		c.w.End()
		return
	}
	ents := make([]string, 0, len(mb.BundleEntries))
	for _, en := range mb.BundleEntries {
		ents = append(ents, fmt.Sprintf("%s:%s:%d", tr.Esc(en.NameWithPath), en.Hash, en.Size))
	}
	sort.Strings(ents)
	c.w.Op("upload keys=* skip=0", fmt.Sprintf("ok entries=%s ## count=%d", strings.Join(ents, ";"), mb.BundleDescriptor.BundleEntriesFileCount))
	files := a.files
	var derr error
	if files == nil {
		files, _, derr = corekit.DownloadPer(env.Stores, "r", a.bundleID, per)
	}
	if derr != nil {
		c.w.Op("download sel=all", "err")
	} else {
		c.w.Op("download sel=all", "ok files="+c04ShowFiles(files))
	}
	c.w.End()
}

// c15Src is a consumable store whose readers are plain io.Readers and which fails to open one key.
type c15Src struct {
	*memstore.Store
	unreadable string
}

func (s *c15Src) Get(ctx context.Context, k string) (io.ReadCloser, error) {
	if s.unreadable != "" && k == s.unreadable {
		return nil, fmt.Errorf("injected: %q cannot be opened", k)
	}
	rc, err := s.Store.Get(ctx, k)
	if err != nil {
		return nil, err
	}
	return struct {
		io.Reader
		io.Closer
	}{rc, rc}, nil
}

// c15SlowProbe delays the answer of GetAttr / Has (not the probe itself).
type c15SlowProbe struct{ *memstore.Store }

func (s *c15SlowProbe) GetAttr(ctx context.Context, k string) (storage.Attributes, error) {
	a, err := s.Store.GetAttr(ctx, k)
	time.Sleep(300 * time.Microsecond)
	return a, err
}

func (s *c15SlowProbe) Has(ctx context.Context, k string) (bool, error) {
	ok, err := s.Store.Has(ctx, k)
	time.Sleep(300 * time.Microsecond)
	return ok, err
}

func c15(c *ctx) error {
	n := 24
	if c.thorough() {
		n = 300
	}
	return c.isolated(n, 180*time.Second, func(i int) {
		r := tr.NewRng(c.seed*1000003 + uint64(i)*999983 + 71)
		leaf := r.Pick(64, 64, 4096)
		// entries per index file (test hook): bundles of a few files span several index files, whose
		// reads complete in any order
		per := uint(r.Pick(1, 2, 3, 1000))
		env := corekit.NewEnv()
		if env.CreateRepo("r") != nil {
			return
		}
		// bundles that exist before the concurrent phase (targets of downloads and labels)
		var pre []*c15Actor
		for j := 0; j < 2; j++ {
			a := &c15Actor{kind: "pre", tree: c15Tree(r, leaf)}
			pb := corekit.NewBundle(env.Stores, "r", corekit.TreeStore(c15Files(a.tree)), uint32(leaf), "")
			a.err = corekit.Recover(func() error { return core.VerifUpload(context.Background(), pb, per, nil) })
			a.bundleID = pb.BundleID
			if a.err != nil {
				return
			}
			pre = append(pre, a)
		}
		g := 2 + r.Intn(15)
		actors := make([]*c15Actor, g)
		for j := range actors {
			a := &c15Actor{}
			switch r.Intn(7) {
			case 0, 1, 2:
				a.kind, a.tree = "upload", c15Tree(r, leaf)
				a.full = a.tree
				if names := c04SortedKeys(a.tree); len(names) > 1 && r.Intn(4) == 0 {
					// one listed file cannot be opened: with skip-missing the bundle is the tree without it
					a.victim = names[r.Intn(len(names))]
					a.tree = map[string][2]uint64{}
					for k, v := range a.full {
						if k != a.victim {
							a.tree[k] = v
						}
					}
				}
			case 3, 4:
				a.kind = "download"
				p := pre[r.Intn(len(pre))]
				a.tree, a.bundleID = p.tree, p.bundleID
			case 5:
				a.kind, a.label, a.target = "label", fmt.Sprintf("l%d", j), r.Intn(len(pre))
			default:
				a.kind, a.tree = "commit", c15Tree(r, leaf)
				dd, err := core.CreateDiamond("r", env.Stores, core.DiamondLogger(corekit.Nop))
				if err != nil {
					a.kind, a.tree = "upload", c15Tree(r, leaf)
					a.full = a.tree
				} else {
					a.diamond = dd.DiamondID
				}
			}
			actors[j] = a
			c.w.Count("op=" + a.kind)
		}
		c.w.Count(fmt.Sprintf("goroutines=%d", g))
		// the existence probes of the blob store answer a little late: concurrent writers of one blob all
		// see it absent before any of them writes it (the window every check-then-act falls into)
		cst := corekit.WithStores(env.Wal, env.ReadLog, &c15SlowProbe{Store: env.Blob}, env.Meta, env.VMeta)
		var wg sync.WaitGroup
		start := make(chan struct{})
		for _, a := range actors {
			wg.Add(1)
			go func(a *c15Actor) {
				defer wg.Done()
				defer func() { a.mu.Lock(); a.finished = true; a.mu.Unlock() }()
				<-start
				switch a.kind {
				case "upload":
					// the source hands out plain readers (io.Copy then reuses its 32 KiB buffer between writes),
					// and — for some uploads with skip-missing — cannot open one file that it lists
					src := &c15Src{Store: corekit.TreeStore(c15Files(a.full)), unreadable: a.victim}
					b := corekit.NewBundle(cst, "r", src, uint32(leaf), "", core.SkipMissing(a.victim != ""))
					a.err = corekit.Recover(func() error { return core.VerifUpload(context.Background(), b, per, nil) })
					a.bundleID = b.BundleID
				case "download":
					dst := memstore.New("dest")
					b := corekit.NewBundle(env.Stores, "r", dst, 0, a.bundleID)
					a.err = corekit.Recover(func() error {
						return core.VerifPublish(context.Background(), b, per, func(string) (bool, error) { return true, nil })
					})
					a.files, _ = corekit.SplitMeta(dst.Snapshot())
				case "label":
					a.err = c06SetLabel(env, a.label, pre[a.target].bundleID)
				case "commit":
					a.err = c11UploadSplit(env, "r", a.diamond, "s1", c15Files(a.tree))
					if a.err == nil {
						a.err = corekit.Recover(func() error {
							d := core.NewDiamond("r", env.Stores,
								core.DiamondDescriptor(model.NewDiamondDescriptor(model.DiamondID(a.diamond))),
								core.DiamondMessage("verif"), core.DiamondLogger(corekit.Nop))
							return d.Commit()
						})
					}
					if a.err == nil {
						if desc, e := core.GetDiamond("r", a.diamond, env.Stores); e == nil {
							a.bundleID = desc.BundleID
						} else {
							a.err = e
						}
					}
				}
			}(a)
		}
		close(start)
		allDone := make(chan struct{})
		go func() { wg.Wait(); close(allDone) }()
		select {
		case <-allDone:
		case <-time.After(90 * time.Second):
			// an operation that never returns is reported as failed (its goroutine is abandoned)
			for _, a := range actors {
				a.mu.Lock()
				if !a.finished {
					a.err = fmt.Errorf("hang: the operation did not return within 90 s")
				}
				a.mu.Unlock()
			}
		}
		// every result is what the operation would have produced alone
		for j, a := range actors {
			switch a.kind {
			case "upload", "download":
				c15Emit(c, env, leaf, per, a, fmt.Sprintf("%s/%d", a.kind, j))
			case "commit":
				// splits (and the bundle committed from them) use the default leaf size
				c15Emit(c, env, int(model.NewBundleDescriptor().LeafSize), core.VerifDefaultEntriesPerFile, a, fmt.Sprintf("%s/%d", a.kind, j))
			case "label":
				c.w.Case("c04 leaf=%d perfile=1000 c15=label/%d", leaf, j)
				res := corekit.ErrClass(a.err)
				if a.err == nil {
					res = "unresolved"
					if lds, err := core.ListLabels("r", env.Stores); err == nil {
						for _, l := range lds {
							if l.Name == a.label {
								res = "other"
								for t, p := range pre {
									if p.bundleID == l.BundleID {
										res = fmt.Sprint(t)
									}
								}
							}
						}
					}
				}
				c.w.Op(fmt.Sprintf("label name=%s target=%d", a.label, a.target), res)
				c.w.End()
			}
		}
		// a download into a destination that retries (localfs, default policy) with one chunk writer per
		// file, while ONE blob read fails transiently: it fails, or the files are exactly the bundle's
		{
			p := pre[r.Intn(len(pre))]
			dir := filepath.Join(os.Getenv("VERIF_WORK"), fmt.Sprintf("c15r-%d-%d", c.seed, i))
			_ = os.MkdirAll(dir, 0o755)
			dst := localfs.New(afero.NewBasePathFs(afero.NewOsFs(), dir))
			g := &crashstore.Group{FailReadOp: "get", FailReadAt: 2 + r.Intn(8)}
			st := corekit.WithStores(env.Wal, env.ReadLog, crashstore.Wrap(g, "blob", env.Blob), env.Meta, env.VMeta)
			conc := r.Pick(1, 3, 5, 10)
			b := corekit.NewBundle(st, "r", dst, 0, p.bundleID, core.ConcurrentFileDownloads(conc))
			derr := corekit.Recover(func() error {
				return core.VerifPublish(context.Background(), b, per, func(string) (bool, error) { return true, nil })
			})
			if g.Reads() >= g.FailReadAt {
				got := "err"
				if derr == nil {
					got = "same"
					have := c04ReadDir(dir)
					want := c15Files(p.tree)
					if len(have) != len(want) {
						got = fmt.Sprintf("differ:%d-files-instead-of-%d", len(have), len(want))
					}
					for k, v := range want {
						if string(have[k]) != string(v) {
							got = "differ:" + tr.Esc(k)
						}
					}
				}
				c.w.Case("c04 leaf=%d perfile=%d c15=download-with-read-fault", leaf, per)
				c.w.Op(fmt.Sprintf("downloadf conc=%d at=%d got=%s", conc, g.FailReadAt, got), "sound")
				c.w.End()
				c.w.Count("op=download-with-read-fault")
			}
			_ = os.RemoveAll(dir)
		}
		// the bundles that existed before are intact
		for j, p := range pre {
			c15Emit(c, env, leaf, per, p, fmt.Sprintf("pre/%d", j))
		}
	})
}
