package main

import (
	"fmt"
	"net/mail"
	"os"
	"reflect"
	"sort"
	"strconv"
	"strings"
	"time"
	"unicode"
	"unicode/utf8"

	"dvh/internal/tr"

	"github.com/oneconcern/datamon/pkg/model"
	"github.com/segmentio/ksuid"
	"gopkg.in/yaml.v2"
)

func init() { subs["c20"] = c20 }

// ---------------------------------------------------------------------------------------
// arguments and the table of real builders
// ---------------------------------------------------------------------------------------

type c20Arg struct {
	kind byte // 's', 'n', 'l'
	s    string
	n    uint64
	l    []string
}

func c20S(s string) c20Arg      { return c20Arg{kind: 's', s: s} }
func c20N(n uint64) c20Arg      { return c20Arg{kind: 'n', n: n} }
func c20L(l ...string) c20Arg   { return c20Arg{kind: 'l', l: l} }
func (a c20Arg) String() string { return c20ArgText(a) }

func c20ArgText(a c20Arg) string {
	switch a.kind {
	case 's':
		return "s:" + tr.Esc(a.s)
	case 'n':
		return "n:" + strconv.FormatUint(a.n, 10)
	default:
		es := make([]string, len(a.l))
		for i, x := range a.l {
			es[i] = tr.Esc(x)
		}
		return fmt.Sprintf("l%d:%s", len(a.l), strings.Join(es, ";"))
	}
}

func c20ArgsText(as []c20Arg) string {
	ts := make([]string, len(as))
	for i, a := range as {
		ts[i] = c20ArgText(a)
	}
	return strings.Join(ts, ",")
}

type c20Builder struct {
	name string // key in Facts.pathTemplates / joinPathTemplates
	sig  string // one letter per argument: r=repo name, b=bundle id, l=label, c=context, d=diamond id, s=split id, g=generation id, n=index, p=path, x=any string, L=variadic
	call func(a []c20Arg) string
	kind string // object kind for archive paths that GetArchivePathComponents parses ("" otherwise)
}

func c20Builders(r *tr.Rng) []c20Builder {
	otherDiamondState := func() model.DiamondState {
		return model.DiamondState(r.PickS(string(model.DiamondDone), string(model.DiamondCanceled), "", "whatever"))
	}
	otherSplitState := func() model.SplitState {
		return model.SplitState(r.PickS(string(model.SplitDone), "", "whatever"))
	}
	return []c20Builder{
		{"GetArchivePathPrefixToBundles", "r", func(a []c20Arg) string { return model.GetArchivePathPrefixToBundles(a[0].s) }, ""},
		{"GetArchivePathPrefixToContexts", "", func(a []c20Arg) string { return model.GetArchivePathPrefixToContexts() }, ""},
		{"GetArchivePathPrefixToDiamonds", "r", func(a []c20Arg) string { return model.GetArchivePathPrefixToDiamonds(a[0].s) }, ""},
		{"GetArchivePathPrefixToLabels", "rL", func(a []c20Arg) string { return model.GetArchivePathPrefixToLabels(a[0].s, a[1].l...) }, ""},
		{"GetArchivePathPrefixToRepos", "", func(a []c20Arg) string { return model.GetArchivePathPrefixToRepos() }, ""},
		{"GetArchivePathPrefixToSplits", "rd", func(a []c20Arg) string { return model.GetArchivePathPrefixToSplits(a[0].s, a[1].s) }, ""},
		{"GetArchivePathToBundle", "rb", func(a []c20Arg) string { return model.GetArchivePathToBundle(a[0].s, a[1].s) }, "bundle"},
		{"GetArchivePathToBundleFileList", "rbn", func(a []c20Arg) string { return model.GetArchivePathToBundleFileList(a[0].s, a[1].s, a[2].n) }, "bundleFileList"},
		{"GetArchivePathToDiamond/DiamondInitialized", "rd", func(a []c20Arg) string {
			return model.GetArchivePathToDiamond(a[0].s, a[1].s, model.DiamondInitialized)
		}, "diamondInitial"},
		{"GetArchivePathToDiamond/default", "rd", func(a []c20Arg) string {
			return model.GetArchivePathToDiamond(a[0].s, a[1].s, otherDiamondState())
		}, "diamondFinal"},
		{"GetArchivePathToFinalDiamond", "rd", func(a []c20Arg) string { return model.GetArchivePathToFinalDiamond(a[0].s, a[1].s) }, "diamondFinal"},
		{"GetArchivePathToFinalSplit", "rds", func(a []c20Arg) string { return model.GetArchivePathToFinalSplit(a[0].s, a[1].s, a[2].s) }, "splitFinal"},
		{"GetArchivePathToInitialDiamond", "rd", func(a []c20Arg) string { return model.GetArchivePathToInitialDiamond(a[0].s, a[1].s) }, "diamondInitial"},
		{"GetArchivePathToInitialSplit", "rds", func(a []c20Arg) string { return model.GetArchivePathToInitialSplit(a[0].s, a[1].s, a[2].s) }, "splitInitial"},
		{"GetArchivePathToLabel", "rl", func(a []c20Arg) string { return model.GetArchivePathToLabel(a[0].s, a[1].s) }, "label"},
		{"GetArchivePathToRepoDescriptor", "r", func(a []c20Arg) string { return model.GetArchivePathToRepoDescriptor(a[0].s) }, "repo"},
		{"GetArchivePathToSplit/SplitRunning", "rds", func(a []c20Arg) string {
			return model.GetArchivePathToSplit(a[0].s, a[1].s, a[2].s, model.SplitRunning)
		}, "splitInitial"},
		{"GetArchivePathToSplit/default", "rds", func(a []c20Arg) string {
			return model.GetArchivePathToSplit(a[0].s, a[1].s, a[2].s, otherSplitState())
		}, "splitFinal"},
		{"GetArchivePathToSplitFileList", "rdsgn", func(a []c20Arg) string {
			return model.GetArchivePathToSplitFileList(a[0].s, a[1].s, a[2].s, a[3].s, a[4].n)
		}, "splitFileList"},
		{"GetConsumablePathToBundle", "b", func(a []c20Arg) string { return model.GetConsumablePathToBundle(a[0].s) }, "consumable"},
		{"GetConsumablePathToBundleFileList", "bn", func(a []c20Arg) string { return model.GetConsumablePathToBundleFileList(a[0].s, a[1].n) }, "consumable"},
		{"GetPathToCategory", "x", func(a []c20Arg) string { return model.GetPathToCategory(a[0].s) }, ""},
		{"GetPathToContainer", "xxxxxx", func(a []c20Arg) string {
			return model.GetPathToContainer(a[0].s, a[1].s, a[2].s, a[3].s, a[4].s, a[5].s)
		}, ""},
		{"GetPathToDataSetIn", "xxxxxx", func(a []c20Arg) string {
			return model.GetPathToDataSetIn(a[0].s, a[1].s, a[2].s, a[3].s, a[4].s, a[5].s)
		}, ""},
		{"GetPathToDataSetOut", "xxxxxx", func(a []c20Arg) string {
			return model.GetPathToDataSetOut(a[0].s, a[1].s, a[2].s, a[3].s, a[4].s, a[5].s)
		}, ""},
		{"GetPathToRun", "xxx", func(a []c20Arg) string { return model.GetPathToRun(a[0].s, a[1].s, a[2].s) }, ""},
		{"GetPathToRunStatus", "xxx", func(a []c20Arg) string { return model.GetPathToRunStatus(a[0].s, a[1].s, a[2].s) }, ""},
		{"GetPathToContext", "c", func(a []c20Arg) string { return model.GetPathToContext(a[0].s) }, "context"},
		{"GenerateCheckpointPath", "sp", func(a []c20Arg) string { return model.GenerateCheckpointPath(a[0].s, a[1].s) }, ""},
		{"GenerateConflictPath", "sp", func(a []c20Arg) string { return model.GenerateConflictPath(a[0].s, a[1].s) }, ""},
		{"ReverseIndexFile", "n", func(a []c20Arg) string { return model.ReverseIndexFile(a[0].n) }, ""},
		{"ReverseIndexPrefix", "", func(a []c20Arg) string { return model.ReverseIndexPrefix() }, ""},
		{"ReverseIndex", "", func(a []c20Arg) string { return model.ReverseIndex() }, ""},
		{"PurgeLock", "", func(a []c20Arg) string { return model.PurgeLock() }, ""},
	}
}

// c20Call runs a real builder; a panic is a result.
func c20Call(b c20Builder, a []c20Arg) (res string, panicked bool) {
	defer func() {
		if r := recover(); r != nil {
			res, panicked = "", true
		}
	}()
	return b.call(a), false
}

// ---------------------------------------------------------------------------------------
// generators
// ---------------------------------------------------------------------------------------

var (
	c20Letters    = []rune("abcdefghijklmnopqrstuvwxyzABCDEFGHIJKLMNOPQRSTUVWXYZéèñøßλжя日本語中אبҐǅʰ")
	c20Digits     = []rune("0123456789٣۵७๓０９᠑")
	c20Hyphens    = []rune{0x2D, 0x2D, 0x2D, 0xAD, 0x58A, 0x1806, 0x2010, 0x2011, 0x2E17, 0x30FB, 0xFE63, 0xFF0D, 0xFF65}
	c20Connectors = []rune{0x5F, 0x5F, 0x203F, 0x2040, 0x2054, 0xFE33, 0xFE34, 0xFE4D, 0xFE4E, 0xFE4F, 0xFF3F}
	c20Others     = []rune(" /.#%\n\t\\:;,=+~@!?*'\"$&|<>()[]{}^`😀²½Ⅷ،·’„ ​́‒–—−·\u0000")
	c20Hostile    = []string{"", "/", "a/b", "/a", "a/", "//", ".", "..", "...", " ", "a b", "#", "a#b", "\n", "a\nb", "%", "%2f", ".yaml",
		"bundle.yaml", "label.yaml", "repo.yaml", "context.yaml", "diamond-done.yaml", "diamond-running.yaml", "split-done.yaml",
		"split-running.yaml", "splits", "bundle-files-3.yaml", "bundle-files-.yaml", "-bundle-files-", "x-bundle-files-3", "x-bundle-files-",
		"a-bundle-files-b", "😀", "\\", "a\tb", "../x", "x/../y", "./x", "labels", "repos", "bundles", "contexts", "diamonds", ".datamon",
		".conflicts", "é", "­", "_", "-", "0", "a.b", "x.yaml", "\r", "a\x00b"}
)

func c20Runes(r *tr.Rng, n int, pools ...[]rune) string {
	var sb strings.Builder
	for i := 0; i < n; i++ {
		p := pools[r.Intn(len(pools))]
		sb.WriteRune(p[r.Intn(len(p))])
	}
	return sb.String()
}

// c20RepoName: a name over the documented repo alphabet (letters, digits, hyphens; unicode included)
func c20RepoName(r *tr.Rng) string {
	switch r.Intn(4) {
	case 0:
		return r.PickS("r", "repo", "my-repo", "r1", "a-b-c", "x")
	case 1:
		const al = "abcdefghijklmnopqrstuvwxyz0123456789-"
		n := 1 + r.Intn(12)
		b := make([]byte, n)
		for i := range b {
			b[i] = al[r.Intn(len(al))]
		}
		return string(b)
	default:
		return c20Runes(r, 1+r.Intn(10), c20Letters, c20Letters, c20Digits, c20Hyphens)
	}
}

// c20LabelName: the documented label alphabet adds connector punctuation
func c20LabelName(r *tr.Rng) string {
	if r.Intn(3) == 0 {
		return r.PickS("l", "latest", "v1_0", "my_label", "a-b_c", "splits", "x")
	}
	return c20Runes(r, 1+r.Intn(10), c20Letters, c20Letters, c20Digits, c20Hyphens, c20Connectors)
}

func c20Ksuid(r *tr.Rng) string {
	payload := make([]byte, 16)
	for i := range payload {
		payload[i] = byte(r.Uint64())
	}
	var ts int64
	switch r.Intn(6) {
	case 0:
		ts = 1400000000 // the ksuid epoch: smallest timestamp
	case 1:
		ts = 1400000000 + (1 << 32) - 1 // largest timestamp
	default:
		ts = 1400000000 + int64(r.Uint64()%(1<<32))
	}
	k, err := ksuid.FromParts(time.Unix(ts, 0), payload)
	if err != nil {
		panic(err)
	}
	return k.String()
}

// c20NearKsuid: strings around the acceptance boundary of ksuid.Parse
func c20NearKsuid(r *tr.Rng) string {
	k := c20Ksuid(r)
	switch r.Intn(10) {
	case 0:
		return k[:26]
	case 1:
		return k + "0"
	case 2:
		return "aWgEPTl1tmebfsQzFP4bxwgy80V" // maximum
	case 3:
		return "aWgEPTl1tmebfsQzFP4bxwgy80W" // maximum + 1
	case 4:
		return "000000000000000000000000000"
	case 5:
		return strings.Repeat("z", 27)
	case 6: // one byte replaced by punctuation (ksuid.Parse does not validate digits)
		i := r.Intn(27)
		return k[:i] + string("!-_.~ #@[`{"[r.Intn(11)]) + k[i+1:]
	case 7: // 27 bytes with a two-byte rune
		i := r.Intn(25)
		return k[:i] + "é" + k[i+2:]
	case 8: // 27 runes, more bytes
		return k[:26] + "é"
	default:
		i := r.Intn(27)
		return k[:i] + string("0aAzZ9"[r.Intn(6)]) + k[i+1:]
	}
}

func c20HostileString(r *tr.Rng) string {
	switch r.Intn(4) {
	case 0:
		return c20Runes(r, r.Intn(8), c20Letters, c20Digits, c20Others, c20Others)
	case 1:
		return c20Hostile[r.Intn(len(c20Hostile))] + c20Hostile[r.Intn(len(c20Hostile))]
	default:
		return c20Hostile[r.Intn(len(c20Hostile))]
	}
}

func c20Index(r *tr.Rng) uint64 {
	switch r.Intn(14) {
	case 0:
		return 0
	case 1:
		return 1
	case 2:
		return 9
	case 3:
		return 10
	case 4:
		return 1<<31 - 1
	case 5:
		return 1 << 32
	case 6:
		return 1<<63 - 1
	case 7:
		return 1 << 63
	case 8:
		return 1<<64 - 1
	case 9:
		return uint64(r.Intn(1000))
	case 10:
		return 1<<63 + r.Uint64()>>1
	default:
		return r.Uint64() >> uint(r.Intn(64))
	}
}

// c20ArgFor draws one argument for a signature letter; valid=true keeps to the documented domain.
func c20ArgFor(r *tr.Rng, letter byte, valid bool) c20Arg {
	if !valid && letter != 'n' && letter != 'L' && r.Intn(3) == 0 {
		if (letter == 'b' || letter == 'd' || letter == 'g') && r.Bool() {
			return c20S(c20NearKsuid(r))
		}
		return c20S(c20HostileString(r))
	}
	switch letter {
	case 'r':
		return c20S(c20RepoName(r))
	case 'l':
		return c20S(c20LabelName(r))
	case 'c', 'x':
		return c20S(c20RepoName(r))
	case 'b', 'd', 'g':
		return c20S(c20Ksuid(r))
	case 's':
		if r.Bool() {
			return c20S(c20Ksuid(r))
		}
		return c20S(c20LabelName(r)) // "the splitID may not be a KSUID"
	case 'p':
		n := 1 + r.Intn(3)
		parts := make([]string, n)
		for i := range parts {
			parts[i] = c20RepoName(r)
		}
		return c20S(strings.Join(parts, "/"))
	case 'n':
		return c20N(c20Index(r))
	case 'L':
		n := r.Intn(3)
		var l []string
		for i := 0; i < n; i++ {
			if valid {
				l = append(l, c20LabelName(r))
			} else {
				l = append(l, c20HostileString(r))
			}
		}
		return c20L(l...)
	}
	return c20S("")
}

func c20CompsText(c model.ArchivePathComponents, err error) string {
	if err != nil {
		return "err"
	}
	f := "0"
	if c.IsFinalState {
		f = "1"
	}
	return fmt.Sprintf("ok repo=%s bundle=%s file=%s label=%s ctx=%s diamond=%s split=%s gen=%s final=%s",
		tr.Esc(c.Repo), tr.Esc(c.BundleID), tr.Esc(c.ArchiveFileName), tr.Esc(c.LabelName), tr.Esc(c.Context),
		tr.Esc(c.DiamondID), tr.Esc(c.SplitID), tr.Esc(c.GenerationID), f)
}

func c20Parse(p string) (res string) {
	defer func() {
		if r := recover(); r != nil {
			res = "panic"
		}
	}()
	return c20CompsText(model.GetArchivePathComponents(p))
}

func c20CParse(p string) (res string) {
	defer func() {
		if r := recover(); r != nil {
			res = "panic"
		}
	}()
	m, err := model.GetConsumableStorePathMetadata(p)
	if err != nil {
		return "err"
	}
	switch m.Type {
	case model.ConsumableStorePathTypeDescriptor:
		return "desc id=" + tr.Esc(m.BundleID)
	case model.ConsumableStorePathTypeFileList:
		return fmt.Sprintf("list id=%s idx=%d", tr.Esc(m.BundleID), m.Index)
	}
	return "unknown-type"
}

// c20Mutate damages a path: the decoys for the parsers.
func c20Mutate(r *tr.Rng, p string) string {
	segs := strings.Split(p, "/")
	switch r.Intn(12) {
	case 0: // drop a segment
		i := r.Intn(len(segs))
		segs = append(segs[:i:i], segs[i+1:]...)
	case 1: // duplicate a segment
		i := r.Intn(len(segs))
		segs = append(segs[:i+1:i+1], segs[i:]...)
	case 2: // empty a segment
		segs[r.Intn(len(segs))] = ""
	case 3: // replace a segment by a hostile string
		segs[r.Intn(len(segs))] = c20HostileString(r)
	case 4: // truncate
		segs = segs[:1+r.Intn(len(segs))]
	case 5: // extend
		segs = append(segs, c20HostileString(r))
	case 6: // another tag
		segs[0] = r.PickS("labels", "repos", "bundles", "contexts", "diamonds", "label", "Bundles", "", "runs")
	case 7: // another file name
		segs[len(segs)-1] = r.PickS("label.yaml", "repo.yaml", "bundle.yaml", "context.yaml", "diamond-done.yaml", "diamond-running.yaml",
			"split-done.yaml", "split-running.yaml", "bundle-files-0.yaml", "bundle-files-.yaml", "bundle-files-1x.yaml", "bundle-files-٣.yaml",
			"bundle-files-12.yaml\n", "xbundle-files-1.yaml", "bundle-files-1.yml", "", "bundle-files-007.yaml", "bundle-files--1.yaml")
	case 8: // damage the id-like segment
		if len(segs) > 2 {
			segs[2] = c20NearKsuid(r)
		}
	case 9:
		if len(segs) > 5 {
			segs[5] = c20NearKsuid(r)
		}
	case 10: // trailing slash
		segs = append(segs, "")
	default: // swap two segments
		i, j := r.Intn(len(segs)), r.Intn(len(segs))
		segs[i], segs[j] = segs[j], segs[i]
	}
	return strings.Join(segs, "/")
}

// ---------------------------------------------------------------------------------------
// descriptors (YAML round trip through the real codec)
// ---------------------------------------------------------------------------------------

var c20YamlStrings = []string{"", "x", "true", "false", "null", "~", "yes", "no", "on", "off", "y", "n", "1e3", "0x1F", "0o7", "017", "1_000",
	"12:30:45", "2001-01-01", "2001-12-14t21:59:43.10-05:00", ".inf", ".nan", "-", "- a", "a: b", "a:b", "#c", "a #c", " lead", "trail ", "multi\nline",
	"multi\n\nline\n", "tab\tx", "'quote'", "\"dq\"", "!!binary", "!tag", "@at", "`bt", "|", ">", "%", "&a", "*a", "?", "? a", "[", "]", "{", "}", ",",
	"a,b", "\\", "\\n", "é", "日本語", "😀", " ", " ", "\u0085", "\ufeff", "a\rb", "\x7f", "a\x00b", "=", "<<", "0", "-0", "+1", "1.0", "0.", ".5",
	"Null", "TRUE", "NaN", "a b c", "  ", "\n", "key: [1, 2]", "--- x", "...", "'", "\"", "''", "a'b\"c", strings.Repeat("long ", 40)}

func c20YamlString(r *tr.Rng) string {
	switch r.Intn(5) {
	case 0:
		return c20YamlStrings[r.Intn(len(c20YamlStrings))]
	case 1:
		return c20YamlStrings[r.Intn(len(c20YamlStrings))] + c20YamlStrings[r.Intn(len(c20YamlStrings))]
	case 2:
		return c20Runes(r, r.Intn(12), c20Letters, c20Digits, c20Others)
	case 3:
		return c20RepoName(r)
	default:
		return c20Ksuid(r)
	}
}

func c20Time(r *tr.Rng) time.Time {
	var t time.Time
	switch r.Intn(8) {
	case 0:
		return time.Time{}
	case 1:
		t = time.Unix(int64(r.Uint64()%4102444800), 0)
	case 2:
		t = time.Unix(0, 0)
	case 3:
		t = time.Date(9999, 12, 30, 23, 59, 59, 999999999, time.UTC) // one day below the last RFC 3339 instant: any zone keeps a 4-digit year
	case 4:
		t = time.Date(1, 1, 2, 0, 0, 0, 1, time.UTC)
	default:
		t = time.Unix(int64(r.Uint64()%4102444800), int64(r.Uint64()%1000000000))
	}
	switch r.Intn(4) {
	case 0:
		return t.UTC()
	case 1:
		return t.In(time.FixedZone("", (r.Intn(27)-12)*3600+r.Intn(4)*900))
	case 2:
		return t.In(time.FixedZone("XYZ", -(r.Intn(12) * 3600)))
	default:
		return t.UTC()
	}
}

func c20Contribs(r *tr.Rng) []model.Contributor {
	switch r.Intn(5) {
	case 0:
		return nil
	case 1:
		return []model.Contributor{}
	}
	n := 1 + r.Intn(3)
	cs := make([]model.Contributor, n)
	for i := range cs {
		cs[i] = model.Contributor{Name: c20YamlString(r), Email: c20YamlString(r)}
	}
	return cs
}

func c20Strings(r *tr.Rng) []string {
	switch r.Intn(4) {
	case 0:
		return nil
	case 1:
		return []string{}
	}
	n := 1 + r.Intn(3)
	ss := make([]string, n)
	for i := range ss {
		ss[i] = c20YamlString(r)
	}
	return ss
}

func c20Split(r *tr.Rng) model.SplitDescriptor {
	return model.SplitDescriptor{SplitID: c20YamlString(r), StartTime: c20Time(r), EndTime: c20Time(r),
		State: model.SplitState(r.PickS("done", "running", c20YamlString(r))), Contributors: c20Contribs(r),
		GenerationID: c20YamlString(r), SplitEntriesFileCount: c20Index(r), Tag: c20YamlString(r)}
}

// c20Norm makes the comparison "equal as descriptors": instants compare by time.Equal (rendered in
// UTC without monotonic reading), nil and empty slices are the same list.
func c20Norm(v reflect.Value) {
	switch v.Kind() {
	case reflect.Ptr:
		if !v.IsNil() {
			c20Norm(v.Elem())
		}
	case reflect.Struct:
		if v.Type() == reflect.TypeOf(time.Time{}) {
			if v.CanSet() {
				t := v.Interface().(time.Time)
				if t.IsZero() {
					v.Set(reflect.ValueOf(time.Time{}))
				} else {
					v.Set(reflect.ValueOf(t.UTC().Round(0)))
				}
			}
			return
		}
		for i := 0; i < v.NumField(); i++ {
			if v.Field(i).CanSet() {
				c20Norm(v.Field(i))
			}
		}
	case reflect.Slice:
		if v.Len() == 0 {
			if v.CanSet() {
				v.Set(reflect.Zero(v.Type()))
			}
			return
		}
		for i := 0; i < v.Len(); i++ {
			c20Norm(v.Index(i))
		}
	}
}

// c20YamlRT marshals `in`, unmarshals into `out` (both pointers to the same type) and judges.
func c20YamlRT(in, out interface{}, marshal func(interface{}) ([]byte, error), unmarshal func([]byte, interface{}) error) (res string, doc []byte) {
	defer func() {
		if r := recover(); r != nil {
			res = "panic"
		}
	}()
	doc, err := marshal(in)
	if err != nil {
		return "marshal-err", nil
	}
	if err := unmarshal(doc, out); err != nil {
		return "unmarshal-err", doc
	}
	c20Norm(reflect.ValueOf(in))
	c20Norm(reflect.ValueOf(out))
	if reflect.DeepEqual(in, out) {
		return "equal", doc
	}
	return "differ", doc
}

func c20Yaml(c *ctx, n int) {
	r := c.rng
	plainM := func(v interface{}) ([]byte, error) { return yaml.Marshal(v) }
	plainU := func(b []byte, v interface{}) error { return yaml.Unmarshal(b, v) }
	for i := 0; i < n; i++ {
		var kind, res string
		var doc []byte
		switch r.Intn(8) {
		case 0:
			kind = "repo"
			in := &model.RepoDescriptor{Name: c20YamlString(r), Description: c20YamlString(r), Timestamp: c20Time(r),
				Contributor: model.Contributor{Name: c20YamlString(r), Email: c20YamlString(r)}}
			res, doc = c20YamlRT(in, &model.RepoDescriptor{}, plainM, plainU)
		case 1:
			kind = "bundle"
			in := &model.BundleDescriptor{LeafSize: uint32(r.Uint64()), ID: c20YamlString(r), Message: c20YamlString(r), Parents: c20Strings(r),
				Timestamp: c20Time(r), Contributors: c20Contribs(r), BundleEntriesFileCount: c20Index(r), Version: c20Index(r),
				Deduplication: c20YamlString(r), RunStage: c20YamlString(r)}
			res, doc = c20YamlRT(in, &model.BundleDescriptor{}, plainM, plainU)
		case 2:
			kind = "filelist"
			ne := r.Intn(6)
			in := &model.BundleEntries{}
			for j := 0; j < ne; j++ {
				in.BundleEntries = append(in.BundleEntries, model.BundleEntry{Hash: c20YamlString(r), NameWithPath: c20YamlString(r),
					FileMode: os.FileMode(uint32(r.Uint64())), Size: c20Index(r), Timestamp: c20Time(r)})
			}
			res, doc = c20YamlRT(in, &model.BundleEntries{}, plainM, plainU)
		case 3:
			kind = "label"
			in := &model.LabelDescriptor{Name: c20YamlString(r), BundleID: c20YamlString(r), Timestamp: c20Time(r), Contributors: c20Contribs(r)}
			res, doc = c20YamlRT(in, &model.LabelDescriptor{}, plainM, plainU)
		case 4:
			kind = "diamond"
			in := &model.DiamondDescriptor{DiamondID: c20YamlString(r), StartTime: c20Time(r), EndTime: c20Time(r),
				State:        model.DiamondState(r.PickS("initialized", "done", "canceled", c20YamlString(r))),
				Mode:         model.ConflictMode(r.PickS("ignored", "enable-checkpoints", "enable-conflicts", "forbids-conflicts", c20YamlString(r))),
				HasConflicts: r.Bool(), HasCheckpoints: r.Bool(), Tag: c20YamlString(r), BundleID: c20YamlString(r)}
			ns := r.Intn(3)
			for j := 0; j < ns; j++ {
				in.Splits = append(in.Splits, c20Split(r))
			}
			res, doc = c20YamlRT(in, &model.DiamondDescriptor{}, plainM, plainU)
		case 5:
			kind = "split"
			in := c20Split(r)
			res, doc = c20YamlRT(&in, &model.SplitDescriptor{}, plainM, plainU)
		case 6:
			kind = "context"
			in := &model.Context{Name: c20YamlString(r), WAL: c20YamlString(r), ReadLog: c20YamlString(r), Blob: c20YamlString(r),
				Metadata: c20YamlString(r), VMetadata: c20YamlString(r), Version: c20Index(r)}
			var back *model.Context
			res, doc = c20YamlRT(in, &model.Context{}, func(v interface{}) ([]byte, error) { return model.MarshalContext(v.(*model.Context)) },
				func(b []byte, v interface{}) error {
					got, err := model.UnmarshalContext(b)
					if err == nil {
						*(v.(*model.Context)) = *got
					}
					back = got
					return err
				})
			_ = back
		default:
			kind = "wal"
			in := &model.Entry{Token: c20YamlString(r), Payload: c20YamlString(r)}
			res, doc = c20YamlRT(in, &model.Entry{}, func(v interface{}) ([]byte, error) { return model.MarshalWAL(v.(*model.Entry)) },
				func(b []byte, v interface{}) error {
					got, err := model.UnmarshalWAL(b)
					if err == nil {
						*(v.(*model.Entry)) = *got
					}
					return err
				})
		}
		c.w.Cases++
		aux := ""
		if res != "equal" {
			aux = " ## doc=" + tr.Hex(doc)
		}
		c.w.Op(fmt.Sprintf("yaml kind=%s i=%d bytes=%d", kind, i, len(doc)), res+aux)
		c.w.Count("yaml=" + kind)
	}
}

// ---------------------------------------------------------------------------------------
// name validation
// ---------------------------------------------------------------------------------------

func c20Oracle(name string) (letters, digits string) {
	for _, ch := range name {
		if ch >= 128 {
			if unicode.IsLetter(ch) {
				letters += string(ch)
			}
			if unicode.IsDigit(ch) {
				digits += string(ch)
			}
		}
	}
	return
}

func c20ErrText(f func() error) (res string) {
	defer func() {
		if r := recover(); r != nil {
			res = "panic"
		}
	}()
	if err := f(); err != nil {
		return "err"
	}
	return "ok"
}

func c20ValidationName(r *tr.Rng) string {
	switch r.Intn(10) {
	case 0:
		return ""
	case 1, 2:
		return c20RepoName(r)
	case 3, 4:
		return c20LabelName(r)
	case 5: // one offending rune after multi-byte runes (the byte offset exceeds the rune count)
		return c20Runes(r, 1+r.Intn(6), c20Letters[52:]) + c20Runes(r, 1, c20Others) + c20Runes(r, r.Intn(3), c20Letters)
	case 6:
		return c20HostileString(r)
	default:
		return c20Runes(r, 1+r.Intn(8), c20Letters, c20Digits, c20Hyphens, c20Connectors, c20Others)
	}
}

func c20Validation(c *ctx, n int) {
	r := c.rng
	for i := 0; i < n; i++ {
		name := c20ValidationName(r)
		if !utf8.ValidString(name) {
			continue
		}
		l, d := c20Oracle(name)
		c.w.Cases++
		if r.Bool() {
			desc := r.PickS("", "d", "a description", "d")
			res := c20ErrText(func() error { return model.ValidateRepo(model.RepoDescriptor{Name: name, Description: desc}) })
			c.w.Op(fmt.Sprintf("vrepo name=%s desc=%s L=%s D=%s", tr.Esc(name), tr.Esc(desc), tr.Esc(l), tr.Esc(d)), res)
			c.w.Count("vrepo=" + res)
		} else {
			id := r.PickS("", "b", "1INDVALGKfRIE64rYzMSZXJxvPK", "b")
			var cs []model.Contributor
			var parts []string
			nc := r.Pick(0, 0, 0, 1, 2)
			for j := 0; j < nc; j++ {
				ct := model.Contributor{Name: r.PickS("", "n", "Ann Example", "n"), Email: r.PickS("", "a@b.io", "Ann <ann@example.com>", "not-an-email", "a@b.io", "@", "a@")}
				cs = append(cs, ct)
				_, err := mail.ParseAddress(ct.Email)
				ok := "0"
				if err == nil {
					ok = "1"
				}
				parts = append(parts, tr.Esc(ct.Name)+"|"+tr.Esc(ct.Email)+"|"+ok)
			}
			res := c20ErrText(func() error {
				return model.ValidateLabel(model.LabelDescriptor{Name: name, BundleID: id, Contributors: cs})
			})
			c.w.Op(fmt.Sprintf("vlabel name=%s id=%s L=%s D=%s cs=%s", tr.Esc(name), tr.Esc(id), tr.Esc(l), tr.Esc(d), strings.Join(parts, ";")), res)
			c.w.Count("vlabel=" + res)
		}
	}
}

// c20Classes compares the model's Hyphen / Pc tables with Go's on every rune (thorough) or on the
// tables' neighbourhood plus a random sample (quick).
func c20Classes(c *ctx) {
	emit := func(ch rune) {
		if ch >= 0xD800 && ch <= 0xDFFF {
			return
		}
		res := "-"
		if unicode.Is(unicode.Hyphen, ch) {
			res = "H"
		}
		if unicode.Is(unicode.Pc, ch) {
			res += "P"
		} else {
			res += "-"
		}
		c.w.Cases++
		c.w.Op(fmt.Sprintf("cls r=%d", ch), res)
	}
	if c.thorough() {
		for ch := rune(0); ch <= unicode.MaxRune; ch++ {
			if ch < 0x3000 || unicode.Is(unicode.Hyphen, ch) || unicode.Is(unicode.Pc, ch) || ch%97 == 0 {
				emit(ch)
			}
		}
		return
	}
	seen := map[rune]bool{}
	for _, t := range [][]rune{c20Hyphens, c20Connectors} {
		for _, ch := range t {
			for d := rune(-1); d <= 1; d++ {
				if ch+d >= 0 && !seen[ch+d] {
					seen[ch+d] = true
					emit(ch + d)
				}
			}
		}
	}
	// every rune Go classifies as Hyphen or Pc must be in the model's tables
	for ch := rune(0); ch <= unicode.MaxRune; ch++ {
		if (unicode.Is(unicode.Hyphen, ch) || unicode.Is(unicode.Pc, ch)) && !seen[ch] {
			seen[ch] = true
			emit(ch)
		}
	}
	for i := 0; i < 300; i++ {
		emit(rune(c.rng.Intn(0x30000)))
	}
}

// ---------------------------------------------------------------------------------------
// the sub-command
// ---------------------------------------------------------------------------------------

func c20(c *ctx) error {
	r := c.rng
	scale := 1
	if c.thorough() {
		scale = 24
	}
	builders := c20Builders(r)

	// ---- 1. every builder on valid and hostile arguments; round trips through the real parsers
	var built []string
	for round := 0; round < 220*scale; round++ {
		for _, b := range builders {
			if len(b.sig) == 0 && round > 0 {
				continue
			}
			valid := r.Intn(3) > 0
			args := make([]c20Arg, len(b.sig))
			for i := range args {
				args[i] = c20ArgFor(r, b.sig[i], valid)
			}
			at := c20ArgsText(args)
			res, panicked := c20Call(b, args)
			c.w.Cases++
			if panicked {
				c.w.Op(fmt.Sprintf("build k=%s a=%s", b.name, at), "panic")
				c.w.Count("build=panic")
				continue
			}
			if !utf8.ValidString(res) {
				return fmt.Errorf("builder %s returned invalid UTF-8", b.name)
			}
			c.w.Op(fmt.Sprintf("build k=%s a=%s", b.name, at), "ok "+tr.Esc(res))
			c.w.Count("build=" + b.name)
			if valid {
				c.w.Count("args=valid")
			} else {
				c.w.Count("args=hostile")
			}
			switch {
			case b.kind == "consumable":
				// judge: the real inverse applied to the real builder's path
				c.w.Op(fmt.Sprintf("crt k=%s a=%s", b.name, at), c20CParse(res))
			case b.kind != "":
				c.w.Op(fmt.Sprintf("rt k=%s a=%s", b.name, at), c20Parse(res))
				built = append(built, res)
			case b.name == "ReverseIndexFile":
				n, err := model.ReverseIndexChunk(res)
				if err != nil {
					c.w.Op(fmt.Sprintf("chunk n=%d", args[0].n), "err")
				} else {
					c.w.Op(fmt.Sprintf("chunk n=%d", args[0].n), fmt.Sprintf("ok %d", n))
				}
			}
			if r.Intn(4) == 0 {
				c.w.Op("gen p="+tr.Esc(res), c20B(model.IsGeneratedFile(res)))
			}
		}
	}

	// ---- 2. the archive path parser on damaged paths and decoys
	decoys := []string{"", "/", "labels", "labels/", "labels/r", "labels/r/l", "labels/r/l/", "labels/r/l/label.yaml", "labels/r/l/label.yaml/x",
		"labels/r/l/x/label.yaml", "/labels/r/l/label.yaml", "repos", "repos/r", "repos/r/", "repos/r/repo.yaml", "repos/r/repo.yaml/x", "repos//repo.yaml",
		"bundles/r/b", "bundles/r/b/", "bundles/r/b/bundle.yaml", "bundles/r/b/bundle-files-0.yaml", "bundles/r/b/bundle-files-0.yaml/x",
		"bundles/r/b/x", "bundles/r//bundle.yaml", "contexts", "contexts/c", "contexts/c/", "contexts/c/context.yaml", "contexts/c/anything/else",
		"diamonds/r/x/diamond-done.yaml", "diamonds", "diamonds/r", "diamonds/r/", "runs/a/b/c/run.yaml", "Labels/r/l/label.yaml"}
	k1, k2 := c20Ksuid(r), c20Ksuid(r)
	for _, tail := range []string{"", "/", "/diamond-done.yaml", "/diamond-running.yaml", "/diamond-done.yaml/x", "/splits", "/splits/", "/splits/s", "/splits/s/",
		"/splits/s/split-done.yaml", "/splits/s/split-running.yaml", "/splits/s/split-done.yaml/x", "/splits/s/" + k2, "/splits/s/" + k2 + "/",
		"/splits/s/" + k2 + "/bundle-files-3.yaml", "/splits/s/" + k2 + "/bundle-files-3.yaml/x", "/splits/s/notaksuid/bundle-files-3.yaml",
		"/splits/s/" + k2 + "/bundle.yaml", "/anything/s/split-done.yaml", "//s/split-done.yaml", "/splits//split-done.yaml", "/splits//x/y",
		"/diamond-done.yaml/s/split-done.yaml", "/x", "/x/y/z/w/v/u"} {
		decoys = append(decoys, "diamonds/r/"+k1+tail)
	}
	for _, p := range decoys {
		c.w.Cases++
		c.w.Op("parse p="+tr.Esc(p), c20Parse(p))
		c.w.Count("parse=decoy")
	}
	for i := 0; i < 1500*scale && len(built) > 0; i++ {
		p := c20Mutate(r, built[r.Intn(len(built))])
		if r.Intn(4) == 0 {
			p = c20Mutate(r, p)
		}
		if !utf8.ValidString(p) {
			continue
		}
		c.w.Cases++
		res := c20Parse(p)
		c.w.Op("parse p="+tr.Esc(p), res)
		if res == "err" {
			c.w.Count("parse=mutant-err")
		} else {
			c.w.Count("parse=mutant-ok")
		}
	}

	// ---- 3. the consumable path parser on decoys
	cdecoys := []string{"", ".datamon", ".datamon/", ".datamon/.yaml", ".datamon/x.yaml", ".datamon/x.yaml ", "x/.datamon/x.yaml", ".datamon/x.yml",
		".datamon/x-bundle-files-.yaml", ".datamon/x-bundle-files-0.yaml", ".datamon/x-bundle-files-007.yaml", ".datamon/x-bundle-files--5.yaml",
		".datamon/x-bundle-files-+5.yaml", ".datamon/x-bundle-files-5 .yaml", ".datamon/x-bundle-files-1_0.yaml", ".datamon/x-bundle-files-0x10.yaml",
		".datamon/x-bundle-files-9223372036854775807.yaml", ".datamon/x-bundle-files-9223372036854775808.yaml",
		".datamon/x-bundle-files-18446744073709551615.yaml", ".datamon/x-bundle-files-18446744073709551616.yaml",
		".datamon/x-bundle-files-1-bundle-files-2.yaml", ".datamon/-bundle-files-3.yaml", ".datamon/a\nb.yaml", ".datamon/a-bundle-files-1\n.yaml",
		".datamon/x-bundle-files-٣.yaml", ".datamon/x.yaml.yaml", ".datamon/a/b.yaml", ".datamon/.yaml-bundle-files-1.yaml", ".datamon/x-bundle-files-1.yaml\n",
		"\n.datamon/x.yaml", ".datamon/x-bundle-files.yaml", ".datamon/xbundle-files-1.yaml", ".datamon/x-bundle-files-99999999999999999999999.yaml"}
	for _, p := range cdecoys {
		c.w.Cases++
		c.w.Op("cparse p="+tr.Esc(p), c20CParse(p))
		c.w.Count("cparse=decoy")
	}
	for i := 0; i < 800*scale; i++ {
		id := c20ArgFor(r, 'b', r.Bool()).s
		p := ".datamon/" + id
		switch r.Intn(5) {
		case 0:
			p += ".yaml"
		case 1:
			p += "-bundle-files-" + strconv.FormatUint(c20Index(r), 10) + ".yaml"
		case 2:
			p += "-bundle-files-" + c20HostileString(r) + ".yaml"
		case 3:
			p += "-bundle-files-" + r.PickS("", "0", "-", "+", "00", " ") + strconv.FormatUint(c20Index(r), 10) + r.PickS("", "0", " ", "x") + ".yaml"
		default:
			p = c20Mutate(r, p+".yaml")
		}
		if !utf8.ValidString(p) {
			continue
		}
		c.w.Cases++
		c.w.Op("cparse p="+tr.Esc(p), c20CParse(p))
		c.w.Count("cparse=random")
	}

	// ---- 4. generated-file detection on the reserved names and their neighbours
	for _, pfx := range []string{"", ".", "/", "./", "//", "../", "a/", "./.", " ", "\n", "x"} {
		for _, name := range []string{".datamon", ".conflicts", ".checkpoints", "datamon", ".datamo", ".Datamon", ".conflict", ".checkpoint"} {
			for _, suf := range []string{"", "/", "/x", "/x/y", "x", ".", "\n", "/\n", " ", "//", "-", "/.datamon"} {
				p := pfx + name + suf
				c.w.Cases++
				c.w.Op("gen p="+tr.Esc(p), c20B(model.IsGeneratedFile(p)))
				c.w.Count("gen=grid")
			}
		}
	}
	for i := 0; i < 600*scale; i++ {
		var p string
		switch r.Intn(3) {
		case 0:
			p = c20HostileString(r)
		case 1:
			p = r.PickS("", ".", "/", "./") + r.PickS(".datamon", ".conflicts", ".checkpoints") + r.PickS("", "/") + c20HostileString(r)
		default:
			b := c20Find(builders, r.PickS("GenerateCheckpointPath", "GenerateConflictPath"))
			p, _ = c20Call(b, []c20Arg{c20ArgFor(r, 's', true), c20ArgFor(r, 'p', true)})
		}
		if !utf8.ValidString(p) {
			continue
		}
		c.w.Cases++
		c.w.Op("gen p="+tr.Esc(p), c20B(model.IsGeneratedFile(p)))
		c.w.Count("gen=random")
	}

	// ---- 5. name validation and the unicode tables
	c20Validation(c, 2500*scale)
	c20Classes(c)

	// ---- 6. cross-kind collision search on a small pool of valid components
	c20Collide(c, builders, 30000*scale)

	// ---- 7. descriptors through the real YAML codec
	c20Yaml(c, 2500*scale)
	return nil
}

func c20Find(bs []c20Builder, name string) c20Builder {
	for _, b := range bs {
		if b.name == name {
			return b
		}
	}
	panic("no builder " + name)
}

func c20B(b bool) string {
	if b {
		return "1"
	}
	return "0"
}

// c20Collide builds many paths from a small pool of valid components and looks for two different
// objects with the same key. Aliases of one object (GetArchivePathToDiamond/default and
// GetArchivePathToFinalDiamond, …) share the object kind.
func c20Collide(c *ctx, builders []c20Builder, n int) {
	r := c.rng
	ids := []string{c20Ksuid(r), c20Ksuid(r), c20Ksuid(r)}
	pool := map[byte][]string{
		'r': {"r", "r1", "a-b", "splits", "labels", "é"},
		'l': {"l", "r1", "splits", "a_b", "label"},
		'c': {"c", "r", "dev"},
		'x': {"r", "c", "splits", "x"},
		'b': ids, 'd': ids, 'g': ids,
		's': {"s", "splits", "x", ids[0], ids[1]},
	}
	idx := []uint64{0, 1, 10, 11, 1<<64 - 1}
	type obj struct{ kind, args string }
	seen := map[string]obj{}
	found := 0
	for i := 0; i < n; i++ {
		b := builders[r.Intn(len(builders))]
		kind := b.kind
		if kind == "" {
			if !strings.HasPrefix(b.name, "GetPathTo") {
				continue // prefixes, reserved-path helpers, constants
			}
			kind = b.name
		}
		if kind == "consumable" {
			kind = b.name // other store, still must not collide among themselves
		}
		args := make([]c20Arg, len(b.sig))
		for j := range args {
			if b.sig[j] == 'n' {
				args[j] = c20N(idx[r.Intn(len(idx))])
			} else {
				p := pool[b.sig[j]]
				args[j] = c20S(p[r.Intn(len(p))])
			}
		}
		res, panicked := c20Call(b, args)
		if panicked {
			continue
		}
		o := obj{kind, c20ArgsText(args)}
		if prev, ok := seen[res]; ok && prev != o {
			found++
			c.w.Cases++
			c.w.Op(fmt.Sprintf("collide path=%s k1=%s a1=%s k2=%s a2=%s", tr.Esc(res), prev.kind, prev.args, o.kind, o.args), "found")
			continue
		}
		seen[res] = o
	}
	c.w.Cases++
	res := "none"
	if found > 0 {
		res = fmt.Sprintf("found=%d", found)
	}
	c.w.Op(fmt.Sprintf("collide checked=%d distinct=%d", n, len(seen)), res)
	c.w.Count(fmt.Sprintf("collide-distinct-paths=%d", len(seen)))
	kinds := map[string]bool{}
	for _, o := range seen {
		kinds[o.kind] = true
	}
	ks := make([]string, 0, len(kinds))
	for k := range kinds {
		ks = append(ks, k)
	}
	sort.Strings(ks)
	c.extra["collide_kinds"] = ks
}
