package main

import (
	"bytes"
	"context"
	"encoding/hex"
	"fmt"
	"io"
	"sort"
	"strings"
	"sync"
	"time"

	blake2b "github.com/minio/blake2b-simd"

	"os"
	"path/filepath"

	"github.com/spf13/afero"

	"dvh/internal/corekit"
	"dvh/internal/crashstore"
	"dvh/internal/memstore"
	"dvh/internal/tr"

	"github.com/oneconcern/datamon/pkg/cafs"
	"github.com/oneconcern/datamon/pkg/core"
	"github.com/oneconcern/datamon/pkg/storage/localfs"
)

func init() {
	subs["c01"] = c01
	subs["c02"] = c02
	subs["c03"] = c03
}

func cafsH256(b []byte) string {
	s := blake2b.Sum256(b)
	return fmt.Sprintf("%d:%s", len(b), hex.EncodeToString(s[:]))
}

// chunkedReader delivers its content in the given Read sizes (then the rest in one piece); it
// deliberately does not implement io.WriterTo, so io.Copy issues one Write per Read.
type cafsChunkedReader struct {
	data  []byte
	sizes []int
	i     int
	// eofWithData: the read that delivers the last bytes reports io.EOF with them (as an
	// io.SectionReader or an HTTP body may)
	eofWithData bool
}

func (r *cafsChunkedReader) Read(p []byte) (int, error) {
	if len(r.data) == 0 {
		return 0, io.EOF
	}
	n := len(r.data)
	if r.i < len(r.sizes) {
		n = r.sizes[r.i]
		r.i++
	}
	if n > len(r.data) {
		n = len(r.data)
	}
	if n > len(p) {
		n = len(p)
	}
	copy(p, r.data[:n])
	r.data = r.data[n:]
	if r.eofWithData && len(r.data) == 0 {
		return n, io.EOF
	}
	return n, nil
}

// cafsMemWriterAt is a thread-safe growing io.WriterAt.
type cafsMemWriterAt struct {
	mu  sync.Mutex
	buf []byte
}

func (m *cafsMemWriterAt) WriteAt(p []byte, off int64) (int, error) {
	m.mu.Lock()
	defer m.mu.Unlock()
	end := int(off) + len(p)
	if end > len(m.buf) {
		m.buf = append(m.buf, make([]byte, end-len(m.buf))...)
	}
	copy(m.buf[off:], p)
	return len(p), nil
}

func (m *cafsMemWriterAt) Write(p []byte) (int, error) { // never used by cafs when WriterAt is available
	return m.WriteAt(p, int64(len(m.buf)))
}

// cafsSwitchStore forwards to a store that can be swapped (damage appearing under a live reader).
type cafsSwitchStore struct{ *memstore.Store }

// cafsModeStore hands out blob readers with a chosen io.Reader behaviour (Model/CafsSeq.lean RMode):
// when io.EOF is reported and whether reads come back short.
type cafsModeStore struct {
	*memstore.Store
	eofOnEmpty, eager bool
	cap               int
}

type cafsModeReader struct {
	data              []byte
	pos               int
	eofOnEmpty, eager bool
	cap               int
}

func (m *cafsModeReader) Close() error { return nil }
func (m *cafsModeReader) Read(p []byte) (int, error) {
	avail := len(m.data) - m.pos
	if avail == 0 {
		if len(p) != 0 || m.eofOnEmpty {
			return 0, io.EOF
		}
		return 0, nil
	}
	n := len(p)
	if avail < n {
		n = avail
	}
	if m.cap > 0 && m.cap < n {
		n = m.cap
	}
	copy(p, m.data[m.pos:m.pos+n])
	m.pos += n
	if m.eager && n == avail {
		return n, io.EOF
	}
	return n, nil
}

func (s *cafsModeStore) Get(ctx context.Context, key string) (io.ReadCloser, error) {
	rc, err := s.Store.Get(ctx, key)
	if err != nil {
		return nil, err
	}
	defer rc.Close()
	data, err := io.ReadAll(rc)
	if err != nil {
		return nil, err
	}
	return &cafsModeReader{data: data, eofOnEmpty: s.eofOnEmpty, eager: s.eager, cap: s.cap}, nil
}

// cafsReadSeq: a read loop over the sequential Read with cyclic buffer sizes through a blob
// reader of the given behaviour; the result names every call's byte count (the first 60) and how
// the loop ended, so that the Read state machine of the model is compared call by call.
func cafsReadSeq(st *memstore.Store, leaf int, key cafs.Key, r *tr.Rng, bufs []int) (string, string) {
	ms := &cafsModeStore{Store: st, eofOnEmpty: r.Intn(2) == 0, eager: r.Intn(3) == 0}
	if r.Intn(3) == 0 {
		ms.cap = r.Pick(1, 7, leaf-1, leaf)
		if ms.cap < leaf/64 {
			// (the model walks its leaf list once per inner read: keep the number of reads per leaf small)
			ms.cap = leaf/64 + 1
		}
	}
	b2i := func(b bool) int {
		if b {
			return 1
		}
		return 0
	}
	mode := fmt.Sprintf("%d%d-%d", b2i(ms.eofOnEmpty), b2i(ms.eager), ms.cap)
	var out []byte
	var calls []string
	end := "eof"
	err := corekit.Recover(func() error {
		fs, e := cafs.New(cafs.LeafSize(uint32(leaf)), cafs.Backend(ms), cafs.Logger(corekit.Nop), cafs.Prefetch(0), cafs.CacheSize(3*leaf))
		if e != nil {
			return e
		}
		rd, e := fs.Get(context.Background(), key)
		if e != nil {
			return e
		}
		defer rd.Close()
		for i := 0; i < 1<<22; i++ {
			b := make([]byte, bufs[i%len(bufs)])
			n, e := rd.Read(b)
			out = append(out, b[:n]...)
			if len(calls) < 60 {
				calls = append(calls, fmt.Sprint(n))
			}
			if e == io.EOF {
				return nil
			}
			if e != nil {
				return e
			}
		}
		return fmt.Errorf("stuck")
	})
	if err != nil {
		end = "err" // every failure is one class: the model's RErr kinds are not distinguished by datamon's callers
		return mode, fmt.Sprintf("%s calls=%s", end, strings.Join(calls, ","))
	}
	return mode, fmt.Sprintf("ok %s calls=%s", cafsH256(out), strings.Join(calls, ","))
}

// cafsPutFaulty stores a content on a scratch copy of the store while ONE store write (a leaf or
// the root blob) fails transiently: Put must report the failure — never succeed with a key. The
// writes are slowed a little so that several leaf uploads are in flight when the failure arrives.
func cafsPutFaulty(c *ctx, r *tr.Rng, st *memstore.Store, leaf, idx int, seed uint64, n int, plan []int, single bool) {
	nl := (n + leaf - 1) / leaf
	k := 1 + r.Intn(nl+1)
	work := st.Clone()
	g := &crashstore.Group{FailOnceAt: k}
	slow := time.Duration(50+r.Intn(400)) * time.Microsecond
	g.Hook = func(_, op, _ string) {
		if op == "put" {
			time.Sleep(slow)
		}
	}
	ws := crashstore.Wrap(g, "blob", work)
	flushes := 2 + r.Intn(7)
	content := tr.GenBytes(seed, n)
	var src io.Reader
	if single {
		src = bytes.NewReader(content)
	} else {
		src = &cafsChunkedReader{data: append([]byte(nil), content...), sizes: plan, eofWithData: (seed+uint64(n))%2 == 0}
	}
	var res cafs.PutRes
	err := corekit.Recover(func() error {
		fs, e := cafs.New(cafs.LeafSize(uint32(leaf)), cafs.Backend(ws), cafs.Logger(corekit.Nop), cafs.ConcurrentFlushes(flushes), cafs.CacheSize(3*leaf))
		if e != nil {
			return e
		}
		res, e = fs.Put(context.Background(), src)
		return e
	})
	fired := false
	for _, w := range g.Snapshot() {
		if w.Err && !w.Landed {
			fired = true
		}
	}
	if !fired {
		return
	}
	out := "err"
	if err == nil {
		out = "ok key=" + res.Key.String()
	}
	c.w.Op(fmt.Sprintf("putf obj=%d content=gen:%d:%d chunks=%s failat=%d flushes=%d", idx, seed, n, cafsJoin(plan), k, flushes), out)
	c.w.Count("put-with-write-fault")
}

// cafsHistory applies one piece of store history to an object stored earlier: a crash remnant
// (one of its blobs left empty, cut or altered by an interrupted or faulty upload) or its deletion
// through the long-lived instance.
func cafsHistory(c *ctx, r *tr.Rng, st *memstore.Store, fs cafs.Fs, h *cafsObj, hi int) {
	lks := h.leafKeys // as reported by the put (the root blob may be damaged by now)
	switch r.Intn(4) {
	case 0: // delete through the same long-lived instance
		res := "ok"
		if e := corekit.Recover(func() error { return fs.Delete(context.Background(), h.key) }); e != nil {
			res = "err"
		}
		c.w.Op(fmt.Sprintf("delete obj=%d", hi), res)
		c.w.Count("hist=delete")
	default:
		target, bk := "root", h.key.String()
		if len(lks) > 0 && r.Intn(3) != 0 {
			q := r.Intn(len(lks))
			target, bk = fmt.Sprint(q), lks[q]
		}
		cur, present := st.Raw(bk)
		if !present {
			break
		}
		kind := r.Intn(4)
		switch {
		case kind <= 1 || len(cur) == 0: // emptied: what an interrupted upload leaves
			st.SetRaw(bk, []byte{})
			c.w.Note(fmt.Sprintf("damage obj=%d blob=%s kind=trunc arg=0", hi, target))
			c.w.Count("hist=remnant-empty")
		case kind == 2:
			to := r.Intn(len(cur))
			st.SetRaw(bk, append([]byte(nil), cur[:to]...))
			c.w.Note(fmt.Sprintf("damage obj=%d blob=%s kind=trunc arg=%d", hi, target, to))
			c.w.Count("hist=remnant-cut")
		default:
			bit := r.Intn(len(cur) * 8)
			nb := append([]byte(nil), cur...)
			nb[bit/8] ^= 1 << uint(bit%8)
			st.SetRaw(bk, nb)
			c.w.Note(fmt.Sprintf("damage obj=%d blob=%s kind=flip arg=%d", hi, target, bit))
			c.w.Count("hist=remnant-flip")
		}
	}
}

type cafsPlainWriter struct{ b bytes.Buffer }

func (w *cafsPlainWriter) Write(p []byte) (int, error) { return w.b.Write(p) }

// cafsChunkPlan picks the sizes of the successive Writes the store will see.
func cafsChunkPlan(r *tr.Rng, n, leaf int) ([]int, bool) {
	if n == 0 {
		return nil, false
	}
	switch r.Intn(7) {
	case 0: // one large write (io.WriterTo source)
		return []int{n}, true
	case 1, 2: // fixed size pieces
		var k int
		switch r.Intn(6) {
		case 0:
			k = 1
			if n > 600 {
				k = 7
			}
		case 1:
			k = 7
		case 2:
			k = leaf - 1
		case 3:
			k = leaf
		case 4:
			k = leaf + 1
		default:
			k = 32 * 1024
		}
		if k > 32*1024 {
			k = 32 * 1024
		}
		if n/k > 3000 {
			// (the model appends every chunk to its leaf buffer: hundreds of thousands of tiny
			// chunks into a megabyte leaf cost it hours)
			k = n/3000 + 1
		}
		var out []int
		for rem := n; rem > 0; rem -= k {
			if rem < k {
				out = append(out, rem)
			} else {
				out = append(out, k)
			}
		}
		return out, false
	default: // random pieces
		var out []int
		for rem := n; rem > 0; {
			k := 1 + r.Intn(2*leaf)
			if r.Intn(4) == 0 {
				k = 1 + r.Intn(9)
			}
			if k > 32*1024 {
				k = 32 * 1024
			}
			if k > rem {
				k = rem
			}
			if len(out) > 400 {
				k = rem
				if k > 32*1024 {
					k = 32 * 1024
				}
			}
			out = append(out, k)
			rem -= k
		}
		return out, false
	}
}

func cafsJoin(xs []int) string {
	p := make([]string, len(xs))
	for i, x := range xs {
		p[i] = fmt.Sprint(x)
	}
	return strings.Join(p, ",")
}

func cafsLen(r *tr.Rng, leaf int) int {
	k := r.Intn(7)
	switch r.Intn(8) {
	case 0:
		return 0
	case 1:
		return 1
	case 2:
		return k*leaf - 1 + leaf
	case 3:
		return k * leaf
	case 4:
		return k*leaf + 1
	default:
		return r.Intn(6*leaf + 2)
	}
}

type cafsObj struct {
	content  []byte
	key      cafs.Key
	seed     uint64
	leafKeys []string
}

// cafsPut stores content on fs through a source with the given write plan and records the line.
func cafsPut(c *ctx, fs cafs.Fs, idx int, seed uint64, n int, plan []int, single bool) (*cafsObj, bool) {
	content := tr.GenBytes(seed, n)
	var src io.Reader
	if single {
		src = bytes.NewReader(content) // io.WriterTo: one Write of everything
	} else {
		src = &cafsChunkedReader{data: append([]byte(nil), content...), sizes: plan, eofWithData: (seed+uint64(n))%2 == 0}
	}
	var res cafs.PutRes
	err := corekit.Recover(func() error {
		var e error
		res, e = fs.Put(context.Background(), src)
		return e
	})
	op := fmt.Sprintf("put obj=%d content=gen:%d:%d chunks=%s", idx, seed, n, cafsJoin(plan))
	if err != nil {
		c.w.Op(op, corekit.ErrClass(err))
		return nil, false
	}
	f := 0
	if res.Found {
		f = 1
	}
	c.w.Op(op, fmt.Sprintf("ok key=%s written=%d found=%d", res.Key.String(), res.Written, f))
	var lks []string
	for q := 0; q+64 <= len(res.Keys); q += 64 {
		lks = append(lks, hex.EncodeToString(res.Keys[q:q+64]))
	}
	return &cafsObj{content: content, key: res.Key, seed: seed, leafKeys: lks}, true
}

// cafsReadAll drains the object with sequential Reads using the given cyclic buffer sizes.
func cafsReadAll(fs cafs.Fs, key cafs.Key, bufs []int) (string, string) {
	var out []byte
	var calls []string
	err := corekit.Recover(func() error {
		r, e := fs.Get(context.Background(), key)
		if e != nil {
			return e
		}
		defer r.Close()
		zero := 0
		for i := 0; ; i++ {
			b := make([]byte, bufs[i%len(bufs)])
			n, e := r.Read(b)
			out = append(out, b[:n]...)
			if len(calls) < 40 {
				calls = append(calls, fmt.Sprint(n))
			}
			if e == io.EOF {
				return nil
			}
			if e != nil {
				return e
			}
			if n == 0 {
				zero++
				if zero > 1000 {
					return fmt.Errorf("stuck: Read keeps returning 0, nil")
				}
			} else {
				zero = 0
			}
		}
	})
	if err != nil {
		return corekit.ErrClass(err), strings.Join(calls, ",")
	}
	return "ok " + cafsH256(out), strings.Join(calls, ",")
}

func cafsReadAt(fs cafs.Fs, key cafs.Key, off, n int) string {
	var out []byte
	err := corekit.Recover(func() error {
		r, e := fs.GetAt(context.Background(), key)
		if e != nil {
			return e
		}
		b := make([]byte, n)
		k, e := r.ReadAt(b, int64(off))
		out = b[:k]
		if e != nil && e != io.EOF {
			return e
		}
		return nil
	})
	if err != nil {
		return corekit.ErrClass(err)
	}
	return "ok " + cafsH256(out)
}

func cafsWriteTo(fs cafs.Fs, key cafs.Key, at bool) string {
	var out []byte
	err := corekit.Recover(func() error {
		r, e := fs.Get(context.Background(), key)
		if e != nil {
			return e
		}
		defer r.Close()
		wt, ok := r.(io.WriterTo)
		if !ok {
			return fmt.Errorf("reader is no io.WriterTo")
		}
		if at {
			dst := &cafsMemWriterAt{}
			if _, e = wt.WriteTo(dst); e != nil {
				return e
			}
			out = dst.buf
		} else {
			dst := &cafsPlainWriter{}
			if _, e = wt.WriteTo(dst); e != nil {
				return e
			}
			out = dst.b.Bytes()
		}
		return nil
	})
	if err != nil {
		return corekit.ErrClass(err)
	}
	return "ok " + cafsH256(out)
}

func cafsSnapshot(st *memstore.Store) string {
	snap := st.Snapshot()
	keys := make([]string, 0, len(snap))
	for k := range snap {
		keys = append(keys, k)
	}
	sort.Strings(keys)
	var all []byte
	for _, k := range keys {
		kb, err := hex.DecodeString(k)
		if err != nil {
			kb = []byte(k)
		}
		all = append(all, kb...)
		s := blake2b.Sum256(snap[k])
		all = append(all, []byte(hex.EncodeToString(s[:]))...)
	}
	s := blake2b.Sum256(all)
	return fmt.Sprintf("n=%d h=%s", len(keys), hex.EncodeToString(s[:]))
}

func cafsLeaf(r *tr.Rng, thorough bool) int {
	// (megabyte leaves are rare: the Lean model hashes every leaf again on every verified read,
	// at well under a megabyte per second)
	if thorough && r.Intn(400) == 0 {
		return r.Pick(1<<20, 3<<19)
	}
	return r.Pick(64, 64, 64, 65, 100, 100, 128, 128, 1000, 1000, 4096, 4096, 4096, 65536)
}

func cafsNewFs(st *memstore.Store, leaf int, r *tr.Rng) (cafs.Fs, string, error) {
	prefetch := r.Intn(3)
	flushes := 1 + r.Intn(16)
	cache := r.Pick(leaf, 3*leaf, 64*leaf)
	fs, err := cafs.New(cafs.LeafSize(uint32(leaf)), cafs.Backend(st), cafs.Logger(corekit.Nop),
		cafs.Prefetch(prefetch), cafs.ConcurrentFlushes(flushes), cafs.CacheSize(cache))
	return fs, fmt.Sprintf("prefetch=%d flushes=%d cache=%d", prefetch, flushes, cache), err
}

// ---------------------------------------------------------------------------------------
// C01: store then read back with every read style
// ---------------------------------------------------------------------------------------
func c01(c *ctx) error {
	n := 400
	if c.thorough() {
		n = 4000
	}
	return c.isolated(n, 60*time.Second, func(i int) {
		r := tr.NewRng(c.seed*1000003 + uint64(i)*7919 + 17)
		leaf := cafsLeaf(r, c.thorough())
		st := memstore.New("blob")
		st.WithCRC = r.Intn(4) != 0
		crc := 0
		if st.WithCRC {
			crc = 1
		}
		fs, cfg, err := cafsNewFs(st, leaf, r)
		c.w.Case("c01 leaf=%d crc=%d %s", leaf, crc, cfg)
		if err != nil {
			c.w.Op("new", "err")
			c.w.End()
			return
		}
		c.w.Count(fmt.Sprintf("leaf=%d", leaf))
		nobj := 1 + r.Intn(2)
		dirty := false
		for o := 0; o < nobj; o++ {
			ln := cafsLen(r, leaf)
			if leaf >= 65536 && ln > 2*leaf+7 {
				ln = 2*leaf + 7 - r.Intn(15)
			}
			plan, single := cafsChunkPlan(r, ln, leaf)
			seed := r.Uint64()%1000000 + 1
			ob, ok := cafsPut(c, fs, o, seed, ln, plan, single)
			c.w.Count(fmt.Sprintf("len_leaves=%d", (ln+leaf-1)/leaf))
			if single {
				c.w.Count("src=single-write")
			} else {
				c.w.Count("src=chunked")
			}
			if !ok {
				continue
			}
			// once the store has a history (damage, deletions) the keys cache of the long-lived instance
			// may serve an object whose root blob is gone or damaged — correct bytes, but not what the
			// cache-free model predicts: reads go through a fresh instance from then on
			rd := fs
			if dirty {
				if fresh, _, e := cafsNewFs(st, leaf, r); e == nil {
					rd = fresh
				}
			}
			// sequential reads, various buffer sizes
			for k := 0; k < 2; k++ {
				var bufs []int
				for j := 0; j < 1+r.Intn(4); j++ {
					bufs = append(bufs, 1+r.Intn(2*leaf))
				}
				if ln > 50000 && bufs[0] < 64 {
					bufs[0] = 64 + r.Intn(2*leaf)
				}
				for j := range bufs {
					if ln > 50000 && bufs[j] < ln/2000 {
						bufs[j] = ln/2000 + 1
					}
				}
				if r.Intn(5) == 0 {
					bufs = []int{r.Pick(1, leaf-1, leaf, leaf+1, 2*leaf)}
					if ln > 50000 && bufs[0] == 1 {
						bufs[0] = leaf
					}
				}
				res, calls := cafsReadAll(rd, ob.key, bufs)
				c.w.Op(fmt.Sprintf("read obj=%d style=readall bufs=%s", o, cafsJoin(bufs)), res+" ## calls="+calls)
				// the same buffers through the Read state machine, call by call, for a chosen blob-reader behaviour
				mode, sres := cafsReadSeq(st, leaf, ob.key, r, bufs)
				c.w.Op(fmt.Sprintf("read obj=%d style=readseq mode=%s bufs=%s", o, mode, cafsJoin(bufs)), sres)
				c.w.Count("readseq mode=" + mode[:2])
			}
			// random access
			for k := 0; k < 6; k++ {
				var off, cnt int
				switch r.Intn(5) {
				case 0:
					off, cnt = r.Intn(ln+1), r.Intn(2*leaf+1)
				case 1: // leaf boundaries
					off, cnt = (r.Intn(7))*leaf+r.Intn(3)-1, r.Pick(1, leaf-1, leaf, leaf+1, 2*leaf)
				case 2: // past EOF
					off, cnt = ln+r.Intn(leaf+2), 1+r.Intn(leaf)
				case 3:
					off, cnt = 0, ln+r.Intn(5)
				default:
					off, cnt = r.Intn(ln+leaf+1), 1+r.Intn(3*leaf)
				}
				if off < 0 {
					off = 0
				}
				c.w.Op(fmt.Sprintf("read obj=%d style=readat off=%d n=%d", o, off, cnt), cafsReadAt(rd, ob.key, off, cnt))
				c.w.Count("readat")
			}
			c.w.Op(fmt.Sprintf("read obj=%d style=writeto-at", o), cafsWriteTo(rd, ob.key, true))
			c.w.Op(fmt.Sprintf("read obj=%d style=writeto-stream", o), cafsWriteTo(rd, ob.key, false))
			// store history, then the same content stored again through the same long-lived instance:
			// it reads back exactly from a fresh instance (and the model says when it cannot)
			if r.Intn(3) == 0 {
				cafsHistory(c, r, st, fs, ob, o)
				dirty = true
				plan2, single2 := cafsChunkPlan(r, ln, leaf)
				ob2, ok2 := cafsPut(c, fs, o+10, seed, ln, plan2, single2)
				c.w.Count("reput-after-history")
				if ok2 {
					fresh, _, e := cafsNewFs(st, leaf, r)
					if e == nil {
						res, _ := cafsReadAll(fresh, ob2.key, []int{leaf})
						if !strings.HasPrefix(res, "ok ") {
							res = "err"
						}
						c.w.Op(fmt.Sprintf("read obj=%d style=readall bufs=%d", o+10, leaf), res)
						res = cafsReadAt(fresh, ob2.key, 0, ln+1)
						if !strings.HasPrefix(res, "ok ") {
							res = "err"
						}
						c.w.Op(fmt.Sprintf("read obj=%d style=readat off=0 n=%d", o+10, ln+1), res)
					}
				}
			}
		}
		c.w.End()
	})
}

// ---------------------------------------------------------------------------------------
// C02: keys and histories of overlapping puts into one store
// ---------------------------------------------------------------------------------------
func c02(c *ctx) error {
	n := 250
	if c.thorough() {
		n = 2500
	}
	return c.isolated(n, 60*time.Second, func(i int) {
		r := tr.NewRng(c.seed*1000003 + uint64(i)*104729 + 29)
		leaf := r.Pick(64, 64, 100, 128, 1000, 4096)
		st := memstore.New("blob")
		st.WithCRC = r.Intn(4) != 0
		crc := 0
		if st.WithCRC {
			crc = 1
		}
		fs, cfg, err := cafsNewFs(st, leaf, r)
		c.w.Case("c02 leaf=%d crc=%d %s", leaf, crc, cfg)
		if err != nil {
			c.w.Op("new", "err")
			c.w.End()
			return
		}
		// a small pool of contents related to each other: same content, shared leading leaves
		// (same seed, other length = prefix), and unrelated ones
		seeds := []uint64{r.Uint64()%1000 + 1, r.Uint64()%1000 + 1001}
		nput := 2 + r.Intn(6)
		var hist []*cafsObj
		var idx []int
		for o := 0; o < nput; o++ {
			seed := seeds[r.Intn(len(seeds))]
			ln := cafsLen(r, leaf)
			if r.Intn(3) == 0 {
				ln = r.Pick(0, leaf, 2*leaf, 3*leaf+5, 5)
			}
			// every third put or so stores again a content stored before (after the history below:
			// over a crash remnant, over a deleted object, over a healthy duplicate)
			if len(hist) > 0 && r.Intn(3) == 0 {
				h := hist[r.Intn(len(hist))]
				seed, ln = h.seed, len(h.content)
				c.w.Count("reput")
			}
			plan, single := cafsChunkPlan(r, ln, leaf)
			// first on a scratch copy with one failing store write (no effect on the history)
			for q := 0; q < 3 && ln > 0; q++ {
				cafsPutFaulty(c, r, st, leaf, o+100, seed, ln, plan, single)
			}
			ob, ok := cafsPut(c, fs, o, seed, ln, plan, single)
			c.w.Op("snapshot", cafsSnapshot(st))
			c.w.Count(fmt.Sprintf("len_leaves=%d", (ln+leaf-1)/leaf))
			if ok {
				hist = append(hist, ob)
				idx = append(idx, o)
			}
			// history between puts: a blob of an earlier object left empty / cut / altered by an
			// interrupted or faulty upload (crash remnant), or an earlier object deleted
			if len(hist) > 0 && r.Intn(2) == 0 {
				j := r.Intn(len(hist))
				cafsHistory(c, r, st, fs, hist[j], idx[j])
				c.w.Op("snapshot", cafsSnapshot(st))
			}
		}
		// whatever the history, an object whose latest put succeeded AFTER the last damage to it is
		// readable from a fresh instance; the model says which reads succeed
		for j, h := range hist {
			if j >= 6 {
				break
			}
			fresh, _, e := cafsNewFs(st, leaf, r)
			if e != nil {
				continue
			}
			res, _ := cafsReadAll(fresh, h.key, []int{leaf + 1})
			if !strings.HasPrefix(res, "ok ") {
				res = "err"
			}
			c.w.Op(fmt.Sprintf("read obj=%d style=readall bufs=%d", idx[j], leaf+1), res)
		}
		c.w.End()
	})
}

// ---------------------------------------------------------------------------------------
// C03: single-blob corruption observed through every read style
// ---------------------------------------------------------------------------------------
func c03(c *ctx) error {
	n := 300
	if c.thorough() {
		n = 3000
	}
	return c.isolated(n, 150*time.Second, func(i int) {
		r := tr.NewRng(c.seed*1000003 + uint64(i)*15485863 + 31)
		leaf := r.Pick(64, 64, 100, 4096)
		st := memstore.New("blob")
		st.WithCRC = true
		wfs, _, err := cafsNewFs(st, leaf, r)
		c.w.Case("c03 leaf=%d crc=1", leaf)
		if err != nil {
			c.w.Op("new", "err")
			c.w.End()
			return
		}
		nleaves := 1 + r.Intn(6)
		lens := []int{nleaves * leaf, nleaves*leaf - r.Intn(leaf-1) - 1, (nleaves-1)*leaf + 1}
		var objs []*cafsObj
		for o := 0; o < 2; o++ {
			ln := lens[r.Intn(len(lens))]
			plan, single := cafsChunkPlan(r, ln, leaf)
			ob, ok := cafsPut(c, wfs, o, r.Uint64()%1000000+1, ln, plan, single)
			if !ok {
				c.w.End()
				return
			}
			objs = append(objs, ob)
		}
		// every fault starts from a pristine copy of the store
		pristine := st.Clone()
		leafKeys := func(o *cafsObj) []string {
			raw, _ := pristine.Raw(o.key.String())
			var ks []string
			for j := 0; j+64 <= len(raw)-64; j += 64 {
				ks = append(ks, hex.EncodeToString(raw[j:j+64]))
			}
			return ks
		}
		keys0 := leafKeys(objs[0])
		nf := 10
		for f := 0; f < nf; f++ {
			work := pristine.Clone()
			// pick the blob
			target := "root"
			blobKey := objs[0].key.String()
			if len(keys0) > 0 && r.Intn(4) != 0 {
				j := r.Intn(len(keys0))
				target = fmt.Sprint(j)
				blobKey = keys0[j]
			}
			cur, _ := work.Raw(blobKey)
			var desc string
			switch r.Intn(5) {
			case 0, 1:
				bit := r.Intn(len(cur) * 8)
				nb := append([]byte(nil), cur...)
				nb[bit/8] ^= 1 << uint(bit%8)
				work.SetRaw(blobKey, nb)
				desc = fmt.Sprintf("kind=flip arg=%d", bit)
			case 2:
				to := r.Intn(len(cur))
				switch r.Intn(6) {
				case 0:
					to = 0
				case 1: // boundaries: one key, all but the last key, one byte either side
					to = r.Pick(1, 63, 64, 65, len(cur)-64, len(cur)-1, len(cur)-65, 128)
				}
				if to < 0 || to >= len(cur) {
					to = len(cur) / 2
				}
				work.SetRaw(blobKey, cur[:to])
				desc = fmt.Sprintf("kind=trunc arg=%d", to)
			case 3:
				work.RemoveRaw(blobKey)
				desc = "kind=delete"
			default:
				// replace by another leaf of the same or of the other object
				from := r.Intn(2)
				ks := leafKeys(objs[from])
				if len(ks) == 0 {
					work.RemoveRaw(blobKey)
					desc = "kind=delete"
					break
				}
				j := r.Intn(len(ks))
				other, _ := pristine.Raw(ks[j])
				work.SetRaw(blobKey, other)
				desc = fmt.Sprintf("kind=swap from=%d arg=%d", from, j)
			}
			c.w.Count(strings.Fields(desc)[0])
			c.w.Note(fmt.Sprintf("fault obj=0 blob=%s %s", target, desc))
			// observe through a FRESH cafs instance (no keys cache, no leaf cache) — or, every other
			// fault, through a LONG-LIVED instance that read the healthy object (ReadAt, Read) before
			// the damage happened: its key and leaf caches are warm
			var rfs cafs.Fs
			if f%2 == 1 {
				sw := &cafsSwitchStore{Store: pristine}
				lfs, _, e := cafsNewFs(pristine, leaf, r)
				if e != nil {
					continue
				}
				lfs, e = cafs.New(cafs.LeafSize(uint32(leaf)), cafs.Backend(sw), cafs.Logger(corekit.Nop), cafs.Prefetch(r.Intn(2)), cafs.CacheSize(64*leaf))
				if e != nil {
					continue
				}
				_ = cafsReadAt(lfs, objs[0].key, 0, len(objs[0].content))
				_, _ = cafsReadAll(lfs, objs[0].key, []int{leaf})
				sw.Store = work // the damage happens now
				rfs = lfs
				c.w.Count("reader=long-lived")
			} else {
				fresh, _, e := cafsNewFs(work, leaf, r)
				if e != nil {
					continue
				}
				rfs = fresh
				c.w.Count("reader=fresh")
			}
			var err error
			_ = err
			ln := len(objs[0].content)
			got := func(s string) string {
				if strings.HasPrefix(s, "ok ") {
					return s[3:]
				}
				return "err"
			}
			res, _ := cafsReadAll(rfs, objs[0].key, []int{1 + r.Intn(2*leaf), 1 + r.Intn(2*leaf)})
			c.w.Op(fmt.Sprintf("obs obj=0 style=readall got=%s", got(res)), "sound")
			// the Read state machine on the damaged store, call by call (fresh instance: the model
			// reads the keys from the damaged root blob as well), and judged like the other styles
			{
				bufs := []int{1 + r.Intn(2*leaf), 1 + r.Intn(2*leaf)}
				if r.Intn(3) == 0 {
					bufs = []int{r.Pick(1, 7, leaf-1, leaf, leaf+1)}
				}
				if ln > 20000 && bufs[0] < 64 {
					bufs[0] = 64
				}
				mode, sres := cafsReadSeq(work, leaf, objs[0].key, r, bufs)
				c.w.Op(fmt.Sprintf("read obj=0 style=readseq mode=%s bufs=%s", mode, cafsJoin(bufs)), sres)
				g := "err"
				if strings.HasPrefix(sres, "ok ") {
					g = strings.Fields(sres)[1]
				}
				c.w.Op(fmt.Sprintf("obs obj=0 style=readseq got=%s", g), "sound")
				c.w.Count("readseq")
			}
			for k := 0; k < 3; k++ {
				off, cnt := r.Intn(ln+1), 1+r.Intn(2*leaf)
				if k == 0 {
					off, cnt = 0, ln
				}
				c.w.Op(fmt.Sprintf("obs obj=0 style=readat off=%d n=%d got=%s", off, cnt, got(cafsReadAt(rfs, objs[0].key, off, cnt))), "sound")
			}
			c.w.Op(fmt.Sprintf("obs obj=0 style=writeto-at got=%s", got(cafsWriteTo(rfs, objs[0].key, true))), "sound")
			c.w.Op(fmt.Sprintf("obs obj=0 style=writeto-stream got=%s", got(cafsWriteTo(rfs, objs[0].key, false))), "sound")
			// undo the fault in the model as well: the next fault starts from the pristine store
			c.w.Note("restore")
		}
		c.w.End()
		c03Download(c, r, i)
	})
}

// c03Download: a bundle with a damaged leaf is downloaded into an object store (the Read path)
// and into a local directory (the WriteTo/WriterAt path): the download must fail, and whatever
// the destination holds afterwards must be stored bytes.
func c03Download(c *ctx, r *tr.Rng, i int) {
	leaf := r.Pick(64, 100, 4096)
	env := corekit.NewEnv()
	if env.CreateRepo("r") != nil {
		return
	}
	tree := map[string][2]uint64{}
	for j := 0; j < 1+r.Intn(3); j++ {
		tree[fmt.Sprintf("f%d", j)] = [2]uint64{1 + r.Uint64()%100000, uint64((1+r.Intn(4))*leaf - r.Intn(leaf))}
	}
	files := map[string][]byte{}
	var spec []string
	for _, k := range c04SortedKeys(tree) {
		files[k] = tr.GenBytes(tree[k][0], int(tree[k][1]))
		spec = append(spec, fmt.Sprintf("%s@gen:%d:%d", k, tree[k][0], tree[k][1]))
	}
	id, err := env.UploadTree("r", files, uint32(leaf))
	if err != nil {
		return
	}
	c.w.Case("c03 leaf=%d crc=1 download", leaf)
	// damage one leaf blob (never a root blob here: those are covered above)
	keys := env.Blob.SortedKeys()
	var leaves []string
	for _, k := range keys {
		raw, _ := env.Blob.Raw(k)
		isRoot := len(raw)%64 == 0 && len(raw) >= 64
		if isRoot {
			// a blob made of 64-byte keys whose last key is its own name is a root blob
			if hex.EncodeToString(raw[len(raw)-64:]) == k {
				continue
			}
		}
		leaves = append(leaves, k)
	}
	for f := 0; f < 4 && len(leaves) > 0; f++ {
		work := c06Clone(env)
		k := leaves[r.Intn(len(leaves))]
		cur, _ := work.Blob.Raw(k)
		desc := ""
		switch r.Intn(4) {
		case 0, 1:
			bit := r.Intn(len(cur) * 8)
			nb := append([]byte(nil), cur...)
			nb[bit/8] ^= 1 << uint(bit%8)
			work.Blob.SetRaw(k, nb)
			desc = "flip"
		case 2:
			work.Blob.SetRaw(k, cur[:r.Intn(len(cur))])
			desc = "trunc"
		default:
			work.Blob.RemoveRaw(k)
			desc = "delete"
		}
		c.w.Count("download-fault=" + desc)
		damaged := map[string]bool{}
		if mb := corekit.NewBundle(env.Stores, "r", nil, 0, id); corekit.Recover(func() error { return core.DownloadMetadata(context.Background(), mb) }) == nil {
			for _, en := range mb.BundleEntries {
				if raw, ok := env.Blob.Raw(en.Hash); ok && strings.Contains(hex.EncodeToString(raw), k) {
					damaged[en.NameWithPath] = true
				}
			}
		}
		kinds := []string{"mem", "fs", "file"}
		if i%20 == 0 && f == 0 {
			// the destination's default retry policy (30 s of back-off) with one chunk writer per file
			kinds = append(kinds, "fs-retry")
		}
		for _, dstKind := range kinds {
			var got map[string][]byte
			var derr error
			treeSpec := strings.Join(spec, ";")
			if dstKind == "mem" {
				got, _, derr = corekit.Download(work.Stores, "r", id)
			} else if dstKind == "file" {
				// the single-file download (`bundle download file`): a damaged file when there is one
				names := corekit.SortedNames(files)
				name := names[r.Intn(len(names))]
				for _, n := range names {
					if damaged[n] {
						name = n
					}
				}
				dir := filepath.Join(os.Getenv("VERIF_WORK"), fmt.Sprintf("c03f-%d-%d-%d", c.seed, i, f))
				_ = os.MkdirAll(dir, 0o755)
				dst := localfs.New(afero.NewBasePathFs(afero.NewOsFs(), dir), localfs.WithRetry(false))
				b := corekit.NewBundle(work.Stores, "r", dst, 0, id)
				derr = corekit.Recover(func() error { return core.PublishFile(context.Background(), b, name) })
				got = map[string][]byte{}
				for n, v := range c04ReadDir(dir) {
					if !strings.HasPrefix(n, ".datamon") {
						got[n] = v
					}
				}
				_ = os.RemoveAll(dir)
				treeSpec = fmt.Sprintf("%s@gen:%d:%d", name, tree[name][0], tree[name][1])
				c.w.Count("download=single-file")
			} else if dstKind == "fs-retry" {
				dir := filepath.Join(os.Getenv("VERIF_WORK"), fmt.Sprintf("c03r-%d-%d-%d", c.seed, i, f))
				_ = os.MkdirAll(dir, 0o755)
				dst := localfs.New(afero.NewBasePathFs(afero.NewOsFs(), dir))
				b := corekit.NewBundle(work.Stores, "r", dst, 0, id, core.ConcurrentFileDownloads(r.Pick(3, 4, 5)))
				derr = corekit.Recover(func() error { return core.Publish(context.Background(), b) })
				time.Sleep(300 * time.Millisecond)
				got = map[string][]byte{}
				for n, v := range c04ReadDir(dir) {
					if !strings.HasPrefix(n, ".datamon") {
						got[n] = v
					}
				}
				if derr != nil {
					// after an error only damaged files are judged (healthy ones may have been cut short)
					for n := range got {
						if !damaged[n] && string(got[n]) != string(files[n]) {
							delete(got, n)
						}
					}
				}
				_ = os.RemoveAll(dir)
				c.w.Count("download=retrying-destination")
			} else {
				dir := filepath.Join(os.Getenv("VERIF_WORK"), fmt.Sprintf("c03-%d-%d-%d", c.seed, i, f))
				_ = os.MkdirAll(dir, 0o755)
				dst := localfs.New(afero.NewBasePathFs(afero.NewOsFs(), dir), localfs.WithRetry(false))
				b := corekit.NewBundle(work.Stores, "r", dst, 0, id)
				derr = corekit.Recover(func() error { return core.Publish(context.Background(), b) })
				// a failed Publish returns while the downloads of other files are still in flight:
				// let them finish (two identical snapshots in a row) before judging the destination
				got = c04ReadDir(dir)
				for tries := 0; tries < 200; tries++ {
					// in-flight downloads of HEALTHY files (not sharing the damaged blob) finish on
					// their own: wait for them, then for two identical snapshots in a row
					pending := false
					for n, b := range got {
						// (a file pre-sized by a WriteAt at its last leaf has its final length before its
						// other leaves land: compare the bytes, not the length)
						if !damaged[n] && string(b) != string(files[n]) {
							pending = true
						}
					}
					time.Sleep(50 * time.Millisecond)
					again := c04ReadDir(dir)
					same := len(again) == len(got)
					for k, v := range again {
						if string(got[k]) != string(v) {
							same = false
						}
					}
					got = again
					if same && !pending {
						break
					}
				}
				_ = os.RemoveAll(dir)
			}
			st := "ok"
			if derr != nil {
				st = "err"
			}
			var dest []string
			for _, n := range corekit.SortedNames(got) {
				dest = append(dest, n+"@"+cafsH256(got[n]))
			}
			c.w.Op(fmt.Sprintf("dlobs dst=%s fault=%s tree=%s st=%s dest=%s", dstKind, desc, treeSpec, st, strings.Join(dest, ";")), "sound")
		}
	}
	c.w.End()
}
