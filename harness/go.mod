module dvh

go 1.19

replace github.com/oneconcern/datamon => /repo

replace github.com/spf13/pflag => github.com/fredbi/pflag v1.0.6-0.20201106154427-e6824c13371a

require github.com/oneconcern/datamon v0.0.0

require (
	github.com/hashicorp/go-immutable-radix v1.3.1 // indirect
	github.com/hashicorp/golang-lru v0.6.0 // indirect
	github.com/opentracing/opentracing-go v1.2.0 // indirect
	github.com/spf13/afero v1.9.3 // indirect
	go.uber.org/atomic v1.10.0 // indirect
	go.uber.org/multierr v1.8.0 // indirect
	go.uber.org/zap v1.24.0 // indirect
	golang.org/x/text v0.6.0 // indirect
	gopkg.in/yaml.v2 v2.4.0 // indirect
)
