// Package crashstore wraps storage.Store instances that share one Group: the Group counts the
// mutating calls (Put, PutCRC, Delete, Touch) of the operation under test across all its stores
// and "kills the process" at the k-th one — either before it lands or right after — after which
// every call through the group fails. It also records the sequence of mutating calls.
package crashstore

import (
	"context"
	"errors"
	"io"
	"strings"
	"sync"

	"github.com/oneconcern/datamon/pkg/storage"
)

// ErrCrashed is returned by every call after the crash point.
var ErrCrashed = errors.New("crashed: the process is dead as seen from the store")

// ErrTransient is the error of a single failed store call.
var ErrTransient = errors.New("transient store failure (injected)")

// Write is one recorded mutating call.
type Write struct {
	Store       string
	Op          string // put | delete | touch
	Key         string
	NoOverwrite bool
	Landed      bool
	Err         bool // the underlying store refused it (e.g. exists)
}

// Group is shared by the wrappers of one operation.
type Group struct {
	mu      sync.Mutex
	CrashAt int  // 1-based index of the mutating call at which to crash; 0 = never
	Landed  bool // whether that call takes effect
	// FailOnceAt: the k-th mutating call fails with a transient error and does not land; the
	// process lives on (no crash). 0 = never.
	FailOnceAt int
	FailOnceOp string // when set: only mutating calls of this kind (put, delete, touch) count for FailOnceAt
	// FailReadAt: the k-th non-mutating call (Has, Get, GetAttr, GetAt, Keys, KeysPrefix) fails once
	// with a transient error. 0 = never. FailReadKey, when set, restricts the count to calls whose
	// key (or listing prefix) contains it.
	FailReadAt  int
	FailReadKey string
	FailReadOp  string // when set: only calls of this kind count (has, get, getattr, getat, keys, keysprefix)
	// Hook, when set, runs before every call, outside the group's lock (delays, rendezvous).
	Hook   func(store, op, key string)
	count  int
	fcount int
	reads  int
	dead   bool
	Writes []Write
}

// Reads is the number of non-mutating calls counted so far (those matching FailReadKey).
func (g *Group) Reads() int { g.mu.Lock(); defer g.mu.Unlock(); return g.reads }

// Dead reports whether the crash point has been reached.
func (g *Group) Dead() bool { g.mu.Lock(); defer g.mu.Unlock(); return g.dead }

// Snapshot returns a copy of the recorded writes (goroutines of an operation that already
// returned an error may still be writing).
func (g *Group) Snapshot() []Write {
	g.mu.Lock()
	defer g.mu.Unlock()
	return append([]Write(nil), g.Writes...)
}

// Count is the number of mutating calls seen.
func (g *Group) Count() int { g.mu.Lock(); defer g.mu.Unlock(); return g.count }

// Store wraps one underlying store.
type Store struct {
	g     *Group
	name  string
	inner storage.Store
}

// Wrap returns a wrapper of inner belonging to group g.
func Wrap(g *Group, name string, inner storage.Store) *Store {
	return &Store{g: g, name: name, inner: inner}
}

func (s *Store) alive(op, key string) error {
	if h := s.g.Hook; h != nil {
		h(s.name, op, key)
	}
	s.g.mu.Lock()
	defer s.g.mu.Unlock()
	if s.g.dead {
		return ErrCrashed
	}
	if (s.g.FailReadKey == "" || strings.Contains(key, s.g.FailReadKey)) && (s.g.FailReadOp == "" || s.g.FailReadOp == op) {
		s.g.reads++
		if s.g.FailReadAt != 0 && s.g.reads == s.g.FailReadAt {
			return ErrTransient
		}
	}
	return nil
}

// mutate runs a mutating call under the group's lock (mutating calls are serialised, which is
// how the crash prefix is well defined).
func (s *Store) mutate(op, key string, noOverwrite bool, do func() error) error {
	if h := s.g.Hook; h != nil {
		h(s.name, op, key)
	}
	s.g.mu.Lock()
	defer s.g.mu.Unlock()
	if s.g.dead {
		return ErrCrashed
	}
	s.g.count++
	w := Write{Store: s.name, Op: op, Key: key, NoOverwrite: noOverwrite}
	if s.g.FailOnceOp == "" || s.g.FailOnceOp == op {
		s.g.fcount++
	}
	if s.g.FailOnceAt != 0 && s.g.fcount == s.g.FailOnceAt && (s.g.FailOnceOp == "" || s.g.FailOnceOp == op) {
		w.Err = true
		s.g.Writes = append(s.g.Writes, w)
		return ErrTransient
	}
	if s.g.CrashAt != 0 && s.g.count == s.g.CrashAt {
		s.g.dead = true
		if s.g.Landed {
			w.Landed = true
			w.Err = do() != nil
		}
		s.g.Writes = append(s.g.Writes, w)
		return ErrCrashed
	}
	err := do()
	w.Landed = err == nil
	w.Err = err != nil
	s.g.Writes = append(s.g.Writes, w)
	return err
}

func (s *Store) String() string { return "crash://" + s.name }

func (s *Store) Has(ctx context.Context, k string) (bool, error) {
	if err := s.alive("has", k); err != nil {
		return false, err
	}
	return s.inner.Has(ctx, k)
}

func (s *Store) Get(ctx context.Context, k string) (io.ReadCloser, error) {
	if err := s.alive("get", k); err != nil {
		return nil, err
	}
	return s.inner.Get(ctx, k)
}

func (s *Store) GetAttr(ctx context.Context, k string) (storage.Attributes, error) {
	if err := s.alive("getattr", k); err != nil {
		return storage.Attributes{}, err
	}
	return s.inner.GetAttr(ctx, k)
}

func (s *Store) GetAt(ctx context.Context, k string) (io.ReaderAt, error) {
	if err := s.alive("getat", k); err != nil {
		return nil, err
	}
	return s.inner.GetAt(ctx, k)
}

func (s *Store) Touch(ctx context.Context, k string) error {
	return s.mutate("touch", k, false, func() error { return s.inner.Touch(ctx, k) })
}

func (s *Store) Put(ctx context.Context, k string, r io.Reader, noOverwrite bool) error {
	data, err := io.ReadAll(r)
	if err != nil {
		return err
	}
	return s.mutate("put", k, noOverwrite, func() error { return s.inner.Put(ctx, k, bytesReader(data), noOverwrite) })
}

// PutCRC implements storage.StoreCRC.
func (s *Store) PutCRC(ctx context.Context, k string, r io.Reader, noOverwrite bool, _ uint32) error {
	return s.Put(ctx, k, r, noOverwrite)
}

func (s *Store) Delete(ctx context.Context, k string) error {
	return s.mutate("delete", k, false, func() error { return s.inner.Delete(ctx, k) })
}

func (s *Store) Clear(ctx context.Context) error {
	return s.mutate("clear", "", false, func() error { return s.inner.Clear(ctx) })
}

func (s *Store) Keys(ctx context.Context) ([]string, error) {
	if err := s.alive("keys", ""); err != nil {
		return nil, err
	}
	return s.inner.Keys(ctx)
}

func (s *Store) KeysPrefix(ctx context.Context, token, prefix, delimiter string, count int) ([]string, string, error) {
	if err := s.alive("keysprefix", prefix); err != nil {
		return nil, "", err
	}
	return s.inner.KeysPrefix(ctx, token, prefix, delimiter, count)
}

type plain struct {
	b []byte
	i int
}

func (p *plain) Read(b []byte) (int, error) {
	if p.i >= len(p.b) {
		return 0, io.EOF
	}
	n := copy(b, p.b[p.i:])
	p.i += n
	return n, nil
}

func bytesReader(b []byte) io.Reader { return &plain{b: b} }
