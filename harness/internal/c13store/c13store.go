// Package c13store is the fault / crash injecting wrapper store used by the purge properties
// (C13, C14). It wraps any storage.Store and
//
//   - fails chosen calls transiently, per call class (GetAttr, Delete, KeysPrefix pages, Put of
//     keys under PutPrefix): the i-th call (0-based) of a class fails once when i is in the
//     class' fault set; the failing Put first consumes its reader completely (a failure at the
//     end of the transfer), the failing Delete / GetAttr / KeysPrefix do nothing;
//   - "crashes" after the k-th successful Put under PutPrefix: that Put is applied, and every
//     later call returns a backoff.PermanentError so that datamon's retry loops give up at once
//     (the in-process equivalent of the job being killed right after that store write);
//   - clamps the page size of KeysPrefix (a store may return fewer items than asked for);
//   - optionally delays Get (to let the ticker driven chunk uploader interleave with the scan).
package c13store

import (
	"bytes"
	"context"
	"errors"
	"io"
	"strings"
	"sync"
	"time"

	"github.com/cenkalti/backoff/v4"

	"github.com/oneconcern/datamon/pkg/storage"
)

// Class is a class of store calls.
type Class int

const (
	GetAttr Class = iota
	Delete
	List
	Put
	nClasses
)

func (c Class) String() string { return [...]string{"attr", "del", "list", "put"}[c] }

// ErrTransient is the injected transient failure; ErrCrashed is returned by a dead store.
var (
	ErrTransient = errors.New("c13store: injected transient failure (503 backendError)")
	ErrCrashed   = errors.New("c13store: store unreachable (job killed)")
)

// Store wraps a storage.Store.
type Store struct {
	storage.Store
	mu    sync.Mutex
	calls [nClasses]int
	fails [nClasses]map[int]bool
	// per key: number of remaining failures (< 0: fails for ever, with a permanent error)
	keyFails [nClasses]map[string]int
	Hits     [nClasses]int // injected failures actually delivered

	// PutPrefix restricts Put faults / crash counting to keys with this prefix.
	PutPrefix string
	// CrashAfterPuts >= 0: the store dies right after that many successful Puts under PutPrefix
	// (0: dead from the first call on).
	CrashAfterPuts int
	okPuts         int
	dead           bool
	// PageCap > 0 clamps the count of KeysPrefix.
	PageCap int
	// GetDelay delays every Get.
	GetDelay time.Duration
	// Pages counts KeysPrefix calls that succeeded.
	Pages int
	// PutHook, when set, runs inside Put once the source has been read in full and before the
	// object lands (the acknowledgement of the write is what it delays); ListHook runs before a
	// KeysPrefix call is served.
	PutHook  func(key string)
	ListHook func(prefix string)
}

// New wraps inner with no fault.
func New(inner storage.Store) *Store {
	return &Store{Store: inner, CrashAfterPuts: -1}
}

// FailCalls makes the given calls (0-based indexes within the class) fail once each.
func (s *Store) FailCalls(c Class, idx ...int) *Store {
	s.mu.Lock()
	defer s.mu.Unlock()
	if s.fails[c] == nil {
		s.fails[c] = map[int]bool{}
	}
	for _, i := range idx {
		s.fails[c][i] = true
	}
	return s
}

// FailKey makes the next `times` calls of the class on that key fail transiently; times < 0 makes
// every call on that key fail with a backoff.PermanentError (an error no retry gets over).
func (s *Store) FailKey(c Class, key string, times int) *Store {
	s.mu.Lock()
	defer s.mu.Unlock()
	if s.keyFails[c] == nil {
		s.keyFails[c] = map[string]int{}
	}
	s.keyFails[c][key] = times
	return s
}

// ErrPermanent is the injected failure that no retry gets over.
var ErrPermanent = errors.New("c13store: injected permanent failure (403 forbidden)")

// keyGate returns the injected error for one call on key, or nil.
func (s *Store) keyGate(c Class, key string) error {
	s.mu.Lock()
	defer s.mu.Unlock()
	n, ok := s.keyFails[c][key]
	switch {
	case !ok || n == 0:
		return nil
	case n < 0:
		s.Hits[c]++
		return backoff.Permanent(ErrPermanent)
	default:
		s.keyFails[c][key] = n - 1
		s.Hits[c]++
		return ErrTransient
	}
}

// Dead reports whether the crash point was reached.
func (s *Store) Dead() bool { s.mu.Lock(); defer s.mu.Unlock(); return s.dead }

// OKPuts is the number of successful Puts under PutPrefix.
func (s *Store) OKPuts() int { s.mu.Lock(); defer s.mu.Unlock(); return s.okPuts }

// Calls returns how many calls of the class were made.
func (s *Store) Calls(c Class) int { s.mu.Lock(); defer s.mu.Unlock(); return s.calls[c] }

func (s *Store) crashed() error { return backoff.Permanent(ErrCrashed) }

// gate returns (dead, fail) for one call of the class.
func (s *Store) gate(c Class, counted bool) (bool, bool) {
	s.mu.Lock()
	defer s.mu.Unlock()
	if s.dead || s.CrashAfterPuts == 0 {
		s.dead = true
		return true, false
	}
	if !counted {
		return false, false
	}
	i := s.calls[c]
	s.calls[c]++
	if s.fails[c][i] {
		s.Hits[c]++
		return false, true
	}
	return false, false
}

func (s *Store) String() string { return "c13store(" + s.Store.String() + ")" }

func (s *Store) Has(ctx context.Context, k string) (bool, error) {
	if d, _ := s.gate(GetAttr, false); d {
		return false, s.crashed()
	}
	return s.Store.Has(ctx, k)
}

func (s *Store) Get(ctx context.Context, k string) (io.ReadCloser, error) {
	if d, _ := s.gate(GetAttr, false); d {
		return nil, s.crashed()
	}
	if s.GetDelay > 0 {
		time.Sleep(s.GetDelay)
	}
	return s.Store.Get(ctx, k)
}

func (s *Store) GetAt(ctx context.Context, k string) (io.ReaderAt, error) {
	if d, _ := s.gate(GetAttr, false); d {
		return nil, s.crashed()
	}
	if s.GetDelay > 0 {
		time.Sleep(s.GetDelay)
	}
	return s.Store.GetAt(ctx, k)
}

func (s *Store) GetAttr(ctx context.Context, k string) (storage.Attributes, error) {
	d, f := s.gate(GetAttr, true)
	if d {
		return storage.Attributes{}, s.crashed()
	}
	if f {
		return storage.Attributes{}, ErrTransient
	}
	if err := s.keyGate(GetAttr, k); err != nil {
		return storage.Attributes{}, err
	}
	return s.Store.GetAttr(ctx, k)
}

func (s *Store) Touch(ctx context.Context, k string) error {
	if d, _ := s.gate(GetAttr, false); d {
		return s.crashed()
	}
	return s.Store.Touch(ctx, k)
}

func (s *Store) Delete(ctx context.Context, k string) error {
	d, f := s.gate(Delete, true)
	if d {
		return s.crashed()
	}
	if f {
		return ErrTransient
	}
	if err := s.keyGate(Delete, k); err != nil {
		return err
	}
	return s.Store.Delete(ctx, k)
}

func (s *Store) Put(ctx context.Context, k string, r io.Reader, noOverwrite bool) error {
	counted := strings.HasPrefix(k, s.PutPrefix)
	d, f := s.gate(Put, counted)
	if d {
		return s.crashed()
	}
	if f {
		// the transfer fails at its very end: the source has been consumed
		_, _ = io.Copy(io.Discard, r)
		return ErrTransient
	}
	if s.PutHook != nil {
		data, rerr := io.ReadAll(r)
		if rerr != nil {
			return rerr
		}
		s.PutHook(k)
		r = bytes.NewReader(data)
	}
	err := s.Store.Put(ctx, k, r, noOverwrite)
	if err == nil && counted {
		s.mu.Lock()
		s.okPuts++
		if s.CrashAfterPuts > 0 && s.okPuts >= s.CrashAfterPuts {
			s.dead = true
		}
		s.mu.Unlock()
	}
	return err
}

func (s *Store) Clear(ctx context.Context) error {
	if d, _ := s.gate(Delete, false); d {
		return s.crashed()
	}
	return s.Store.Clear(ctx)
}

func (s *Store) Keys(ctx context.Context) ([]string, error) {
	if d, _ := s.gate(List, false); d {
		return nil, s.crashed()
	}
	return s.Store.Keys(ctx)
}

func (s *Store) KeysPrefix(ctx context.Context, token, prefix, delim string, count int) ([]string, string, error) {
	if s.ListHook != nil {
		s.ListHook(prefix)
	}
	d, f := s.gate(List, true)
	if d {
		return nil, "", s.crashed()
	}
	if f {
		return nil, "", ErrTransient
	}
	if s.PageCap > 0 && (count <= 0 || count > s.PageCap) {
		count = s.PageCap
	}
	ks, next, err := s.Store.KeysPrefix(ctx, token, prefix, delim, count)
	if err == nil {
		s.mu.Lock()
		s.Pages++
		s.mu.Unlock()
	}
	return ks, next, err
}
