// Package c10store: "process death as seen from the store". A Process counts the mutating store
// calls (Put/PutCRC/Delete/Touch/Clear) issued through every store wrapped by it; the k-th mutating
// call and every call after it (reads included) fail with ErrDead and leave the inner store
// untouched. Running an upload against wrapped stores with k = 1..n leaves in the inner stores
// exactly what a process killed at that point leaves behind.
package c10store

import (
	"context"
	"errors"
	"io"
	"sync"

	"github.com/oneconcern/datamon/pkg/storage"
)

// ErrDead is returned by every call after the crash point.
var ErrDead = errors.New("c10store: process is dead")

// Process is the shared crash counter of one simulated process.
type Process struct {
	mu     sync.Mutex
	calls  int // mutating calls seen so far (including the fatal one)
	failAt int // 0 = never
	dead   bool
}

// NewProcess returns a process that dies at its failAt-th mutating call (0 = never dies).
func NewProcess(failAt int) *Process { return &Process{failAt: failAt} }

// Calls is the number of mutating calls issued so far.
func (p *Process) Calls() int { p.mu.Lock(); defer p.mu.Unlock(); return p.calls }

// Dead tells whether the crash point was reached.
func (p *Process) Dead() bool { p.mu.Lock(); defer p.mu.Unlock(); return p.dead }

// Kill makes the process dead now (used to stop goroutines a call left behind).
func (p *Process) Kill() { p.mu.Lock(); p.dead = true; p.mu.Unlock() }

func (p *Process) read() error {
	p.mu.Lock()
	defer p.mu.Unlock()
	if p.dead {
		return ErrDead
	}
	return nil
}

func (p *Process) mutate() error {
	p.mu.Lock()
	defer p.mu.Unlock()
	if p.dead {
		return ErrDead
	}
	p.calls++
	if p.failAt > 0 && p.calls >= p.failAt {
		p.dead = true
		return ErrDead
	}
	return nil
}

// Store wraps an inner store.
type Store struct {
	p     *Process
	inner storage.Store
}

// Wrap returns a store whose calls are counted by (and die with) the process.
func (p *Process) Wrap(inner storage.Store) *Store { return &Store{p: p, inner: inner} }

func (s *Store) String() string { return "c10store(" + s.inner.String() + ")" }

func (s *Store) Has(ctx context.Context, k string) (bool, error) {
	if err := s.p.read(); err != nil {
		return false, err
	}
	return s.inner.Has(ctx, k)
}

func (s *Store) Get(ctx context.Context, k string) (io.ReadCloser, error) {
	if err := s.p.read(); err != nil {
		return nil, err
	}
	return s.inner.Get(ctx, k)
}

func (s *Store) GetAttr(ctx context.Context, k string) (storage.Attributes, error) {
	if err := s.p.read(); err != nil {
		return storage.Attributes{}, err
	}
	return s.inner.GetAttr(ctx, k)
}

func (s *Store) GetAt(ctx context.Context, k string) (io.ReaderAt, error) {
	if err := s.p.read(); err != nil {
		return nil, err
	}
	return s.inner.GetAt(ctx, k)
}

func (s *Store) Touch(ctx context.Context, k string) error {
	if err := s.p.mutate(); err != nil {
		return err
	}
	return s.inner.Touch(ctx, k)
}

func (s *Store) Put(ctx context.Context, k string, r io.Reader, noOverwrite bool) error {
	if err := s.p.mutate(); err != nil {
		return err
	}
	return s.inner.Put(ctx, k, r, noOverwrite)
}

// PutCRC implements storage.StoreCRC when the inner store does; otherwise it is a plain Put.
func (s *Store) PutCRC(ctx context.Context, k string, r io.Reader, noOverwrite bool, crc uint32) error {
	if err := s.p.mutate(); err != nil {
		return err
	}
	if c, ok := s.inner.(storage.StoreCRC); ok {
		return c.PutCRC(ctx, k, r, noOverwrite, crc)
	}
	return s.inner.Put(ctx, k, r, noOverwrite)
}

func (s *Store) Delete(ctx context.Context, k string) error {
	if err := s.p.mutate(); err != nil {
		return err
	}
	return s.inner.Delete(ctx, k)
}

func (s *Store) Clear(ctx context.Context) error {
	if err := s.p.mutate(); err != nil {
		return err
	}
	return s.inner.Clear(ctx)
}

func (s *Store) Keys(ctx context.Context) ([]string, error) {
	if err := s.p.read(); err != nil {
		return nil, err
	}
	return s.inner.Keys(ctx)
}

func (s *Store) KeysPrefix(ctx context.Context, token, prefix, delim string, count int) ([]string, string, error) {
	if err := s.p.read(); err != nil {
		return nil, "", err
	}
	return s.inner.KeysPrefix(ctx, token, prefix, delim, count)
}
