// Package memstore is the reference object store the harness runs datamon against: an in-memory
// storage.Store with the contract datamon is written for (GCS semantics): atomic Put,
// create-if-absent, Get/GetAttr/Touch/Delete of a missing key = ErrNotExists, listings sorted
// with a start-key page token. Update times come from a clock the harness controls.
package memstore

import (
	"bytes"
	"context"
	"hash/crc32"
	"io"
	"sort"
	"strings"
	"sync"
	"time"

	"github.com/oneconcern/datamon/pkg/storage"
	"github.com/oneconcern/datamon/pkg/storage/status"
)

type obj struct {
	data    []byte
	created time.Time
	updated time.Time
}

// Store implements storage.Store and storage.StoreCRC.
type Store struct {
	mu   sync.Mutex
	name string
	objs map[string]*obj

	// clock
	wall bool
	now  time.Time
	step time.Duration

	// WithCRC makes GetAttr report a CRC32C like GCS does (localfs reports 0).
	WithCRC bool
	// DeleteMissingOK makes Delete of a missing key succeed (localfs behaviour).
	DeleteMissingOK bool
}

var base = time.Date(2021, 1, 1, 0, 0, 0, 0, time.UTC)

// New returns an empty store with a logical clock advancing 1 s per mutating call.
func New(name string) *Store {
	return &Store{name: name, objs: map[string]*obj{}, now: base, step: time.Second, WithCRC: true}
}

// SetStep sets the logical clock step per mutating call.
func (s *Store) SetStep(d time.Duration) { s.mu.Lock(); s.step = d; s.mu.Unlock() }

// Advance moves the logical clock forward.
func (s *Store) Advance(d time.Duration) { s.mu.Lock(); s.now = s.now.Add(d); s.mu.Unlock() }

// UseWallClock switches update times to time.Now (monotone).
func (s *Store) UseWallClock() { s.mu.Lock(); s.wall = true; s.mu.Unlock() }

// Now returns the current clock reading without advancing it.
func (s *Store) Now() time.Time {
	s.mu.Lock()
	defer s.mu.Unlock()
	if s.wall {
		return time.Now()
	}
	return s.now
}

func (s *Store) tick() time.Time {
	if s.wall {
		return time.Now()
	}
	s.now = s.now.Add(s.step)
	return s.now
}

func (s *Store) String() string { return "memstore://" + s.name }

func (s *Store) Has(_ context.Context, key string) (bool, error) {
	s.mu.Lock()
	defer s.mu.Unlock()
	_, ok := s.objs[key]
	return ok, nil
}

// plainReader hides bytes.Reader's WriteTo/ReadAt so that io.Copy uses its 32 KiB buffer loop.
type plainReader struct{ r *bytes.Reader }

func (p plainReader) Read(b []byte) (int, error) { return p.r.Read(b) }
func (p plainReader) Close() error               { return nil }

func (s *Store) Get(_ context.Context, key string) (io.ReadCloser, error) {
	s.mu.Lock()
	defer s.mu.Unlock()
	o, ok := s.objs[key]
	if !ok {
		return nil, status.ErrNotExists
	}
	return plainReader{bytes.NewReader(append([]byte(nil), o.data...))}, nil
}

func (s *Store) GetAttr(_ context.Context, key string) (storage.Attributes, error) {
	s.mu.Lock()
	defer s.mu.Unlock()
	o, ok := s.objs[key]
	if !ok {
		return storage.Attributes{}, status.ErrNotExists
	}
	a := storage.Attributes{Created: o.created, Updated: o.updated, Size: int64(len(o.data))}
	if s.WithCRC {
		a.CRC32C = crc32.Checksum(o.data, crc32.MakeTable(crc32.Castagnoli))
	}
	return a, nil
}

func (s *Store) GetAt(_ context.Context, key string) (io.ReaderAt, error) {
	s.mu.Lock()
	defer s.mu.Unlock()
	o, ok := s.objs[key]
	if !ok {
		return nil, status.ErrNotExists
	}
	return bytes.NewReader(append([]byte(nil), o.data...)), nil
}

func (s *Store) Touch(_ context.Context, key string) error {
	s.mu.Lock()
	defer s.mu.Unlock()
	o, ok := s.objs[key]
	if !ok {
		return status.ErrNotExists
	}
	o.updated = s.tick()
	return nil
}

func (s *Store) Put(_ context.Context, key string, r io.Reader, noOverwrite bool) error {
	// read the source before taking the lock: the whole Put is atomic w.r.t. the store
	data, err := io.ReadAll(r)
	if err != nil {
		return err
	}
	s.mu.Lock()
	defer s.mu.Unlock()
	if o, ok := s.objs[key]; ok {
		if noOverwrite {
			return status.ErrExists
		}
		o.data = data
		o.updated = s.tick()
		return nil
	}
	t := s.tick()
	s.objs[key] = &obj{data: data, created: t, updated: t}
	return nil
}

// PutCRC implements storage.StoreCRC (the checksum is recomputed on GetAttr).
func (s *Store) PutCRC(ctx context.Context, key string, r io.Reader, noOverwrite bool, _ uint32) error {
	return s.Put(ctx, key, r, noOverwrite)
}

func (s *Store) Delete(_ context.Context, key string) error {
	s.mu.Lock()
	defer s.mu.Unlock()
	if _, ok := s.objs[key]; !ok {
		if s.DeleteMissingOK {
			return nil
		}
		return status.ErrNotExists
	}
	delete(s.objs, key)
	return nil
}

func (s *Store) Clear(_ context.Context) error {
	s.mu.Lock()
	defer s.mu.Unlock()
	s.objs = map[string]*obj{}
	return nil
}

func (s *Store) Keys(ctx context.Context) ([]string, error) {
	ks, _, err := s.KeysPrefix(ctx, "", "", "", 1<<30)
	return ks, err
}

// KeysPrefix: sorted keys with the prefix (rolled up at the first delimiter after the prefix),
// from the first item >= pageToken, at most count; next = first item not returned, or "".
func (s *Store) KeysPrefix(_ context.Context, pageToken, prefix, delimiter string, count int) ([]string, string, error) {
	s.mu.Lock()
	defer s.mu.Unlock()
	seen := map[string]bool{}
	var all []string
	for k := range s.objs {
		if !strings.HasPrefix(k, prefix) {
			continue
		}
		item := k
		if delimiter != "" {
			if i := strings.Index(k[len(prefix):], delimiter); i >= 0 {
				item = k[:len(prefix)+i+len(delimiter)]
			}
		}
		if !seen[item] {
			seen[item] = true
			all = append(all, item)
		}
	}
	sort.Strings(all)
	start := sort.SearchStrings(all, pageToken)
	all = all[start:]
	if count <= 0 || len(all) <= count {
		return all, "", nil
	}
	return all[:count], all[count], nil
}

// ---- direct access for the harness (not part of storage.Store) ----

// Snapshot returns a copy of all objects.
func (s *Store) Snapshot() map[string][]byte {
	s.mu.Lock()
	defer s.mu.Unlock()
	out := make(map[string][]byte, len(s.objs))
	for k, o := range s.objs {
		out[k] = append([]byte(nil), o.data...)
	}
	return out
}

// SortedKeys returns every key, sorted.
func (s *Store) SortedKeys() []string {
	s.mu.Lock()
	defer s.mu.Unlock()
	ks := make([]string, 0, len(s.objs))
	for k := range s.objs {
		ks = append(ks, k)
	}
	sort.Strings(ks)
	return ks
}

// Raw returns the bytes of one object.
func (s *Store) Raw(key string) ([]byte, bool) {
	s.mu.Lock()
	defer s.mu.Unlock()
	o, ok := s.objs[key]
	if !ok {
		return nil, false
	}
	return append([]byte(nil), o.data...), true
}

// SetRaw replaces (or creates) an object without touching the clock (fault injection).
func (s *Store) SetRaw(key string, data []byte) {
	s.mu.Lock()
	defer s.mu.Unlock()
	if o, ok := s.objs[key]; ok {
		o.data = append([]byte(nil), data...)
		return
	}
	s.objs[key] = &obj{data: append([]byte(nil), data...), created: s.now, updated: s.now}
}

// SetTimes overrides an object's times.
func (s *Store) SetTimes(key string, created, updated time.Time) {
	s.mu.Lock()
	defer s.mu.Unlock()
	if o, ok := s.objs[key]; ok {
		o.created, o.updated = created, updated
	}
}

// RemoveRaw deletes an object silently.
func (s *Store) RemoveRaw(key string) {
	s.mu.Lock()
	defer s.mu.Unlock()
	delete(s.objs, key)
}

// Clone returns an independent copy of the store (same clock reading).
func (s *Store) Clone() *Store {
	s.mu.Lock()
	defer s.mu.Unlock()
	c := &Store{name: s.name, objs: map[string]*obj{}, wall: s.wall, now: s.now, step: s.step, WithCRC: s.WithCRC, DeleteMissingOK: s.DeleteMissingOK}
	for k, o := range s.objs {
		c.objs[k] = &obj{data: append([]byte(nil), o.data...), created: o.created, updated: o.updated}
	}
	return c
}

// Len is the number of objects.
func (s *Store) Len() int { s.mu.Lock(); defer s.mu.Unlock(); return len(s.objs) }
